"""Shared plumbing of the verification harness: paths, seeds, environment scrubbing,
s-expressions and the pipe to the Lean driver."""
from __future__ import annotations

import hashlib
import json
import os
import pathlib
import random
import shutil
import subprocess
import sys
import tempfile
import time

VERIF = pathlib.Path(__file__).resolve().parent.parent
REPO = pathlib.Path(os.environ.get("VERIF_REPO", "/repo")).resolve()
LEAN = VERIF / "lean"
DRIVER = LEAN / ".lake" / "build" / "bin" / "isnap-driver"
EVIDENCE = VERIF / "evidence"
REPLAYS = EVIDENCE / "replays"
CORPUS = VERIF / "corpus"
PYTHON = "/venv/bin/python"

CATS = ["create", "fix", "trim", "update"]

CI_VARS = ["CI", "bamboo.buildKey", "BUILD_ID", "BUILD_NUMBER", "BUILDKITE", "CIRCLECI",
           "CONTINUOUS_INTEGRATION", "GITHUB_ACTIONS", "HUDSON_URL", "JENKINS_URL",
           "TEAMCITY_VERSION", "TRAVIS"]
SCRUB = CI_VARS + ["PYCHARM_HOSTED", "INLINE_SNAPSHOT_DEFAULT_FLAGS", "PYTEST_ADDOPTS", "FORCE_COLOR",
                   "NO_COLOR", "PYTHONHASHSEED", "PYTEST_CURRENT_TEST", "PYTEST_XDIST_WORKER",
                   "PYTEST_XDIST_WORKER_COUNT", "PYTEST_XDIST_TESTRUNUID", "COVERAGE_PROCESS_START"]


def seed() -> int:
    try:
        return int(os.environ.get("VERIF_SEED", "0"))
    except ValueError:
        return 0


def rng_for(engine: str, index: int, s: int | None = None) -> random.Random:
    return random.Random(f"{seed() if s is None else s}/{engine}/{index}")


def clean_env(extra: dict | None = None) -> dict:
    """Environment for every run of the implementation (in-process and subprocess)."""
    env = {k: v for k, v in os.environ.items() if k not in SCRUB}
    env["TERM"] = "unknown"
    env["COLUMNS"] = "120"
    env["PYTHONHASHSEED"] = "0"
    env["PYTHONPATH"] = str(REPO / "src")
    env["PYTHONDONTWRITEBYTECODE"] = "1"
    env["PIP_NO_INDEX"] = "1"
    if extra:
        env.update(extra)
    return env


def scrub_process_env():
    for k in SCRUB:
        os.environ.pop(k, None)
    os.environ["TERM"] = "unknown"
    os.environ["COLUMNS"] = "120"


def use_repo_sources():
    """Make `import inline_snapshot` resolve to the working tree under test."""
    src = str(REPO / "src")
    if sys.path[0] != src:
        sys.path.insert(0, src)


def scratch_root() -> pathlib.Path:
    base = pathlib.Path(os.environ.get("VERIF_TMP", tempfile.gettempdir())) / f"isnap-verif-{os.getpid()}"
    base.mkdir(parents=True, exist_ok=True)
    return base


def mkscratch(prefix="c") -> pathlib.Path:
    return pathlib.Path(tempfile.mkdtemp(prefix=prefix, dir=scratch_root()))


def rmtree(p):
    shutil.rmtree(p, ignore_errors=True)


# ---------------------------------------------------------------- s-expressions

def sx(x) -> str:
    """python (nested lists / str / int / bool) -> s-expression text"""
    if isinstance(x, bool):
        return "1" if x else "0"
    if isinstance(x, int):
        return str(x)
    if isinstance(x, str):
        return x
    return "(" + " ".join(sx(e) for e in x) + ")"


def sx_parse(s: str):
    toks = s.replace("(", " ( ").replace(")", " ) ").split()
    pos = 0

    def rd():
        nonlocal pos
        t = toks[pos]
        pos += 1
        if t == "(":
            out = []
            while toks[pos] != ")":
                out.append(rd())
            pos += 1
            return out
        return t

    r = rd()
    assert pos == len(toks), s
    return r


class Driver:
    """Batch interface: all lines in, all lines out."""

    def __init__(self):
        if not DRIVER.exists():
            raise RuntimeError(f"driver not built: {DRIVER}")

    def run(self, lines: list[str]) -> list[str]:
        if not lines:
            return []
        out = []
        # batches: a busy machine must not turn one huge batch into a timeout
        for i in range(0, len(lines), 400):
            chunk = lines[i:i + 400]
            p = subprocess.run([str(DRIVER)], input=("\n".join(chunk) + "\n").encode(),
                               capture_output=True, timeout=1800)
            if p.returncode != 0:
                raise RuntimeError(f"driver failed rc={p.returncode}: {p.stderr.decode()[:500]}")
            o = p.stdout.decode().splitlines()
            if len(o) != len(chunk):
                raise RuntimeError(f"driver answered {len(o)} lines for {len(chunk)}")
            out += o
        return out


def sha(s: str) -> str:
    return hashlib.sha256(s.encode()).hexdigest()[:12]


def now() -> float:
    return time.time()


def jdump(obj, path: pathlib.Path):
    path.parent.mkdir(parents=True, exist_ok=True)
    tmp = path.with_suffix(path.suffix + ".tmp")
    tmp.write_text(json.dumps(obj, indent=1, default=str))
    tmp.replace(path)


def jenc(o):
    """JSON-safe encoding that survives a round trip: tuples and dicts with non-string keys are tagged"""
    if isinstance(o, tuple):
        return {"__tuple__": [jenc(x) for x in o]}
    if isinstance(o, list):
        return [jenc(x) for x in o]
    if isinstance(o, dict):
        if all(isinstance(k, str) for k in o) and "__tuple__" not in o and "__dict__" not in o:
            return {k: jenc(v) for k, v in o.items()}
        return {"__dict__": [[jenc(k), jenc(v)] for k, v in o.items()]}
    if isinstance(o, bytes):
        return {"__bytes__": list(o)}
    if isinstance(o, frozenset):
        return {"__fset__": sorted(jenc(x) for x in o)}
    return o


def jdec(o):
    if isinstance(o, list):
        return [jdec(x) for x in o]
    if isinstance(o, dict):
        if set(o) == {"__tuple__"}:
            return tuple(jdec(x) for x in o["__tuple__"])
        if set(o) == {"__dict__"}:
            return {jdec(k): jdec(v) for k, v in o["__dict__"]}
        if set(o) == {"__bytes__"}:
            return bytes(o["__bytes__"])
        if set(o) == {"__fset__"}:
            return frozenset(jdec(x) for x in o["__fset__"])
        return {k: jdec(v) for k, v in o.items()}
    return o
