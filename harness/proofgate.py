"""Proof gate: build the Lean library, audit the axioms of the theorems named for a property,
and scan the sources for escape hatches.  A theorem counts as discharged only if the library
builds, `#print axioms` lists it, and its axioms are within {propext, Classical.choice, Quot.sound}."""
from __future__ import annotations

import os
import re
import subprocess
import time

from . import common

ALLOWED = {"propext", "Classical.choice", "Quot.sound"}
FORBIDDEN = re.compile(r"\b(sorry|admit|native_decide|bv_decide|implemented_by|unsafe)\b|^\s*axiom\s|maxHeartbeats\s+0\b", re.M)


def strip_comments(text: str) -> str:
    # block comments (possibly nested) and line comments
    out = []
    i, depth, n = 0, 0, len(text)
    while i < n:
        if text.startswith("/-", i):
            depth += 1
            i += 2
        elif text.startswith("-/", i) and depth:
            depth -= 1
            i += 2
        elif depth:
            i += 1
        elif text.startswith("--", i):
            while i < n and text[i] != "\n":
                i += 1
        else:
            out.append(text[i])
            i += 1
    return "".join(out)


def lake(args, timeout=1800):
    env = dict(os.environ)
    t0 = time.time()
    p = subprocess.run(["lake"] + args, cwd=common.LEAN, capture_output=True, text=True, timeout=timeout, env=env)
    return p.returncode, p.stdout + p.stderr, time.time() - t0


def build(targets=("ISnap", "isnap-driver")):
    rc, out, dt = lake(["build", *targets])
    return rc == 0, out, dt


def scan_sources():
    hits = []
    for p in sorted((common.LEAN / "ISnap").rglob("*.lean")):
        if "Driver" in p.parts:
            continue       # the protocol parser uses `partial def`; no theorem depends on it
        body = strip_comments(p.read_text())
        for m in FORBIDDEN.finditer(body):
            hits.append(f"{p.relative_to(common.LEAN)}: {m.group(0).strip()}")
    return hits


AX_RE = re.compile(r"'(\S+)' depends on axioms: \[([^\]]*)\]")
NOAX_RE = re.compile(r"'(\S+)' does not depend on any axioms")


def audit_files(prop: str):
    """Audit/<prop>.lean plus optional continuation files Audit/<prop>b.lean, <prop>c.lean …"""
    d = common.LEAN / "ISnap" / "Audit"
    return [f for f in sorted(d.glob(f"{prop}*.lean")) if re.fullmatch(rf"{prop}[a-z]?\.lean", f.name)]


def audit(prop: str):
    """-> (dict theorem -> sorted axioms, raw output, ok flag)"""
    files = audit_files(prop)
    if not files:
        return {}, f"no audit file for {prop}", False
    res, raw, ok = {}, "", True
    for f in files:
        rc, out, _dt = lake(["env", "lean", str(f.relative_to(common.LEAN))], timeout=900)
        raw += out
        ok = ok and rc == 0
        out1 = " ".join(out.split())
        for m in AX_RE.finditer(out1):
            res[m.group(1)] = sorted(a.strip() for a in m.group(2).split(",") if a.strip())
        for m in NOAX_RE.finditer(out1):
            res[m.group(1)] = []
    return res, raw, ok


def theorem_names(prop: str):
    """theorems the property claims = every `#print axioms X` line of its audit file(s)"""
    names = []
    for f in audit_files(prop):
        names += re.findall(r"^#print axioms\s+(\S+)", f.read_text(), re.M)
    return names


def statements(prop: str):
    """statement text of the property's theorems, read from Props/<prop>[b…].lean (for the evidence)"""
    out = {}
    d = common.LEAN / "ISnap" / "Props"
    for f in sorted(d.glob(f"{prop}*.lean")):
        if not re.fullmatch(rf"{prop}[a-z]?\.lean", f.name):
            continue
        text = f.read_text()
        for m in re.finditer(r"^theorem\s+(\S+)(.*?):=", text, re.M | re.S):
            out[m.group(1)] = " ".join(m.group(2).split())[:600]
    return out


def run(prop: str, thorough: bool = False):
    """-> dict(obligations, discharged, failed[list], detail, wall_s)"""
    t0 = time.time()
    res = {"obligations": 0, "discharged": 0, "failed": [], "detail": [], "axioms": {}}
    names = theorem_names(prop)
    res["obligations"] = len(names)
    if thorough:
        # force re-elaboration of the property's theorems and lemmas
        for sub in ("Props", "Lemmas", "Audit"):
            d = common.LEAN / ".lake" / "build" / "lib" / "lean" / "ISnap" / sub
            if d.exists():
                for q in d.glob("*"):
                    q.unlink()
    ok, out, dt = build()
    res["build_s"] = round(dt, 1)
    if not ok:
        res["failed"] = names or ["<build>"]
        res["detail"].append("lake build failed:\n" + out[-3000:])
        res["build_ok"] = False
        res["wall_s"] = time.time() - t0
        return res
    res["build_ok"] = True
    hits = scan_sources()
    if hits:
        res["detail"].append("forbidden constructs: " + "; ".join(hits))
    ax, raw, aok = audit(prop)
    if not aok:
        res["detail"].append("audit file did not check:\n" + raw[-2000:])
    for n in names:
        full = n if n in ax else ("ISnap." + n if "ISnap." + n in ax else n)
        if full not in ax:
            res["failed"].append(n)
            res["detail"].append(f"{n}: not reported by #print axioms")
            continue
        extra = set(ax[full]) - ALLOWED
        res["axioms"][n] = ax[full]
        if extra or hits:
            res["failed"].append(n)
            res["detail"].append(f"{n}: axioms {sorted(extra)}" if extra else f"{n}: library contains forbidden constructs")
        else:
            res["discharged"] += 1
    if thorough and not res["failed"]:
        mods = [f"ISnap.Props.{f.stem}" for f in audit_files(prop)]
        rc, out, dt = lake(["env", "leanchecker", *mods], timeout=1500)
        res["leanchecker"] = {"rc": rc, "s": round(dt, 1), "tail": out[-300:]}
        if rc != 0:
            res["failed"].append("<leanchecker>")
            res["detail"].append("leanchecker rejected the compiled module:\n" + out[-1500:])
    res["wall_s"] = time.time() - t0
    return res
