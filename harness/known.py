"""Classifiers of the open known findings (known_findings.json).  Each is a narrow predicate over
(engine, case, oracle failure, observed behaviour) written for one root cause; an oracle failure
that matches no classifier is a VIOLATION."""
from __future__ import annotations


import ast


def black_changes_fragment_value(ename, case, fail, obs):
    """KF-C12-1 / KF-C01-1: the literal inline-snapshot generates is right, but black formats the lone
    fragment as a module docstring (strips / re-escapes it) and so changes its value.  Matches only when
    (a) the value is a top-level str formatted by black, (b) the generated token evaluates to the original
    value, and (c) black's own output for that token evaluates to something else."""
    if ename != "strlit" or case.get("nest") != "top" or case.get("fmt") != "black" or case.get("kind") != "str":
        return False
    tok = obs.get("token")
    if not tok or not isinstance(tok[0], int):
        return False
    lit = "".join(map(chr, tok))
    want = "".join(map(chr, case["cps"]))
    try:
        if ast.literal_eval(lit) != want:
            return False
        import black
        out = black.format_str(lit, mode=black.FileMode())
        return ast.literal_eval(out.strip()) != want
    except Exception:  # noqa: BLE001
        return False
