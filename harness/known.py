"""Classifiers of the open known findings (known_findings.json).  Each is a narrow predicate over
(engine, case, oracle failure, observed behaviour) written for one root cause; an oracle failure
that matches no classifier is a VIOLATION."""
from __future__ import annotations


import ast


def black_changes_fragment_value(ename, case, fail, obs):
    """KF-C12-1 / KF-C01-1: the literal inline-snapshot generates is right, but black formats the lone
    fragment as a module docstring (strips / re-escapes it) and so changes its value.  Matches only when
    (a) the value is a top-level str formatted by black, (b) the generated token evaluates to the original
    value, and (c) black's own output for that token evaluates to something else."""
    if ename == "values":
        # the whole argument is one str literal (op ==, single value), formatted by black
        if case.get("op") != "eq" or len(case.get("vals", [])) != 1:
            return False
        try:
            want = ast.literal_eval(case["vals"][0])
        except Exception:  # noqa: BLE001
            return False
        if not isinstance(want, str):
            return False
        try:
            import black
            lit = repr(want)
            out = black.format_str(lit, mode=black.FileMode())
            return ast.literal_eval(out.strip()) != want and ast.literal_eval((obs.get("arg") or "None")) == ast.literal_eval(out.strip())
        except Exception:  # noqa: BLE001
            return False
    if ename != "strlit" or case.get("nest") != "top" or case.get("fmt") != "black" or case.get("kind") != "str":
        return False
    tok = obs.get("token")
    if not tok or not isinstance(tok[0], int):
        return False
    lit = "".join(map(chr, tok))
    want = "".join(map(chr, case["cps"]))
    try:
        if ast.literal_eval(lit) != want:
            return False
        import black
        out = black.format_str(lit, mode=black.FileMode())
        return ast.literal_eval(out.strip()) != want
    except Exception:  # noqa: BLE001
        return False


def crlf_rewritten_as_lf(ename, case, fail, obs):
    """KF-C03-1 / KF-C20-1: a file with CRLF line ends is read with universal newlines and written back with
    LF everywhere.  Matches only the byte-level clauses, only for CRLF inputs, and only when the same file
    compared with its own LF-normalised form shows no difference outside the snapshot() arguments."""
    if ename != "rewrite" or not case.get("crlf"):
        return False
    if fail[1] not in ("bytes_outside_preserved", "dirty_not_reformatted"):
        return False
    from .engines import rewrite as R
    try:
        b = obs["before"].replace("\r\n", "\n").encode("utf-8", "surrogateescape")
        a = obs["after"].encode("utf-8", "surrogateescape")
        if b"\r" in a:
            return False
        ob = b"\x00".join(R.outside(b, R.call_spans(b)))
        oa = b"\x00".join(R.outside(a, R.call_spans(a)))
        for name in (b"HasRepr", b"external"):
            ins = b"\nfrom inline_snapshot import " + name + b"\n"
            if ins in oa and ins not in ob:
                oa = oa.replace(ins, b"", 1)
        return ob == oa
    except Exception:  # noqa: BLE001
        return False


def prefix_collision_not_persisted(ename, case, fail, obs):
    """KF-C13-1: with a hash-length so short that two stored files share the written prefix, persist() finds
    two matches, swallows the HashError and leaves the referenced data unpersisted."""
    if ename != "external" or fail[1] != "referenced_is_persisted":
        return False
    if case.get("hash_length", 12) > 2:
        return False
    import re
    m = re.search(r"reference (\w+)\*\.txt was written .*storage \[(.*)\]", fail[2])
    if not m:
        return False
    pre = m.group(1)
    names = re.findall(r"'([0-9a-f]+)(?:-new)?\.txt'", m.group(2))
    return sum(1 for n in names if n.startswith(pre)) >= 2


def truncated_by_failed_write(ename, case, fail, obs):
    """KF-C15-1: `open(file, "bw")` truncates the test file before `write`; a failure of the write itself
    leaves the file empty.  Matches only the injected `write` fault and only an EMPTY file."""
    if ename != "faults" or case.get("kind") != "write" or fail[1] != "old_or_new":
        return False
    return fail[2].rstrip().endswith(": ''")


def complex_parens_grow(ename, case, fail, obs):
    """KF-C08-2: a complex number is written with its repr parentheses; they are not part of the node, so an
    update run reports it again (and nests another pair inside containers)."""
    if ename != "values" or fail[1] not in ("rerun_noop", "nothing_pending"):
        return False
    if "complex" not in case.get("tags", []):
        return False
    a, b = obs.get("arg") or "", obs.get("arg2") or ""
    if "j" not in a:
        return False
    strip = lambda t: t.replace("(", "").replace(")", "").replace(" ", "")
    if strip(a) == strip(b):
        return True
    # `-1j` is complex(-0.0, -1) and prints as (-0-1j), which evaluates to complex(0.0, -1) and prints as -1j:
    # the two spellings are equal values whose reprs differ, so update flips between them
    import sys
    import types
    from .engines import values as V
    mod = types.ModuleType("vt_known_mod2")
    sys.modules["vt_known_mod2"] = mod
    try:
        exec(compile(V.PRELUDE, "<prelude>", "exec"), mod.__dict__)
        return bool(eval(a, mod.__dict__) == eval(b, mod.__dict__))
    except Exception:  # noqa: BLE001
        return False
    finally:
        sys.modules.pop("vt_known_mod2", None)


def partially_ordered_set_elements(ename, case, fail, obs):
    """KF-C16-1: `sorted()` succeeds on a set whose elements are only partially ordered (sets / frozensets compare
    by inclusion), so no TypeError triggers the text-sorted fallback and the written order follows the iteration
    order, i.e. PYTHONHASHSEED.  Matches only hash-seed failures of values that contain such a set."""
    if ename != "values" or fail[1] != "hash_seed_independent":
        return False
    import sys
    import types
    from .engines import values as V
    mod = types.ModuleType("vt_known_mod")
    sys.modules["vt_known_mod"] = mod
    try:
        exec(compile(V.PRELUDE, "<prelude>", "exec"), mod.__dict__)

        def has(v):
            if isinstance(v, (set, frozenset)):
                if len(v) >= 2 and all(isinstance(e, (set, frozenset)) for e in v):
                    return True
                return any(has(e) for e in v)
            if isinstance(v, (list, tuple)):
                return any(has(e) for e in v)
            if isinstance(v, dict):
                return any(has(e) for e in v.values()) or any(has(k) for k in v)
            return False
        return any(has(eval(src, mod.__dict__)) for src in case.get("vals", []))
    except Exception:  # noqa: BLE001
        return False
    finally:
        sys.modules.pop("vt_known_mod", None)


def hasrepr_unhashable(ename, case, fail, obs):
    """KF-C01-2: an object recorded through HasRepr that sits inside a set / frozenset (or is a dict key) is written
    as `HasRepr(...)` inside a set display; HasRepr defines __eq__ without __hash__, so evaluating the generated
    code raises `TypeError: unhashable type: 'HasRepr'`."""
    if ename != "values":
        return False
    if fail[0] == "C01" and fail[1] == "created_value_holds":
        return "unhashable type: 'HasRepr'" in fail[2]
    if fail[0] == "C18" and fail[1] == "finish_total":
        return "unhashable type: 'HasRepr'" in fail[2]
    return False


def positional_call_arguments(ename, case, fail, obs):
    """KF-C05-2: positional arguments of a hand-written constructor call are deleted and re-inserted as keywords
    under the category fix although the value did not change."""
    if ename != "calls" or not case.get("npos"):
        return False
    if fail[0] == "C05" and fail[1] == "fix_only_when_failing":
        return True
    if fail[0] == "C10" and fail[1] == "unmanaged_untouched" and fail[2].startswith("keyword "):
        # KF-C10-1: the altered user-controlled argument is one of the positional ones
        name = fail[2][len("keyword "):].split("=", 1)[0]
        return name in [n for n, _e in case["old_kw"][:case["npos"]]]
    return False


def trim_only_run_stops_early(ename, case, fail, obs):
    """KF-C09-1: a run that approves trim but none of create / fix / update does not make failing comparisons succeed, so a
    test with plain asserts stops at the first failing one; what the remaining statements would have used (members, keys,
    a tighter bound) counts as unused and is trimmed.  Approving trim in such a run therefore gives another program than
    approving it together with (or after) the categories that repair the failing comparison."""
    if ename != "abort" or fail[0] != "C09" or fail[1] != "order_independent":
        return False
    import ast as _ast
    try:
        steps = _ast.literal_eval(fail[2].rsplit("[steps: ", 1)[1][:-1])
    except Exception:  # noqa: BLE001
        return False
    stopped = {c for c, r in steps if r == "AssertionError"}
    return stopped == {"trim"}
