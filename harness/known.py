"""Classifiers of the open known findings (known_findings.json).  Each is a narrow predicate over
(engine, case, oracle failure, observed behaviour) written for one root cause; an oracle failure
that matches no classifier is a VIOLATION."""
from __future__ import annotations
