"""In-process driver of the real implementation.

Runs a generated test project the way `inline_snapshot.testing.Example.run_inline` does
(snapshot_env + exec + call every test function + collect `_changes()` + `apply_all` + write),
with three additions the properties need: the per-test counter protocol of the `snapshot_check`
fixture, the categories reported per call site, and the import/persist step of
`pytest_sessionfinish`.  Everything is imported from $VERIF_REPO/src at call time.
"""
from __future__ import annotations

import ast
import contextlib
import io
import pathlib
import traceback
import warnings

from . import common

PYPROJECT = "[tool.black]\nline-length = 88\n"


def _imports():
    common.use_repo_sources()
    import inline_snapshot._config as _config
    import inline_snapshot._problems as _problems
    from inline_snapshot._change import apply_all
    from inline_snapshot._external import DiscStorage
    from inline_snapshot._flags import Flags
    from inline_snapshot._global_state import snapshot_env
    from inline_snapshot._rewrite_code import ChangeRecorder
    return _config, _problems, apply_all, DiscStorage, Flags, snapshot_env, ChangeRecorder


def exc_name(e: BaseException) -> str:
    return type(e).__name__


def run_program(files: dict, flags, approved, *, pyproject: str | None = PYPROJECT,
                format_command: str | None = None, ensure_imports: bool = True,
                keep_dir: bool = False, hash_length: int | None = None, spy: bool = False) -> dict:
    """files: name -> text (all at top level of the project).  Returns observables."""
    _config, _problems, apply_all, DiscStorage, Flags, snapshot_env, ChangeRecorder = _imports()
    common.scrub_process_env()
    d = common.mkscratch("p")
    import os
    cwd0 = os.getcwd()
    os.chdir(d)          # black looks for pyproject.toml from the current directory, as in a real session
    out: dict = {"R": None, "tests": [], "sites": [], "collect_errors": [], "apply_error": None,
                 "import_error": None, "files_after": {}, "problems": [], "warnings": []}
    try:
        if pyproject is not None:
            (d / "pyproject.toml").write_text(pyproject)
        for name, text in files.items():
            p = d / name
            p.parent.mkdir(parents=True, exist_ok=True)
            p.write_bytes(text.encode("utf-8") if isinstance(text, str) else text)
        _config.config = _config.Config()
        _config.config.format_command = format_command
        if hash_length is not None:
            _config.config.hash_length = hash_length
        _problems.all_problems = set()
        sink = io.StringIO()
        with contextlib.redirect_stdout(sink), contextlib.redirect_stderr(sink), \
                warnings.catch_warnings(record=True) as wlist:
            warnings.simplefilter("always")
            with snapshot_env() as state:
                state.update_flags = Flags(set(flags))
                state.storage = DiscStorage(d / ".inline-snapshot" / "external")
                R_all = []
                loaded_modules = []
                try:
                    for filename in sorted(d.glob("*.py")):
                        import sys
                        import types
                        modname = f"vt_{filename.stem}_{id(d) & 0xffffff:x}"
                        mod = types.ModuleType(modname)
                        mod.__file__ = str(filename)
                        sys.modules[modname] = mod
                        loaded_modules.append(modname)
                        g = mod.__dict__
                        try:
                            exec(compile(filename.read_text("utf-8"), str(filename), "exec"), g)
                        except Exception as e:  # noqa: BLE001
                            out["import_error"] = exc_name(e) + ": " + str(e)[:200]
                            continue
                        tests = [(k, v) for k, v in g.items()
                                 if (k.startswith("test_") or k == "test") and callable(v)]
                        for name, fn in tests:
                            state.missing_values = 0
                            state.incorrect_values = 0
                            err = None
                            try:
                                fn()
                            except BaseException as e:  # noqa: BLE001
                                err = exc_name(e)
                            out["tests"].append({"file": filename.name, "name": name,
                                                 "missing": state.missing_values,
                                                 "incorrect": state.incorrect_values, "raised": err})
                        if "R" in g:
                            R_all.append((filename.name, g["R"]))
                finally:
                    state.active = False
                    import sys as _sys
                    for mn in loaded_modules:
                        _sys.modules.pop(mn, None)
                out["R"] = R_all

                changes = []
                for snap in list(state.snapshots.values()):
                    expr = getattr(snap, "_expr", None)
                    node = getattr(expr, "node", None)
                    site = {"file": pathlib.Path(getattr(getattr(expr, "source", None), "filename", "?")).name,
                            "line": getattr(node, "lineno", None), "col": getattr(node, "col_offset", None),
                            "cats": [], "error": None}
                    try:
                        cs = list(snap._changes())
                        site["cats"] = sorted({c.flag for c in cs})
                        site["kinds"] = sorted({type(c).__name__ + ":" + c.flag for c in cs})
                        changes += cs
                    except BaseException as e:  # noqa: BLE001
                        site["error"] = exc_name(e)
                        out["collect_errors"].append(exc_name(e) + ": " + str(e)[:120])
                    out["sites"].append(site)

                if not out["collect_errors"]:
                    try:
                        used = [c for c in changes if c.flag in set(approved)]
                        if used:
                            rec = ChangeRecorder()
                            if spy:
                                out["spy"] = _spy_apply_all(apply_all, used, rec)
                            else:
                                apply_all(used, rec)
                            if ensure_imports:
                                from inline_snapshot._code_repr import used_hasrepr
                                from inline_snapshot._find_external import ensure_import
                                from inline_snapshot._inline_snapshot import used_externals
                                for tf in list(rec.files()):
                                    tree = ast.parse(tf.new_code())
                                    usedx = used_externals(tree)
                                    req = (["external"] if usedx else []) + (["HasRepr"] if used_hasrepr(tree) else [])
                                    if req:
                                        ensure_import(tf.filename, {"inline_snapshot": req}, rec)
                                    for nm in usedx:
                                        state.storage.persist(nm)
                            out["replacements"] = {
                                pathlib.Path(sf.filename).name: [
                                    [r.range.start.lineno, r.range.start.col_offset, r.range.end.lineno,
                                     r.range.end.col_offset, r.text, r.change_id] for r in sf.replacements]
                                for sf in rec.files()}
                            rec.fix_all()
                    except BaseException as e:  # noqa: BLE001
                        out["apply_error"] = exc_name(e) + ": " + str(e)[:200]
                        out["apply_tb"] = traceback.format_exc()[-1500:]
                out["problems"] = sorted(_problems.all_problems)
                _problems.all_problems = set()
            out["warnings"] = [f"{w.category.__name__}: {str(w.message)[:80]}" for w in wlist]
        for p in sorted(d.rglob("*")):
            if p.is_file() and ".inline-snapshot" not in p.parts and p.suffix == ".py":
                out["files_after"][str(p.relative_to(d))] = p.read_bytes().decode("utf-8", "surrogateescape")
        storage = d / ".inline-snapshot" / "external"
        out["storage"] = sorted(q.name for q in storage.iterdir()) if storage.exists() else []
        if keep_dir:
            out["dir"] = str(d)
    finally:
        os.chdir(cwd0)
        if not keep_dir:
            common.rmtree(d)
    return out


def _pos(node):
    return [type(node).__name__, getattr(node, "lineno", None), getattr(node, "col_offset", None),
            getattr(node, "end_lineno", None), getattr(node, "end_col_offset", None)]


def _spy_apply_all(apply_all, used, rec):
    """run the real apply_all and observe which changes it goes on with after its own filtering:
    the `Replace`s whose `apply` is called and the calls of `generic_sequence_update` (container, deleted
    element indices, insert positions).  Nothing of the implementation is replaced, only wrapped."""
    import inline_snapshot._change as CH
    log = {"given": [], "replaced": [], "seq": []}
    for c in used:
        log["given"].append([type(c).__name__, c.flag, _pos(getattr(c, "node", None))])
    orig_apply, orig_gsu = CH.Replace.apply, CH.generic_sequence_update

    def spy_apply(self, recorder):
        log["replaced"].append(_pos(self.node))
        return orig_apply(self, recorder)

    def spy_gsu(source, parent, brace_tokens, parent_elements, to_insert, recorder):
        log["seq"].append({"parent": _pos(parent), "deleted": [i for i, e in enumerate(parent_elements) if e is None],
                           "n": len(parent_elements), "insert_at": sorted(k for k, v in dict(to_insert).items() if v)})
        return orig_gsu(source, parent, brace_tokens, parent_elements, to_insert, recorder)
    CH.Replace.apply, CH.generic_sequence_update = spy_apply, spy_gsu
    try:
        apply_all(used, rec)
    finally:
        CH.Replace.apply, CH.generic_sequence_update = orig_apply, orig_gsu
    return log


def snapshot_args(text: str, name: str = "snapshot"):
    """[(lineno, col, arg_source or None, call_node)] of every `snapshot(...)` call, in source order."""
    tree = ast.parse(text)
    calls = [n for n in ast.walk(tree)
             if isinstance(n, ast.Call) and isinstance(n.func, ast.Name) and n.func.id == name]
    calls.sort(key=lambda n: (n.lineno, n.col_offset))
    res = []
    for c in calls:
        src = ast.get_source_segment(text, c.args[0]) if c.args else None
        res.append((c.lineno, c.col_offset, src, c))
    return res
