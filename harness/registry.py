"""Per-property configuration: which engines run, how many cases per tier, what is assumed."""
from __future__ import annotations

SITE_RULE = ("seeded generator (harness/engines/site.py): 1-6 textual snapshot() call sites in placements fn / lambda / "
             "module-level / two-on-one-line, stored argument none | leaf | list display | dict display with canonical or "
             "hand-written spellings, 1-3 tests with 1-9 comparisons over == <= >= in [key], all 16 flag sets, approved set "
             "equal to or independent of the flags; a case is non-trivial when at least one call site has a pending change; "
             "distinct = distinct (sites, script, flags, approved) signature")

SITE_ASSUME = ["executing / asttokens locate the snapshot() call of every generated placement (checked per case: every model site "
               "must be known to the implementation and vice versa)",
               "Python operator dispatch reaches the snapshot object (compared values defer with NotImplemented)"]

PROPS = {
    "C06": {"engines": [("site", {"quick": 2400, "thorough": 60000})], "rule": SITE_RULE, "assumptions": SITE_ASSUME},
    "C07": {"engines": [("site", {"quick": 2400, "thorough": 60000})], "rule": SITE_RULE, "assumptions": SITE_ASSUME},
}

MUT_RULE = ("seeded generator (harness/engines/mutate.py): 1-3 mutable list objects (flat or nested), 1-3 call sites over == <= >= in, "
            "schedules of comparisons interleaved with in-place mutations (append / pop / item assignment / clear / inner append); "
            "non-trivial = a mutation follows a comparison and some change is pending")

for _p in ("C05", "C14"):
    PROPS[_p] = {"engines": [("site", {"quick": 2400, "thorough": 60000})], "rule": SITE_RULE, "assumptions": SITE_ASSUME}
PROPS["C17"] = {"engines": [("mutate", {"quick": 1600, "thorough": 40000}), ("site", {"quick": 800, "thorough": 20000})],
                "rule": MUT_RULE + " ; plus " + SITE_RULE,
                "assumptions": SITE_ASSUME + ["copy.deepcopy copies lists of ints faithfully (the harness keeps its own heap as the independent record)"]}

ALIGN_RULE = ("seeded generator (harness/engines/align.py): sequence pairs of length 0-6 (quick) / 0-9 (thorough) over alphabets of 1-4 symbols "
              "(forcing ties), near-copies with random edits, and arbitrary Bool matrices as equality relation (non-symmetric, non-transitive); "
              "non-trivial = the script contains an insertion or deletion; distinct = distinct (relation, lengths, kind)")
PROPS["C11"] = {"engines": [("align", {"quick": 4000, "thorough": 100000})], "rule": ALIGN_RULE,
                "assumptions": ["element source texts are recovered from the rewritten file with ast.get_source_segment",
                                "black leaves hand-written element expressions such as 0+1 / 0x1 untouched apart from blanks"]}

ENGINES = {
    "align": "white-box differential run of _align.align/add_x on arbitrary relations + observable-level fix of list/tuple displays with hand-written elements",
    "mutate": "in-process differential run with mutable compared objects and mutation schedules; independent heap simulation as oracle",
    "site": "in-process differential run of the call-site state machine (Model/Site.lean, Table.lean) against the real snapshot classes",
}
NOT_YET = {}

PROPS["C06"]["level_text"] = ("Theorems transparent_step / transparent / mixed_ops_type_error / transparent_getitem: for every stored argument, "
    "every flag set without create/fix/update and every observation sequence the results equal the plain comparisons (induction over the "
    "observation list); the model is compared with the real classes on generated programs (results of every comparison), and the same clause is "
    "evaluated directly on the implementation's results.")
PROPS["C07"]["level_text"] = ("Theorems step_wrong_counts, step_holds_no_count, step_mono, never_green, no_false_failure: for every flag set and every test "
    "(event list) one empty or failing snapshot makes the teardown counters non-zero, and tests whose snapshots all hold keep them at zero; the model's "
    "counters after every test are compared with the real State counters, plus a direct oracle on the implementation's counters.")

PROPS["C05"]["level_text"] = ("Theorems (Props/C05.lean) over an abstract value type with a total order / an equivalence: create_only_fills_missing, "
    "create_keeps_existing, fix_reported_iff_bound, trim_reported_iff_bound, fix_applied_all_hold_bound, trim_tightest_bound, update_keeps_value_bound, "
    "fix_trim_reported_iff_coll, coll_final, eq_categories — for every stored value, every observation sequence (induction over it) and every approved set. "
    "Correspondence: reported categories and value after applying the approved set, per call site, model vs real classes; direct oracle evaluates the "
    "documented clauses on the implementation's output.")
PROPS["C14"]["level_text"] = ("Theorems noninterference (for every interleaving of flat events the entry of site k equals the run of its own events), aggregate_extreme, "
    "aggregate_union, reeval_changed_argument_raises. Correspondence: programs with 1-6 call sites in placements fn / lambda / module level / two on one line, "
    "scripted interleavings; every model site must be known to the implementation and vice versa, per-site values compared.")
PROPS["C17"]["level_text"] = ("Theorems recorded_is_value_at_comparison_time (heap model: for every schedule of comparisons and mutations the table equals the run on the "
    "values at comparison time), mutation_after_irrelevant, unequal_copy_rejected(_later). Correspondence: real tests mutate the compared lists after and "
    "between assertions; the harness's own heap simulation is the independent record the written values are checked against.")

PROPS["C11"]["level_text"] = ("Theorems (Props/C11.lean, for an ARBITRARY relation E and all lengths): matrix_eq_cell (the executable row-by-row matrix is the tabulated "
    "specification), backM_fuel, nwAlign_valid, nwAlign_optimal, align_valid, align_prefix_suffix (maximal equal prefix and suffix are all m), align_optimal (no valid "
    "alignment has more matches), addX_valid / addX_matches. Correspondence: model script = script of the real align/add_x on random relations, and the kept/replaced "
    "pattern of the rewritten display equals the model's; direct oracle: validity, match count against an independent LCS, prefix/suffix text survival.")
