"""Per-property configuration: which engines run, how many cases per tier, what is assumed."""
from __future__ import annotations

SITE_RULE = ("seeded generator (harness/engines/site.py): 1-6 textual snapshot() call sites in placements fn / lambda / "
             "module-level / two-on-one-line, stored argument none | leaf | list display | dict display with canonical or "
             "hand-written spellings, 1-3 tests with 1-9 comparisons over == <= >= in [key], all 16 flag sets, approved set "
             "equal to or independent of the flags; a case is non-trivial when at least one call site has a pending change; "
             "distinct = distinct (sites, script, flags, approved) signature")

SITE_ASSUME = ["executing / asttokens locate the snapshot() call of every generated placement (checked per case: every model site "
               "must be known to the implementation and vice versa)",
               "Python operator dispatch reaches the snapshot object (compared values defer with NotImplemented)"]

PROPS = {
    "C06": {"engines": [("site", {"quick": 2400, "thorough": 60000})], "rule": SITE_RULE, "assumptions": SITE_ASSUME},
    "C07": {"engines": [("site", {"quick": 2400, "thorough": 60000})], "rule": SITE_RULE, "assumptions": SITE_ASSUME},
}

ENGINES = {
    "site": "in-process differential run of the call-site state machine (Model/Site.lean, Table.lean) against the real snapshot classes",
}
NOT_YET = {}

PROPS["C06"]["level_text"] = ("Theorems transparent_step / transparent / mixed_ops_type_error / transparent_getitem: for every stored argument, "
    "every flag set without create/fix/update and every observation sequence the results equal the plain comparisons (induction over the "
    "observation list); the model is compared with the real classes on generated programs (results of every comparison), and the same clause is "
    "evaluated directly on the implementation's results.")
PROPS["C07"]["level_text"] = ("Theorems step_wrong_counts, step_holds_no_count, step_mono, never_green, no_false_failure: for every flag set and every test "
    "(event list) one empty or failing snapshot makes the teardown counters non-zero, and tests whose snapshots all hold keep them at zero; the model's "
    "counters after every test are compared with the real State counters, plus a direct oracle on the implementation's counters.")
