"""Per-property configuration: which engines run, how many cases per tier, what is assumed."""
from __future__ import annotations

SITE_RULE = ("seeded generator (harness/engines/site.py): 1-6 textual snapshot() call sites in placements fn / lambda / "
             "module-level / two-on-one-line, stored argument none | leaf | list display | dict display with canonical or "
             "hand-written spellings, 1-3 tests with 1-9 comparisons over == <= >= in [key], all 16 flag sets, approved set "
             "equal to or independent of the flags; a case is non-trivial when at least one call site has a pending change; "
             "distinct = distinct (sites, script, flags, approved) signature")

SITE_ASSUME = ["executing / asttokens locate the snapshot() call of every generated placement (checked per case: every model site "
               "must be known to the implementation and vice versa)",
               "Python operator dispatch reaches the snapshot object (compared values defer with NotImplemented)"]

PROPS = {
    "C06": {"engines": [("site", {"quick": 2400, "thorough": 60000})], "rule": SITE_RULE, "assumptions": SITE_ASSUME},
    "C07": {"engines": [("site", {"quick": 2400, "thorough": 60000})], "rule": SITE_RULE, "assumptions": SITE_ASSUME},
}

MUT_RULE = ("seeded generator (harness/engines/mutate.py): 1-3 mutable list objects (flat or nested), 1-3 call sites over == <= >= in, "
            "schedules of comparisons interleaved with in-place mutations (append / pop / item assignment / clear / inner append); "
            "non-trivial = a mutation follows a comparison and some change is pending")

for _p in ("C05", "C14"):
    PROPS[_p] = {"engines": [("site", {"quick": 2400, "thorough": 60000})], "rule": SITE_RULE, "assumptions": SITE_ASSUME}
PROPS["C17"] = {"engines": [("mutate", {"quick": 1600, "thorough": 40000}), ("site", {"quick": 800, "thorough": 20000})],
                "rule": MUT_RULE + " ; plus " + SITE_RULE,
                "assumptions": SITE_ASSUME + ["copy.deepcopy copies lists of ints faithfully (the harness keeps its own heap as the independent record)"]}

ALIGN_RULE = ("seeded generator (harness/engines/align.py): sequence pairs of length 0-6 (quick) / 0-9 (thorough) over alphabets of 1-4 symbols "
              "(forcing ties), near-copies with random edits, and arbitrary Bool matrices as equality relation (non-symmetric, non-transitive); "
              "non-trivial = the script contains an insertion or deletion; distinct = distinct (relation, lengths, kind)")
PROPS["C11"] = {"engines": [("align", {"quick": 4000, "thorough": 100000})], "rule": ALIGN_RULE,
                "assumptions": ["element source texts are recovered from the rewritten file with ast.get_source_segment",
                                "black leaves hand-written element expressions such as 0+1 / 0x1 untouched apart from blanks"]}

SESSION_RULE = ("seeded slice of the product: category subsets x {-, report, review, short-report, disable} x flag source (command line, "
                "INLINE_SNAPSHOT_DEFAULT_FLAGS, pyproject default-flags / default-flags-tui, shortcut option) x review answers x {CI variable, -n 2, -n 0, tty via "
                "FORCE_COLOR} x skip-snapshot-updates-for-now x xfail-marked copies x several call sites per category, on a project with one independent "
                "call site per pending category; each case is one real `python -m pytest` session (plus Example.run_inline / Example.run_pytest for plain "
                "category flags); non-trivial = something is pending and no usage error")
STR_RULE = ("seeded generator (harness/engines/strlit.py): str / bytes over an adversarial alphabet (both quotes, backslash, CR, LF, tab, NUL, DEL, U+00A0, "
            "U+2028, lone surrogate, astral, braces), quote-heavy strings, long strings, arbitrary code points; nesting top / list / dict / 1-tuple; "
            "black or format-command=cat; plus one independent random literal per case for the lexer model; non-trivial = the string needs escaping")
PROPS["C04"] = {"engines": [("session", {"quick": 160, "thorough": 5000})], "rule": SESSION_RULE, "cap_s": {"quick": 80, "thorough": 850},
                "assumptions": ["pytest / pytest-xdist / rich behave as installed (real sessions)", "review prompts are answered through stdin in category order"]}
PROPS["C19"] = {"engines": [("session", {"quick": 160, "thorough": 5000})], "rule": SESSION_RULE, "cap_s": {"quick": 80, "thorough": 850},
                "assumptions": ["scope of the property: no externals, plain test_* functions without fixtures"]}
PROPS["C12"] = {"engines": [("strlit", {"quick": 2500, "thorough": 60000})], "rule": STR_RULE,
                "assumptions": ["evalLit (Model/StrLit.lean) is CPython's lexer on single non-raw literals — validated per case against ast.literal_eval on the generated "
                                "literal and on an independent random literal", "the formatter preserves the value of the literal (AstPreserving) — validated per case by evaluating the written argument",
                                "quote characters are printable (forced hypothesis of tripleQuote_isSome)"]}
PROPS["C07"]["engines"].append(("session", {"quick": 64, "thorough": 1500}))
PROPS["C06"]["engines"].append(("session", {"quick": 64, "thorough": 1500}))
PROPS["C06"]["rule"] = SITE_RULE + " ; plus " + SESSION_RULE
PROPS["C07"]["rule"] = SITE_RULE + " ; plus " + SESSION_RULE

REWRITE_RULE = ("seeded generator (harness/engines/rewrite.py): whole test files with optional docstring / __future__ import / other imports, 1-5 test functions "
                "(some tab-indented), statements over == <= in [key], non-ASCII text left of the call on the same line, two snapshots on one line, snapshot as argument "
                "of a helper call, multi-line list arguments with comments and trailing commas, values needing HasRepr (import insertion), CRLF files, files with and "
                "without final newline, formatter-clean or not, format-command=cat; all 16 approved sets; non-trivial = the file changed")
for _p in ("C03", "C20"):
    PROPS[_p] = {"engines": [("rewrite", {"quick": 1000, "thorough": 30000})], "rule": REWRITE_RULE,
                 "assumptions": ["asttokens / tokenize positions are (line, code-point column) pairs inside their line (InLines hypothesis of checkSorted_chained) — every recorded replacement is replayed through the model",
                                 "black is AST-preserving and idempotent on the generated files (validated: AST outside the arguments compared, black re-run on the result)"]}

ASSIGN_RULE = ("seeded generator (harness/engines/assign.py): old argument = tree of list / tuple / dict displays (depth <= 3 quick, <= 4 thorough, width <= 4) with canonical "
               "leaves, hand-written leaves (unique spellings `v+0*K`, also container-valued calls like list((1,2))), unmanaged leaves Is(..) / always-equal object / f-string, "
               "star-expressions; new value derived by edits (delete / insert / replace / swap elements, dict key add / remove / reorder, other type, nested edits); flags fix / update "
               "(+ create / trim); modes: single run, the same run twice (C08), every order of approving fix and update vs. both at once (C09); non-trivial = some change pending")
EXT_RULE = ("seeded histories (harness/engines/external.py) over a project whose tests outsource data: steps {set the data of a test, delete a test, run a real session with "
            "flags / review answers}, 3-8 steps, hash-length 1 / 2 / 12 / 64 (short lengths with deliberately colliding prefixes), default or configured storage-dir; "
            "non-trivial = some session changed the storage directory")
for _p in ("C02", "C08", "C09", "C10"):
    PROPS[_p] = {"engines": [("assign", {"quick": 1500, "thorough": 40000})], "rule": ASSIGN_RULE,
                 "assumptions": ["values are unmanaged-free with pairwise distinct dict keys (ValOk, WfVal — true of every Python value generated)",
                                 "black leaves hand-written leaf expressions alone and formats generated code AST-preservingly (checked: the rewritten argument is parsed back and compared as a tree)"]}
PROPS["C02"]["engines"] += [("site", {"quick": 800, "thorough": 20000}), ("align", {"quick": 800, "thorough": 20000})]
PROPS["C09"]["engines"].append(("site", {"quick": 2400, "thorough": 40000}))
PROPS["C09"]["rule"] = ASSIGN_RULE + " ; plus (orders mode of the site engine: every permutation of the pending categories one at a time vs all at once) " + SITE_RULE
PROPS["C11"]["engines"].append(("assign", {"quick": 1000, "thorough": 30000}))
PROPS["C11"]["rule"] = ALIGN_RULE + " ; plus " + ASSIGN_RULE
PROPS["C05"]["engines"].append(("assign", {"quick": 800, "thorough": 20000}))
PROPS["C05"]["rule"] = SITE_RULE + " ; plus " + ASSIGN_RULE
PROPS["C13"] = {"engines": [("external", {"quick": 48, "thorough": 600})], "rule": EXT_RULE, "cap_s": {"quick": 85, "thorough": 850},
                "assumptions": ["SHA-256 enters only as an arbitrary function H; the invariants need no property of it except PrefixUnique for 'referenced => persisted'",
                                "file-system operations rename / unlink / write are atomic per call"]}

VALUES_RULE = ("seeded generator (harness/engines/values.py): expressions over the whole supported universe — int (incl. huge), bool, None, float (incl. inf, -0.0), complex, "
               "str, bytes, Enum, Flag, classes, dataclass (defaults, default_factory), attrs, pydantic, NamedTuple / namedtuple, defaultdict, objects with non-Python repr (HasRepr), "
               "list / tuple / dict / set / frozenset nesting (sets of ints, strs, mixed, arbitrary hashables) up to depth 3; operations == <= >= in [key]; placements assert / helper "
               "argument / module level / loop; a fraction of cases repeated in separate interpreters with PYTHONHASHSEED 0 / 1 / 4242, with black missing and with a format-command")
PROPS["C01"] = {"engines": [("values", {"quick": 450, "thorough": 20000}), ("strlit", {"quick": 800, "thorough": 20000}), ("site", {"quick": 800, "thorough": 20000})],
                "rule": VALUES_RULE + " ; plus " + STR_RULE + " ; plus " + SITE_RULE, "cap_s": {"quick": 80, "thorough": 850},
                "assumptions": ["class names used by generated code resolve in the test module (classes are defined at module level)",
                                "the formatter preserves the value of the generated fragment (validated per case by the disabled re-run)"]}

FAULT_RULE = ("seeded generator (harness/engines/faults.py): projects of 1-3 test files with pending creates (some outsourcing data, some formatter-clean), one injected fault per "
              "case: the n-th call (n = 0..3) of ast.parse / Path.rename / open(...,'bw') / the write after truncation / Path.read_text inside pytest_sessionfinish, black raising, "
              "format-command exiting non-zero, format-command printing garbage, or none; a fault-free reference run gives the complete new contents; non-trivial = a fault fired")
PROPS["C15"] = {"engines": [("faults", {"quick": 64, "thorough": 1200})], "rule": FAULT_RULE, "cap_s": {"quick": 85, "thorough": 850},
                "assumptions": ["rename / unlink / write are atomic per call; open(..., 'bw') = truncate, then write (two steps of the model)",
                                "each written reference has a unique prefix match in the storage (PrefixUnique)"]}
PROPS["C16"] = {"engines": [("setsort", {"quick": 3000, "thorough": 60000}), ("values", {"quick": 250, "thorough": 8000})],
                "rule": "sets of flat values (ints incl. colliding hash buckets, bools, strs, mixed, None) in up to 24 construction orders (harness/engines/setsort.py); plus " + VALUES_RULE,
                "cap_s": {"quick": 80, "thorough": 850},
                "assumptions": ["the elements of a generated set are totally ordered by < whenever sorted() succeeds on them (scope of the theorem; frozenset elements are outside it)",
                                "black / format-command / no formatter only change layout (validated: argument AST compared across the three settings)"]}
PROPS["C18"] = {"engines": [("site", {"quick": 1200, "thorough": 30000}), ("assign", {"quick": 800, "thorough": 20000}), ("rewrite", {"quick": 500, "thorough": 15000}),
                            ("values", {"quick": 200, "thorough": 6000})],
                "rule": SITE_RULE + " ; " + ASSIGN_RULE + " ; " + REWRITE_RULE + " ; " + VALUES_RULE, "cap_s": {"quick": 40, "thorough": 400},
                "assumptions": ["'internal error' = an exception while collecting or applying changes (in-process) or a traceback from pytest_sessionfinish (real sessions)"]}

ENGINES = {
    "values": "values of the whole supported type universe written by create; disabled re-run as oracle; second/third run; hash seeds and formatter configurations in separate interpreters",
    "setsort": "order of set elements in generated code vs Model/SetSort.lean; construction-order independence",
    "faults": "fault injection (conftest plugin) at every primitive of the write phase in real sessions vs Model/Finish.lean crashAt; old-or-new and no-dangling-external oracle",
    "assign": "x == snapshot(<display>) at any depth: categories, answer and rewritten tree, model vs real adapters; multi-run modes for C08 / C09",
    "external": "histories of real sessions over outsourced data; storage directory after every session vs Model/External.lean; invariants checked on the directory",
    "rewrite": "whole-file rewriting: recorded replacements -> Model/Rewrite.lean newCode vs written file; byte/AST preservation outside snapshot() arguments; formatter-clean stays clean",
    "session": "real pytest sessions in throw-away projects against the gate model (Model/Session.lean); three-way run with Example.run_inline / run_pytest",
    "strlit": "str/bytes -> literal text -> value: model literal vs value_to_token, evalLit vs ast.literal_eval, written argument evaluated",
    "align": "white-box differential run of _align.align/add_x on arbitrary relations + observable-level fix of list/tuple displays with hand-written elements",
    "mutate": "in-process differential run with mutable compared objects and mutation schedules; independent heap simulation as oracle",
    "site": "in-process differential run of the call-site state machine (Model/Site.lean, Table.lean) against the real snapshot classes",
}
NOT_YET = {}

PROPS["C06"]["level_text"] = ("Theorems transparent_step / transparent / mixed_ops_type_error / transparent_getitem: for every stored argument, "
    "every flag set without create/fix/update and every observation sequence the results equal the plain comparisons (induction over the "
    "observation list); the model is compared with the real classes on generated programs (results of every comparison), and the same clause is "
    "evaluated directly on the implementation's results.")
PROPS["C07"]["level_text"] = ("Theorems step_wrong_counts, step_holds_no_count, step_mono, never_green, no_false_failure: for every flag set and every test "
    "(event list) one empty or failing snapshot makes the teardown counters non-zero, and tests whose snapshots all hold keep them at zero; the model's "
    "counters after every test are compared with the real State counters, plus a direct oracle on the implementation's counters.")

PROPS["C05"]["level_text"] = ("Theorems (Props/C05.lean) over an abstract value type with a total order / an equivalence: create_only_fills_missing, "
    "create_keeps_existing, fix_reported_iff_bound, trim_reported_iff_bound, fix_applied_all_hold_bound, trim_tightest_bound, update_keeps_value_bound, "
    "fix_trim_reported_iff_coll, coll_final, eq_categories — for every stored value, every observation sequence (induction over it) and every approved set. "
    "Correspondence: reported categories and value after applying the approved set, per call site, model vs real classes; direct oracle evaluates the "
    "documented clauses on the implementation's output.")
PROPS["C14"]["level_text"] = ("Theorems noninterference (for every interleaving of flat events the entry of site k equals the run of its own events), aggregate_extreme, "
    "aggregate_union, reeval_changed_argument_raises. Correspondence: programs with 1-6 call sites in placements fn / lambda / module level / two on one line, "
    "scripted interleavings; every model site must be known to the implementation and vice versa, per-site values compared.")
PROPS["C17"]["level_text"] = ("Theorems recorded_is_value_at_comparison_time (heap model: for every schedule of comparisons and mutations the table equals the run on the "
    "values at comparison time), mutation_after_irrelevant, unequal_copy_rejected(_later). Correspondence: real tests mutate the compared lists after and "
    "between assertions; the harness's own heap simulation is the independent record the written values are checked against.")

PROPS["C11"]["level_text"] = ("Theorems (Props/C11.lean, for an ARBITRARY relation E and all lengths): matrix_eq_cell (the executable row-by-row matrix is the tabulated "
    "specification), backM_fuel, nwAlign_valid, nwAlign_optimal, align_valid, align_prefix_suffix (maximal equal prefix and suffix are all m), align_optimal (no valid "
    "alignment has more matches), addX_valid / addX_matches. Correspondence: model script = script of the real align/add_x on random relations, and the kept/replaced "
    "pattern of the rewritten display equals the model's; direct oracle: validity, match count against an independent LCS, prefix/suffix text survival.")

PROPS["C04"]["level_text"] = ("Theorems on the gate model (decision logic stated outright, for every configuration and pending set): flags_resolution, applied_subset_approved, "
    "nothing_approved_nothing_written (no approval / short-report / disable / CI / xdist / non-CPython), applied_exact, illegal_combinations_error, xfail_inactive. "
    "Correspondence: real pytest sessions over the configuration product; the set of rewritten categories read from the files equals the model's; direct oracle: "
    "file unchanged when nothing is approved, applied subset of approved, exactness.")
PROPS["C19"]["level_text"] = ("Theorem inline_eq_plugin (+ plain_configure): for plain category flags the change set selected by the run_inline model equals the set applied by the "
    "plugin gate model. The property is mostly a differential statement about two separately coded drivers: the three-way run (run_inline, run_pytest, real session) "
    "on generated projects carries it, with the files compared byte for byte.")
PROPS["C12"]["level_text"] = ("Theorems (Props/C12.lean; strings = lists of code points < 0x110000 incl. lone surrogates, every isprintable predicate): evalLit_pyRepr, "
    "evalBytes_bytesRepr, evalLit_tripleQuote, valueToLiteral_sound, valueToLiteral_roundtrip, tripleQuote_isSome(_iff), pyRepr_no_newline. Correspondence: model literal "
    "text = value_to_token text character by character; evalLit = ast.literal_eval; direct oracle: the argument in the rewritten file evaluates to the original value "
    "(top level and nested, black / format-command).")

PROPS["C03"]["level_text"] = ("Theorems (Props/C03.lean, text = list of code points incl. CR/LF variants): replace_frame / replaceFrom_frame (text before the first and after the last edited "
    "region survives verbatim, stretches between edits too), replaceText_sorted_chained, lineToOffset_offsetToLine (line/column <-> offset round trip, so multi-byte characters left of an edit "
    "cannot shift it), lineToOffset_mono, checkSorted_chained (the code's own non-overlap check makes the offset edits chained), newcode_unformatted, newcode_overlap_rejected, "
    "newcode_outside_preserved. Correspondence: the replacements the real code records, replayed through the model, give the written file character for character; direct oracle: the file "
    "compiles, bytes (or AST) outside the snapshot() arguments are unchanged, only the permitted import is added.")
PROPS["C20"]["level_text"] = ("Theorems clean_stays_clean (Idempotent fmt, file clean or format-command set => result is a fixed point of fmt), dirty_not_reformatted, dirty_outside_untouched, "
    "dirty_formatter_irrelevant. Idempotence of black is checked on every case by running black independently on the result.")

PROPS["C02"]["level_text"] = ("Theorems (Props/C02.lean, every nesting depth, Managed old expression): eval_canon, merged_eq (the comparison is answered True), fix_repairs "
    "(after fix the argument evaluates to a value equal to the observed one), no_fix_needed_iff, update_keeps_value; with C11 align_valid underneath. Correspondence: categories, answer "
    "of the comparison and the rewritten tree, model vs implementation; direct oracle: the rewritten program passes with inline-snapshot disabled.")
PROPS["C08"]["level_text"] = ("Theorems run_idem (same approved set twice = once), run_all_nothing_pending, run_fix_update_nothing_pending, run_pending (what stays pending after any run). "
    "Correspondence + oracle: the same real run executed twice changes nothing the second time and reports no create / fix / trim.")
PROPS["C09"]["level_text"] = ("Theorems run_compose (run F2 after run F1 = run (F1 u F2), every depth), order_independent, run_commute. Correspondence + oracle: every order of approving "
    "fix and update one at a time ends in the same tree as approving both at once (real runs).")
PROPS["C10"]["level_text"] = ("Theorems unmanaged_untouched (the unmanaged nodes of the result form a sublist of those of the input, for every F, e, n), star_freezes(_dict), "
    "unmanaged_leaf_fixed_point, fstr_fixed_point, managed_siblings_fixed. Correspondence: trees with unmanaged leaves at every position; oracle: their source text survives verbatim.")
PROPS["C11"]["level_text"] += " Plus (Props/C11b.lean) equal_kept: if the value did not change and update is not approved the argument expression is untouched at every depth."
PROPS["C13"]["level_text"] = ("Model of the storage directory (Model/External.lean) compared after every real session of a history; direct oracle on the directory: name = SHA-256 of "
    "content, no -new file survives a session start, persisted only if referenced, removed only by approved trim and only if unreferenced, missing / ambiguous prefix raises. "
    "Theorems: see Props/C13.lean.")

PROPS["C01"]["level_text"] = ("Theorems: value level (Props/C01.lean) create_eq, create_bound, create_in, create_getitem, create_needs_approval — the written value makes the same comparison hold, "
    "for every observation sequence; value -> text: eval_canon (Props/C02), string literals (Props/C12), set order (Props/C16). The formatter enters as the validated assumption. "
    "Correspondence + direct oracle: values of every supported type at any nesting are created by the real code and the rewritten module is re-executed with inline-snapshot disabled.")

PROPS["C15"]["level_text"] = ("Theorems on the write phase as a step list (Props/C15.lean): persist_before_write, crash_content, crash_safe_partial, crash_unsafe_between_truncate_put (counterexample: "
    "KF-C15-1), crash_no_dangling(_store) (a file with new content implies all its externals were persisted and survive the next session start, under PrefixUnique), "
    "compute_phase_writes_nothing, formatter_failure_degrades. Correspondence: real sessions with a fault injected at the n-th call of each primitive; file states and persisted set vs crashAt.")
PROPS["C16"]["level_text"] = ("Theorems (Props/C16.lean): sortSet_perm_invariant_text (the text-sorted fallback never depends on the iteration order), sortSet_perm_invariant_total (value-sorted branch under a "
    "total order), sortAtoms_perm_invariant, partial_order_depends_on_iteration (counterexample outside the hypothesis). Correspondence: element order of real code_repr vs the model; oracle: "
    "identical text across construction orders and across PYTHONHASHSEED in separate interpreters; identical argument AST with black / black missing / format-command.")
PROPS["C18"]["level_text"] = ("Theorems (Props/C18.lean): finish_total_leaf / finish_total_site / finish_total_table (for every reachable site state — any events, any flags, failed clones included — collecting "
    "the changes yields a result), replacements_disjoint_means_total. Every engine's oracle carries the clause finish_total (no exception while collecting / applying, no traceback in real sessions).")
PROPS["C06"]["level_text"] += " Props/C06b.lean: disabled_identity, inactive_tests_touch_nothing."

PROPS["C03"]["engines"].append(("multifile", {"quick": 40, "thorough": 800}))
PROPS["C03"]["rule"] = REWRITE_RULE + " ; plus real sessions over projects of 2-3 test files with plain / HasRepr / external creates, list fixes and updates (harness/engines/multifile.py)"
PROPS["C03"]["cap_s"] = {"quick": 45, "thorough": 500}
PROPS["C08"]["engines"].append(("values", {"quick": 250, "thorough": 8000}))
PROPS["C08"]["rule"] = ASSIGN_RULE + " ; plus " + VALUES_RULE
ENGINES["multifile"] = "real sessions over multi-file projects: import insertion only where needed, bytes outside arguments preserved per file"

CALLS_RULE = ("seeded generator (harness/engines/calls.py): keyword-only constructor calls of a dataclass / attrs class with defaulted fields; keyword values are nested display "
              "trees with hand-written and unmanaged leaves (also Is(<the field's default>)); the new object changes fields, resets fields to defaults, makes default fields non-default")
for _p in ("C11", "C02", "C10", "C05"):
    PROPS[_p]["engines"].append(("calls", {"quick": 1200, "thorough": 30000}))
    PROPS[_p]["rule"] += " ; plus " + CALLS_RULE
ENGINES["calls"] = "constructor calls (GenericCallAdapter) vs Model/CallAssign.lean: categories and keyword list after the approved changes; disabled re-run; kept-text oracle"
PROPS["C11"]["level_text"] += (" Constructor calls (Props/C11c.lean on Model/CallAssign): call_matched_by_key, call_equal_kept, call_kept_keyword_text, call_fix_repairs, "
                               "call_unmanaged_untouched, call_cats_flags_indep, call_nothing_approved.")

PROPS["C19"]["engines"] = [("session_plain", {"quick": 48, "thorough": 1500}), ("session", {"quick": 64, "thorough": 1500})]
ENGINES["session_plain"] = "the session engine restricted to plain category flags: every case runs Example.run_inline, Example.run_pytest and a real session and compares files and pending categories"

PROPS["C14"]["engines"].append(("twins", {"quick": 400, "thorough": 8000}))
PROPS["C14"]["rule"] += " ; plus identical test functions in 2-3 files differing only in a module-level constant (harness/engines/twins.py)"
ENGINES["twins"] = "textually identical functions in several files: one call site per file must be tracked on its own"
PROPS["C17"]["rule"] += " ; compared values optionally wrapped in a tuple (immutable outside, mutable inside)"

NESTED_RULE = ("seeded generator (harness/engines/nested.py): display trees (depth <= 3, redundant parentheses, hand-written leaves) in which random sub-expressions are wrapped into an inner "
               "snapshot(...) or replaced by an empty snapshot(); new value derived by edits, so inner snapshots are replaced with their parent, deleted with their element, reached only "
               "while aligning, or compared for real; evaluated once or twice (loop); same run twice")
for _p in ("C18", "C02", "C08"):
    PROPS[_p]["engines"].append(("nested", {"quick": 1000, "thorough": 30000}))
    PROPS[_p]["rule"] += " ; plus " + NESTED_RULE
ENGINES["nested"] = ("snapshot() calls nested in the argument of another snapshot(): without flags the answer and the untouched file vs Model/Assign.lean (inner snapshot = Unmanaged value); with flags "
                     "direct oracles only (no internal error / overlap, rewritten test passes with inline-snapshot disabled, second run is a no-op) — the nested call sites are stateful and outside the Lean model")
PROPS["C14"]["rule"] += (" ; site engine: in 12% of the cases an unrelated comparison that raises (10 kinds: while aligning, inside dict values, ordering TypeError, failed deepcopy, nested snapshot, ...) "
                         "is evaluated at the start of one test; the modelled call sites must end exactly as without it")

SEQEDIT_RULE = ("seeded generator (harness/engines/seqedit.py): one list / tuple / dict display or call with 0-5 elements (atoms, nested displays, parenthesised, multi-line, "
                "keyword arguments, parenthesised dict keys), arbitrary trivia between them (blanks, tabs, line breaks, comments, optional trailing comma), a random subset deleted and "
                "0-3 pieces of code inserted at random positions; the real apply_all is driven with hand-made Delete / ListInsert / DictInsert / CallArg changes")
for _p in ("C03", "C11", "C02", "C18"):
    PROPS[_p]["engines"].append(("seqedit", {"quick": 1500, "thorough": 40000}))
    PROPS[_p]["rule"] += " ; plus " + SEQEDIT_RULE
ENGINES["seqedit"] = ("apply_all / generic_sequence_update at the text level vs Model/SeqEdit.lean (seqUpdate): the text between the braces token by token; oracle: parses, holds exactly the "
                      "kept and inserted elements, a tuple stays a tuple, kept elements verbatim")

PROPS["C03"]["level_text"] += (" Element edits at the text level (Props/C03b.lean on Model/SeqEdit, every number of elements / deletion pattern / insertion set / trivia): seqUpdate_is_display (the text "
    "between the braces is a display again and holds exactly the kept and inserted elements in order), seqUpdate_tuple_comma (+ tuple_comma_needs_anchor: the hypothesis is necessary), "
    "seqUpdate_nothing_to_do, seqUpdate_prefix_kept (elements and trivia in front of the first edit survive verbatim), original_is_display. Props/C03c.lean: align_no_insert_before_delete, "
    "adapter_inserts_anchored, tuple_edit_keeps_comma (the anchoring hypothesis holds for every script add_x(align(old, new)), any equality relation).")
PROPS["C18"]["level_text"] += (" Props/C18b.lean on Model/Nest (trees of any depth, any well-formed change set): survivors_ranges_disjoint (after apply_all's filter the replaced intervals and the stretches "
    "rewritten in every touched container are pairwise disjoint), survivor_not_inside, overlap_without_filter (the defect fixed in 7da8f5b / 9aefa8e). Correspondence: the nested engine wraps the real "
    "apply_all and compares the changes it goes on with against `survivors`.")
PROPS["C18"]["assumptions"] = list(PROPS["C18"].get("assumptions", [])) + [
    "Model/Nest lays a display out as open / gap / (child gap)* / close with one-token gaps; real token widths differ but the nesting and ordering of ranges is what the proof uses",
    "the stretches of Model/Nest are a superset of the ranges generic_sequence_update really replaces (it skips untouched stretches)"]

PROPS["C14"]["engines"].append(("reeval", {"quick": 800, "thorough": 20000}))
PROPS["C14"]["rule"] += (" ; plus one call site snapshot(V[0]) / snapshot([V[0], 7]) in a helper or lambda, comparisons interleaved with assignments to V[0] (other value, other type), "
                         "one or two tests, every flag set (harness/engines/reeval.py)")
ENGINES["reeval"] = ("the hand-written argument of one call evaluates to a different value later: result of every comparison and categories vs Model/Table.lean (`snap` re-evaluation); "
                     "oracle: UsageError exactly when the argument differs from its first value")

PROPS["C10"]["engines"].append(("site", {"quick": 1200, "thorough": 30000}))
PROPS["C10"]["rule"] += (" ; plus the site engine: 15% of the elements of `in` collections are written as Is(v) / f-strings (user-controlled: never altered by update / fix, removed only by "
                         "trim with their untested element), used or never used")

PROPS["C08"]["engines"].append(("mutate", {"quick": 800, "thorough": 20000}))
PROPS["C08"]["rule"] += " ; plus the mutate engine (objects mutated in place between / after comparisons): with everything approved the same run a second time is a no-op"

PROPS["C18"]["engines"].append(("multifile", {"quick": 40, "thorough": 800}))
PROPS["C18"]["rule"] += " ; plus real sessions over 2-3 test files, a quarter of them started from a directory that does not contain the test files (harness/engines/multifile.py)"

ABORT_RULE = ("seeded generator (harness/engines/abort.py): one test with 2-4 plain assert statements over independent call sites (== <= >= in, stored value right / wrong / slack / "
              "missing / non-canonical) and optionally a module-level snapshot (list with in, dict with [key], bound) used before and after other statements; 2-4 categories approved "
              "together and one at a time in every order")
for _p in ("C09", "C02"):
    PROPS[_p]["engines"].append(("abort", {"quick": 250, "thorough": 6000}))
    PROPS[_p]["rule"] += " ; plus " + ABORT_RULE
ENGINES["abort"] = ("tests with plain asserts (a failing comparison ends the test): every order of approving categories vs together, disabled re-run; direct oracles only "
                    "(the site model has no notion of a test that ends early)")

PROPS["C20"]["engines"].append(("multifile", {"quick": 40, "thorough": 800}))
PROPS["C20"]["rule"] += (" ; plus real sessions over 2-3 files, some formatter-clean under a [tool.black] line-length of the project, a third of the sessions started from a directory "
                         "outside the project (harness/engines/multifile.py)")

PROPS["C05"]["engines"].append(("seqedit", {"quick": 1000, "thorough": 30000}))
PROPS["C05"]["rule"] += " ; plus " + SEQEDIT_RULE
PROPS["C01"]["engines"].append(("mutate", {"quick": 600, "thorough": 15000}))
PROPS["C01"]["rule"] += " ; plus the mutate engine: objects mutated in place after they were compared with an empty snapshot (the created value must hold for every comparison as it was observed)"

PROPS["C08"]["engines"].append(("multifile", {"quick": 40, "thorough": 800}))
PROPS["C08"]["rule"] += " ; plus real sessions over 2-3 files (create / fix of plain, HasRepr and outsourced values in one file): the same tests run again and pass"

PROPS["C14"]["engines"].append(("mutate", {"quick": 600, "thorough": 15000}))
PROPS["C14"]["rule"] += " ; plus the mutate engine (objects mutated between repeated evaluations of one call: the union / extreme is built from the values as they were observed)"

PROPS["C09"]["engines"].append(("multifile", {"quick": 40, "thorough": 800}))
PROPS["C09"]["rule"] += (" ; plus real sessions over 2-3 files (displays ending in a trailing comma edited by two categories, list fixes, updates, creates): the categories approved together "
                         "and one at a time in two orders, through the plugin's own report / apply loop")

PROPS["C07"]["engines"].append(("multifile", {"quick": 30, "thorough": 600}))
PROPS["C07"]["rule"] += " ; plus real multi-file sessions (one file may live in a directory named like a marker): no test fails in the set-up of the snapshot_check fixture"

PROPS["C09"]["engines"].append(("calls", {"quick": 600, "thorough": 15000}))
PROPS["C09"]["rule"] += " ; plus constructor calls (harness/engines/calls.py): fix and update approved together and one at a time in both orders give the same call"

PROPS["C09"]["level_text"] += (" Constructor calls (Props/C09b.lean on Model/CallAssign, any fields / keywords with distinct names, Managed values): runCall_compose (a run approving F2 after a run "
    "approving F1 gives the keyword list of one run approving F1 u F2), call_order_independent, runCall_commute — true since fix e4b1c97 made insert positions independent of other changes.")

PROPS["C10"]["level_text"] += (" Outside the == path (Props/C10b.lean on Model/Site): coll_update_needs_noncanon, unused_coll_update_needs_noncanon, coll_all_canon_no_update — an element that never needs "
    "regenerating (how the site engine encodes Is(..) / f-string elements) is never the reason for an update, used with `in` or never used.")

PROPS["C12"]["engines"].append(("seqedit", {"quick": 800, "thorough": 20000}))
PROPS["C12"]["rule"] += " ; plus the seqedit engine: triple-quoted string tokens that span several lines as elements next to deletions / insertions"
