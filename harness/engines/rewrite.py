"""Engine `rewrite` (C03, C20, C18): whole test files with many layouts, rewritten by the real code.

White box: the `Replacement`s recorded for the file and the file text go to Model/Rewrite.lean (`newCode` with
fmt = identity); the predicted text must equal the written file (after the harness's own black run when the
file was formatter-clean).  Direct oracle (no model): the new file compiles; everything outside the parentheses
of the snapshot() calls is byte-identical (or AST-identical when the whole file is re-formatted); the only extra
statement allowed is `from inline_snapshot import HasRepr|external`; a clean file stays clean.
"""
from __future__ import annotations

import ast
import io
import tokenize

from .. import common
from ..common import sx

NAME = "rewrite"

INT_SPELL = ["{v}", "{v}", "0+{v}", "{v}+0"]


def rand_value(rng):
    r = rng.random()
    if r < 0.35:
        return rng.randint(0, 50)
    if r < 0.55:
        return rng.choice(["a", "é✓", "x y", "it's", 'say "hi"', "line1\nline2", ""])
    if r < 0.62:
        return [rng.randint(100000, 999999) for _ in range(rng.randint(8, 20))]      # forces re-wrapping
    if r < 0.8:
        return [rng.randint(0, 9) for _ in range(rng.randint(0, 5))]
    if r < 0.9:
        return {rng.choice(["a", "b", "c"]): rng.randint(0, 9) for _ in range(rng.randint(0, 3))}
    return (rng.randint(0, 9), rng.choice(["t", "u"]))


def wrong_value(rng, v):
    if isinstance(v, int):
        return v + rng.choice([1, -1, 10])
    if isinstance(v, str):
        return v + "!"
    if isinstance(v, list):
        w = list(v)
        if w and rng.random() < 0.5:
            del w[rng.randrange(len(w))]
        else:
            w.insert(rng.randint(0, len(w)), 77)
        return w
    if isinstance(v, dict):
        w = dict(v)
        w["z"] = 1
        return w
    return (v[0] + 1, v[1])


def layout_arg(rng, v, state):
    """source text of the snapshot argument for stored value v"""
    if state == "create":
        return ""
    if isinstance(v, int):
        sp = rng.choice(INT_SPELL if state == "update" else ["{v}"])
        if state == "update":
            sp = rng.choice(["0+{v}", "{v}+0"])
        return sp.format(v=v)
    if isinstance(v, list) and v and rng.random() < 0.5:
        # multi-line display with comments and a trailing comma
        items = [repr(x) if state != "update" or i else f"0+{x}" for i, x in enumerate(v)]
        return "[\n" + "".join(f"        {it},  # item {i}\n" for i, it in enumerate(items)) + "    ]"
    if isinstance(v, list) and state == "update":
        return "[" + ", ".join((f"0+{x}" if i == 0 else repr(x)) for i, x in enumerate(v)) + "]" if v else "list()"
    if state == "update":
        if isinstance(v, str):
            return repr(v) + ' + ""'
        return "dict(" + repr(v) + ")" if isinstance(v, dict) else "tuple(" + repr(list(v)) + ")"
    return repr(v)


def gen(rng, tier, shape=None):
    nfun = rng.randint(1, 3 if tier == "quick" else 5)
    funs = []
    for _ in range(nfun):
        stmts = []
        for _ in range(rng.randint(1, 3)):
            kind = rng.choice(["eq", "eq", "eq", "unicode_line", "two", "nested", "le", "in", "getitem", "hasrepr"])
            state = rng.choice(["create", "fix", "update", "ok", "ok"])
            v = rand_value(rng)
            stmts.append({"kind": kind, "state": state, "v": v, "stored": wrong_value(rng, v) if state == "fix" else v,
                          "v2": rng.randint(0, 9), "state2": rng.choice(["create", "fix", "ok"]), "seed": rng.randrange(10**6)})
        funs.append({"stmts": stmts, "tabs": rng.random() < 0.15})
    flags = sorted(c for c in common.CATS if rng.random() < 0.6)
    opts = {}
    if rng.random() < 0.45:
        if rng.random() < 0.5:
            opts["line-length"] = rng.choice([40, 60, 100, 120])
        if rng.random() < 0.5:
            opts["skip-magic-trailing-comma"] = rng.random() < 0.5
        if rng.random() < 0.4:
            opts["skip-string-normalization"] = rng.random() < 0.5
        if rng.random() < 0.2:
            opts["preview"] = rng.random() < 0.5
    return {"black": opts, "funs": funs, "flags": flags, "docstring": rng.random() < 0.3, "future": rng.random() < 0.25,
            "extra_import": rng.random() < 0.4, "clean": rng.random() < 0.4, "fmt_cmd": rng.random() < 0.1,
            "trailer": rng.choice(["", "\n# done ✓\n", "\nif __name__ == '__main__':\n    pass\n"]),
            "final_newline": rng.random() < 0.9, "crlf": rng.random() < 0.06, "padded_str": rng.random() < 0.3, "with_stmt": rng.random() < 0.25}


def render(case):
    import random
    L = []
    if case["docstring"]:
        L.append('"""Module docstring — with ünïcödé."""')
    if case["future"]:
        L.append("from __future__ import annotations")
    L.append("from inline_snapshot import snapshot")
    if case["extra_import"]:
        L.append("import os  # keep ✓")
    if case.get("padded_str"):
        # a multi-line string that is no docstring: black leaves the blanks at its line ends alone
        L.append('TABLE = """\nname    \nvalue\t\n"""')
    L.append("")
    L.append("class NoRepr:\n    def __init__(self, i): self.i = i\n    def __repr__(self): return f'<NoRepr {self.i}>'\n    def __eq__(self, o): return (o.i == self.i) if isinstance(o, NoRepr) else NotImplemented\n")
    L.append("def check(s, v):\n    assert v == s\n")
    if case.get("with_stmt"):
        # a statement whose layout depends on black's target version (parenthesised context managers need 3.9+):
        # black has to decide it the way the project's own `black` run does
        L.append("from unittest import mock\n\n\ndef two_managers():\n    with mock.patch(\"os.getcwd\", return_value=\"/somewhere/else\") as first_manager, mock.patch(\"os.getpid\", return_value=4242) as second_manager:\n"
                 "        return first_manager, second_manager\n")
    for k, f in enumerate(case["funs"]):
        ind = "\t" if f["tabs"] else "    "
        L.append(f"def test_{k}():")
        for st in f["stmts"]:
            rng = random.Random(st["seed"])
            v, stored, state = st["v"], st["stored"], st["state"]
            a = layout_arg(rng, stored, state).replace("    ", ind) if f["tabs"] else layout_arg(rng, stored, state)
            kind = st["kind"]
            if kind == "eq":
                L.append(f"{ind}assert {v!r} == snapshot({a})")
            elif kind == "unicode_line":
                L.append(f"{ind}x = 'é✓𝄞'; assert {v!r} == snapshot({a})  # ünï ✓")
            elif kind == "two":
                a2 = {"create": "", "fix": str(st["v2"] + 1), "ok": str(st["v2"])}[st["state2"]]
                L.append(f"{ind}assert ({v!r} == snapshot({a})) and ({st['v2']} == snapshot({a2}))")
            elif kind == "nested":
                L.append(f"{ind}check(snapshot({a}), {v!r})")
            elif kind == "le":
                n = v if isinstance(v, int) else 3
                arg = {"create": "", "fix": str(n - 2), "update": f"0+{n}", "ok": str(n)}[state]
                L.append(f"{ind}assert {n} <= snapshot({arg})")
            elif kind == "in":
                n = v if isinstance(v, int) else 3
                arg = {"create": "", "fix": "[99]", "update": f"[0+{n}]", "ok": f"[{n}]"}[state]
                L.append(f"{ind}assert {n} in snapshot({arg})")
            elif kind == "getitem":
                n = v if isinstance(v, int) else 3
                arg = {"create": "", "fix": "{'k': 99}", "update": "{'k': 0+%d}" % n, "ok": "{'k': %d}" % n}[state]
                L.append(f"{ind}s = snapshot({arg})")
                L.append(f"{ind}assert s['k'] == {n}")
            elif kind == "hasrepr":
                arg = "" if state in ("create", "fix", "update") else ""
                L.append(f"{ind}assert NoRepr(1) == snapshot({arg})")
        L.append("")
    text = "\n".join(L) + case["trailer"]
    if not case["final_newline"]:
        text = text.rstrip("\n")
    elif not text.endswith("\n"):
        text += "\n"
    if case["clean"]:
        import black
        try:
            text = black.format_str(text, mode=black_mode(case))
        except Exception:  # noqa: BLE001
            pass
    if case["crlf"]:
        text = text.replace("\n", "\r\n")
    return text


def black_mode(case):
    """black's mode for the options of the case — the harness's own reading of black's documented options"""
    import black
    o = case.get("black") or {}
    return black.FileMode(line_length=o.get("line-length", 88), magic_trailing_comma=not o.get("skip-magic-trailing-comma", False),
                          string_normalization=not o.get("skip-string-normalization", False), preview=bool(o.get("preview", False)))


def pyproject_for(case):
    o = case.get("black") or {}
    if not o:
        return "[tool.black]\nline-length = 88\n"
    lines = ["[tool.black]"]
    for k, v in o.items():
        lines.append(f"{k} = {str(v).lower() if isinstance(v, bool) else v}")
    return "\n".join(lines) + "\n"


def model_lines(case):
    return []          # built in compare(): the replacements are an observation of the implementation


def run_impl(case):
    from .. import impl_inline
    text = render(case)
    data = text.encode("utf-8")
    r = impl_inline.run_program({"test_case.py": data}, case["flags"], case["flags"], pyproject=pyproject_for(case),
                                format_command=("cat" if case["fmt_cmd"] else None))
    after = r["files_after"].get("test_case.py", "")
    obs = {"before": text, "after": after, "errors": [r["import_error"], r["apply_error"], r["collect_errors"]],
           "replacements": (r.get("replacements") or {}).get("test_case.py"), "problems": r["problems"],
           "cats": sorted({c for s in r["sites"] for c in s["cats"]}), "apply_tb": r.get("apply_tb")}
    return obs


def second_stage_lines(case, obs):
    """driver lines that need the observation (the recorded replacements)"""
    reps = obs.get("replacements")
    if reps is None:
        return []
    # the code reads the file with universal newlines
    text = obs["before"].replace("\r\n", "\n").replace("\r", "\n")
    line = ["newcode", ["text"] + [ord(c) for c in text]]
    for (sl, sc, el, ec, txt, cid) in reps:
        line.append(["repl", sl, sc, el, ec, cid % 1000, ["s"] + [ord(c) for c in txt]])
    return [sx(line)]


def compare(case, obs, model_out):
    diffs = []
    if obs["errors"][1] or obs["errors"][2] or obs["errors"][0]:
        diffs.append(("impl-error", ["C18"], str(obs["errors"])))
        return diffs
    lines = second_stage_lines(case, obs)
    if not lines:
        if obs["after"] != obs["before"]:
            diffs.append(("unexpected-write", ["C03", "C04"], "file changed without recorded replacements"))
        return diffs
    out = common.Driver().run(lines)[0]
    o = common.sx_parse(out)
    if o == ["bad-op"]:
        return [("protocol", ["C03", "C20"], "bad-op")]
    if o == ["assert"]:
        diffs.append(("overlap", ["C18", "C03"], "model: replacements overlap (the code's own assertion should have fired)"))
        return diffs
    pred = "".join(chr(int(c)) for c in o[1:])
    before_norm = obs["before"].replace("\r\n", "\n").replace("\r", "\n")
    whole = case["fmt_cmd"] or is_clean(before_norm, case)
    if whole and not case["fmt_cmd"]:
        import black
        try:
            pred2 = black.format_str(pred, mode=black_mode(case))
        except Exception as e:  # noqa: BLE001
            pred2 = pred
    else:
        pred2 = pred
    if pred2 != obs["after"]:
        diffs.append(("new-text", ["C03", "C20", "C15"], f"predicted text differs from the written file (whole-file format: {bool(whole)})\n"
                      f"--- predicted\n{pred2[-400:]}\n--- written\n{obs['after'][-400:]}"))
    return diffs


def is_clean(text, case=None):
    import black
    try:
        return black.format_str(text, mode=black_mode(case or {})) == text
    except Exception:  # noqa: BLE001
        return False


# ------------------------------------------------------------------ direct oracle

def call_spans(data: bytes):
    """byte spans (start, end) of the argument region of every snapshot(...) call, in source order"""
    text = data.decode("utf-8")
    tree = ast.parse(text)
    starts = [0]
    for i, b in enumerate(data):
        if b == 10:
            starts.append(i + 1)
    spans = []
    for n in ast.walk(tree):
        if isinstance(n, ast.Call) and isinstance(n.func, ast.Name) and n.func.id == "snapshot":
            a = starts[n.func.end_lineno - 1] + n.func.end_col_offset      # the "(" (possibly after blanks)
            while data[a:a + 1] != b"(":
                a += 1
            b = starts[n.end_lineno - 1] + n.end_col_offset - 1           # the ")"
            spans.append((a + 1, b))
    spans.sort()
    return spans


def outside(data: bytes, spans):
    out, p = [], 0
    for a, b in spans:
        out.append(data[p:a])
        p = b
    out.append(data[p:])
    return out


def masked_dump(text):
    tree = ast.parse(text)
    for n in ast.walk(tree):
        if isinstance(n, ast.Call) and isinstance(n.func, ast.Name) and n.func.id == "snapshot":
            n.args = []
            n.keywords = []
    body = [s for s in tree.body
            if not (isinstance(s, ast.ImportFrom) and s.module == "inline_snapshot"
                    and all(a.name in ("HasRepr", "external") for a in s.names))]
    tree.body = body
    return ast.dump(tree)


def oracle(case, obs):
    fails = []
    if obs["errors"][1] or obs["errors"][2] or obs["errors"][0]:
        fails.append(("C18", "finish_total", f"flags {case['flags']}: {obs['errors']}"))
        return fails
    before, after = obs["before"], obs["after"]
    if after == before:
        return fails
    try:
        compile(after, "test_case.py", "exec")
    except SyntaxError as e:
        fails.append(("C03", "valid_python", f"rewritten file does not compile: {e}"))
        return fails
    b_norm = before.replace("\r\n", "\n").replace("\r", "\n")
    whole = bool(case["fmt_cmd"]) or is_clean(b_norm, case)
    try:
        if masked_dump(before) != masked_dump(after):
            fails.append(("C03", "ast_outside_preserved", "syntax tree outside the snapshot() arguments changed"))
    except SyntaxError as e:
        fails.append(("C03", "valid_python", str(e)))
        return fails
    if not whole:
        bd, ad = before.encode("utf-8", "surrogateescape"), after.encode("utf-8", "surrogateescape")
        try:
            sb, sa = call_spans(bd), call_spans(ad)
            ob, oa = outside(bd, sb), outside(ad, sa)
            # the permitted import may have been inserted: drop it from the new text before comparing
            joined_a = b"\x00".join(oa)
            for name in (b"HasRepr", b"external"):
                ins = b"\nfrom inline_snapshot import " + name + b"\n"
                if ins in joined_a and ins not in b"\x00".join(ob):
                    joined_a = joined_a.replace(ins, b"", 1)
            if joined_a != b"\x00".join(ob):
                fails.append(("C03", "bytes_outside_preserved", first_diff(b"\x00".join(ob), joined_a)))
                fails.append(("C20", "dirty_not_reformatted", first_diff(b"\x00".join(ob), joined_a)))
        except Exception as e:  # noqa: BLE001
            fails.append(("C03", "valid_python", f"cannot locate snapshot calls: {type(e).__name__}: {e}"))
    else:
        if not case["fmt_cmd"] and not is_clean(after.replace("\r\n", "\n"), case):
            fails.append(("C20", "clean_stays_clean", "file was formatter-clean before the rewrite and is not afterwards"))
    return fails


def first_diff(a: bytes, b: bytes):
    i = 0
    while i < min(len(a), len(b)) and a[i] == b[i]:
        i += 1
    return f"outside the snapshot() arguments: at byte {i}: before {a[max(0, i - 30):i + 30]!r} after {b[max(0, i - 30):i + 30]!r}"


def nontrivial(case, obs):
    return obs["after"] != obs["before"]


def signature(case):
    return common.sha(repr(case))


def histogram(case, obs, hist):
    for k in sorted(case.get("black") or {}):
        hist["black:" + k] = hist.get("black:" + k, 0) + 1
    for k in ("clean", "fmt_cmd", "crlf", "docstring", "future"):
        hist[f"{k}:{case[k]}"] = hist.get(f"{k}:{case[k]}", 0) + 1
    for f in case["funs"]:
        for st in f["stmts"]:
            hist["stmt:" + st["kind"] + "/" + st["state"]] = hist.get("stmt:" + st["kind"] + "/" + st["state"], 0) + 1
    hist["changed:" + str(obs["after"] != obs["before"])] = hist.get("changed:" + str(obs["after"] != obs["before"]), 0) + 1
    n = len(obs.get("replacements") or [])
    hist["replacements:" + str(min(n, 9))] = hist.get("replacements:" + str(min(n, 9)), 0) + 1
