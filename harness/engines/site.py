"""Engine `site`: call-site state machine (Model/Site.lean + Model/Table.lean) against the real
EqValue / MinValue / MaxValue / CollectionValue / DictValue, on flat values.

A case is a small test module with n textual `snapshot(...)` calls in different placements and a
script of comparisons per test.  Observables: result of every comparison, the two counters after
every test, the categories reported per call site, and the value each argument evaluates to after
the approved categories were applied.
Serves C01 C02 C05 C06 C07 C14 C17 (value level) — see DESIGN.md §6.
"""
from __future__ import annotations

import ast
import copy

from .. import common
from ..common import sx

NAME = "site"

# ------------------------------------------------------------------ values

NC = "NC"   # marker: object whose deepcopy is not equal to it


def val_sx(v):
    if v is None:
        return "n"
    if isinstance(v, bool):
        return ["b", v]
    if isinstance(v, int):
        return ["i", v]
    if isinstance(v, str):
        return ["s"] + [ord(c) for c in v]
    if isinstance(v, tuple) and v and v[0] == NC:
        return ["s", 0, v[1]]
    if isinstance(v, (set, frozenset)):
        return ["ps", sum(1 << int(e) for e in v)]         # a set of small naturals, ordered by inclusion (partial order)
    raise ValueError(v)


def set_src(v, order=None):
    es = sorted(v) if order is None else order
    return "{" + ", ".join(map(str, es)) + "}" if es else "set()"


def val_src(v):
    """python source that builds the compared value in the test body"""
    if isinstance(v, tuple) and v and v[0] == NC:
        return f"NCS[{v[1]}]"
    if isinstance(v, frozenset):
        return set_src(v)
    return repr(v)


def spellings(rng, v):
    """(source text, canonical?) for a stored value; catalogue, not computed from the implementation"""
    if isinstance(v, bool):
        return rng.choice([(repr(v), True), (f"bool({int(v)})", False), ("not " + repr(not v), False)])
    if isinstance(v, int):
        opts = [(repr(v), True)] * 3 + [(f"0+{v}" if v >= 0 else f"0{v}", False), (f"{v}+0", False)]
        if v >= 0:
            opts.append((hex(v), False))
        return rng.choice(opts)
    if isinstance(v, str):
        opts = [(repr(v), True)] * 2 + [('"%s"' % v, True), (repr(v) + " ''", True), (repr(v) + "+''", False)]
        return rng.choice(opts)
    if v is None:
        return ("None", True)
    if isinstance(v, frozenset):
        opts = [(set_src(v), True)] * 2
        if len(v) >= 2:
            opts.append((set_src(v, sorted(v, reverse=True)), False))
        opts.append(("set(%r)" % sorted(v), False))
        return rng.choice(opts)
    raise ValueError(v)


def locked_spelling(rng, v):
    """an element the user keeps control of: `Is(v)` or an f-string.  No category may alter its text (C10); for the
    model it is a leaf whose tokens never need an update (canon = True).  4th field: marker for the oracle."""
    if isinstance(v, str) and rng.random() < 0.5:
        return ('f"{%r}"' % v, True, "locked")
    return ("Is(%r)" % (v,), True, "locked")


def rand_val(rng, family):
    if family == "set":
        return frozenset(e for e in range(3) if rng.random() < 0.45)
    if family == "int":
        r = rng.random()
        if r < 0.08:
            return rng.choice([True, False])
        return rng.randint(-1, 4)
    if family == "str":
        return rng.choice(["a", "b", "ab", "", "c"])
    r = rng.random()
    if r < 0.6:
        return rng.randint(0, 4)
    if r < 0.8:
        return rng.choice(["a", "b", "ab"])
    if r < 0.9:
        return rng.choice([True, False])
    return None


# ------------------------------------------------------------------ case generation

def gen(rng, tier, shape=None):
    nsites = rng.choice([1, 1, 2, 2, 3] if tier == "quick" else [1, 2, 3, 4, 6])
    sites = []
    i = 0
    while i < nsites:
        role = (shape or {}).get("role") or rng.choice(["eq", "eq", "ge", "le", "in", "in", "dict", "mixed"])
        family = "any" if role in ("eq", "in", "dict") else rng.choice(["int", "int", "str", "set"] if role in ("ge", "le") else ["int", "int", "str"])
        style = rng.choice(["fn", "fn", "mod", "lambda", "pair"])
        if style == "pair" and i + 1 >= nsites:
            style = "fn"
        s = {"role": role, "family": family, "style": style}
        r = rng.random()
        if role == "in":
            if r < 0.3:
                s["old"] = None
            else:
                vals = []
                for _ in range(rng.randint(0, 3)):
                    v = rand_val(rng, family)
                    if not any(v == w for w in vals):
                        vals.append(v)
                s["old"] = ["coll", [(v,) + (locked_spelling(rng, v) if rng.random() < 0.15 else spellings(rng, v)) for v in vals]]
                if rng.random() < 0.15:
                    s["old"].append("tuple")        # `x in snapshot((1, 2))`: a tuple display is edited like a list display
        elif role == "dict":
            if r < 0.3:
                s["old"] = None
            else:
                ents = []
                for k in rng.sample(["k0", "k1", "k2", 1], rng.randint(0, 3)):
                    v = rand_val(rng, "int")
                    ents.append((k, v) + spellings(rng, v))
                s["old"] = ["dict", ents]
            s["childop"] = {}
        else:
            if r < 0.3:
                s["old"] = None
            else:
                v = rand_val(rng, family)
                s["old"] = ["leaf", (v,) + spellings(rng, v)]
        sites.append(s)
        if style == "pair":
            s2 = dict(s)
            s2["style"] = "pair2"
            sites.append(s2)
            i += 1
        i += 1
    nsites = len(sites)
    ntests = rng.choice([1, 1, 2, 3])
    ncs = 0
    tests = []
    for _ in range(ntests):
        evs = []
        for _ in range(rng.randint(1, 5 if tier == "quick" else 9)):
            k = rng.randrange(nsites)
            s = sites[k]
            role = s["role"]
            key = None
            if role == "dict":
                key = rng.choice(["k0", "k1", "k2", 1])
                if rng.random() < 0.1:
                    evs.append(["touch", k, key])
                    continue
                op = s["childop"].setdefault(key, rng.choice(["eq", "eq", "ge", "le", "in"]))
                if rng.random() < 0.06:
                    op = rng.choice(["eq", "ge", "le", "in"])
            elif role == "mixed":
                op = rng.choice(["eq", "ge", "le"])
            else:
                op = role
                if rng.random() < 0.05:
                    op = rng.choice(["eq", "ge", "le", "in"])
            if s["family"] == "set":
                # bounds over a partial order (set inclusion): every value of this site is a set
                x = rand_val(rng, "set")
                if s.get("old") and s["old"][0] == "leaf" and rng.random() < 0.25:
                    x = s["old"][1][0]
                evs.append(["op", k, key, op, x])
                continue
            fam = "int" if role == "dict" else s["family"]
            x = rand_val(rng, fam if op in ("ge", "le") else s["family"] if role != "dict" else "int")
            if op in ("ge", "le") and not isinstance(x, (int, str)):
                x = 1
            if op in ("ge", "le") and s.get("old") and s["old"][0] == "leaf" and role != "dict":
                # keep comparisons inside one ordered family (scope of C05/C06)
                ov = s["old"][1][0]
                if isinstance(ov, str) != isinstance(x, str) or ov is None:
                    x = ov if ov is not None else 1
            # repeat the stored value often so that "holds" cases are well represented
            if s.get("old") and s["old"][0] == "leaf" and rng.random() < 0.35:
                x = s["old"][1][0]
            if op in ("ge", "le") and role != "dict":
                ov = s["old"][1][0] if s.get("old") and s["old"][0] == "leaf" else 0
                if ov is None or isinstance(ov, str) != isinstance(x, str):
                    op = "eq"
            if op in ("eq", "in") and rng.random() < 0.04:
                x = (NC, ncs)
                ncs += 1
            evs.append(["op", k, key, op, x])
        tests.append(evs)
    flags = sorted(c for c in common.CATS if rng.random() < 0.35)
    if rng.random() < 0.25:
        flags = []
    approved = sorted(c for c in common.CATS if rng.random() < 0.5) if rng.random() < 0.3 else list(flags)
    case = {"sites": sites, "tests": tests, "flags": flags, "approved": approved, "ncs": ncs,
            "orders": ncs == 0 and rng.random() < (0.15 if tier == "quick" else 0.25)}
    if rng.random() < 0.15:
        # an unrelated comparison that raises (C14 / C18: nothing of it may leak into the other call sites)
        kinds = [k for k, d in enumerate(DISTURB) for _ in range(4 if d.startswith("LOOP ") else 1)]
        case["disturb"] = {"kind": rng.choice(kinds), "test": rng.randrange(ntests), "orders": False}
        case["orders"] = False
    return case


def arg_src(old):
    if old is None:
        return ""
    kind, body = old[0], old[1]
    if kind == "leaf":
        return body[1]
    if kind == "coll":
        if len(old) > 2 and old[2] == "tuple":
            return "(" + ", ".join(e[1] for e in body) + ("," if len(body) == 1 else "") + ")"
        return "[" + ", ".join(e[1] for e in body) + "]"
    if kind == "dict":
        return "{" + ", ".join(f"{e[0]!r}: {e[2]}" for e in body) + "}"
    raise ValueError(kind)


def old_sx(old):
    if old is None:
        return "none"
    kind, body = old[0], old[1]
    if kind == "leaf":
        return ["leaf", val_sx(body[0]), body[2]]
    if kind == "coll":
        return ["coll"] + [[val_sx(e[0]), e[2]] for e in body]
    if kind == "dict":
        return ["dict"] + [[val_sx(e[0]), val_sx(e[1]), e[3]] for e in body]
    raise ValueError(kind)


PRELUDE = """\
from inline_snapshot import snapshot, Is
import copy
R = []
class NC_:
    def __init__(self, i): self.i = i
    def __eq__(self, other):
        return NotImplemented
    def __hash__(self): return self.i
    def __repr__(self): return f"NC_({self.i})"
NCS = [NC_(i) for i in range(%d)]
def rec(f):
    try:
        R.append(bool(f()))
    except Exception as e:
        R.append(type(e).__name__)
"""

OPSRC = {"eq": "{x} == {s}", "ge": "{x} <= {s}", "le": "{x} >= {s}", "in": "{x} in {s}"}

# comparisons that raise, at different depths of the machinery; their snapshot() calls are written at the END of the
# module (so the numbering of the modelled call sites is unchanged) and evaluated at the start of one test
DISTURB = [
    "[Item_(), 2] == snapshot([1, 2, 3])",            # raises while the lists are aligned (compare-only mode)
    "[2, Item_()] == snapshot([1, 2])",               # raises in the element comparison of equal-length lists
    "Item_() == snapshot(1)",                          # raises in the top-level comparison
    "{'a': Item_()} == snapshot({'a': 1, 'b': 2})",   # raises inside a dict value
    "5 <= snapshot('x')",                              # TypeError from the ordering
    "Item_() in snapshot([1])",                        # raises in the membership test
    "NC_(77) == snapshot(5)",                          # deepcopy is not equal to the original: UsageError
    "[Item_(), 2] == snapshot([snapshot(1), 2, 3])",  # nested snapshot reached only while aligning
    "snapshot(1)['k'] == 1",                           # wrong kind of use
    "(Item_(), 1) == snapshot((1,))",                 # tuple alignment
    # comparisons that hold, against arguments whose elements cannot be edited (no list / dict display)
    "assert 1 in snapshot({1, 2})",
    "assert 1 in snapshot(list((1, 2)))",
    "assert 'a' in snapshot('abc')",
    "assert 2 in snapshot([*[1, 2], 3])",
    "assert snapshot(dict(k=1))['k'] == 1",
    "assert snapshot({**{'a': 1}, 'k': 5})['a'] == 1",
    "assert snapshot([5, 6])[0] == 5",
    # the same call compared twice: the first comparison raises part-way through (after a change was already computed),
    # the second one completes
    "LOOP ({'a': 5, 'b': Item_()}, {'a': 5, 'b': 2}) == snapshot({'a': 1, 'b': 2})",
    "LOOP ([5, Item_()], [5, 2]) == snapshot([1, 2])",
    "LOOP ({'k': [5, Item_()]}, {'k': [5, 3]}, {'k': [5, 3]}) == snapshot({'k': [1, 2]})",
    "LOOP (Item_(), 4, 3) <= snapshot(5)",
    "LOOP (Item_(), 4, 3) in snapshot([5])",
    # user-controlled arguments outside the model: whatever is approved, the statement must come back verbatim (C10)
    "KEEP assert 'b' <= snapshot(f\"{'a'}\")",
    "KEEP assert 'a' >= snapshot(f\"{'b'}\")",
    "KEEP assert 'ax' == snapshot(f\"{'b'}x\")",
    "KEEP assert snapshot({'k': f\"{'a'}\"})['k'] >= 'b'",
    "KEEP assert [1, 5] == snapshot([Is(1), Is(2)])",
    "KEEP s_ = snapshot([f\"{'a'}\", Is(0+1)])",
    # comparisons that must simply work (no exception is swallowed for these): the same call evaluated twice
    "EXPECT for i_ in (1, 1):\n        assert snapshot({'a': Is(i_)})['a'] == i_",
    "EXPECT for i_ in (1, 1):\n        assert [i_, 2] == snapshot([Is(i_), 2])",
    "EXPECT for i_ in (1, 1):\n        assert i_ in snapshot([Is(1), 2])",
    # displays with star-expressions, never compared: nothing in them corresponds to a single value
    "KEEP s_ = snapshot([0+1, *XS_])",
    "KEEP s_ = snapshot({'a': 0+1, **DS_})",
    "KEEP s_ = snapshot((0+1, *XS_))",
]
DISTURB_DEF = """
XS_ = [2, 3]
DS_ = {'b': 2}
class Item_:
    x = 1
    def __eq__(self, other):
        return self.x == other.x
    def __repr__(self): return "Item_()"
def disturb():
    try:
        %s
    except Exception:
        pass
"""


def fix_case(case):
    """undo what a JSON round trip does to a case (tuples become lists)"""
    for evs in case["tests"]:
        for ev in evs:
            if ev[0] == "op" and isinstance(ev[4], list):
                ev[4] = tuple(ev[4])
    return case


def render(case):
    """-> (source text, model events) ; site i is the i-th snapshot call in source order"""
    fix_case(case)
    sites = case["sites"]
    lines = [PRELUDE % max(1, case["ncs"])]
    access = {}
    mod_snaps = []
    i = 0
    while i < len(sites):
        s = sites[i]
        a = arg_src(s["old"])
        if s["style"] == "fn":
            lines.append(f"def site{i}():\n    return snapshot({a})\n")
            access[i] = (f"site{i}()", [i])
        elif s["style"] == "lambda":
            lines.append(f"site{i} = lambda: snapshot({a})\n")
            access[i] = (f"site{i}()", [i])
        elif s["style"] == "mod":
            lines.append(f"S{i} = snapshot({a})\n")
            access[i] = (f"S{i}", [])
            mod_snaps.append(i)
        elif s["style"] == "pair":
            b = arg_src(sites[i + 1]["old"])
            lines.append(f"def site{i}():\n    return (snapshot({a}), snapshot({b}))\n")
            access[i] = (f"site{i}()[0]", [i, i + 1])
            access[i + 1] = (f"site{i}()[1]", [i, i + 1])
            i += 1
        i += 1
    events = [["snap", k, old_sx(sites[k]["old"])] for k in mod_snaps]
    boundaries = []
    dist = case.get("disturb")
    for t, evs in enumerate(case["tests"]):
        lines.append(f"def test_{t}():")
        events.append(["begin"])
        if dist and dist["test"] == t:
            lines.append("    disturb()")
        for ev in evs:
            if ev[0] == "touch":
                _, k, key = ev
                expr, snaps = access[k]
                lines.append(f"    rec(lambda: ({expr}[{key!r}], True)[1])")
                events.append(["stmt", [[j, old_sx(sites[j]["old"])] for j in snaps], ["touch", k, val_sx(key)]])
            else:
                _, k, key, op, x = ev
                expr, snaps = access[k]
                tgt = expr if key is None else f"{expr}[{key!r}]"
                lines.append("    rec(lambda: " + OPSRC[op].format(x=val_src(x), s=tgt) + ")")
                clone_ok = not (isinstance(x, tuple) and x and x[0] == NC)
                events.append(["stmt", [[j, old_sx(sites[j]["old"])] for j in snaps],
                               ["op", k, "-" if key is None else val_sx(key), op, val_sx(x), clone_ok]])
        lines.append("")
        boundaries.append(len(events))
    if dist:
        d = DISTURB[dist["kind"]]
        if d.startswith("LOOP "):
            vals, rest = d[5:].split(") ", 1)
            lines.append(DISTURB_DEF.replace("    try:\n        %s\n    except Exception:\n        pass\n",
                                             "    for v_ in %s):\n        try:\n            v_ %s\n        except Exception:\n            pass\n" % (vals, rest)))
        elif d.startswith("EXPECT "):
            lines.append(DISTURB_DEF.replace("    try:\n        %s\n    except Exception:\n        pass\n", "    " + d[7:] + "\n"))
        else:
            lines.append(DISTURB_DEF % (d[5:] if d.startswith("KEEP ") else d))
    return "\n".join(lines) + "\n", events, boundaries


def model_lines(case):
    """one driver line per test prefix, so that the counters after every test are observable"""
    src, events, boundaries = render(case)
    hdr = ["sites", ["flags"] + case["flags"], ["approved"] + case["approved"]]
    return [sx(hdr + events[:b]) for b in boundaries]


# ------------------------------------------------------------------ implementation side

def py_final(node_src):
    if node_src is None:
        return "noarg"
    v = eval(node_src, {"Is": lambda x: x})      # Is(v) compares like v
    return final_sx(v)


def final_sx(v):
    if isinstance(v, (set, frozenset)):
        return val_sx(frozenset(v))
    if isinstance(v, tuple) and not (v and v[0] == NC):
        v = list(v)
    if isinstance(v, list):
        return ["l"] + [val_sx(e) for e in v]
    if isinstance(v, dict):
        return ["d"] + [[val_sx(k), final_sx(w)] for k, w in v.items()]
    return val_sx(v)


def run_impl(case):
    from .. import impl_inline
    src, events, boundaries = render(case)
    obs = impl_inline.run_program({"test_case.py": src}, case["flags"], case["approved"])
    calls = impl_inline.snapshot_args(src)
    pos_to_site = {(ln, col): i for i, (ln, col, _a, _n) in enumerate(calls)}
    sites = {}
    nmodel = len(case["sites"])
    for s in obs["sites"]:
        k = pos_to_site.get((s["line"], s["col"]))
        if k is not None and k >= nmodel:
            continue                     # call sites of the disturbance (after all modelled ones)
        sites[k] = {"cats": s["cats"], "error": s["error"]}
    finals = {}
    after = obs["files_after"].get("test_case.py", "")
    try:
        for i, (_ln, _col, a, _n) in enumerate(impl_inline.snapshot_args(after)):
            if i >= nmodel:
                break
            try:
                finals[i] = py_final(a)
            except Exception as e:  # noqa: BLE001
                finals[i] = ["unevaluable", type(e).__name__]
    except SyntaxError as e:
        finals = {"syntax_error": str(e)}
    R = obs["R"][0][1] if obs["R"] else None
    plain = None
    if case.get("disturb"):
        # the same module without the raising comparison: the modelled call sites must end up exactly the same
        c2 = dict(case)
        c2["disturb"] = None
        o2 = run_impl(c2)
        plain = {"R": o2["R"], "finals": o2["finals"], "sites": o2["sites"], "errors": [o2["collect_errors"], o2["apply_error"], o2["import_error"]]}
    orders = None
    if case.get("orders") and not obs["collect_errors"] and not obs["apply_error"]:
        orders = run_orders(src, sorted({c for s_ in obs["sites"] for c in s_["cats"]}))
    return {"plain": plain, "orders": orders, "R": R, "tests": obs["tests"], "sites": sites, "finals": finals, "src": src, "after": after,
            "collect_errors": obs["collect_errors"], "apply_error": obs["apply_error"],
            "import_error": obs["import_error"], "problems": obs["problems"]}


def run_orders(src, pending):
    """C09: approve the pending categories one at a time in every order, and all at once"""
    import itertools
    from .. import impl_inline
    if len(pending) < 2 or len(pending) > 3:
        return None

    def final_dump(text):
        try:
            return [ast.dump(c[3]) for c in impl_inline.snapshot_args(text)]
        except SyntaxError as e:
            return ["syntax error: " + str(e)]
    out = {}
    r = impl_inline.run_program({"test_case.py": src}, pending, pending)
    out["together"] = final_dump(r["files_after"].get("test_case.py", "")) if not (r["apply_error"] or r["collect_errors"]) else ["error", r["apply_error"], r["collect_errors"]]
    for perm in itertools.permutations(pending):
        text = src
        err = None
        for c in perm:
            r = impl_inline.run_program({"test_case.py": text}, [c], [c])
            if r["apply_error"] or r["collect_errors"] or r["import_error"]:
                err = ["error", r["apply_error"], r["collect_errors"], r["import_error"]]
                break
            text = r["files_after"].get("test_case.py", "")
        out[",".join(perm)] = err or final_dump(text)
    return out


# ------------------------------------------------------------------ comparison model <-> implementation

def res_sx(r):
    if r is True or r is False:
        return ["r", r]
    return r


def compare(case, obs, model_out):
    """-> list of (observable, props, detail)"""
    diffs = []
    outs = [common.sx_parse(l) for l in model_out]
    if any(o == ["bad-op"] for o in outs):
        return [("protocol", ALLP, "driver answered bad-op")]
    last = outs[-1]
    mres = last[1][1:]
    ires = [common.sx_parse(sx(res_sx(r))) for r in (obs["R"] or [])]
    if "unsupported" in mres:
        return [("unsupported", [], "case outside model scope")]
    if obs["import_error"]:
        diffs.append(("import", ALLP, obs["import_error"]))
    if mres != ires:
        # attribute the disagreement: a UsageError concerns copying (C17), a TypeError the mixed-operation
        # rule (C06), a boolean the answer handed to the test (C06 without flags, C02/C07 with flags)
        props = set()
        if len(mres) != len(ires):
            props = {"C06", "C07", "C02", "C14", "C17"}
        for a, b in zip(mres, ires):
            if a != b:           # only the FIRST difference is attributed; later ones may be its consequence
                if props:
                    break
                if "UsageError" in (a, b):
                    props |= {"C17", "C14"}
                elif "TypeError" in (a, b):
                    props |= {"C06"}
                else:
                    props |= {"C06", "C02", "C07"} if not case["flags"] else {"C02", "C07"}
        diffs.append(("results", sorted(props), f"model {sx(mres)} impl {sx(ires)}"))
    # counters after every test
    dist_test = (case.get("disturb") or {}).get("test")
    for t, o in enumerate(outs):
        if t == dist_test:
            continue                 # the unrelated comparisons of the disturbance count into this test's counters
        mc = [int(o[2][1]), int(o[2][2])]
        it = obs["tests"][t] if t < len(obs["tests"]) else None
        ic = [it["missing"], it["incorrect"]] if it else None
        if mc != ic:
            diffs.append(("counters", ["C07"], f"test {t}: model {mc} impl {ic}"))
    msites = {int(s[1]): (s[2], s[3]) for s in last[3:]}
    for k, (mc, mf) in sorted(msites.items()):
        isite = obs["sites"].get(k)
        if isite is None:
            diffs.append(("site-missing", ["C14"], f"site {k} unknown to the implementation"))
            continue
        ic = "crash" if isite["error"] else isite["cats"]
        if mc != ic:
            diffs.append(("cats", ["C05", "C18"], f"site {k}: model {sx(mc)} impl {sx(ic)}"))
        if not obs["collect_errors"] and not obs["apply_error"] and isinstance(obs["finals"], dict) \
                and "syntax_error" not in obs["finals"]:
            fi = common.sx_parse(sx(obs["finals"].get(k)))
            if mf != fi:
                diffs.append(("final", ["C01", "C02", "C05", "C14", "C17"], f"site {k}: model {sx(mf)} impl {sx(fi)}"))
    extra = set(k for k in obs["sites"] if k is not None) - set(msites)
    if extra:
        diffs.append(("site-extra", ["C14"], f"implementation tracks unknown sites {sorted(extra)}"))
    if obs["apply_error"]:
        diffs.append(("apply", ["C18", "C03"], obs["apply_error"]))
    return diffs


ALLP = ["C01", "C02", "C05", "C06", "C07", "C14", "C17"]


# ------------------------------------------------------------------ direct oracles (no model involved)

def _plain(op, stored, x):
    if op == "eq":
        return x == stored
    if op == "ge":
        return x <= stored
    if op == "le":
        return x >= stored
    return x in stored


class _NCobj:
    def __eq__(self, other):
        return NotImplemented
    __hash__ = object.__hash__


def _pyval(x, ncs):
    if isinstance(x, tuple) and x and x[0] == NC:
        return ncs.setdefault(x[1], _NCobj())
    return x


def site_script(case):
    """per site: the list of (test index, key, op, value) it saw, in order"""
    per = {}
    for t, evs in enumerate(case["tests"]):
        for ev in evs:
            if ev[0] == "op":
                per.setdefault(ev[1], []).append((t, ev[2], ev[3], ev[4]))
    return per


def oracle(case, obs):
    """Property clauses evaluated on the implementation's observables only.
    -> list of (property, clause, detail)"""
    fails = []
    fix_case(case)
    flags, approved = set(case["flags"]), set(case["approved"])
    sites = case["sites"]
    R = obs["R"] or []
    ncs: dict = {}
    if case.get("disturb") and obs.get("plain"):
        pl = obs["plain"]
        what = DISTURB[case["disturb"]["kind"]]
        if what.startswith("EXPECT "):
            t_ = case["disturb"]["test"]
            raised = obs["tests"][t_]["raised"] if t_ < len(obs["tests"]) else None
            if raised and raised != "AssertionError":
                d_ = f"`{what[7:]}` (the same call evaluated twice with an equal value) raised {raised}"
                fails.append(("C14", "unchanged_argument_accumulates", d_))
                fails.append(("C10", "unmanaged_untouched", d_))
                fails.append(("C06", "transparent", d_))
        if what.startswith("KEEP ") and not (obs["collect_errors"] or obs["apply_error"] or obs["import_error"]) and what[5:] not in (obs.get("after") or ""):
            fails.append(("C10", "unmanaged_untouched", f"approved {sorted(approved)}: the user-controlled argument in `{what[5:]}` was altered: "
                          + repr([l for l in (obs.get("after") or "").splitlines() if "snapshot" in l][-1:])))
        if obs["collect_errors"] or obs["apply_error"] or obs["import_error"]:
            if not any(pl["errors"]):
                fails.append(("C18", "finish_total", f"with the raising comparison `{what}` in test {case['disturb']['test']}: {obs['collect_errors'] or obs['apply_error'] or obs['import_error']}"))
        else:
            jn = lambda x: common.sx_parse(sx(x)) if not isinstance(x, dict) else {str(k): common.sx_parse(sx(v)) for k, v in x.items()}
            if jn(pl["finals"]) != jn(obs["finals"]):
                d = f"a raising comparison `{what}` in test {case['disturb']['test']} changes what other call sites hold afterwards: without it {pl['finals']}, with it {obs['finals']}"
                fails.append(("C14", "no_leak_from_raising_comparison", d))
                if {"create", "fix"} <= approved:
                    fails.append(("C02", "repaired_after_earlier_failure", d))
            elif pl["R"] != R:
                fails.append(("C14", "no_leak_from_raising_comparison", f"a raising comparison `{what}` changes the answers of other comparisons: without it {pl['R']}, with it {R}"))
            elif {str(k): v for k, v in pl["sites"].items()} != {str(k): v for k, v in obs["sites"].items()}:
                fails.append(("C14", "no_leak_from_raising_comparison", f"a raising comparison `{what}` changes the categories reported for other call sites: without it {pl['sites']}, with it {obs['sites']}"))
    # flatten events in execution order with their result
    flat = []
    idx = 0
    for t, evs in enumerate(case["tests"]):
        for ev in evs:
            flat.append((t, ev, R[idx] if idx < len(R) else None))
            idx += 1
    first_kind = {}

    def stored_value(site):
        old = site["old"]
        if old is None:
            return ("missing",)
        if old[0] == "leaf":
            return ("v", old[1][0])
        if old[0] == "coll":
            return ("v", [e[0] for e in old[1]])
        return ("v", {e[0]: e[1] for e in old[1]})

    # ---- C06: no category flags => snapshot(v) behaves like v
    if not flags:
        for t, ev, r in flat:
            if ev[0] != "op":
                continue
            _, k, key, op, x = ev
            slot = (k, key)
            kind0 = first_kind.setdefault((k,), "dict" if key is not None else op)
            if key is not None:
                ck = first_kind.setdefault(slot, op)
            else:
                ck = kind0
            st = stored_value(sites[k])
            if st[0] == "missing" or isinstance(x, tuple):
                continue
            sv = st[1]
            if key is not None:
                if kind0 != "dict":
                    exp = "TypeError"
                elif not isinstance(sv, dict) or key not in sv:
                    continue
                else:
                    sv = sv[key]
                    exp = None
            else:
                exp = "TypeError" if kind0 == "dict" else None
            if exp is None and ck != op:
                exp = "TypeError"
            if exp is None:
                try:
                    exp = bool(_plain(op, sv, _pyval(x, ncs)))
                except TypeError:
                    continue   # the plain comparison raises: outside the scope of C06
            if r != exp:
                fails.append(("C06", "transparent", f"site {k} key {key!r} {op} {x!r}: got {r!r}, plain value gives {exp!r}"))

    # ---- C07: a test that executed an empty / failing snapshot has non-zero counters, and conversely
    wrong_in_test = {}
    holds_only = {}
    kinds = {}
    for t, ev, r in flat:
        if ev[0] != "op":
            continue
        _, k, key, op, x = ev
        top_kind = kinds.setdefault((k,), "dict" if key is not None else op)
        if (key is None) == (top_kind == "dict"):
            continue                      # TypeError path
        ck = kinds.setdefault((k, key), op)
        if ck != op:
            continue
        if r not in (True, False):
            holds_only[t] = False         # UsageError etc.: not a plain "all hold" test
            continue
        st = stored_value(sites[k])
        if st[0] == "missing":
            wrong_in_test.setdefault(t, f"site {k}: empty snapshot")
            continue
        sv = st[1]
        if key is not None:
            if key not in sv:
                wrong_in_test.setdefault(t, f"site {k}[{key!r}]: missing key")
                continue
            sv = sv[key]
        try:
            ok = bool(_plain(op, sv, _pyval(x, ncs)))
        except TypeError:
            holds_only[t] = False
            continue
        if not ok:
            wrong_in_test.setdefault(t, f"site {k} key {key!r}: {x!r} {op} {sv!r} fails")
    for t, info in enumerate(obs["tests"]):
        if t == (case.get("disturb") or {}).get("test"):
            continue                 # counters of this test include the disturbance's own comparisons
        nz = info["missing"] != 0 or info["incorrect"] != 0
        if t in wrong_in_test and not nz and info["raised"] is None:
            fails.append(("C07", "never_green", f"test_{t} flags={sorted(flags)}: {wrong_in_test[t]} but both counters are 0"))
        if t not in wrong_in_test and holds_only.get(t, True) and nz:
            touched_missing = any(ev[0] == "touch" and sites[ev[1]]["old"] is None or
                                  (ev[0] == "touch" and sites[ev[1]]["old"] and ev[2] not in {e[0] for e in sites[ev[1]]["old"][1]})
                                  for ev in case["tests"][t])
            if not touched_missing:
                fails.append(("C07", "no_false_failure", f"test_{t}: every snapshot holds but counters are ({info['missing']},{info['incorrect']})"))

    # ---- C09: every order of approving the pending categories ends in the same program
    od = obs.get("orders")
    if od:
        ref = od["together"]
        for k, v in od.items():
            if v != ref:
                fails.append(("C09", "order_independent", f"approving {k} one at a time gives {v}, all at once gives {ref}"))
                break
    # ---- C05: keys of a sub-snapshot dict: trim only removes keys that were never accessed
    if not (obs["collect_errors"] or obs["apply_error"]) and isinstance(obs["finals"], dict) and "syntax_error" not in obs["finals"]:
        for k, site in enumerate(sites):
            if site["role"] != "dict" or not site["old"]:
                continue
            evs = [ev for evs_ in case["tests"] for ev in evs_ if ev[1] == k]
            if not evs or any(ev[0] == "op" and ev[2] is None for ev in evs):
                continue          # never used, or used with another operation first (TypeError paths)
            accessed = {ev[2] for ev in evs}
            old_keys = [e[0] for e in site["old"][1]]
            cats = set(obs["sites"].get(k, {}).get("cats", []))
            fin = _unsx(obs["finals"].get(k))
            never = [kk for kk in old_keys if kk not in accessed]
            if never and "trim" not in cats:
                fails.append(("C05", "trim_reported_for_unaccessed_key", f"site {k}: keys {never} were never accessed, categories {sorted(cats)}"))
            if isinstance(fin, dict) and "trim" in approved:
                lost = [kk for kk in old_keys if kk in accessed and kk not in fin]
                if lost:
                    fails.append(("C05", "trim_keeps_accessed_keys", f"site {k}: accessed keys {lost} were removed by trim: {fin}"))

    # ---- C10: user-controlled elements of a collection (`Is(..)`, f-strings) keep their text, whatever is approved;
    #      they may only disappear with their element (trim of a member that was never tested)
    if not (obs["collect_errors"] or obs["apply_error"]) and obs.get("after"):
        try:
            from .. import impl_inline
            args_after = [a for (_l, _c, a, _n) in impl_inline.snapshot_args(obs["after"])]
        except SyntaxError:
            args_after = None
        if args_after is not None:
            for k, site in enumerate(sites):
                if not site["old"] or site["old"][0] != "coll" or k >= len(args_after):
                    continue
                tested = [ev[4] for evs_ in case["tests"] for ev in evs_ if ev[0] == "op" and ev[1] == k and ev[3] == "in"]
                for e in site["old"][1]:
                    if len(e) > 3 and e[3] == "locked":
                        kept = (args_after[k] or "").replace(" ", "")
                        may_vanish = "trim" in approved and not any(x == e[0] for x in tested if not isinstance(x, tuple))
                        if e[1].replace(" ", "") not in kept and not may_vanish:
                            fails.append(("C10", "unmanaged_untouched", f"site {k}: user-controlled element {e[1]} of snapshot({arg_src(site['old'])}) was altered: "
                                          f"{args_after[k]!r} (approved {sorted(approved)}, tested {tested!r})"))
    # ---- C18: collecting and applying the changes finishes without an internal error
    if obs["collect_errors"] or obs["apply_error"]:
        fails.append(("C18", "finish_total", f"flags {sorted(flags)} approved {sorted(approved)}: collect {obs['collect_errors']} apply {obs['apply_error']}"))
    # ---- value-level clauses per site (C01 create, C05 categories, C14 aggregation, C17 clone)
    if obs["collect_errors"] or obs["apply_error"] or not isinstance(obs["finals"], dict) or "syntax_error" in obs["finals"]:
        return fails
    per = site_script(case)
    for k, script in per.items():
        site = sites[k]
        role_kind = None
        consistent = True
        seen = []
        for (t, key, op, x) in script:
            kk = "dict" if key is not None else op
            if role_kind is None:
                role_kind = kk
            elif role_kind != kk:
                consistent = False
            seen.append((key, op, x))
        if not consistent or role_kind == "dict":
            continue
        if any(isinstance(x, tuple) for (_k, _o, x) in seen):
            continue
        if any(isinstance(x, frozenset) for (_k, _o, x) in seen) and (len(seen) != 1 or role_kind not in ("ge", "le")):
            continue        # set inclusion is a partial order: the aggregation clauses assume a total one (scope of C05/C06);
                            # a single observation against the stored bound is judged like any other
        fin = obs["finals"].get(k)
        cats = set(obs["sites"].get(k, {}).get("cats", []))
        xs = [x for (_k, _o, x) in seen]
        op = role_kind
        st = stored_value(site)
        if st[0] == "missing":
            # C01 / C05-create: create fills the missing value with one that makes the comparisons hold
            if "create" not in cats:
                fails.append(("C05", "create_reported_for_missing", f"site {k}: empty snapshot used with {op}, categories {sorted(cats)}"))
            if "create" in approved:
                val = _unsx(fin)
                if val is _NOARG:
                    fails.append(("C01", "create_writes", f"site {k}: create approved but no argument was written"))
                else:
                    good = True
                    try:
                        if op == "eq":
                            good = xs[0] == val
                        else:
                            good = all(_plain(op, val, x) for x in xs)
                    except TypeError:
                        good = True
                    if not good:
                        fails.append(("C01", "created_value_holds", f"site {k}: wrote {val!r}, observed {xs!r} with {op}"))
                    # C14 aggregation: the extreme / the union
                    if op == "ge" and val != max(xs) or op == "le" and val != min(xs):
                        fails.append(("C14", "aggregate_extreme", f"site {k}: wrote {val!r} for observations {xs!r} ({op})"))
                    if op == "in" and (not isinstance(val, list) or any(x not in val for x in xs) or any(v not in xs for v in val)):
                        fails.append(("C14", "aggregate_union", f"site {k}: wrote {val!r} for observations {xs!r}"))
            else:
                if _unsx(fin) is not _NOARG:
                    fails.append(("C05", "create_not_approved_not_written", f"site {k}: create not approved but argument {fin!r} appeared"))
            continue
        sv = st[1]
        val = _unsx(fin)
        try:
            holds = [bool(_plain(op, sv, x)) for x in ([xs[0]] if op == "eq" else xs)]
        except TypeError:
            continue
        # fix is reported exactly when some comparison against the current value fails
        if ("fix" in cats) != (not all(holds)):
            fails.append(("C05", "fix_reported_iff", f"site {k}: stored {sv!r}, observed {xs!r} ({op}); categories {sorted(cats)}"))
        if "create" in cats:
            fails.append(("C05", "create_keeps_existing", f"site {k}: create reported for an existing value"))
        if "fix" not in approved and "trim" not in approved:
            # only update may have been applied: the value must be unchanged
            if val != sv:
                fails.append(("C05", "update_keeps_value", f"site {k}: value {sv!r} became {val!r} without fix/trim approved ({sorted(approved)})"))
        if "fix" in approved and "fix" in cats:
            try:
                ok = xs[0] == val if op == "eq" else all(_plain(op, val, x) for x in xs)
            except TypeError:
                ok = True
            if not ok:
                fails.append(("C05", "fix_applied_all_hold", f"site {k}: after fix {val!r}, observed {xs!r} ({op})"))
        if op in ("ge", "le", "in") and all(holds):
            if op == "in":
                slack = [v for v in sv if v not in xs]
                tight = [v for v in sv if v in xs]
            else:
                ext = max(xs) if op == "ge" else min(xs)
                slack = [] if sv == ext else [sv]
                tight = ext
            if ("trim" in cats) != bool(slack):
                fails.append(("C05", "trim_reported_iff", f"site {k}: stored {sv!r}, observed {xs!r} ({op}); categories {sorted(cats)}"))
            if "trim" in approved and slack:
                if val != tight:
                    fails.append(("C05", "trim_tightest", f"site {k}: trim gave {val!r}, tightest is {tight!r}"))
    return fails


_NOARG = object()


def _unsx(f):
    """final (s-expression as python lists) -> python value"""
    if f == "noarg" or f is None:
        return _NOARG
    if f == "n":
        return None
    if isinstance(f, list):
        if f[0] == "b":
            return bool(f[1])
        if f[0] == "i":
            return int(f[1])
        if f[0] == "s":
            return "".join(chr(int(c)) for c in f[1:])
        if f[0] == "ps":
            return frozenset(i for i in range(16) if int(f[1]) >> i & 1)
        if f[0] == "l":
            return [_unsx(e) for e in f[1:]]
        if f[0] == "d":
            return {_unsx(k): _unsx(v) for k, v in f[1:]}
    return f


def nontrivial(case, obs):
    """a case counts as non-trivial when something is pending for at least one site"""
    return any(s["cats"] for s in obs["sites"].values())


def signature(case):
    return common.sha(repr((case["sites"], case["tests"], case["flags"], case["approved"])))


def histogram(case, obs, hist):
    if case.get("disturb"):
        hist["disturb:%d" % case["disturb"]["kind"]] = hist.get("disturb:%d" % case["disturb"]["kind"], 0) + 1
    hist["flags:" + ",".join(case["flags"])] = hist.get("flags:" + ",".join(case["flags"]), 0) + 1
    for s in case["sites"]:
        hist["role:" + s["role"]] = hist.get("role:" + s["role"], 0) + 1
        hist["style:" + s["style"]] = hist.get("style:" + s["style"], 0) + 1
        hist["old:" + ("none" if s["old"] is None else s["old"][0])] = hist.get("old:" + ("none" if s["old"] is None else s["old"][0]), 0) + 1
    for s in obs["sites"].values():
        for c in s["cats"]:
            hist["cat:" + c] = hist.get("cat:" + c, 0) + 1
    for r in obs["R"] or []:
        hist["res:" + str(r)] = hist.get("res:" + str(r), 0) + 1
