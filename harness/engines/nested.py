"""Engine `nested` (C18, C02, C08, C06): snapshot() calls nested inside the argument of another snapshot().

The outer argument is a tree of list / tuple / dict displays (the `assign` engine's trees, optionally inside
redundant parentheses) in which random sub-expressions are wrapped into an inner `snapshot(...)` or replaced
by an empty `snapshot()`.  The test compares a derived value with it once or twice (loop).  The new value is
obtained by edits, so inner snapshots get replaced together with their parent, deleted with their element,
reached only while the lists are aligned, or compared for real.

Model voice: with no category flag an inner `snapshot(v)` is `Unmanaged` and answers like `v`
(`Assign.Val.unmIs`): the result of the comparison and the untouched tree are compared with Model/Assign.lean.
With flags the inner call sites are stateful (`EqValue` inside `EqValue`) and outside the Lean model: those
cases are judged by the direct oracles only and serve the failing-input search:
  C18  no internal error while collecting / applying, the edits of the file do not overlap, the file parses
  C02  create+fix approved: the rewritten test passes with inline-snapshot disabled (snapshot = identity)
  C08  the same run a second time changes nothing
"""
from __future__ import annotations

import ast
import contextlib
import copy
import io

from .. import common
from ..common import sx
from . import assign as A

NAME = "nested"


def wrap(rng, e, p, top=False):
    t = e["t"]
    if t in ("L", "T"):
        e = dict(e, es=[wrap(rng, x, p) for x in e["es"]])
    elif t == "D":
        e = dict(e, es=[(k, wrap(rng, x, p)) for k, x in e["es"]])
    if top:
        return e
    r = rng.random()
    if r < p:
        return {"t": "snap", "e": e}
    if r < p * 1.25:
        return {"t": "snap", "e": None}
    return e


def has_snap(e):
    t = e["t"]
    if t == "snap":
        return True
    if t in ("L", "T"):
        return any(has_snap(x) for x in e["es"])
    if t == "D":
        return any(has_snap(x) for _k, x in e["es"])
    return False


def has_empty(e):
    t = e["t"]
    if t == "snap":
        return e["e"] is None or has_empty(e["e"])
    if t in ("L", "T"):
        return any(has_empty(x) for x in e["es"])
    if t == "D":
        return any(has_empty(x) for _k, x in e["es"])
    return False


def value(e):
    t = e["t"]
    if t == "snap":
        return 0 if e["e"] is None else value(e["e"])
    if t == "leaf":
        return e["v"]
    if t == "L":
        return [value(x) for x in e["es"]]
    if t == "T":
        return tuple(value(x) for x in e["es"])
    if t == "D":
        return {k: value(x) for k, x in e["es"]}
    raise ValueError(t)


def render(e):
    n = e.get("paren", 0)
    return "(" * n + render0(e) + ")" * n


def render0(e):
    t = e["t"]
    if t == "snap":
        return "snapshot(" + ("" if e["e"] is None else render(e["e"])) + ")"
    if t == "L":
        return "[" + ", ".join(render(x) for x in e["es"]) + "]"
    if t == "T":
        return "(" + ", ".join(render(x) for x in e["es"]) + ("," if len(e["es"]) == 1 else "") + ")"
    if t == "D":
        return "{" + ", ".join(f"{A.lit(k)}: {render(x)}" for k, x in e["es"]) + "}"
    return A.render0(e)


def gen(rng, tier, shape=None):
    ctr = A.Ctr()
    depth = rng.choice([1, 2, 2, 3])
    v = A.rand_val(rng, depth)
    if not isinstance(v, (list, tuple, dict)) and rng.random() < 0.85:
        v = [A.rand_val(rng, depth - 1) for _ in range(rng.randint(1, 4))]
    e = A.mk_expr(rng, v, ctr, p_unm=0.0, p_hand=rng.choice([0.3, 0.6, 0.9]), p_star=0.0, top=True)
    for _ in range(4):
        w = wrap(rng, copy.deepcopy(e), rng.choice([0.15, 0.3, 0.5]), top=rng.random() < 0.85)
        if has_snap(w):
            break
    e = w
    r = rng.random()
    new = value(e) if r < 0.15 else A.mutate_val(rng, value(e)) if r < 0.9 else A.rand_val(rng, 2)
    r = rng.random()
    if r < 0.25:
        flags = []
    elif r < 0.55:
        flags = ["create", "fix"]
    elif r < 0.8:
        flags = ["create", "fix", "trim", "update"]
    else:
        flags = sorted(c for c in common.CATS if rng.random() < 0.5)
    return {"expr": e, "new": new, "flags": flags, "loop": rng.choice([1, 1, 2]), "twice": rng.random() < 0.3}


PRELUDE_ON = "from inline_snapshot import snapshot\n"
PRELUDE_OFF = "def snapshot(x=...):\n    return x\n"
BODY = '''R = []
NEW = {new!r}

def test_a():
    for _ in range({loop}):
        try:
            R.append(bool(NEW == snapshot({arg})))
        except Exception as e:
            R.append(type(e).__name__)
'''


def program(arg, case, on=True):
    return (PRELUDE_ON if on else PRELUDE_OFF) + BODY.format(new=case["new"], loop=case["loop"], arg=arg)


def to_assign_expr(e):
    """inner snapshot(v) -> Is(v) for the flag-less model comparison"""
    t = e["t"]
    if t == "snap":
        return {"t": "unm", "kind": "is", "tok": 999, "v": value(e)}
    if t in ("L", "T"):
        return dict(e, es=[to_assign_expr(x) for x in e["es"]])
    if t == "D":
        return dict(e, es=[(k, to_assign_expr(x)) for k, x in e["es"]])
    return e


def model_lines(case):
    e = case["expr"]
    if case["flags"] or has_empty(e) or e["t"] == "snap":
        return [sx(["assign", ["flags"], ["leaf", 0, True, A.val_sx(0)], A.val_sx(0)])]     # placeholder: outside the model
    return [sx(["assign", ["flags"], A.expr_sx(to_assign_expr(e)), A.val_sx(case["new"])])]


def node_paths(src):
    """position -> path of child indices, from the outermost snapshot(...) call (the root container)"""
    tree = ast.parse(src)
    calls = [n for n in ast.walk(tree) if isinstance(n, ast.Call) and isinstance(n.func, ast.Name) and n.func.id == "snapshot"]
    calls.sort(key=lambda n: (n.lineno, n.col_offset))
    out = {}

    def kids(n):
        if isinstance(n, (ast.List, ast.Tuple)):
            return list(n.elts)
        if isinstance(n, ast.Dict):
            return list(n.values)
        if isinstance(n, ast.Call):
            return list(n.args) + [k.value for k in n.keywords]
        return []

    def walk(n, path):
        out[(type(n).__name__, n.lineno, n.col_offset, n.end_lineno, n.end_col_offset)] = path
        for i, k in enumerate(kids(n)):
            walk(k, path + [i])
    if calls:
        walk(calls[0], [])
    return out


def spy_edits(src, spy):
    """-> (edits handed to apply_all, edits it went on with) as lists of [kind, *path]; None if a node is unknown"""
    paths = node_paths(src)
    given, applied = [], []
    kind = {"Replace": "r", "Delete": "d", "ListInsert": "i", "DictInsert": "i", "CallArg": "i"}
    for name, _flag, pos in spy["given"]:
        p = paths.get(tuple(pos))
        if p is None or name not in kind:
            return None, None
        given.append([kind[name]] + p)
    for pos in spy["replaced"]:
        p = paths.get(tuple(pos))
        if p is None:
            return None, None
        applied.append(["r"] + p)
    for q in spy["seq"]:
        p = paths.get(tuple(q["parent"]))
        if p is None:
            return None, None
        applied += [["d"] + p + [i] for i in q["deleted"]]
        if q["insert_at"]:
            applied.append(["i"] + p)
    return given, applied


def model_lines_obs(case, obs):
    """second line: the changes the real run handed to apply_all, for Model/Nest.lean (`survivors`)"""
    lines = model_lines(case)
    a = obs["first"]
    if a.get("spied") and a.get("given") is not None:
        lines.append(sx(["nest"] + a["given"]))
    return lines


def one_run(src, flags, spy=False):
    from .. import impl_inline
    r = impl_inline.run_program({"test_case.py": src}, flags, flags, spy=spy)
    after = r["files_after"].get("test_case.py", "")
    out = {"R": r["R"][0][1] if r["R"] else None, "cats": sorted({c for s in r["sites"] for c in s["cats"]}),
           "errors": [r["import_error"], r["apply_error"], r["collect_errors"]], "after": after, "raised": [t["raised"] for t in r["tests"]]}
    if spy and r.get("spy"):
        out["given"], out["applied"] = spy_edits(src, r["spy"])
        out["spied"] = True
    try:
        calls = impl_inline.snapshot_args(after)
        out["arg"] = calls[0][2] if calls else None
        ast.parse(after)
    except Exception as ex:  # noqa: BLE001
        out["arg"] = None
        out["syntax"] = type(ex).__name__ + ": " + str(ex)
    return out


def run_impl(case):
    arg0 = render(case["expr"])
    src = program(arg0, case)
    a = one_run(src, case["flags"], spy=True)
    obs = {"arg0": arg0, "first": a}
    if a.get("arg") is not None and not any(a["errors"][:2]) and not a["errors"][2]:
        g: dict = {}
        try:
            with contextlib.redirect_stdout(io.StringIO()):
                exec(compile(program(a["arg"], case, on=False), "<rerun>", "exec"), g)
                g["test_a"]()
            obs["rerun_disabled"] = g["R"]
        except Exception as ex:  # noqa: BLE001
            obs["rerun_disabled"] = type(ex).__name__ + ": " + str(ex)[:80]
        if case["twice"]:
            obs["second"] = one_run(a["after"], case["flags"])
    return obs


def compare_survivors(case, obs, model_out):
    a = obs["first"]
    if not a.get("spied"):
        return []
    if a.get("given") is None:
        return [("survivors", ["C18"], "a change refers to a node that is not part of the outer snapshot call")]
    if len(model_out) < 2:
        return [("protocol", ["C18"], "no answer for the nest line")]
    o = common.sx_parse(model_out[1])
    if o == ["bad-op"]:
        return [("protocol", ["C18"], "bad-op")]
    norm = lambda es: sorted({tuple(str(x) for x in e) for e in es})
    m, i = norm(o[1:]), norm(a["applied"])
    if m != i:
        return [("survivors", ["C18"], f"{case['new']!r} == snapshot({obs['arg0']}) flags {case['flags']}: changes {a['given']}; model goes on with {m}, apply_all with {i}")]
    return []


def compare(case, obs, model_out):
    return compare_tree(case, obs, model_out) + compare_survivors(case, obs, model_out)


def compare_tree(case, obs, model_out):
    e = case["expr"]
    if case["flags"] or has_empty(e) or e["t"] == "snap":
        return []
    o = common.sx_parse(model_out[0])
    if o == ["bad-op"]:
        return [("protocol", ["C06"], "bad-op")]
    a = obs["first"]
    if any(a["errors"][:2]) or a["errors"][2]:
        return [("impl-error", ["C18"], str(a["errors"]))]
    diffs = []
    meq_old = o[2][1] == "1"
    if a["R"] != [meq_old] * case["loop"]:
        diffs.append(("result", ["C06"], f"no flags: model answers {meq_old}, implementation {a['R']} for {case['new']!r} == snapshot({obs['arg0']})"))
    if a["after"] != program(obs["arg0"], case):
        diffs.append(("tree", ["C04", "C06"], "file changed although no category is approved"))
    return diffs


def oracle(case, obs):
    fails = []
    a = obs["first"]
    what = f"{case['new']!r} == snapshot({obs['arg0']}) x{case['loop']} flags {case['flags']}"
    if any(a["errors"][:2]) or a["errors"][2]:
        fails.append(("C18", "finish_total", f"{what}: {a['errors']}"))
        return fails
    if a.get("syntax"):
        fails.append(("C18", "finish_total", f"{what}: rewritten file does not parse: {a['syntax']}"))
        fails.append(("C03", "valid_python", f"{what}: rewritten file does not parse: {a['syntax']}"))
        return fails
    fl = set(case["flags"])
    if {"create", "fix"} <= fl:
        if obs.get("rerun_disabled") != [True] * case["loop"]:
            fails.append(("C02", "fix_repairs", f"{what}: rewritten to {a.get('arg')!r}; with inline-snapshot disabled the test gives {obs.get('rerun_disabled')!r}"))
    b = obs.get("second")
    if b is not None:
        if any(b["errors"][:2]) or b["errors"][2]:
            fails.append(("C18", "finish_total", f"second run of {what} on {a.get('arg')!r}: {b['errors']}"))
        else:
            if b["after"] != a["after"]:
                fails.append(("C08", "rerun_noop", f"{what}: first run wrote {a.get('arg')!r}, the same run again {b.get('arg')!r}"))
            if {"create", "fix"} <= fl and ({"create", "fix"} & set(b["cats"])):
                fails.append(("C08", "nothing_pending", f"{what}: after {a.get('arg')!r} the second run still reports {b['cats']}"))
    return fails


def nontrivial(case, obs):
    return bool(obs["first"]["cats"]) or not case["flags"]


def signature(case):
    return common.sha(repr((case["expr"], case["new"], case["flags"], case["loop"], case["twice"])))


def histogram(case, obs, hist):
    a_ = obs["first"]
    if a_.get("spied") and a_.get("given") is not None:
        dropped = len({tuple(e) for e in a_["given"]}) - len({tuple(e) for e in a_["applied"]})
        hist["apply_all:dropped>0" if dropped > 0 else "apply_all:dropped=0"] = hist.get("apply_all:dropped>0" if dropped > 0 else "apply_all:dropped=0", 0) + 1
    hist["flags:" + ",".join(case["flags"])] = hist.get("flags:" + ",".join(case["flags"]), 0) + 1
    hist["loop:%d" % case["loop"]] = hist.get("loop:%d" % case["loop"], 0) + 1
    for c in obs["first"]["cats"]:
        hist["cat:" + c] = hist.get("cat:" + c, 0) + 1

    def walk(e):
        hist["node:" + e["t"]] = hist.get("node:" + e["t"], 0) + 1
        if e["t"] == "snap":
            hist["snap:" + ("empty" if e["e"] is None else "value")] = hist.get("snap:" + ("empty" if e["e"] is None else "value"), 0) + 1
            if e["e"] is not None:
                walk(e["e"])
        for x in (e.get("es") or []):
            walk(x[1] if isinstance(x, tuple) else x)
    walk(case["expr"])
