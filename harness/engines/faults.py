"""Engine `faults` (C15): fault injection on the path from "changes computed" to "files written".

A project of 1-3 test files with pending creates (some with outsourced data) is run in a real session while a
conftest-level plugin makes the n-th call of one primitive fail inside `pytest_sessionfinish`:
  parse   ast.parse (the plugin's check of the new code)        rename  Path.rename (persist of an external)
  open    open(file, "bw") before truncation                    write   the write after truncation
  read    Path.read_text                                        black_raise / fmt_exit / fmt_garbage  formatter faults
Observed: every test file afterwards, the storage directory, whether a problem was reported.
Model voice: `crashAt` of Model/Finish.lean at the step the fault maps to.  Direct oracle: every test file is
byte-identical to its previous or to its complete new content (from a fault-free reference run), it compiles,
and after a simulated next session start no test file refers to data that is gone.
"""
from __future__ import annotations

import ast
import hashlib

from .. import common
from ..common import sx

NAME = "faults"

CONFTEST = r'''
import os, pytest

FAULT = os.environ.get("VT_FAULT", "")

@pytest.hookimpl(tryfirst=True)
def pytest_sessionfinish(session, exitstatus):
    kind, _, n = FAULT.partition(":")
    if not kind:
        return
    n = int(n or 0)
    import ast as _ast, builtins, pathlib
    import inline_snapshot.pytest_plugin as P
    import inline_snapshot._rewrite_code as RC
    count = {"n": 0}
    def trip():
        i = count["n"]; count["n"] += 1
        return i == n
    if kind == "parse":
        class A:
            def __getattr__(self, k): return getattr(_ast, k)
            def parse(self, *a, **kw):
                if trip(): raise RuntimeError("injected fault: ast.parse")
                return _ast.parse(*a, **kw)
        P.ast = A()
    elif kind == "rename":
        orig = pathlib.Path.rename
        def rename(self, target):
            if trip(): raise OSError("injected fault: rename")
            return orig(self, target)
        pathlib.Path.rename = rename
    elif kind == "read":
        orig_rt = pathlib.Path.read_text
        def read_text(self, *a, **kw):
            if str(self).endswith(".py") and trip(): raise OSError("injected fault: read_text")
            return orig_rt(self, *a, **kw)
        pathlib.Path.read_text = read_text
    elif kind in ("open", "write"):
        orig_open = builtins.open
        def open_(file, mode="r", *a, **kw):
            if mode == "bw" and str(file).endswith(".py"):
                if kind == "open":
                    if trip(): raise OSError("injected fault: open")
                    return orig_open(file, mode, *a, **kw)
                f = orig_open(file, mode, *a, **kw)
                if trip():
                    f.close()
                    raise OSError("injected fault: write")
                return f
            return orig_open(file, mode, *a, **kw)
        RC.open = open_
    elif kind == "black_raise":
        import black
        def boom(*a, **k):
            raise RuntimeError("injected fault: black")
        black.format_str = boom
'''

KINDS = ["parse", "rename", "open", "write", "read", "black_raise", "fmt_exit", "fmt_empty", "fmt_garbage", "none"]


def gen(rng, tier, shape=None):
    nfiles = rng.randint(1, 3)
    files = []
    for i in range(nfiles):
        ext = rng.random() < 0.5
        files.append({"external": ext, "data": f"payload-{rng.randint(0, 50)}-{i}", "value": rng.randint(0, 99),
                      "clean": rng.random() < 0.5})
    kind = rng.choice(KINDS)
    return {"files": files, "kind": kind, "n": rng.randint(0, 3), "hash_length": rng.choice([None, None, 64, 20])}


def file_src(f):
    if f["external"]:
        body = f"from inline_snapshot import snapshot, outsource\n\n\ndef test_x():\n    assert outsource({f['data']!r}) == snapshot()\n"
    else:
        body = f"from inline_snapshot import snapshot\n\n\ndef test_x():\n    assert {f['value']} == snapshot()\n"
    if not f["clean"]:
        body = body.replace("\n\n\ndef", "\ndef") + "x=1\n"
    return body


def project(case):
    return {f"test_{chr(97 + i)}.py": file_src(f) for i, f in enumerate(case["files"])}


def pyproject(case):
    hl = f"hash-length={case['hash_length']}\n" if case.get("hash_length") else ""      # 64: references carry the full hash, no `*`
    if case["kind"] == "fmt_exit":
        return "[tool.inline-snapshot]\n" + hl + "format-command=\"python3 -c 'import sys; sys.exit(3)'\"\n"
    if case["kind"] == "fmt_empty":
        # exit status 0 but nothing on stdout (a command that formats the file in place, `true`, ...)
        return "[tool.inline-snapshot]\n" + hl + "format-command=\"python3 -c 'pass'\"\n"
    if case["kind"] == "fmt_garbage":
        return "[tool.inline-snapshot]\n" + hl + "format-command=\"echo 'def broken(:'\"\n"
    return ("[tool.inline-snapshot]\n" + hl) if hl else ""


def model_lines(case):
    return []


def refs_in(text):
    out = []
    try:
        tree = ast.parse(text)
    except SyntaxError:
        return None
    for n in ast.walk(tree):
        if isinstance(n, ast.Call) and isinstance(n.func, ast.Name) and n.func.id == "external" and n.args and isinstance(n.args[0], ast.Constant):
            out.append(n.args[0].value)
    return out


def run_impl(case):
    from .. import impl_pytest
    files = project(case)
    py = pyproject(case)
    base = dict(files)
    base["conftest.py"] = CONFTEST
    py_ref = (f"[tool.inline-snapshot]\nhash-length={case['hash_length']}\n" if case.get("hash_length") else "")     # same project, no fault
    ref = impl_pytest.run_session(base, ["--inline-snapshot=create"], {}, pyproject=(py_ref if case["kind"].startswith("fmt_") else py))
    env = {} if case["kind"] in ("none", "fmt_exit", "fmt_empty", "fmt_garbage") else {"VT_FAULT": f"{case['kind']}:{case['n']}"}
    r = impl_pytest.run_session(base, ["--inline-snapshot=create"], env, pyproject=py)
    obs = {"rc": r["rc"], "traceback": "Traceback" in r["stderr"] or "injected fault" in r["stderr"],
           "injected": "injected fault" in (r["stderr"] + r["stdout"]), "problems": "Problems" in r["stdout"],
           "stderr": r["stderr"][-800:], "files": {}, "store": [], "ref_store": []}
    for name in files:
        obs["files"][name] = {"old": files[name], "new": ref["files"].get(name, b"").decode(), "now": r["files"].get(name, b"").decode()}
    obs["store"] = sorted(k.split("/")[-1] for k in r["files"] if "/external/" in k and not k.endswith(".gitignore"))
    obs["ref_store"] = sorted(k.split("/")[-1] for k in ref["files"] if "/external/" in k and not k.endswith(".gitignore"))
    return obs


def fault_step(case, steps):
    """index k of the model step at which the injected fault stops the pipeline (None = no crash expected)"""
    kind, n = case["kind"], case["n"]
    def nth(pred):
        idx = [i for i, s in enumerate(steps) if pred(s)]
        return idx[n] if n < len(idx) else None
    if kind == "parse":
        return nth(lambda s: s[0] == "compute")
    if kind == "rename":
        return nth(lambda s: s[0] == "persist")
    if kind == "open":
        return nth(lambda s: s[0] == "truncate")
    if kind == "write":
        k = nth(lambda s: s[0] == "truncate")
        return None if k is None else k + 1
    if kind == "fmt_garbage":
        return 0
    return None


def compare(case, obs, model_out):
    """model: which files are old / new / empty after the fault"""
    if case["kind"] == "read":
        return []            # read_text is called in several places; only the direct oracle applies
    jobs = []
    for i, f in enumerate(case["files"]):
        refs = []
        if f["external"]:
            h = hashlib.sha256(f["data"].encode()).hexdigest()
            hl = case.get("hash_length") or 12
            refs.append([["h"] + [int(c, 16) for c in h[:hl]], hl < 64, 1])
        jobs.append([i] + refs)
    store = []
    for i, f in enumerate(case["files"]):
        if f["external"]:
            h = hashlib.sha256(f["data"].encode()).hexdigest()
            e = [["h"] + [int(c, 16) for c in h], True, 1, i + 1]
            if e not in store:
                store.append(e)
    drv = common.Driver()
    steps = common.sx_parse(drv.run([sx(["plan", ["jobs"] + jobs])])[0])[1:]
    k = fault_step(case, steps)
    if k is None:
        k = len(steps)
    out = common.sx_parse(drv.run([sx(["finish", k, ["jobs"] + jobs, ["store"] + store])])[0])
    if out == ["bad-op"]:
        return [("protocol", ["C15"], "bad-op")]
    diffs = []
    mfiles = {int(p[0]): p[1] for p in out[1][1:]}
    for i, name in enumerate(sorted(obs["files"])):
        fo = obs["files"][name]
        if case["kind"] in ("black_raise", "fmt_exit", "fmt_empty"):
            state = "old" if fo["now"] == fo["old"] else "new"      # degraded formatting: new content, other layout
        else:
            state = "old" if fo["now"] == fo["old"] else "new" if fo["now"] == fo["new"] else "empty" if fo["now"] == "" else "other"
        if mfiles.get(i) != state:
            diffs.append(("file-state", ["C15"], f"{case['kind']}:{case['n']} file {name}: model {mfiles.get(i)} impl {state}"))
    mpersisted = sorted("".join("%x" % int(d) for d in e[0][1:]) for e in out[2][1:] if e[1] == "0")
    ipersisted = sorted(n.split(".")[0] for n in obs["store"] if "-new" not in n)
    if mpersisted != ipersisted:
        diffs.append(("persisted-set", ["C15", "C13"], f"{case['kind']}:{case['n']}: model {mpersisted} impl {ipersisted}"))
    return diffs


def oracle(case, obs):
    fails = []
    degrade = case["kind"] in ("black_raise", "fmt_exit", "fmt_empty")
    for name, fo in obs["files"].items():
        now = fo["now"]
        if now != fo["old"] and now != fo["new"]:
            if degrade:
                try:
                    compile(now, name, "exec")
                    a1 = [ast.dump(n) for n in ast.walk(ast.parse(now)) if isinstance(n, ast.Call) and getattr(n.func, "id", None) == "snapshot"]
                    a2 = [ast.dump(n) for n in ast.walk(ast.parse(fo["new"])) if isinstance(n, ast.Call) and getattr(n.func, "id", None) == "snapshot"]
                    if a1 != a2:
                        fails.append(("C15", "formatter_failure_degrades", f"{case['kind']}: {name} has other snapshot values than the reference run"))
                except SyntaxError as e:
                    fails.append(("C15", "formatter_failure_degrades", f"{case['kind']}: {name} does not compile: {e}"))
            else:
                fails.append(("C15", "old_or_new", f"fault {case['kind']}:{case['n']}: {name} is neither its previous nor its complete new content: {now[:120]!r}"))
        else:
            try:
                compile(now, name, "exec")
            except SyntaxError as e:
                fails.append(("C15", "old_or_new", f"{name} does not compile: {e}"))
    if degrade and not obs["problems"]:
        fails.append(("C15", "formatter_failure_reported", f"{case['kind']}: no problem was reported"))
    if degrade and obs["traceback"]:
        fails.append(("C15", "formatter_failure_degrades", f"{case['kind']}: exception escaped: {obs['stderr'][-200:]}"))
    # no dangling reference after the next session start (which removes every -new file)
    persisted = [n for n in obs["store"] if "-new" not in n]
    for name, fo in obs["files"].items():
        refs = refs_in(fo["now"])
        if refs is None:
            continue
        for r in refs:
            pre = r.split("*")[0].split(".")[0]
            if not any(p.startswith(pre) for p in persisted):
                fails.append(("C15", "no_dangling_external", f"fault {case['kind']}:{case['n']}: {name} refers to {r} but only {persisted} is persisted"))
    return fails


def nontrivial(case, obs):
    return case["kind"] != "none" and (obs["injected"] or case["kind"].startswith("fmt_") or case["kind"] == "black_raise")


def signature(case):
    return common.sha(repr(case))


def histogram(case, obs, hist):
    hist["fault:" + case["kind"]] = hist.get("fault:" + case["kind"], 0) + 1
    hist["files:" + str(len(case["files"]))] = hist.get("files:" + str(len(case["files"])), 0) + 1
    hist["injected:" + str(obs["injected"])] = hist.get("injected:" + str(obs["injected"]), 0) + 1
    for fo in obs["files"].values():
        st = "old" if fo["now"] == fo["old"] else "new" if fo["now"] == fo["new"] else "other"
        hist["state:" + st] = hist.get("state:" + st, 0) + 1
