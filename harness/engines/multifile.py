"""Engine `multifile` (C03, C18): real sessions over projects with several test files.

Each file gets 1-2 pending changes from a menu (plain create, create of an object whose repr is not Python ->
HasRepr import, create of outsourced data -> external import, list fix, update); optional docstring and
`from __future__` import.  Direct oracle per file: it compiles, bytes outside the snapshot() arguments are
preserved, and an import of `HasRepr` / `external` is added only to a file whose generated code uses that name,
and only once.  (The in-process `rewrite` engine replicates the import step itself; this engine exercises the
plugin's own loop over files.)
"""
from __future__ import annotations

import ast

from .. import common
from . import rewrite as RW

NAME = "multifile"

MENU = ["int", "hasrepr", "external", "listfix", "update", "ok", "longlist", "in_trailing", "dict_trailing"]


def gen(rng, tier, shape=None):
    files = []
    for _ in range(rng.randint(2, 3)):
        files.append({"stmts": [rng.choice(MENU) for _ in range(rng.randint(1, 2))], "docstring": rng.random() < 0.3,
                      "future": rng.random() < 0.3, "has_import_already": rng.random() < 0.15})
    flags = rng.choice([["create"], ["create", "fix"], ["create", "fix", "update"], ["fix"], ["create", "fix", "trim", "update"], ["fix", "trim"], ["create", "trim"]])
    force_orders = False
    if rng.random() < 0.2:
        # one file needs both generated names (HasRepr and external): both imports must be added
        files[-1]["stmts"] = ["hasrepr", "external"]
        files[-1]["has_import_already"] = False
        flags = rng.choice([["create", "fix"], ["create", "fix", "update"], ["create", "fix", "trim", "update"]])
    elif rng.random() < 0.25:
        # two categories that edit the same display, approved together and one at a time
        files[0]["stmts"][0] = rng.choice(["in_trailing", "dict_trailing"])
        flags = rng.choice([["fix", "trim"], ["create", "trim"], ["create", "fix", "trim"], ["create", "fix", "trim", "update"]])
        force_orders = True
    ll = rng.choice([None, None, 40, 60])
    for f in files:
        f["clean"] = ll is not None and rng.random() < 0.6       # formatter-clean under the project's black options
        f["bom"] = rng.random() < 0.12                           # the file starts with a UTF-8 byte order mark
    return {"files": files, "flags": flags, "outside": rng.random() < 0.3,      # outside: pytest is started from another directory
            "xfail_dir": rng.random() < 0.15, "line_length": ll, "orders": len(flags) >= 2 and (force_orders or rng.random() < 0.4)}     # orders: also approve the categories one at a time


def file_src(f, idx):
    L = []
    if f["docstring"]:
        L.append('"""Docstring of file %d."""' % idx)
    if f["future"]:
        L.append("from __future__ import annotations")
    L.append("from inline_snapshot import snapshot, outsource")
    if f["has_import_already"]:
        L.append("from inline_snapshot import external")
    L += ["", "class NoRepr:", "    def __init__(self, i): self.i = i", "    def __repr__(self): return f'<NoRepr {self.i}>'",
          "    def __eq__(self, o): return (o.i == self.i) if isinstance(o, NoRepr) else NotImplemented", ""]
    for k, st in enumerate(f["stmts"]):
        L.append(f"def test_{k}():")
        L.append({"int": f"    assert {idx * 10 + k} == snapshot()",
                  "hasrepr": f"    assert NoRepr({k}) == snapshot()",
                  "external": f"    assert outsource('payload {idx} {k}') == snapshot()",
                  "listfix": "    assert [1, 2, 3] == snapshot([1, 0+2])",
                  "update": "    assert 5 == snapshot(0+5)",
                  "longlist": f"    assert [1111111111, 2222222222, 33333333{idx}{k}] == snapshot()",
                  # two categories edit one display that ends in a trailing comma / line break (trim removes the last element, fix appends)
                  "in_trailing": "    for v in (1, 5):\n        assert v in snapshot(\n            [\n                1,\n                2,\n            ]\n        )",
                  "dict_trailing": "    s = snapshot({\"a\": 1, \"b\": 2,})\n    assert s[\"a\"] == 1\n    assert s[\"c\"] == 3",
                  "ok": "    assert 7 == snapshot(7)"}[st])
        L.append("")
    return "\n".join(L)


def fname(case, i):
    # the last file may live in a directory whose name is a marker name (node keywords contain directory names)
    d = "xfail/" if case.get("xfail_dir") and i == len(case["files"]) - 1 else ""
    return f"{d}test_{chr(97 + i)}.py"


def model_lines(case):
    return []


def run_impl(case):
    from .. import impl_pytest
    files = {fname(case, i): file_src(f, i) for i, f in enumerate(case["files"])}
    ll = case.get("line_length")
    if ll:
        import black
        for i, f in enumerate(case["files"]):
            if f.get("clean"):
                n = fname(case, i)
                files[n] = black.format_str(files[n], mode=black.FileMode(line_length=ll))
    for i, f in enumerate(case["files"]):
        if f.get("bom"):
            n = fname(case, i)
            files[n] = "\ufeff" + files[n]
    sub = "started_here" if case.get("outside") else None
    r = impl_pytest.run_session(files, ["--inline-snapshot=" + ",".join(case["flags"])], {}, pyproject=(f"[tool.black]\nline-length = {ll}\n" if ll else ""),
                                cwd_sub=sub, keep=True)
    second = None
    try:
        if {"create", "fix"} <= set(case["flags"]) and r["dir"]:
            # C08: the same tests again, nothing approved: they pass (every generated name is importable, every value holds)
            import pathlib
            top = pathlib.Path(r["dir"]).parent if sub else pathlib.Path(r["dir"])
            r2 = impl_pytest.run_session({}, [], {}, pyproject=None, cwd_sub=sub, pre_existing_dir=top)
            second = {"rc": r2["rc"], "outcomes": r2["outcomes"], "tail": (r2["stdout"][-600:] if r2["rc"] else "")}
    finally:
        if r.get("dir"):
            import pathlib
            common.rmtree(pathlib.Path(r["dir"]).parent if sub else pathlib.Path(r["dir"]))
    seq = None
    if case.get("orders") and not ("INTERNALERROR" in r["stdout"]):
        # C09: the categories approved one at a time (in the given order and in the reverse order) end in the same programs
        seq = {}
        for order in (list(case["flags"]), list(reversed(case["flags"]))):
            cur = dict(files)
            err = None
            for c in order:
                rs = impl_pytest.run_session(cur, ["--inline-snapshot=" + c], {}, pyproject=(f"[tool.black]\nline-length = {ll}\n" if ll else ""), cwd_sub=sub)
                if "INTERNALERROR" in rs["stdout"]:
                    err = rs["stdout"][-300:]
                    break
                keep_store = {k: v for k, v in rs["files"].items() if k.startswith(".inline-snapshot/")}
                cur = {n: rs["files"].get(n, b"").decode("utf-8", "replace") for n in files}
                cur.update(keep_store)
            seq[",".join(order)] = {"err": err, "files": {n: cur.get(n) for n in files}}
    internal = "INTERNALERROR" in r["stdout"]
    return {"setup_errors": r["stdout"].count("ERROR at setup of"), "seq": seq, "second": second, "rc": r["rc"], "traceback": "Traceback" in r["stderr"] or "Error" in r["stderr"][-400:] or internal,
            "stderr": (r["stdout"][-700:] if internal else r["stderr"][-500:]),
            "files": {n: {"old": files[n], "new": r["files"].get(n, b"").decode("utf-8", "replace")} for n in files}}


def compare(case, obs, model_out):
    return []


def oracle(case, obs):
    fails = []
    if obs["traceback"]:
        fails.append(("C18", "finish_total", f"flags {case['flags']}: {obs['stderr'][-300:]}"))
    if obs.get("setup_errors"):
        d = f"{obs['setup_errors']} tests failed in the set-up of inline-snapshot's fixture (files {sorted(obs['files'])})"
        fails.append(("C07", "no_false_failure", d))
        fails.append(("C18", "finish_total", d))
    if obs.get("seq"):
        def dump(t):
            try:
                return ast.dump(ast.parse((t or "").lstrip("\ufeff")))
            except SyntaxError as e:
                return "syntax error " + str(e)
        for order, o in obs["seq"].items():
            if o["err"]:
                fails.append(("C18", "finish_total", f"approving {order} one at a time: {o['err']}"))
                continue
            for name, fo in obs["files"].items():
                if dump(o["files"].get(name)) != dump(fo["new"]):
                    tail = lambda t: [l.strip() for l in (t or "").splitlines() if "snapshot" in l and "import" not in l][:3]
                    fails.append(("C09", "order_independent", f"{name}: approving {order} one at a time gives {tail(o['files'].get(name))}, "
                                  f"together ({','.join(case['flags'])}) {tail(fo['new'])}" + (" [the run that approved everything together stopped with an internal error]" if obs["traceback"] else "")))
                    break
    sec = obs.get("second")
    if sec and not obs["traceback"] and sec["rc"] != 0:
        bad = sorted(k for k, v in sec["outcomes"].items() if v in ("failed", "error"))
        d = f"flags {case['flags']}: after the rewriting run the same tests do not pass (exit status {sec['rc']}, failing {bad}): {sec['tail'][-300:]}"
        fails.append(("C08", "rerun_succeeds", d))
        fails.append(("C02", "fix_repairs", d))
        fails.append(("C03", "import_added_when_needed", d))
    for name, fo in obs["files"].items():
        old, new = fo["old"], fo["new"]
        if old == new:
            continue
        if old.startswith("\ufeff"):
            if not new.startswith("\ufeff"):
                fails.append(("C03", "bytes_outside_preserved", f"{name}: the byte order mark at the start of the file was dropped"))
            old, new = old.lstrip("\ufeff"), new.lstrip("\ufeff")      # the mark is not part of the code
        try:
            compile(new, name, "exec")
            tree_new = ast.parse(new)
        except SyntaxError as e:
            fails.append(("C03", "valid_python", f"{name}: {e}"))
            continue
        try:
            if RW.masked_dump(old) != RW.masked_dump(new):
                fails.append(("C03", "ast_outside_preserved", f"{name}: syntax tree outside the snapshot() arguments changed"))
        except SyntaxError:
            pass
        # C20: a file that was formatter-clean under the project's options is formatter-clean afterwards
        ll = case.get("line_length")
        if ll:
            import black
            mode = black.FileMode(line_length=ll)
            try:
                if black.format_str(old, mode=mode) == old and black.format_str(new, mode=mode) != new:
                    fails.append(("C20", "clean_stays_clean", f"{name} was clean for line-length {ll} (pytest started {'outside' if case.get('outside') else 'inside'} the project) "
                                  f"and is not clean after the session: {[l for l in new.splitlines() if 'snapshot(' in l][:2]}"))
            except Exception:  # noqa: BLE001
                pass
        # imports: only when the generated code needs the name, and once
        args_src = " ".join(ast.unparse(a) for n in ast.walk(tree_new) if isinstance(n, ast.Call) and getattr(n.func, "id", None) == "snapshot" for a in n.args)
        for nm in ("HasRepr", "external"):
            line = f"from inline_snapshot import {nm}"
            n_old, n_new = old.count(line), new.count(line)
            if n_new > n_old:
                if n_new - n_old > 1:
                    fails.append(("C03", "import_added_once", f"{name}: `{line}` added {n_new - n_old} times"))
                if (nm + "(") not in args_src:
                    fails.append(("C03", "import_only_when_needed", f"{name}: `{line}` was added but no snapshot argument uses {nm}"))
                if n_old:
                    fails.append(("C03", "import_only_when_needed", f"{name}: `{line}` was added although the file already imports it"))
        # bytes outside the arguments (files are not formatter-clean: class body on one line)
        try:
            bd, ad = old.encode(), new.encode()
            ob = b"\x00".join(RW.outside(bd, RW.call_spans(bd)))
            oa = b"\x00".join(RW.outside(ad, RW.call_spans(ad)))
            for nm in (b"HasRepr", b"external"):
                ins = b"\nfrom inline_snapshot import " + nm + b"\n"
                while oa.count(ins) > ob.count(ins):
                    oa = oa.replace(ins, b"", 1)
            clean_here = False
            if case.get("line_length"):
                import black as _b
                try:
                    clean_here = _b.format_str(old, mode=_b.FileMode(line_length=case["line_length"])) == old
                except Exception:  # noqa: BLE001
                    clean_here = False
            if oa != ob and not RW.is_clean(old) and not clean_here:      # a formatter-clean file is re-formatted as a whole (same AST: clause above)
                fails.append(("C03", "bytes_outside_preserved", f"{name}: " + RW.first_diff(ob, oa)))
        except Exception as e:  # noqa: BLE001
            fails.append(("C03", "valid_python", f"{name}: cannot locate snapshot calls: {type(e).__name__}"))
    return fails


def nontrivial(case, obs):
    return sum(1 for fo in obs["files"].values() if fo["old"] != fo["new"]) >= 2


def signature(case):
    return common.sha(repr(case))


def histogram(case, obs, hist):
    for f in case["files"]:
        for st in f["stmts"]:
            hist["stmt:" + st] = hist.get("stmt:" + st, 0) + 1
    hist["outside:" + str(bool(case.get("outside")))] = hist.get("outside:" + str(bool(case.get("outside"))), 0) + 1
    hist["files:" + str(len(case["files"]))] = hist.get("files:" + str(len(case["files"])), 0) + 1
    hist["changed:" + str(sum(1 for fo in obs["files"].values() if fo["old"] != fo["new"]))] = hist.get("changed:" + str(sum(1 for fo in obs["files"].values() if fo["old"] != fo["new"])), 0) + 1
