"""Engine `setsort` (C16): order of set / frozenset elements in generated code.

White box: `_code_repr.code_repr` of sets built from flat values (ints, bools, strs, None, mixed) in several
construction orders; the element order in the text is compared with Model/SetSort.lean and must not depend
on the construction order (direct oracle).  Hash-seed independence across interpreters is exercised by the
`values` engine.
"""
from __future__ import annotations

import ast
import itertools

from .. import common
from ..common import sx
from .site import val_sx

NAME = "setsort"


def gen(rng, tier, shape=None):
    mode = rng.choice(["int", "int", "str", "mixed", "none", "big"])
    n = rng.randint(0, 6)
    if mode == "int":
        xs = [rng.choice([0, 1, 2, 8, 16, 24, 32, -1, 10**6, True, False]) for _ in range(n)]
    elif mode == "str":
        xs = [rng.choice(["a", "b", "ab", "", "é", "B", "a b"]) for _ in range(n)]
    elif mode == "mixed":
        xs = [rng.choice([0, 1, 9, "a", "b", "10", "1"]) for _ in range(n)]
    elif mode == "none":
        xs = [rng.choice([None, 0, 1, "x"]) for _ in range(n)]
    else:
        xs = [rng.choice([8 * k for k in range(20)]) for _ in range(rng.randint(3, 9))]   # colliding hash buckets
    ded = []
    for x in xs:
        if not any(x == y and type(x) is type(y) or (x == y) for y in ded):
            ded.append(x)
    return {"xs": ded, "frozen": rng.random() < 0.4, "mode": mode}


def model_lines(case):
    common.use_repo_sources()
    from inline_snapshot._code_repr import code_repr
    items = [[val_sx(x), ["s"] + [ord(c) for c in code_repr(x)]] for x in case["xs"]]
    return [sx(["setsort"] + items)]


def run_impl(case):
    common.use_repo_sources()
    from inline_snapshot._code_repr import code_repr
    xs = case["xs"]
    texts = set()
    orders = list(itertools.islice(itertools.permutations(xs), 24))
    first = None
    for perm in orders:
        s = set()
        for x in perm:
            s.add(x)
        if case["frozen"]:
            s = frozenset(s)
        t = code_repr(s)
        texts.add(t)
        if first is None:
            first = t
    elems = None
    try:
        node = ast.parse(first, mode="eval").body
        if isinstance(node, ast.Call) and node.args:
            node = node.args[0]
        if isinstance(node, ast.Set):
            elems = [ast.get_source_segment(first, e) for e in node.elts]
        elif isinstance(node, ast.Call):
            elems = []
    except SyntaxError:
        pass
    return {"text": first, "texts": sorted(texts), "elems": elems}


def compare(case, obs, model_out):
    o = common.sx_parse(model_out[0])
    if o == ["bad-op"]:
        return [("protocol", ["C16"], "bad-op")]
    m = ["".join(chr(int(c)) for c in e[1:]) for e in o[1:]]
    if obs["elems"] is not None and m != obs["elems"]:
        return [("set-order", ["C16", "C01"], f"model {m} impl {obs['elems']} (text {obs['text']!r})")]
    return []


def oracle(case, obs):
    if len(obs["texts"]) > 1:
        return [("C16", "construction_order_independent", f"{case['xs']}: texts {obs['texts']}")]
    return []


def nontrivial(case, obs):
    return len(case["xs"]) >= 2


def signature(case):
    return common.sha(repr((case["xs"], case["frozen"])))


def histogram(case, obs, hist):
    hist["mode:" + case["mode"]] = hist.get("mode:" + case["mode"], 0) + 1
    hist["size:" + str(len(case["xs"]))] = hist.get("size:" + str(len(case["xs"])), 0) + 1
