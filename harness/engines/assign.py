"""Engine `assign` (C02 C05 C08 C09 C10 C11): `x == snapshot(<display>)` at any nesting depth.

A case is an old argument expression (tree of list / tuple / dict displays, canonical and hand-written
leaves, unmanaged leaves `Is(...)` / always-equal objects / f-strings, star-expressions) and a newly observed
value derived from it by edits.  The real code runs the comparison, reports categories and rewrites the
argument; Model/Assign.lean computes the same (categories, answer of the comparison, tree after applying the
approved set).  Multi-run modes drive both through sequences of runs (C08 second run, C09 all orders).
"""
from __future__ import annotations

import ast
import itertools

from .. import common
from ..common import sx
from .site import val_sx as atom_sx

NAME = "assign"

# ------------------------------------------------------------------ generation of values / expressions


def rand_atom(rng):
    r = rng.random()
    if r < 0.6:
        return rng.randint(0, 3)
    if r < 0.8:
        return rng.choice(["a", "b", ""])
    if r < 0.9:
        return rng.choice([True, False])
    return None


def rand_val(rng, depth):
    r = rng.random()
    if depth <= 0 or r < 0.45:
        return rand_atom(rng)
    if r < 0.7:
        return [rand_val(rng, depth - 1) for _ in range(rng.randint(0, 4))]
    if r < 0.85:
        return tuple(rand_val(rng, depth - 1) for _ in range(rng.randint(0, 3)))
    keys = rng.sample(["k0", "k1", "k2", 1, 2], rng.randint(0, 3))
    return {k: rand_val(rng, depth - 1) for k in keys}


class Ctr:
    def __init__(self):
        self.n = 0

    def next(self):
        self.n += 1
        return self.n


def mk_expr(rng, v, ctr, p_unm=0.12, p_hand=0.3, p_star=0.04, top=False):
    """value -> expression tree (python dict form) whose evaluation gives v;
    any node may be written inside redundant parentheses (`(1)`, `([1, 2])`): invisible to the model (same ast)"""
    e = mk_expr0(rng, v, ctr, p_unm, p_hand, p_star, top)
    if rng.random() < 0.07:
        e["paren"] = rng.choice([1, 1, 2])
    return e


def mk_expr0(rng, v, ctr, p_unm, p_hand, p_star, top):
    r = rng.random()
    if not top and r < p_unm:
        k = ctr.next()
        kind = rng.choice(["is", "is", "any", "fstr"] if isinstance(v, str) else ["is", "is", "any"])
        return {"t": "unm", "kind": kind, "tok": k, "v": v}
    if isinstance(v, (list, tuple)) and rng.random() < 0.85:
        es = [mk_expr(rng, x, ctr, p_unm, p_hand, p_star) for x in v]
        e = {"t": "T" if isinstance(v, tuple) else "L", "es": es}
        if rng.random() < p_star and isinstance(v, list):
            e["es"].append({"t": "star", "e": {"t": "L", "es": []}})
        return e
    if isinstance(v, dict) and rng.random() < 0.85:
        return {"t": "D", "es": [(k, mk_expr(rng, x, ctr, p_unm, p_hand, p_star)) for k, x in v.items()]}
    # leaf (possibly with a container value written by hand, e.g. list((1,2)) )
    if rng.random() < p_hand or isinstance(v, (list, tuple, dict)):
        return {"t": "leaf", "tok": ctr.next(), "canon": False, "v": v}
    return {"t": "leaf", "tok": 0, "canon": True, "v": v}


def expr_value(e):
    t = e["t"]
    if t in ("leaf", "unm"):
        return e["v"]
    if t == "L":
        out = []
        for x in e["es"]:
            if x["t"] == "star":
                out += expr_value(x["e"])
            else:
                out.append(expr_value(x))
        return out
    if t == "T":
        return tuple(expr_value(x) for x in e["es"])
    if t == "D":
        return {k: expr_value(x) for k, x in e["es"]}
    raise ValueError(t)


def mutate_val(rng, v, depth=0):
    """a new observed value derived from v by edits"""
    r = rng.random()
    if isinstance(v, list) or isinstance(v, tuple):
        xs = list(v)
        for _ in range(rng.randint(0, 2)):
            q = rng.random()
            if q < 0.3 and xs:
                del xs[rng.randrange(len(xs))]
            elif q < 0.6:
                xs.insert(rng.randint(0, len(xs)), rand_val(rng, 1))
            elif q < 0.85 and xs:
                i = rng.randrange(len(xs))
                xs[i] = mutate_val(rng, xs[i], depth + 1)
            elif len(xs) > 1:
                i = rng.randrange(len(xs) - 1)
                xs[i], xs[i + 1] = xs[i + 1], xs[i]
        if r < 0.05:
            return tuple(xs) if isinstance(v, list) else xs        # other type
        return type(v)(xs)
    if isinstance(v, dict):
        d = dict(v)
        for _ in range(rng.randint(0, 2)):
            q = rng.random()
            if q < 0.3 and d:
                del d[rng.choice(list(d))]
            elif q < 0.6:
                d[rng.choice(["k0", "k1", "k2", "k3", 1, 2])] = rand_val(rng, 1)
            elif d:
                k = rng.choice(list(d))
                d[k] = mutate_val(rng, d[k], depth + 1)
        if rng.random() < 0.25 and len(d) > 1:
            items = list(d.items())
            rng.shuffle(items)
            d = dict(items)
        return d
    if r < 0.5:
        return v
    if r < 0.9:
        return rand_atom(rng)
    return rand_val(rng, 1)


def mutate_leaves(rng, v, p=0.4):
    """same shape, other atoms: no element is inserted or deleted, so every user-controlled part must survive"""
    if isinstance(v, (list, tuple)):
        return type(v)(mutate_leaves(rng, x, p) for x in v)
    if isinstance(v, dict):
        return {k: mutate_leaves(rng, x, p) for k, x in v.items()}
    return rand_atom(rng) if rng.random() < p else v


def has_any(e):
    t = e["t"]
    if t == "unm":
        return e["kind"] == "any"
    if t in ("L", "T"):
        return any(has_any(x) for x in e["es"])
    if t == "D":
        return any(has_any(x) for _k, x in e["es"])
    if t == "star":
        return True
    return False


def same_shape(e, new):
    """the new value has an element for every element of the expression (nothing inserted, nothing deleted, no other type)"""
    t = e["t"]
    if t in ("leaf", "unm"):
        return True
    if t in ("L", "T"):
        if type(new) is not (list if t == "L" else tuple) or any(x["t"] == "star" for x in e["es"]) or len(new) != len(e["es"]):
            return False
        # the alignment must be the identity: no old element equals a new element at another position
        # (then every match is diagonal and every block between matches is replaced element by element)
        for i, x in enumerate(e["es"]):
            if has_any(x) and len(new) > 1:
                return False                 # an always-equal object matches everywhere
            try:
                xv = expr_value(x)
            except Exception:  # noqa: BLE001
                return False
            for j, n in enumerate(new):
                if i != j and xv == n:
                    return False
        return all(same_shape(x, n) for x, n in zip(e["es"], new))
    if t == "D":
        if type(new) is not dict or any(x["t"] == "star" for _k, x in e["es"]) or list(new) != [k for k, _x in e["es"]]:
            return False
        return all(same_shape(x, new[k]) for k, x in e["es"])
    return False


def gen(rng, tier, shape=None):
    ctr = Ctr()
    depth = rng.choice([1, 2, 2, 3] if tier == "quick" else [1, 2, 3, 3, 4])
    v = rand_val(rng, depth)
    if not isinstance(v, (list, tuple, dict)) and rng.random() < 0.8:
        v = [rand_val(rng, depth - 1) for _ in range(rng.randint(1, 4))]
    mode = (shape or {}).get("mode") or rng.choice(["single"] * 6 + ["twice", "orders", "orders"])
    p_unm = 0.0 if mode == "orders" and rng.random() < 0.5 else 0.12
    e = mk_expr(rng, v, ctr, p_unm=p_unm, top=True)
    r = rng.random()
    new = mutate_leaves(rng, expr_value(e)) if r < 0.25 else mutate_val(rng, expr_value(e)) if r < 0.92 else rand_val(rng, depth)
    flags = sorted(c for c in ["fix", "update"] if rng.random() < 0.5)
    if rng.random() < 0.15:
        flags = sorted(set(flags) | {rng.choice(["create", "trim"])})
    return {"expr": e, "new": new, "flags": flags, "mode": mode, "uni": rng.random() < 0.2,
            "dd": e["t"] == "D" and isinstance(new, dict) and rng.random() < 0.3 and "paren" not in e}


# ------------------------------------------------------------------ rendering

def lit(v):
    if isinstance(v, str):
        return '"' + v + '"'
    return repr(v)


def render(e):
    n = e.get("paren", 0)
    return "(" * n + render0(e) + ")" * n


def render0(e):
    t = e["t"]
    if t == "leaf":
        v = e["v"]
        if e["canon"]:
            return lit(v)
        k = e["tok"]
        if isinstance(v, bool) or v is None:
            return f"[{v!r}, {k}][0]"
        if isinstance(v, int):
            return f"{v}+0*{k}"
        if isinstance(v, str):
            return f'"{v}"+""*{k}'
        if isinstance(v, list):
            return f"list({tuple(v)!r}+()*{k})"
        if isinstance(v, tuple):
            return f"tuple({list(v)!r}+[]*{k})"
        return f"dict({v!r}, **[{{}}, {k}][0])"
    if t == "unm":
        k, v = e["tok"], e["v"]
        if e["kind"] == "is":
            return f"Is([{v!r}, {k}][0])"
        if e["kind"] == "any":
            return f"AnyThing({k})"
        return f'f"{{[{v!r}, {k}][0]}}"'
    if t == "L":
        return "[" + ", ".join(render(x) for x in e["es"]) + "]"
    if t == "T":
        inner = ", ".join(render(x) for x in e["es"])
        return "(" + inner + ("," if len(e["es"]) == 1 else "") + ")"
    if t == "D":
        return "{" + ", ".join(("**" + render(x["e"]) if x["t"] == "star" else f"{lit(k)}: {render(x)}") for k, x in e["es"]) + "}"
    if t == "star":
        return "*" + render(e["e"])
    raise ValueError(t)


PRELUDE = '''from inline_snapshot import snapshot, Is
from inline_snapshot._unmanaged import declare_unmanaged

@declare_unmanaged
class AnyThing:
    def __init__(self, k): self.k = k
    def __eq__(self, other): return True
    def __repr__(self): return f"AnyThing({self.k})"

R = []
'''


UNI = False          # set per case by run_impl: non-ASCII text on the line of the snapshot, left of it
DD = False           # set per case by run_impl: the dict display is the second argument of `defaultdict(list, {...})`


def program(arg_src, new, uni=None):
    pre = "U = 'é✓𝄞'; " if (UNI if uni is None else uni) else ""
    if DD:
        return (PRELUDE + f"from collections import defaultdict\nNEW = defaultdict(list, {new!r})\n\ndef test_a():\n"
                          f"    {pre}R.append(bool(NEW == snapshot(defaultdict(list, {arg_src}))))\n")
    return (PRELUDE + f"NEW = {new!r}\n\ndef test_a():\n    {pre}R.append(bool(NEW == snapshot({arg_src})))\n")


# ------------------------------------------------------------------ s-expressions

def val_sx(v):
    if isinstance(v, list):
        return ["l"] + [val_sx(x) for x in v]
    if isinstance(v, tuple):
        return ["t"] + [val_sx(x) for x in v]
    if isinstance(v, dict):
        return ["d"] + [[atom_sx(k), val_sx(x)] for k, x in v.items()]
    return atom_sx(v)


def expr_sx(e):
    t = e["t"]
    if t == "leaf":
        return ["leaf", e["tok"], e["canon"], val_sx(e["v"])]
    if t == "unm":
        if e["kind"] == "is":
            return ["unm", e["tok"], ["uis", e["tok"], val_sx(e["v"])]]
        if e["kind"] == "any":
            return ["unm", e["tok"], ["uany", e["tok"]]]
        return ["fstr", e["tok"], val_sx(e["v"])]
    if t in ("L", "T"):
        return [t] + [expr_sx(x) for x in e["es"]]
    if t == "D":
        return ["D"] + [[atom_sx(k), expr_sx(x)] for k, x in e["es"]]
    if t == "star":
        return ["star", expr_sx(e["e"])]
    raise ValueError(t)


def norm_model_expr(x):
    """model expression (parsed s-expression) -> comparison form"""
    tag = x[0]
    if tag == "leaf":
        tok, canon = int(x[1]), x[2] == "1"
        return ["raw", str(tok)] if tok > 0 and not canon else ["val", x[3]]
    if tag in ("unm", "fstr"):
        return ["unm", x[1]]
    if tag in ("L", "T"):
        return [tag] + [norm_model_expr(y) for y in x[1:]]
    if tag == "D":
        return ["D"] + [[y[0], norm_model_expr(y[1])] for y in x[1:]]
    if tag == "star":
        return ["star"]
    return x


def ast_to_norm(node, src, texts):
    """rewritten argument (ast) -> comparison form; texts: normalised source text -> token id"""
    seg = (ast.get_source_segment(src, node) or "").replace(" ", "").replace("\n", "")
    if seg in texts:
        kind, k = texts[seg]
        return [kind, str(k)]
    if isinstance(node, ast.List):
        return ["L"] + [ast_to_norm(x, src, texts) for x in node.elts]
    if isinstance(node, ast.Tuple):
        return ["T"] + [ast_to_norm(x, src, texts) for x in node.elts]
    if isinstance(node, ast.Dict):
        return ["D"] + [["star" if k is None else common.sx_parse(sx(atom_sx(ast.literal_eval(k)))), ast_to_norm(v, src, texts)]
                        for k, v in zip(node.keys, node.values)]
    if isinstance(node, ast.Starred):
        return ["star"]
    try:
        v = ast.literal_eval(node)
    except Exception:  # noqa: BLE001
        return ["unknown", seg]
    return ["val", common.sx_parse(sx(val_sx(v)))]


def collect_texts(e, out):
    t = e["t"]
    if t == "leaf" and not e["canon"]:
        out[render0(e).replace(" ", "")] = ("raw", e["tok"])
    elif t == "unm":
        out[render0(e).replace(" ", "")] = ("unm", e["tok"])
    elif t in ("L", "T"):
        for x in e["es"]:
            collect_texts(x, out)
    elif t == "D":
        for _k, x in e["es"]:
            collect_texts(x, out)
    elif t == "star":
        pass
    return out


# ------------------------------------------------------------------ runs

def approved_sequences(case):
    """list of runs; each run = list of approved sets applied one after the other"""
    flags = case["flags"]
    if case["mode"] == "single":
        return [[flags]]
    if case["mode"] == "twice":
        return [[flags, flags]]
    cats = ["fix", "update"]
    seqs = [[cats]]
    for perm in itertools.permutations(cats):
        seqs.append([[c] for c in perm])
    return seqs


def model_lines(case):
    # the model is driven run by run by the harness (the expression of run k+1 is the result of run k),
    # so the first line only; later lines are produced in `compare` through a nested driver call
    first = approved_sequences(case)[0][0]
    return [sx(["assign", ["flags"] + list(first), expr_sx(case["expr"]), val_sx(case["new"])])]


def run_impl(case):
    from .. import impl_inline
    global UNI, DD
    UNI = bool(case.get("uni"))
    DD = bool(case.get("dd"))
    e = case["expr"]
    texts = collect_texts(e, {})
    arg0 = render(e)
    out = {"runs": []}
    for seq in approved_sequences(case):
        arg = arg0
        steps = []
        for fl in seq:
            src = program(arg, case["new"])
            r = impl_inline.run_program({"test_case.py": src}, fl, fl)
            after = r["files_after"].get("test_case.py", "")
            step = {"flags": fl, "R": (r["R"][0][1] if r["R"] else None), "cats": sorted({c for s in r["sites"] for c in s["cats"]}),
                    "errors": [r["import_error"], r["apply_error"], r["collect_errors"]], "tests": r["tests"],
                    "warnings": r["warnings"][:3]}
            try:
                calls = impl_inline.snapshot_args(after)
                node = calls[0][3].args[0]
                step["arg"] = calls[0][2]
                if DD:
                    # the dict display is matched entry by entry through the constructor call (DefaultDictAdapter)
                    if isinstance(node, ast.Call) and getattr(node.func, "id", None) == "defaultdict" and len(node.args) == 2:
                        node = node.args[1]
                        step["arg"] = ast.get_source_segment(after, node)
                    else:
                        raise ValueError("not a defaultdict(list, {...}) call any more")
                step["norm"] = ast_to_norm(node, after, texts)
                arg = step["arg"]
            except Exception as ex:  # noqa: BLE001
                step["norm"] = ["unparsable", type(ex).__name__]
                step["arg"] = None
            steps.append(step)
        out["runs"].append(steps)
    # re-run of the first run's final program with inline-snapshot disabled (C02 oracle)
    first = out["runs"][0][-1]
    if first.get("arg") is not None:
        g: dict = {}
        try:
            import contextlib
            import io
            with contextlib.redirect_stdout(io.StringIO()):
                exec(compile(program(first["arg"], case["new"]), "<rerun>", "exec"), g)
                g["test_a"]()
            out["rerun_disabled"] = g["R"][-1]
        except Exception as ex:  # noqa: BLE001
            out["rerun_disabled"] = type(ex).__name__
    return out


def managed(e):
    t = e["t"]
    if t == "unm" or t == "star":
        return False
    if t in ("L", "T"):
        return all(managed(x) for x in e["es"])
    if t == "D":
        return all(managed(x) for _k, x in e["es"])
    return True


def compare(case, obs, model_out):
    o = common.sx_parse(model_out[0])
    if o == ["bad-op"]:
        return [("protocol", PROPS_ALL, "bad-op")]
    diffs = []
    first = obs["runs"][0][0]
    if any(first["errors"][:2]) or first["errors"][2]:
        diffs.append(("impl-error", ["C18", "C02"], str(first["errors"])))
        return diffs
    mcats = o[1]
    if sorted(mcats) != first["cats"]:
        diffs.append(("cats", ["C05", "C02", "C10", "C11"], f"model {mcats} impl {first['cats']}"))
    meq_new = o[2][2] == "1"
    meq_old = o[2][1] == "1"
    fl = set(first["flags"])
    exp_res = meq_new if (fl & {"fix", "create", "update"}) else meq_old
    if first["R"] != [exp_res]:
        diffs.append(("result", ["C02", "C06", "C07"], f"model {exp_res} impl {first['R']}"))
    mnorm = norm_model_expr(o[4])
    if mnorm != first["norm"]:
        diffs.append(("tree", ["C02", "C05", "C09", "C10", "C11"], f"model {sx(mnorm)} impl {sx(first['norm'])}"))
    return diffs


PROPS_ALL = ["C02", "C05", "C08", "C09", "C10", "C11"]


def oracle(case, obs):
    fails = []
    e, new = case["expr"], case["new"]
    runs = obs["runs"]
    first = runs[0][0]
    if any(first["errors"][:2]) or first["errors"][2]:
        fails.append(("C18", "finish_total", f"old {render(e)} new {new!r} flags {first['flags']}: {first['errors']}"))
        if "fix" in first["flags"] and managed(e) and not first["errors"][0]:
            fails.append(("C02", "fix_repairs", f"old {render(e)} new {new!r}{' (non-ASCII text left of the snapshot on its line)' if case.get('uni') else ''}: "
                          f"fix is approved but nothing was repaired, applying the changes failed: {first['errors']}"))
        return fails
    texts = collect_texts(e, {})
    # C10: every unmanaged text that survives is verbatim; none is altered (it may only disappear with its element)
    if first.get("arg") is not None:
        arg = first["arg"].replace(" ", "").replace("\n", "")
        for txt, (kind, k) in texts.items():
            if kind == "unm":
                marker = f", {k}][0]" .replace(" ", "") if "Is(" in txt or txt.startswith("f") else f"AnyThing({k})"
                if marker in arg and txt not in arg:
                    fails.append(("C10", "unmanaged_untouched", f"unmanaged {txt} was altered: {first['arg']}"))
        # ... and when the new value has the same shape (nothing inserted or deleted anywhere) nothing can disappear:
        # every user-controlled part is still there, verbatim
        if same_shape(e, new):
            for txt, (kind, k) in texts.items():
                if kind == "unm" and txt not in arg:
                    fails.append(("C10", "unmanaged_untouched", f"user-controlled {txt} was replaced although no element was inserted or deleted: {render(e)} -> {first['arg']} (new value {new!r}, flags {first['flags']})"))
                    break
    # C02: create+fix approved, managed expression: the rewritten program passes when inline-snapshot is disabled
    fl = set(first["flags"])
    if "fix" in fl and managed(e) and case["mode"] in ("single", "twice"):
        if obs.get("rerun_disabled") is not True:
            fails.append(("C02", "fix_repairs", f"old {render(e)} new {new!r}: after fix {first.get('arg')!r}, disabled re-run gives {obs.get('rerun_disabled')!r}"))
    # C11: fix without update keeps every hand-written element whose value did not change: if nothing changed at all
    #      (value equal), the argument text is untouched
    if "update" not in fl and managed(e):
        try:
            same_val = expr_value(e) == new and type(expr_value(e)) is type(new)
        except Exception:  # noqa: BLE001
            same_val = False
        if same_val and first.get("arg") is not None and first["arg"].replace(" ", "") != render0(e).replace(" ", ""):   # the argument text is the node's segment (no outer parentheses)
            fails.append(("C11", "equal_kept", f"value unchanged but argument rewritten: {render(e)} -> {first['arg']}"))
    # C08: second identical run changes nothing and reports nothing to create / fix / trim
    if case["mode"] == "twice":
        a, b = runs[0]
        if a.get("arg") != b.get("arg"):
            fails.append(("C08", "rerun_noop", f"flags {a['flags']}: first run {a.get('arg')!r}, second run {b.get('arg')!r}"))
        if "fix" in fl and managed(e) and ({"fix", "create", "trim"} & set(b["cats"])):
            fails.append(("C08", "nothing_pending", f"second run still reports {b['cats']} for {b.get('arg')!r}"))
    # C09: every order of approving the categories ends in the same tree as approving them together
    if case["mode"] == "orders":
        finals = [(tuple(tuple(s["flags"]) for s in steps), steps[-1].get("norm")) for steps in runs]
        ref = finals[0][1]
        for order, fin in finals[1:]:
            if fin != ref:
                fails.append(("C09", "order_independent", f"old {render(e)} new {new!r}: together {sx(ref)} ; order {order} {sx(fin)}"))
                break
    return fails


def nontrivial(case, obs):
    return bool(obs["runs"][0][0]["cats"])


def signature(case):
    return common.sha(repr((case["expr"], case["new"], case["flags"], case["mode"])))


def histogram(case, obs, hist):
    hist["mode:" + case["mode"]] = hist.get("mode:" + case["mode"], 0) + 1
    hist["flags:" + ",".join(case["flags"])] = hist.get("flags:" + ",".join(case["flags"]), 0) + 1
    for c in obs["runs"][0][0]["cats"]:
        hist["cat:" + c] = hist.get("cat:" + c, 0) + 1

    def walk(e, d):
        hist["node:" + e["t"]] = hist.get("node:" + e["t"], 0) + 1
        hist["depth:" + str(d)] = hist.get("depth:" + str(d), 0) + 1
        for x in (e.get("es") or []):
            walk(x[1] if isinstance(x, tuple) else x, d + 1)
    walk(case["expr"], 0)


def shape_of(case):
    return {"tag": case["mode"], "mode": case["mode"]}
