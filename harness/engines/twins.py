"""Engine `twins` (C14): textually identical test functions in different files.

Two or three test files contain the *same* function text on the same lines (same code object up to the file
name) and differ only in a module-level constant, so each file observes another value at its `snapshot()` call.
Every call site must be tracked on its own: the value written into each file is the one its own module
observed.  Model voice: one site per file in Model/Table.lean (`noninterference`).
"""
from __future__ import annotations

import ast

from .. import common
from ..common import sx
from .site import val_sx, final_sx, OPSRC

NAME = "twins"


def gen(rng, tier, shape=None):
    n = rng.choice([2, 2, 3])
    op = rng.choice(["eq", "ge", "le", "in"])
    vals = rng.sample(range(0, 9), n)
    stale = rng.choice([None, None, 0, 5])
    if op == "in" and stale is not None:
        stale = [stale]
    flags = rng.choice([["create"], ["create", "fix"], ["fix"], ["create", "fix", "trim"], ["create", "fix", "trim", "update"]])
    return {"n": n, "op": op, "vals": vals, "stale": stale, "flags": flags, "loop": rng.random() < 0.3}


def file_src(case, i):
    arg = "" if case["stale"] is None else repr(case["stale"])
    body = "    assert " + OPSRC[case["op"]].format(x="VALUE", s=f"snapshot({arg})")
    if case["loop"]:
        body = "    for _ in range(2):\n    " + body
    return f"from inline_snapshot import snapshot\nVALUE = {case['vals'][i]}\n\n\ndef test_value():\n{body}\n"


def project(case):
    return {f"test_impl_{chr(97 + i)}.py": file_src(case, i) for i in range(case["n"])}


def model_lines(case):
    old = "none" if case["stale"] is None else (["coll"] + [[val_sx(v), True] for v in case["stale"]] if case["op"] == "in"
                                                  else ["leaf", val_sx(case["stale"]), True])
    evs = []
    for i in range(case["n"]):
        evs.append(["begin"])
        for _ in range(2 if case["loop"] else 1):
            evs.append(["stmt", [[i, old]], ["op", i, "-", case["op"], val_sx(case["vals"][i]), True]])
    return [sx(["sites", ["flags"] + case["flags"], ["approved"] + case["flags"]] + evs)]


def run_impl(case):
    from .. import impl_inline
    files = project(case)
    r = impl_inline.run_program(files, case["flags"], case["flags"])
    obs = {"errors": [r["import_error"], r["apply_error"], r["collect_errors"]], "finals": {}, "nsites": len(r["sites"]),
           "raised": [t["raised"] for t in r["tests"]]}
    for i, name in enumerate(sorted(files)):
        text = r["files_after"].get(name, "")
        try:
            a = impl_inline.snapshot_args(text)[0][2]
            obs["finals"][i] = "noarg" if a is None else final_sx(ast.literal_eval(a))
        except Exception as e:  # noqa: BLE001
            obs["finals"][i] = ["unreadable", type(e).__name__]
    return obs


def compare(case, obs, model_out):
    o = common.sx_parse(model_out[0])
    if o == ["bad-op"]:
        return [("protocol", ["C14"], "bad-op")]
    if obs["errors"][0] or obs["errors"][1] or obs["errors"][2]:
        return [("impl-error", ["C18", "C14"], str(obs["errors"]))]
    diffs = []
    msites = {int(s_[1]): s_[3] for s_ in o[3:]}
    if obs["nsites"] != len(msites):
        diffs.append(("site-count", ["C14"], f"model tracks {len(msites)} call sites, the implementation {obs['nsites']}"))
    for i, mf in sorted(msites.items()):
        fi = common.sx_parse(sx(obs["finals"].get(i)))
        if mf != fi:
            diffs.append(("final", ["C14", "C01", "C02"], f"file {i}: model {sx(mf)} impl {sx(fi)}"))
    return diffs


def oracle(case, obs):
    fails = []
    if obs["errors"][0] or obs["errors"][1] or obs["errors"][2]:
        fails.append(("C18", "finish_total", str(obs["errors"])))
        fails.append(("C14", "independent_call_sites", f"internal error with identical functions in {case['n']} files: {obs['errors']}"))
        return fails
    fl = set(case["flags"])
    for i in range(case["n"]):
        v, fin, op, stale = case["vals"][i], obs["finals"].get(i), case["op"], case["stale"]
        want = None
        if stale is None and "create" in fl:
            want = [v] if op == "in" else v
        elif stale is not None and "fix" in fl:
            if op == "eq" and stale != v:
                want = v
            elif op == "ge" and not v <= stale:
                want = v
            elif op == "le" and not v >= stale:
                want = v
            elif op == "in" and v not in stale:
                want = (stale if "trim" not in fl else []) + [v]
        if want is not None and common.sx_parse(sx(fin)) != common.sx_parse(sx(final_sx(want))):
            fails.append(("C14", "independent_call_sites", f"file {i} observed {v} ({op}, stale {stale!r}, flags {sorted(fl)}) but holds {fin} afterwards; all files: {obs['finals']}"))
    return fails


def nontrivial(case, obs):
    return True


def signature(case):
    return common.sha(repr(case))


def histogram(case, obs, hist):
    hist["op:" + case["op"]] = hist.get("op:" + case["op"], 0) + 1
    hist["files:" + str(case["n"])] = hist.get("files:" + str(case["n"]), 0) + 1
