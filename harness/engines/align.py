"""Engine `align` (C11): sequence alignment.

White box: `_align.align` / `add_x` are called on objects whose `==` is an arbitrary Bool matrix (so
non-symmetric, non-transitive relations are covered) and compared with Model/Align.lean.
Observable level: a list / tuple snapshot whose elements are spelled by hand (`0+v`, distinct per
position) is fixed against a new value with `fix` approved and `update` not; the rewritten text shows per
position whether an element kept its source text.  Direct oracle: the script is a valid alignment, has as
many matches as an independent LCS computation, and the equal common prefix / suffix keep their text.
"""
from __future__ import annotations

import ast

from .. import common
from ..common import sx

NAME = "align"


def gen(rng, tier, shape=None):
    big = tier == "thorough"
    n = rng.randint(0, 9 if big else 6)
    m = rng.randint(0, 9 if big else 6)
    mode = rng.choice(["seq", "seq", "matrix"])
    K = rng.choice([1, 2, 2, 3, 4])
    a = [rng.randrange(K) for _ in range(n)]
    b = [rng.randrange(K) for _ in range(m)]
    if rng.random() < 0.3 and n:
        # near-copies: edits of a
        b = list(a)
        for _ in range(rng.randint(0, 3)):
            r = rng.random()
            if r < 0.4 and b:
                del b[rng.randrange(len(b))]
            elif r < 0.8:
                b.insert(rng.randint(0, len(b)), rng.randrange(K))
            elif b:
                b[rng.randrange(len(b))] = rng.randrange(K)
        m = len(b)
    if mode == "matrix":
        p = rng.choice([0.2, 0.5, 0.8])
        E = [[int(rng.random() < p) for _ in range(m)] for _ in range(n)]
    else:
        E = [[int(a[i] == b[j]) for j in range(m)] for i in range(n)]
    return {"mode": mode, "a": a, "b": b, "E": E, "n": n, "m": m, "tuple": rng.random() < 0.3,
            "spell": [rng.choice(["0+{v}", "{v}+0", "0x{v:x}", "0+{v}"]) for _ in range(n)]}


def model_lines(case):
    return [sx(["align", case["n"], case["m"], case["E"]])]


class _A:
    def __init__(self, i, E):
        self.i, self.E = i, E

    def __eq__(self, o):
        return bool(self.E[self.i][o.j])

    __hash__ = None


class _B:
    def __init__(self, j):
        self.j = j

    __hash__ = None


def run_impl(case):
    common.use_repo_sources()
    from inline_snapshot._align import add_x, align
    E, n, m = case["E"], case["n"], case["m"]
    s = align([_A(i, E) for i in range(n)], [_B(j) for j in range(m)])
    obs = {"script": s, "addx": add_x(s)}
    if case["mode"] == "seq":
        from .. import impl_inline
        a, b = case["a"], case["b"]
        texts = [case["spell"][i].format(v=a[i]) for i in range(n)]
        if case["tuple"]:
            arg = "(" + ", ".join(texts) + ("," if n == 1 else "") + ")"
            val = tuple(b)
        else:
            arg = "[" + ", ".join(texts) + "]"
            val = list(b)
        src = f"from inline_snapshot import snapshot\n\ndef test_a():\n    assert {val!r} == snapshot({arg})\n"
        r = impl_inline.run_program({"test_case.py": src}, ["fix"], ["fix"])
        after = r["files_after"].get("test_case.py", "")
        obs["errors"] = [r["import_error"], r["apply_error"], r["collect_errors"]]
        try:
            call = impl_inline.snapshot_args(after)[0]
            node = call[3].args[0]
            obs["elts"] = [ast.get_source_segment(after, e).replace(" ", "") for e in node.elts]
            obs["value"] = list(ast.literal_eval(call[2]))
        except Exception as e:  # noqa: BLE001
            obs["elts"] = None
            obs["parse_error"] = type(e).__name__
        obs["texts"] = [t.replace(" ", "") for t in texts]
    return obs


def compare(case, obs, model_out):
    o = common.sx_parse(model_out[0])
    if o == ["bad-op"]:
        return [("protocol", ["C11"], "bad-op")]
    diffs = []
    if o[1] != (obs["script"] or "-"):
        diffs.append(("align-script", ["C11", "C02", "C09"], f"model {o[1]} impl {obs['script']!r}"))
    if o[2] != (obs["addx"] or "-"):
        diffs.append(("add_x", ["C11", "C02"], f"model {o[2]} impl {obs['addx']!r}"))
    # observable level: which old elements kept their text = the m positions of the script whose value is equal
    if case["mode"] == "seq" and obs.get("elts") is not None and o[2] != "-" or (case["mode"] == "seq" and obs.get("elts") is not None):
        script = "" if o[2] == "-" else o[2]
        exp = []
        oi = ni = 0
        a, b = case["a"], case["b"]
        for c in script:
            if c in "mx":
                exp.append(obs["texts"][oi] if a[oi] == b[ni] else repr(b[ni]))
                oi += 1
                ni += 1
            elif c == "i":
                exp.append(repr(b[ni]))
                ni += 1
            else:
                oi += 1
        if exp != obs["elts"]:
            diffs.append(("kept-elements", ["C11", "C02"], f"model {exp} impl {obs['elts']}"))
    return diffs


def lcs(E, n, m):
    T = [[0] * (m + 1) for _ in range(n + 1)]
    for i in range(n):
        for j in range(m):
            T[i + 1][j + 1] = max(T[i][j + 1], T[i + 1][j], T[i][j] + 1 if E[i][j] else 0)
    return T[n][m]


def oracle(case, obs):
    fails = []
    E, n, m = case["E"], case["n"], case["m"]
    s = obs["script"]
    i = j = 0
    ok = True
    for c in s:
        if c == "m":
            if i >= n or j >= m or not E[i][j]:
                ok = False
                break
            i += 1
            j += 1
        elif c == "i":
            j += 1
        elif c == "d":
            i += 1
        else:
            ok = False
    if not ok or i != n or j != m:
        fails.append(("C11", "align_valid", f"script {s!r} is not an alignment of {n}x{m} under E={E}"))
    elif s.count("m") != lcs(E, n, m):
        fails.append(("C11", "align_optimal", f"script {s!r} has {s.count('m')} matches, an LCS has {lcs(E, n, m)} (E={E})"))
    if case["mode"] == "seq" and obs.get("elts") is not None:
        a, b = case["a"], case["b"]
        if obs.get("value") != b:
            fails.append(("C02", "fix_repairs", f"old {a} new {b}: rewritten value {obs.get('value')}"))
        p = 0
        while p < min(n, m) and a[p] == b[p]:
            p += 1
        q = 0
        while q < min(n - p, m - p) and a[n - 1 - q] == b[m - 1 - q]:
            q += 1
        el, tx = obs["elts"], obs["texts"]
        if el[:p] != tx[:p] or (q and el[len(el) - q:] != tx[n - q:]):
            fails.append(("C11", "prefix_suffix_survive", f"old {tx} new value {b}: rewritten {el}; common prefix {p}, suffix {q}"))
    return fails


def nontrivial(case, obs):
    return "i" in obs["script"] or "d" in obs["script"]


def signature(case):
    return common.sha(repr((case["E"], case["n"], case["m"], case["tuple"], case["mode"])))


def histogram(case, obs, hist):
    hist["mode:" + case["mode"]] = hist.get("mode:" + case["mode"], 0) + 1
    for c in set(obs["addx"]):
        hist["letter:" + c] = hist.get("letter:" + c, 0) + 1
    hist[f"len:{min(case['n'], 9)}x{min(case['m'], 9)}"] = hist.get(f"len:{min(case['n'], 9)}x{min(case['m'], 9)}", 0) + 1
