"""Engine `external` (C13): histories of real sessions over a project that outsources data.

A history alternates edits (change the outsourced data of a test, add / remove a test) with sessions
(`--inline-snapshot=<flags>`, review answers).  After every session the storage directory (names and
contents) is compared with Model/External.lean driven by what was observable: the data each test outsources
(with its real SHA-256), the references found in the test files afterwards, which files were rewritten, and
whether trim was approved.  The direct oracle checks the invariants of the property on the directory itself.
"""
from __future__ import annotations

import ast
import hashlib
import json
import pathlib

from .. import common
from ..common import sx

NAME = "external"
SFX = {".txt": 1, ".bin": 2}


def find_data(rng, hl):
    """data strings; for short hash lengths make prefix collisions likely"""
    pool = [f"data{i}" for i in range(40)]
    if rng.random() < 0.35:
        base = rng.sample(pool, 3)
        return base + ["b:" + d for d in base]          # the same content as str and as bytes
    if hl <= 2 and rng.random() < 0.7:
        by = {}
        for d in pool:
            by.setdefault(hashlib.sha256(d.encode()).hexdigest()[:hl], []).append(d)
        groups = [g for g in by.values() if len(g) >= 2]
        if groups:
            g = rng.choice(groups)
            return g[:3] + rng.sample(pool, 3)
    return rng.sample(pool, 6)


def gen(rng, tier, shape=None):
    hl = rng.choice([1, 2, 12, 12, 64])
    data = find_data(rng, hl)
    ntests = rng.randint(1, 3)
    steps = []
    cur = {k: rng.choice(data) for k in range(ntests)}
    steps.append({"op": "init", "tests": dict(cur)})
    for _ in range(rng.randint(2, 5 if tier == "quick" else 8)):
        r = rng.random()
        if r < 0.3:
            k = rng.choice(list(cur) or [0])
            cur[k] = rng.choice(data)
            steps.append({"op": "set", "k": k, "data": cur[k]})
        elif r < 0.4 and len(cur) > 1:
            k = rng.choice(list(cur))
            del cur[k]
            steps.append({"op": "del", "k": k})
        elif r < 0.48 and cur:
            steps.append({"op": "skip", "k": rng.choice(list(cur))})       # toggles @pytest.mark.skip on that test
        else:
            fl = sorted(c for c in common.CATS if rng.random() < 0.5)
            mode = rng.choice([[], [], [], ["review"], ["report"], ["disable"]])
            if mode == ["disable"]:
                fl = []
            steps.append({"op": "run", "flags": fl + mode, "answers": {c: rng.random() < 0.5 for c in common.CATS}})
    if rng.random() < 0.35 and cur:
        # an outsourced-but-unreferenced file must not survive the start of the next session, whatever that session's flags
        # are: leave one behind (a run that approves nothing), change the data, start an inactive / reporting session
        k = rng.choice(list(cur))
        steps.append({"op": "run", "flags": rng.choice([[], ["report"], ["fix"]]), "answers": {c: False for c in common.CATS}})
        cur[k] = rng.choice(data)
        steps.append({"op": "set", "k": k, "data": cur[k]})
        steps.append({"op": "run", "flags": rng.choice([["disable"], ["disable"], ["report"], ["short-report"], []]), "answers": {c: False for c in common.CATS}})
    if rng.random() < 0.3 and cur:
        # the file takes part in the session but none of its snapshots is evaluated: its externals are still referenced
        steps.append({"op": "run", "flags": ["create"], "answers": {c: False for c in common.CATS}})
        desel = rng.random() < 0.5
        if not desel:
            steps.append({"op": "skipall"})
        # (deselect: every test of the file is deselected with -k; the file is collected all the same)
        steps.append({"op": "run", "flags": rng.choice([["trim"], ["trim"], ["fix", "trim"], ["review"]]), "answers": {c: c == "trim" for c in common.CATS},
                      "deselect": desel})
    if not any(s["op"] == "run" for s in steps):
        steps.append({"op": "run", "flags": ["create"], "answers": {c: False for c in common.CATS}})
    return {"hash_length": hl, "steps": steps, "storage_dir": rng.choice([None, None, "snaps"])}


def sha(d):
    return hashlib.sha256(split(d)[1].encode()).hexdigest()


def split(data):
    """a payload is 'b:<text>' (bytes, suffix .bin) or plain text (str, suffix .txt)"""
    return ("bin", data[2:]) if data.startswith("b:") else ("txt", data)


def test_src(k, data, arg):
    kind, content = split(data)
    lit = repr(content.encode()) if kind == "bin" else repr(content)
    return f"def test_{k}():\n    assert outsource({lit}) == snapshot({arg})\n"


def refs_in(text):
    out = []
    try:
        tree = ast.parse(text)
    except SyntaxError:
        return out
    has_import = any(isinstance(n, ast.ImportFrom) and n.module == "inline_snapshot" and any(a.name == "external" for a in n.names)
                     for n in tree.body)
    if not has_import:
        return out
    for n in ast.walk(tree):
        if isinstance(n, ast.Call) and isinstance(n.func, ast.Name) and n.func.id == "external" and n.args and isinstance(n.args[0], ast.Constant):
            out.append(n.args[0].value)
    return out


def ref_sx(name):
    stem, _, suffix = name.partition(".")
    star = stem.endswith("*")
    pre = stem.rstrip("*")
    return [["h"] + [int(c, 16) for c in pre], star, SFX.get("." + suffix, 9)]


def listing(d: pathlib.Path):
    res = {}
    if d.exists():
        for p in sorted(d.iterdir()):
            if p.name != ".gitignore":
                res[p.name] = p.read_bytes().decode("utf-8", "replace")
    return res


def run_impl(case):
    from .. import impl_inline, impl_pytest
    d = common.mkscratch("x")
    try:
        py = f"[tool.inline-snapshot]\nhash-length={case['hash_length']}\n"
        if case["storage_dir"]:
            py += f"storage-dir=\"{case['storage_dir']}\"\n"
        store_dir = (d / case["storage_dir"] if case["storage_dir"] else d / ".inline-snapshot") / "external"
        tests = {}           # k -> (data, arg text)
        log = []
        f = d / "test_a.py"

        skipped = set()

        def write():
            body = "from inline_snapshot import snapshot, outsource\nimport pytest\n" + ("from inline_snapshot import external\n" if any(a for _d, a in tests.values()) else "") + "\n"
            for k in sorted(tests):
                body += ("@pytest.mark.skip\n" if k in skipped else "") + test_src(k, *tests[k]) + "\n"
            f.write_text(body)

        for st in case["steps"]:
            if st["op"] == "init":
                for k, dat in st["tests"].items():
                    tests[int(k)] = (dat, "")
                write()
            elif st["op"] == "set":
                k = int(st["k"])
                if k in tests:
                    tests[k] = (st["data"], tests[k][1])
                    write()
            elif st["op"] == "del":
                tests.pop(int(st["k"]), None)
                write()
            elif st["op"] == "skip":
                skipped ^= {int(st["k"])}
                write()
            elif st["op"] == "skipall":
                skipped |= set(tests)
                write()
            else:
                before_files = f.read_text()
                before_store = listing(store_dir)
                fl = st["flags"]
                args = ["--inline-snapshot=" + ",".join(fl)] if fl else ["--inline-snapshot=short-report"]
                if st.get("deselect"):
                    args += ["-k", "zzz_no_such_test"]
                prompts = [c for c in common.CATS if c not in fl]
                stdin = ("\n".join(("y" if st["answers"][c] else "n") for c in prompts) + "\nn\nn\nn\nn\n").encode()
                r = impl_pytest.run_session({}, args, stdin=stdin, pyproject=py, pre_existing_dir=d)
                after_files = f.read_text()
                # re-read the arguments the session wrote
                try:
                    calls = impl_inline.snapshot_args(after_files)
                    ks = sorted(tests)
                    for k, c in zip(ks, calls):
                        tests[k] = (tests[k][0], c[2] or "")
                except SyntaxError:
                    pass
                log.append({"flags": fl, "answers": st["answers"], "rc": r["rc"], "before_store": before_store,
                            "after_store": listing(store_dir), "changed": after_files != before_files,
                            "refs_after": refs_in(after_files), "outsourced": [] if st.get("deselect") else [tests[k][0] for k in sorted(tests) if k not in skipped],
                            "after_files": after_files, "traceback": "Traceback" in r["stderr"], "stderr": r["stderr"][-600:]})
        # white-box: prefix lookup on the final storage
        lookups = []
        common.use_repo_sources()
        from inline_snapshot._external import DiscStorage, HashError
        stg = DiscStorage(store_dir)
        names = list(listing(store_dir))
        for pre in sorted({n[:1] for n in names} | {n[:2] for n in names} | {"zz"}):
            pat = pre + "*.txt"
            n_match = sum(1 for n in names if n.startswith(pre) and n.endswith(".txt"))
            try:
                stg.read(pat)
                res = "data"
            except HashError:
                res = "HashError"
            except Exception as e:  # noqa: BLE001
                res = type(e).__name__
            lookups.append([pat, n_match, res])
        return {"log": log, "lookups": lookups}
    finally:
        common.rmtree(d)


def model_lines(case):
    return []


def store_from_listing(lst, data_ids):
    out = set()
    for name, content in lst.items():
        stem, _, suffix = name.partition(".")
        new = stem.endswith("-new")
        h = stem[:-4] if new else stem
        out.add((h, new, "." + suffix, content))
    return out


def compare(case, obs, model_out):
    """replays the observable events of every session through the model and compares the directory"""
    diffs = []
    evs = []
    data_ids = {}
    lines = []
    for ses in obs["log"]:
        evs.append(["start"])
        for dat in ses["outsourced"]:
            i = data_ids.setdefault(split(dat)[1], len(data_ids) + 1)
            evs.append(["out", ["h"] + [int(c, 16) for c in sha(dat)], 2 if split(dat)[0] == "bin" else 1, i])
        fl = ses["flags"]
        active = "disable" not in fl and bool(fl)
        if active or not fl:
            written = [ref_sx(n) for n in ses["refs_after"]] if ses["changed"] else []
            trim = "trim" in fl          # since fix 00e738b review alone never removes unused externals
            if not fl or fl == ["short-report"]:
                trim = False
            evs.append(["fin", written, [ref_sx(n) for n in ses["refs_after"]], trim])
        lines.append(sx(["storage"] + evs))
    if not lines:
        return diffs
    outs = common.Driver().run(lines)
    inv = {v: k for k, v in data_ids.items()}
    for ses, o in zip(obs["log"], outs):
        p = common.sx_parse(o)
        if p == ["bad-op"]:
            return [("protocol", ["C13"], "bad-op")]
        model = set()
        for e in p[1:]:
            h = "".join("%x" % int(x) for x in e[0][1:])
            model.add((h, e[1] == "1", ".bin" if e[2] == "2" else ".txt", inv.get(int(e[3]), "?")))
        real = store_from_listing(ses["after_store"], data_ids)
        if model != real:
            diffs.append(("storage-listing", ["C13", "C15"], f"flags {ses['flags']}: model {sorted(model)} real {sorted(real)}"))
            break
    return diffs


def oracle(case, obs):
    fails = []
    for ses in obs["log"]:
        fl = ses["flags"]
        if ses["traceback"]:
            fails.append(("C18", "finish_total", ses["stderr"][-300:]))
        refs = ses["refs_after"]
        outsourced_hashes = {sha(d) for d in ses["outsourced"]}

        def referenced(name):
            stem, _, suffix = name.partition(".")
            for r in refs:
                rs, _, rsuf = r.partition(".")
                if rsuf != suffix:
                    continue
                if rs.endswith("*"):
                    if stem.startswith(rs[:-1]):
                        return True
                elif rs == stem:
                    return True
            return False
        for name, content in ses["after_store"].items():
            stem, _, suffix = name.partition(".")
            new = stem.endswith("-new")
            h = stem[:-4] if new else stem
            if hashlib.sha256(content.encode()).hexdigest() != h:
                fails.append(("C13", "name_is_hash", f"{name} does not hold data with that SHA-256"))
            if new and h not in outsourced_hashes:
                fails.append(("C13", "new_files_die_at_start", f"{name} survived a session start (not outsourced in this session)"))
            if not new and name not in ses["before_store"] and not referenced(name):
                fails.append(("C13", "persisted_only_if_referenced", f"{name} was persisted but no test file refers to it (refs {refs})"))
        approved_trim = "trim" in fl or ("review" in fl and ses["answers"].get("trim"))
        for name in ses["before_store"]:
            stem = name.partition(".")[0]
            if stem.endswith("-new"):
                continue
            if name not in ses["after_store"]:
                if not approved_trim:
                    fails.append(("C13", "removed_only_by_approved_trim", f"{name} disappeared in a session with flags {fl} answers {ses['answers']}"))
                elif referenced(name):
                    fails.append(("C13", "removed_only_if_unreferenced", f"{name} was removed although {refs} refers to it"))
        # what is referenced must be persisted (the clause C15 relies on)
        for r in refs:
            rs, _, rsuf = r.partition(".")
            pre = rs.rstrip("*")
            cands = [n for n in ses["after_store"] if n.startswith(pre) and n.endswith("." + rsuf)]
            if ses["changed"] and not any(not n.partition(".")[0].endswith("-new") for n in cands):
                fails.append(("C13", "referenced_is_persisted", f"reference {r} was written but no persisted file matches (storage {sorted(ses['after_store'])})"))
    for pat, n, res in obs["lookups"]:
        if n != 1 and res == "data":
            fails.append(("C13", "lookup_ambiguous_or_missing_raises", f"{pat}: {n} matches but data was returned"))
        if n == 1 and res != "data":
            fails.append(("C13", "lookup_unique_reads", f"{pat}: one match but {res}"))
    return fails


def nontrivial(case, obs):
    return any(s["after_store"] != s["before_store"] for s in obs["log"])


def signature(case):
    return common.sha(json.dumps(case, sort_keys=True, default=str))


def histogram(case, obs, hist):
    hist["hash_length:" + str(case["hash_length"])] = hist.get("hash_length:" + str(case["hash_length"]), 0) + 1
    for st in case["steps"]:
        k = st["op"] + (":" + ",".join(st["flags"]) if st["op"] == "run" else "")
        hist[k] = hist.get(k, 0) + 1
    for s in obs["log"]:
        for n in s["after_store"]:
            kk = "file:new" if "-new" in n else "file:persisted"
            hist[kk] = hist.get(kk, 0) + 1
