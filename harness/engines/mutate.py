"""Engine `mutate` (C17): mutable compared objects, mutation schedules between and after comparisons.

Compared values are lists of small ints (or lists of such lists); the test mutates them in place.
The harness keeps its own heap and resolves every comparison to the value the object had at that
moment — that list is (a) what the model is driven with (a list [a,b,c] is sent as the string atom
with code points a,b,c: same equality and same lexicographic order) and (b) the independent record
for the direct oracle: what is written must be built from the values at comparison time.
"""
from __future__ import annotations

import ast
import copy

from .. import common
from ..common import sx

NAME = "mutate"
SEP_OPEN, SEP_CLOSE = 900, 901


def enc(v):
    """list (possibly nested one level) -> code points; injective"""
    out = []
    for e in v:
        if isinstance(e, list):
            out.append(SEP_OPEN)
            out += [int(x) for x in e]
            out.append(SEP_CLOSE)
        else:
            out.append(int(e))
    return out


def val_sx(v):
    if isinstance(v, tuple):           # ("job", <list>): an immutable wrapper around the mutable object
        return ["s", 1000] + enc(v[1])
    return ["s"] + enc(v)


def gen(rng, tier, shape=None):
    nobj = rng.randint(1, 3)
    nested = rng.random() < 0.3
    objs = []
    for _ in range(nobj):
        if nested:
            objs.append([[rng.randint(0, 3) for _ in range(rng.randint(0, 2))] for _ in range(rng.randint(0, 2))])
        else:
            objs.append([rng.randint(0, 3) for _ in range(rng.randint(0, 3))])
    nsites = rng.randint(1, 3)
    sites = []
    for _ in range(nsites):
        role = rng.choice(["eq", "in"] if nested else ["eq", "ge", "le", "in"])
        r = rng.random()
        if r < 0.5:
            old = None
        elif role == "in":
            old = [copy.deepcopy(rng.choice(objs)) for _ in range(rng.randint(0, 2))]
            old = [v for i, v in enumerate(old) if v not in old[:i]]
        else:
            old = copy.deepcopy(rng.choice(objs))
            if rng.random() < 0.5 and not nested:
                old = old + [rng.randint(0, 3)]
        sites.append({"role": role, "old": old})
    tests = []
    for _ in range(rng.choice([1, 1, 2])):
        evs = []
        for _ in range(rng.randint(2, 6 if tier == "quick" else 10)):
            if rng.random() < 0.45:
                k = rng.randrange(nobj)
                kind = rng.choice(["append", "pop", "set", "clear", "inner"] if nested else ["append", "pop", "set", "clear"])
                evs.append(["mut", k, kind, rng.randint(0, 4)])
            else:
                s = rng.randrange(nsites)
                evs.append(["op", s, rng.randrange(nobj)])
        tests.append(evs)
    flags = sorted(c for c in common.CATS if rng.random() < 0.5)
    if rng.random() < 0.3:
        flags = sorted(common.CATS)          # everything approved: the second identical run must be a no-op (C08)
    wrap = rng.random() < 0.35
    if wrap:
        for s_ in sites:
            if s_["old"] is not None:
                s_["old"] = [("job", v) for v in s_["old"]] if s_["role"] == "in" else ("job", s_["old"])
    return {"objs": objs, "nested": nested, "sites": sites, "tests": tests, "flags": flags, "approved": list(flags), "wrap": wrap}


OPSRC = {"eq": "{x} == {s}", "ge": "{x} <= {s}", "le": "{x} >= {s}", "in": "{x} in {s}"}


def apply_mut(heap, k, kind, arg, nested):
    o = heap[k]
    if kind == "append":
        o.append([arg] if nested else arg)
    elif kind == "pop":
        if o:
            o.pop()
    elif kind == "set":
        if o:
            o[0] = [arg, arg] if nested else arg
    elif kind == "clear":
        o.clear()
    elif kind == "inner":
        if o and isinstance(o[0], list):
            o[0].append(arg)


MUTSRC = {"append": "O{k}.append({a})", "pop": "O{k} and O{k}.pop()", "set": "O{k} and O{k}.__setitem__(0, {b})",
          "clear": "O{k}.clear()", "inner": "O{k} and O{k}[0].append({a0})"}


def render(case):
    nested = case["nested"]
    lines = ["from inline_snapshot import snapshot", "R = []", "def rec(f):", "    try:", "        R.append(bool(f()))",
             "    except Exception as e:", "        R.append(type(e).__name__)", ""]
    for i, o in enumerate(case["objs"]):
        lines.append(f"O{i} = {o!r}")
    for i, s in enumerate(case["sites"]):
        a = "" if s["old"] is None else repr(s["old"])
        lines.append(f"def site{i}():\n    return snapshot({a})\n")
    heap = copy.deepcopy(case["objs"])
    events, boundaries, observed = [], [], {}
    for t, evs in enumerate(case["tests"]):
        lines.append(f"def test_{t}():")
        events.append(["begin"])
        for ev in evs:
            if ev[0] == "mut":
                _, k, kind, arg = ev
                lines.append("    " + MUTSRC[kind].format(k=k, a=repr([arg]) if nested else arg,
                                                          b=repr([arg, arg]) if nested else arg, a0=arg))
                apply_mut(heap, k, kind, arg, nested)
            else:
                _, s, k = ev
                role = case["sites"][s]["role"]
                xsrc = f'("job", O{k})' if case.get("wrap") else f"O{k}"
                lines.append("    rec(lambda: " + OPSRC[role].format(x=xsrc, s=f"site{s}()") + ")")
                now = copy.deepcopy(heap[k])
                if case.get("wrap"):
                    now = ("job", now)
                observed.setdefault(s, []).append(now)
                old = case["sites"][s]["old"]
                if old is None:
                    osx = "none"
                elif role == "in":
                    osx = ["coll"] + [[val_sx(v), True] for v in old]
                else:
                    osx = ["leaf", val_sx(old), True]
                events.append(["stmt", [[s, osx]], ["op", s, "-", role, val_sx(now), True]])
        lines.append("")
        boundaries.append(len(events))
    return "\n".join(lines) + "\n", events, boundaries, observed


def model_lines(case):
    _src, events, boundaries, _obs = render(case)
    hdr = ["sites", ["flags"] + case["flags"], ["approved"] + case["approved"]]
    return [sx(hdr + events[:b]) for b in boundaries]


def final_sx(v, role):
    if v is None:
        return "noarg"
    if role == "in":
        return ["l"] + [val_sx(e) for e in v]
    return val_sx(v)


def run_impl(case):
    from .. import impl_inline
    src, _events, _b, observed = render(case)
    obs = impl_inline.run_program({"test_case.py": src}, case["flags"], case["approved"])
    calls = impl_inline.snapshot_args(src)
    pos_to_site = {(ln, col): i for i, (ln, col, _a, _n) in enumerate(calls)}
    sites = {pos_to_site.get((s["line"], s["col"])): {"cats": s["cats"], "error": s["error"]} for s in obs["sites"]}
    finals, raw = {}, {}
    after = obs["files_after"].get("test_case.py", "")
    try:
        for i, (_l, _c, a, _n) in enumerate(impl_inline.snapshot_args(after)):
            v = None if a is None else ast.literal_eval(a)
            raw[i] = v
            finals[i] = final_sx(v, case["sites"][i]["role"])
    except Exception as e:  # noqa: BLE001
        finals = {"syntax_error": str(e)}
    second = None
    if set(case["approved"]) == set(common.CATS) and not obs["collect_errors"] and not obs["apply_error"] and after:
        o2 = impl_inline.run_program({"test_case.py": after}, case["flags"], case["approved"])
        second = {"changed": o2["files_after"].get("test_case.py", "") != after, "cats": sorted({c for s_ in o2["sites"] for c in s_["cats"]}),
                  "R": o2["R"][0][1] if o2["R"] else None, "counters": [[t["missing"], t["incorrect"]] for t in o2["tests"]],
                  "errors": [o2["import_error"], o2["apply_error"], o2["collect_errors"]]}
    return {"second": second, "R": obs["R"][0][1] if obs["R"] else None, "tests": obs["tests"], "sites": sites, "finals": finals,
            "raw": raw, "observed": {str(k): v for k, v in observed.items()}, "src": src, "after": after,
            "collect_errors": obs["collect_errors"], "apply_error": obs["apply_error"], "import_error": obs["import_error"]}


def compare(case, obs, model_out):
    from . import site as S
    diffs = S.compare(case, obs, model_out)
    return [(name, sorted(set(props) | {"C17"}) if name in ("final", "results", "cats") else props, d) for name, props, d in diffs]


def oracle(case, obs):
    """what is written is built from the values the objects had when they were compared"""
    fails = []
    if obs["collect_errors"] or obs["apply_error"] or "syntax_error" in obs["finals"]:
        return fails
    approved = set(case["approved"])
    sec = obs.get("second")
    if sec and not any(sec["errors"]):
        # deterministic test (same mutations every run): after a run with everything approved nothing is left to do
        r1 = obs["R"] or []
        clean_first = all(x is True or x is False for x in r1)          # no TypeError / UsageError paths in the first run
        for i_, s_ in enumerate(case["sites"]):
            seen_ = obs["observed"].get(str(i_), [])
            if s_["role"] == "eq" and any(v != seen_[0] for v in seen_[1:]):
                clean_first = False         # the test contradicts itself: one == snapshot compared with different values (exempt)
        if clean_first and (any(x is not True for x in (sec["R"] or [])) or any(c != [0, 0] for c in sec["counters"])):
            fails.append(("C08", "rerun_succeeds", f"after a run with all categories approved (it wrote {obs['raw']!r}) the same run again does not pass: "
                          f"comparison results {sec['R']}, counters (missing, incorrect) per test {sec['counters']}"))
        if sec["changed"] or ({"create", "fix", "trim"} & set(sec["cats"])):
            fails.append(("C08", "rerun_noop", f"after a run with all categories approved the same run again reports {sec['cats']} and "
                          f"{'changes' if sec['changed'] else 'does not change'} the file; first run wrote {obs['raw']!r}"))
    for i, s in enumerate(case["sites"]):
        seen = obs["observed"].get(str(i), [])
        if not seen:
            continue
        role, old, val = s["role"], s["old"], obs["raw"].get(i)
        cats = set(obs["sites"].get(i, {}).get("cats", []))
        if not (cats & approved):
            continue
        if role == "eq":
            want = seen[0]
            if old is None or old != want:
                if val != want:
                    fails.append(("C17", "recorded_is_value_at_comparison_time", f"site {i}: compared {want!r}, written {val!r}"))
                    if old is None and "create" in approved:
                        fails.append(("C01", "created_value_holds", f"site {i}: empty snapshot compared with {want!r} (as it was at that moment), written {val!r}"))
        elif role in ("ge", "le"):
            ext = max(seen) if role == "ge" else min(seen)
            if val is not None and val != old and val != ext:
                fails.append(("C17", "recorded_is_value_at_comparison_time", f"site {i}: observed {seen!r}, written {val!r}"))
                fails.append(("C14", "aggregate_extreme", f"site {i}: repeated evaluations observed {seen!r} (as they were at that moment), written {val!r} is neither the old value nor their extreme"))
                if old is None and "create" in approved:
                    fails.append(("C01", "created_value_holds", f"site {i}: empty snapshot used with {'<=' if role == 'ge' else '>='}, values as they were compared {seen!r}, "
                                  f"written {val!r}: not a bound for all of them"))
        else:
            if val is not None:
                for e in val:
                    if e not in seen and (old is None or e not in old):
                        fails.append(("C17", "recorded_is_value_at_comparison_time", f"site {i}: member {e!r} was never compared (observed {seen!r})"))
                        fails.append(("C14", "aggregate_union", f"site {i}: member {e!r} of the written collection is none of the values that were tested {seen!r} nor an old member"))
                        break
    return fails


def nontrivial(case, obs):
    muts_after = False
    for evs in case["tests"]:
        seen_op = False
        for ev in evs:
            if ev[0] == "op":
                seen_op = True
            elif seen_op:
                muts_after = True
    return muts_after and any(s["cats"] for s in obs["sites"].values())


def signature(case):
    return common.sha(repr((case["objs"], case["sites"], case["tests"], case["flags"])))


def histogram(case, obs, hist):
    for evs in case["tests"]:
        for ev in evs:
            key = "mut:" + ev[2] if ev[0] == "mut" else "op:" + case["sites"][ev[1]]["role"]
            hist[key] = hist.get(key, 0) + 1
    hist["nested:" + str(case["nested"])] = hist.get("nested:" + str(case["nested"]), 0) + 1
