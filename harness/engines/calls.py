"""Engine `calls` (C11, C02, C05, C10): constructor calls with keyword arguments (`GenericCallAdapter`).

The snapshot argument is `K(a=…, c=…)` for a dataclass or an attrs class whose fields all have defaults; the
keyword values are the nested display trees of the `assign` engine (hand-written leaves, unmanaged leaves);
the new value is a `K` instance with some fields changed / reset to their default / newly non-default.
Model: Model/CallAssign.lean (`assignCall`, which hands every matched keyword to `Assign.assign`).
Direct oracle: fix repairs (disabled re-run passes), a keyword whose value is unchanged keeps its source text
when update is not approved, hand-written elements inside a changed keyword's container survive (C11).
"""
from __future__ import annotations

import ast

from .. import common
from ..common import sx
from . import assign as A

NAME = "calls"

FIELDS = [("a", 0), ("b", []), ("c", {}), ("d", "d"), ("e", ())]
NAME_ID = {n: i + 1 for i, (n, _d) in enumerate(FIELDS)}

PRELUDE = '''from inline_snapshot import snapshot, Is
from inline_snapshot._unmanaged import declare_unmanaged
from dataclasses import dataclass, field
import attrs

@declare_unmanaged
class AnyThing:
    def __init__(self, k): self.k = k
    def __eq__(self, other): return True
    def __repr__(self): return f"AnyThing({self.k})"

@dataclass
class K:
    a: object = 0
    b: object = field(default_factory=list)
    c: object = field(default_factory=dict)
    d: object = "d"
    e: object = ()

@attrs.define
class KA:
    a: object = 0
    b: object = attrs.field(factory=list)
    c: object = attrs.field(factory=dict)
    d: object = "d"
    e: object = ()

R = []
'''


def gen(rng, tier, shape=None):
    ctr = A.Ctr()
    cls = rng.choice(["K", "K", "KA"])
    names = [n for n, _ in FIELDS]
    # positional arguments: a prefix of the fields, written without their names (hand-written style `K(1, [2])`)
    npos = rng.choice([0, 0, 0, 1, 2, 3]) if rng.random() < 0.5 else 0
    pos_names = names[:npos]
    old_names = pos_names + rng.sample(names[npos:], rng.randint(0, min(4, len(names) - npos)))
    old_kw = []
    for n in old_names:
        dflt = dict(FIELDS)[n]
        v = A.rand_val(rng, 2) if rng.random() < 0.85 else dflt
        if n == "b" and rng.random() < 0.6:
            v = [A.rand_val(rng, 1) for _ in range(rng.randint(1, 4))]
        if n == "c" and rng.random() < 0.6:
            v = {k: A.rand_val(rng, 1) for k in rng.sample(["k0", "k1", "k2"], rng.randint(1, 3))}
        if rng.random() < 0.08:
            # a user-controlled value that happens to equal the field's default
            old_kw.append((n, {"t": "unm", "kind": "is", "tok": ctr.next(), "v": dflt}))
            continue
        old_kw.append((n, A.mk_expr(rng, v, ctr, p_unm=0.06, p_star=0.0, top=True)))
    # the new object: start from the old field values
    new = {n: d for n, d in FIELDS}
    for n, e in old_kw:
        new[n] = A.expr_value(e)
    for n in names:
        r = rng.random()
        if r < 0.3:
            new[n] = A.mutate_val(rng, new[n])
        elif r < 0.4:
            new[n] = dict(FIELDS)[n]          # back to the default
        elif r < 0.5:
            new[n] = A.rand_val(rng, 1)
    flags = sorted(c for c in ["fix", "update"] if rng.random() < 0.55)
    return {"cls": cls, "old_kw": old_kw, "new": new, "flags": flags, "npos": npos, "orders": rng.random() < 0.3}


def arg_src(case):
    k = case.get("npos", 0)
    return case["cls"] + "(" + ", ".join((A.render(e) if i < k else f"{n}={A.render(e)}") for i, (n, e) in enumerate(case["old_kw"])) + ")"


def new_src(case):
    return case["cls"] + "(" + ", ".join(f"{n}={v!r}" for n, v in case["new"].items()) + ")"


def program(case, arg=None):
    return PRELUDE + f"NEW = {new_src(case)}\n\ndef test_a():\n    R.append(bool(NEW == snapshot({arg_src(case) if arg is None else arg})))\n"


def is_default(n, v):
    d = dict(FIELDS)[n]
    return v == d


def model_lines(case):
    k = case.get("npos", 0)
    kw = [[NAME_ID[n], A.expr_sx(e)] for n, e in case["old_kw"][k:]]
    fields = [[NAME_ID[n], A.val_sx(case["new"][n]), bool(is_default(n, case["new"][n]))] for n, _d in FIELDS]
    if k:
        return [sx(["callassign", ["flags"] + case["flags"], ["pos"] + [A.expr_sx(e) for _n, e in case["old_kw"][:k]], ["kw"] + kw, ["fields"] + fields])]
    return [sx(["callassign", ["flags"] + case["flags"], ["kw"] + kw, ["fields"] + fields])]


def run_impl(case):
    from .. import impl_inline
    texts = {}
    for _n, e in case["old_kw"]:
        A.collect_texts(e, texts)
    src = program(case)
    r = impl_inline.run_program({"test_case.py": src}, case["flags"], case["flags"])
    after = r["files_after"].get("test_case.py", "")
    obs = {"R": r["R"][0][1] if r["R"] else None, "cats": sorted({c for s in r["sites"] for c in s["cats"]}),
           "errors": [r["import_error"], r["apply_error"], r["collect_errors"]]}
    try:
        call = impl_inline.snapshot_args(after)[0]
        node = call[3].args[0]
        obs["arg"] = call[2]
        if isinstance(node, ast.Call):
            obs["kw"] = [[str(NAME_ID.get(k.arg, 0)), A.ast_to_norm(k.value, after, texts)] for k in node.keywords]
            obs["pos"] = [A.ast_to_norm(a, after, texts) for a in node.args]
        else:
            obs["kw"] = ["not-a-keyword-call", ast.dump(node)[:80]]
    except Exception as e:  # noqa: BLE001
        obs["arg"], obs["kw"] = None, ["unparsable", type(e).__name__]
    if case.get("orders") and not (r["import_error"] or r["apply_error"] or r["collect_errors"]):
        # C09: fix and update approved together, and one at a time in both orders
        def final(seq):
            text = src
            for fl in seq:
                rr = impl_inline.run_program({"test_case.py": text}, fl, fl)
                if rr["import_error"] or rr["apply_error"] or rr["collect_errors"]:
                    return "error: " + str(rr["apply_error"] or rr["collect_errors"] or rr["import_error"])[:200]
                text = rr["files_after"].get("test_case.py", "")
            try:
                return ast.dump(impl_inline.snapshot_args(text)[0][3])
            except Exception as e:  # noqa: BLE001
                return "unparsable: " + type(e).__name__
        obs["orders"] = {"together": final([["fix", "update"]]), "fix,update": final([["fix"], ["update"]]), "update,fix": final([["update"], ["fix"]])}
    if obs["arg"] is not None:
        import contextlib
        import io
        import sys
        import types
        mod = types.ModuleType("vt_calls_mod")
        sys.modules["vt_calls_mod"] = mod
        try:
            with contextlib.redirect_stdout(io.StringIO()):
                exec(compile(program(case, obs["arg"]), "<rerun>", "exec"), mod.__dict__)
                mod.__dict__["test_a"]()
            obs["rerun_disabled"] = mod.__dict__["R"][-1]
        except Exception as ex:  # noqa: BLE001
            obs["rerun_disabled"] = type(ex).__name__ + ": " + str(ex)[:80]
        finally:
            sys.modules.pop("vt_calls_mod", None)
    return obs


def compare(case, obs, model_out):
    o = common.sx_parse(model_out[0])
    if o == ["bad-op"]:
        return [("protocol", ["C11", "C02"], "bad-op")]
    if obs["errors"][0] or obs["errors"][1] or obs["errors"][2]:
        return [("impl-error", ["C18"], str(obs["errors"]))]
    diffs = []
    if sorted(o[1]) != obs["cats"]:
        diffs.append(("cats", ["C05", "C02", "C11"], f"model {o[1]} impl {obs['cats']}"))
    mkw = [[p[0], A.norm_model_expr(p[1])] for p in o[2][1:]]
    if mkw != obs["kw"]:
        diffs.append(("keywords", ["C11", "C02", "C10", "C09"], f"model {sx(mkw)} impl {sx(obs['kw'])}"))
    mpos = [A.norm_model_expr(p) for p in o[4][1:]] if len(o) > 4 else []
    if mpos != obs.get("pos", []):
        diffs.append(("positional", ["C11", "C02", "C05"], f"model {sx(mpos)} impl {sx(obs.get('pos'))}"))
    return diffs


def oracle(case, obs):
    fails = []
    if obs["errors"][0] or obs["errors"][1] or obs["errors"][2]:
        fails.append(("C18", "finish_total", f"{arg_src(case)} vs {new_src(case)} flags {case['flags']}: {obs['errors']}"))
        return fails
    fl = set(case["flags"])
    managed = all(A.managed(e) for _n, e in case["old_kw"])
    if "fix" in fl and managed and obs.get("rerun_disabled") is not True:
        fails.append(("C02", "fix_repairs", f"{arg_src(case)} -> {obs.get('arg')!r} for {new_src(case)}: disabled re-run gives {obs.get('rerun_disabled')!r}"))
    # C05: fix is reported exactly when the comparison against the current value fails
    if managed:
        oldv = {n: d for n, d in FIELDS}
        for n, e in case["old_kw"]:
            oldv[n] = A.expr_value(e)
        same = all(sx(A.val_sx(oldv[n])) == sx(A.val_sx(case["new"][n])) for n, _d in FIELDS)
        if same and "fix" in obs["cats"]:
            fails.append(("C05", "fix_only_when_failing", f"{arg_src(case)} compared with the equal value {new_src(case)} passes, but fix is reported (cats {obs['cats']})"))
        if not same and obs["R"] == [False] and "fix" not in obs["cats"]:
            fails.append(("C05", "fix_when_failing", f"{arg_src(case)} compared with {new_src(case)} fails, but no fix is reported (cats {obs['cats']})"))
    od = obs.get("orders")
    if od:
        for k in ("fix,update", "update,fix"):
            if od[k] != od["together"]:
                fails.append(("C09", "order_independent", f"{arg_src(case)} compared with {new_src(case)}: approving {k} one at a time gives another call than fix,update together "
                              f"({od[k][:160]} vs {od['together'][:160]})"))
                break
    # C10: an unmanaged keyword value is never rewritten (it may only disappear together with its keyword)
    if obs.get("arg") is not None:
        argn = obs["arg"].replace(" ", "").replace("\n", "")
        for n, e in case["old_kw"]:
            if e["t"] == "unm":
                txt = A.render(e).replace(" ", "")
                if (n + "=") in argn and txt not in argn:
                    fails.append(("C10", "unmanaged_untouched", f"keyword {n}={A.render(e)} was rewritten: {arg_src(case)} -> {obs['arg']} (new value {case['new'][n]!r})"))
    # C11: with fix and without update every hand-written leaf whose value is unchanged and that sits under surviving keys
    #      (call keyword / dict key path, or list position inside the equal common prefix) keeps its text
    if "update" not in fl and obs.get("arg") is not None:
        arg = obs["arg"].replace(" ", "").replace("\n", "")
        for n, e in case["old_kw"][case.get("npos", 0):]:     # positional arguments are converted to keywords by design
            newv = case["new"][n]
            if is_default(n, newv):
                continue              # the keyword itself is removed
            for txt in kept_texts(e, newv):
                if txt.replace(" ", "") not in arg:
                    fails.append(("C11", "equal_entry_kept", f"keyword {n}: {txt} has an unchanged value under surviving keys but was rewritten: {arg_src(case)} -> {obs['arg']}"))
                    break
    return fails


def kept_texts(e, newv):
    """hand-written leaves that must survive: same value, reachable through dict keys / equal list prefix"""
    out = []
    t = e["t"]
    if t == "leaf":
        if not e["canon"] and type(e["v"]) is type(newv) and e["v"] == newv:
            out.append(A.render(e))
        return out
    if t == "D" and isinstance(newv, dict):
        for k, x in e["es"]:
            if k in newv:
                out += kept_texts(x, newv[k])
    elif t in ("L", "T") and type(newv) is (list if t == "L" else tuple):
        for x, nv in zip(e["es"], newv):
            if x["t"] == "star":
                return out
            try:
                same = A.expr_value(x) == nv and type(A.expr_value(x)) is type(nv)
            except Exception:  # noqa: BLE001
                same = False
            if not same:
                break               # only the equal common prefix is guaranteed
            out += kept_texts(x, nv)
    return out


def nontrivial(case, obs):
    return bool(obs["cats"])


def signature(case):
    return common.sha(repr(case))


def histogram(case, obs, hist):
    hist["cls:" + case["cls"]] = hist.get("cls:" + case["cls"], 0) + 1
    hist["positional:%d" % case.get("npos", 0)] = hist.get("positional:%d" % case.get("npos", 0), 0) + 1
    hist["old_kw:" + str(len(case["old_kw"]))] = hist.get("old_kw:" + str(len(case["old_kw"])), 0) + 1
    for c in obs["cats"]:
        hist["cat:" + c] = hist.get("cat:" + c, 0) + 1
    hist["flags:" + ",".join(case["flags"])] = hist.get("flags:" + ",".join(case["flags"]), 0) + 1
