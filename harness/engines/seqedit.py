"""Engine `seqedit` (C03, C11, C02, C18): `apply_all` / `generic_sequence_update` at the text level.

A case is one display (list, tuple, dict) or call written with arbitrary trivia between its elements (blanks,
line breaks, comments, trailing comma, parenthesised elements), a set of elements to delete and pieces of code
to insert at positions.  The real `apply_all` is driven with hand-made `Delete` / `ListInsert` / `DictInsert` /
`CallArg` changes on the parsed source (so `list_token_range`, `dict_token_range`, `arg_token_range`,
`with_parentheses`, `brace_tokens`, the `ChangeRecorder` and `SourceFile.new_code` are all executed) and the text
between the braces is compared token by token with Model/SeqEdit.lean (`seqUpdate`).
Theorems about the model: Props/C03b.lean (the result is a display again, it holds exactly the expected elements in
order, a one-element tuple keeps its comma, untouched neighbours keep their original separator).
Direct oracle: the new text parses, the elements are the expected ones (ast), a tuple stays a tuple.
"""
from __future__ import annotations

import ast
import os
import tempfile

from .. import common
from ..common import sx

NAME = "seqedit"

TRIVIA = [" ", "  ", "\n    ", " # c\n    ", "\n", "\n  # c2\n  ", "\t"]
ELEMS = ["1", "'a'", "[1, 2]", "(3)", "((4))", "f(1, 2)", "x", "{1: 2}", "(5, 6)", "-1", "a.b", "[\n 7,\n 8]",
         '"""first\nsecond"""', "'''\\\nq\n'''"]        # one token that spans several lines (generated triple-quoted strings)
CODES = ["X1", "X2", "[X3]", "(X4, X5)", "X6"]


def rand_trivia(rng, p_empty=0.5):
    if rng.random() < p_empty:
        return []
    return [rng.randrange(len(TRIVIA)) for _ in range(rng.choice([1, 1, 2]))]


def gen(rng, tier, shape=None):
    kind = rng.choice(["list", "list", "tuple", "tuple", "dict", "call"])
    n = rng.choice([0, 1, 1, 2, 2, 3, 4, 5])
    if kind == "tuple" and n == 0 and rng.random() < 0.5:
        n = 1
    elems = []
    npos = rng.randint(0, n) if kind == "call" else 0
    for i in range(n):
        e = rng.choice(ELEMS)
        if kind == "tuple" and n == 1 and e.startswith("("):
            e = "1"
        if kind == "dict":
            elems.append({"k": f"'k{i}'" if rng.random() < 0.8 else f"({i})", "v": e})
        elif kind == "call" and i >= npos:
            elems.append({"name": f"n{i}", "v": e})
        else:
            elems.append({"v": e})
    # gaps: gap0, inner gaps (one comma), last gap (optional comma; a one-element tuple needs it)
    gaps = [[("w", t) for t in rand_trivia(rng, 0.6)]]
    for i in range(n):
        last = i == n - 1
        g = [("w", t) for t in rand_trivia(rng, 0.7)]
        if not last or (kind == "tuple" and n == 1) or rng.random() < 0.3:
            g.append(("c",))
            g += [("w", t) for t in rand_trivia(rng, 0.3 if not last else 0.6)]
        gaps.append(g)
    keep = [rng.random() < 0.6 for _ in range(n)]
    if rng.random() < 0.2:
        keep = [True] * n
    ins = [[] for _ in range(n + 1)]
    for _ in range(rng.choice([0, 0, 1, 1, 2, 3])):
        p = rng.randint(0, n)
        if kind == "call" and p < npos:
            continue                      # new arguments are keywords: never in front of a positional one
        ins[p].append(len([c for l in ins for c in l]))
    if kind == "tuple" and rng.random() < 0.9:
        for p in range(n):
            if ins[p] and not any(keep[p:]):
                ins[n] += ins[p]
                ins[p] = []
    if all(keep) and not any(ins):
        if n and rng.random() < 0.7:
            keep[rng.randrange(n)] = False
        else:
            ins[n].append(0)
    return {"kind": kind, "elems": elems, "gaps": gaps, "keep": keep, "ins": ins, "npos": npos}


def trivia_text(g):
    return "".join("," if t[0] == "c" else TRIVIA[t[1]] for t in g)


def elem_text(kind, e):
    if kind == "dict":
        return f"{e['k']}: {e['v']}"
    if "name" in e:
        return f"{e['name']}={e['v']}"
    return e["v"]


def ins_text(kind, j):
    code = CODES[j % len(CODES)]
    if kind == "dict":
        return f"'i{j}': {code}"
    if kind == "call":
        return f"i{j} = {code}"
    return code


PREFIX = "u = [  1]\n"      # not formatter-clean: the file is never re-formatted as a whole, the edits are observed as made


def anchored(case):
    """every insert position has a kept element at or after it, or is the very end (what the adapters produce)"""
    n = len(case["elems"])
    return all(not case["ins"][p] or any(case["keep"][p:]) for p in range(n))


OPEN = {"list": "[", "tuple": "(", "dict": "{", "call": "f("}
CLOSE = {"list": "]", "tuple": ")", "dict": "}", "call": ")"}


def source(case):
    kind = case["kind"]
    inner = trivia_text(case["gaps"][0])
    for i, e in enumerate(case["elems"]):
        inner += elem_text(kind, e) + trivia_text(case["gaps"][i + 1])
    return PREFIX + "v = " + OPEN[kind] + inner + CLOSE[kind] + "\n", inner


def tok_sx(t):
    if t[0] == "c":
        return "c"
    return ["w", t[1] + 1]          # ws 0 is the generated blank


def model_lines(case):
    n = len(case["elems"])
    entries = [[i, case["keep"][i], [tok_sx(t) for t in case["gaps"][i + 1]]] for i in range(n)]
    ins = [[1000 + j for j in l] for l in case["ins"]]
    return [sx(["seqedit", case["kind"] == "tuple", ["gap"] + [tok_sx(t) for t in case["gaps"][0]],
                ["entries"] + entries, ["ins"] + ins])]


def render_model(case, toks):
    out = ""
    for t in toks:
        if t == "c":
            out += ","
        elif t[0] == "w":
            k = int(t[1])
            out += " " if k == 0 else TRIVIA[k - 1]
        else:
            k = int(t[1])
            out += ins_text(case["kind"], k - 1000) if k >= 1000 else elem_text(case["kind"], case["elems"][k])
    return out


def run_impl(case):
    from executing import Source
    from inline_snapshot._change import CallArg, Delete, DictInsert, ListInsert, apply_all
    from inline_snapshot._rewrite_code import ChangeRecorder
    src, _inner = source(case)
    kind = case["kind"]
    obs = {"src": src}
    d = tempfile.mkdtemp(prefix="vt_seqedit_", dir=common.scratch_dir() if hasattr(common, "scratch_dir") else None)
    path = os.path.join(d, "m.py")
    try:
        with open(path, "w", encoding="utf-8", newline="") as f:
            f.write(src)
        s = Source.for_filename(path)
        node = s.tree.body[1].value
        if kind == "dict":
            values = list(node.values)
        elif kind == "call":
            values = list(node.args) + [k.value for k in node.keywords]
        else:
            values = list(node.elts)
        assert len(values) == len(case["elems"]), (src, len(values))
        changes = []
        for i, keep in enumerate(case["keep"]):
            if not keep:
                changes.append(Delete("fix", s, values[i], None))
        for p, l in enumerate(case["ins"]):
            if not l:
                continue
            if kind == "dict":
                changes.append(DictInsert("fix", s, node, p, [(f"'i{j}'", CODES[j % len(CODES)]) for j in l], [None] * len(l)))
            elif kind == "call":
                for j in l:
                    changes.append(CallArg("fix", s, node, p, f"i{j}", CODES[j % len(CODES)], None))
            else:
                changes.append(ListInsert("fix", s, node, p, [CODES[j % len(CODES)] for j in l], [None] * len(l)))
        rec = ChangeRecorder()
        try:
            apply_all(changes, rec)
            new = rec.get_source(path).new_code() if list(rec.files()) else src
            obs["new"] = new
        except Exception as e:  # noqa: BLE001
            obs["error"] = type(e).__name__ + ": " + str(e)[:200]
    finally:
        try:
            os.remove(path)
            os.rmdir(d)
        except OSError:
            pass
    return obs


def expected_codes(case):
    out = []
    n = len(case["elems"])
    for i in range(n + 1):
        out += [ins_text(case["kind"], j) for j in case["ins"][i]]
        if i < n and case["keep"][i]:
            out.append(elem_text(case["kind"], case["elems"][i]))
    return out


def norm_elems(kind, text):
    """the element list of `v = <display>` as ast dumps"""
    node = ast.parse(text).body[-1].value
    if kind == "dict":
        if not isinstance(node, ast.Dict):
            return ["not-a-dict"]
        return [ast.dump(k) + ":" + ast.dump(v) for k, v in zip(node.keys, node.values)]
    if kind == "call":
        if not isinstance(node, ast.Call):
            return ["not-a-call"]
        return [ast.dump(a) for a in node.args] + [k.arg + "=" + ast.dump(k.value) for k in node.keywords]
    want = ast.List if kind == "list" else ast.Tuple
    if not isinstance(node, want):
        return ["not-a-" + kind, ast.dump(node)[:60]]
    return [ast.dump(e) for e in node.elts]


def compare(case, obs, model_out):
    o = common.sx_parse(model_out[0])
    if o == ["bad-op"]:
        return [("protocol", ["C03"], "bad-op")]
    if "error" in obs:
        return [("impl-error", ["C18", "C03"], obs["error"])]
    kind = case["kind"]
    want = PREFIX + "v = " + OPEN[kind] + render_model(case, o[1]) + CLOSE[kind] + "\n"
    if want != obs["new"]:
        return [("text", ["C03", "C11", "C02", "C05", "C12"], f"model {want!r} impl {obs['new']!r} (from {obs['src']!r}, keep {case['keep']}, ins {case['ins']})")]
    return []


def oracle(case, obs):
    fails = []
    what = f"{obs['src']!r} keep {case['keep']} insert {case['ins']}"
    if "error" in obs:
        fails.append(("C18", "finish_total", f"{what}: {obs['error']}"))
        return fails
    kind = case["kind"]
    try:
        got = norm_elems(kind, obs["new"])
    except SyntaxError as e:
        fails.append(("C03", "valid_python", f"{what}: result {obs['new']!r} does not parse: {e}"))
        fails.append(("C18", "finish_total", f"{what}: result {obs['new']!r} does not parse: {e}"))
        return fails
    exp = expected_codes(case)
    want = norm_elems(kind, "v = " + OPEN[kind] + ", ".join(exp) + ("," if kind == "tuple" and len(exp) == 1 else "") + CLOSE[kind] + "\n")
    if got != want and kind == "tuple" and not anchored(case):
        pass        # `elements` does not count code that is still pending at the end: never produced by the adapters (see DESIGN.md)
    elif got != want:
        d = f"{what}: result {obs['new']!r} holds other elements than the kept and inserted ones {exp}"
        fails.append(("C02", "elements_as_computed", d))
        fails.append(("C05", "fix_applied_all_hold", d))
        if any('"""' in elem_text(kind, e) or "'''" in elem_text(kind, e) for e in case["elems"]):
            fails.append(("C12", "nested_string_reads_back", d))
        fails.append(("C03", "valid_python", d))
        fails.append(("C11", "kept_elements_survive", d))
    else:
        for i, e in enumerate(case["elems"]):
            if case["keep"][i] and elem_text(kind, e) not in obs["new"]:
                fails.append(("C11", "kept_text_verbatim", f"{what}: the text of kept element {i} was altered: {obs['new']!r}"))
    return fails


def nontrivial(case, obs):
    return obs.get("new") != obs["src"]


def signature(case):
    return common.sha(repr(case))


def histogram(case, obs, hist):
    if not anchored(case):
        hist["unanchored-insert"] = hist.get("unanchored-insert", 0) + 1
    hist["kind:" + case["kind"]] = hist.get("kind:" + case["kind"], 0) + 1
    hist["n:%d" % len(case["elems"])] = hist.get("n:%d" % len(case["elems"]), 0) + 1
    hist["deleted:%d" % case["keep"].count(False)] = hist.get("deleted:%d" % case["keep"].count(False), 0) + 1
    hist["inserted:%d" % sum(len(l) for l in case["ins"])] = hist.get("inserted:%d" % sum(len(l) for l in case["ins"]), 0) + 1
    if any(t[0] == "w" and "#" in TRIVIA[t[1]] for g in case["gaps"] for t in g):
        hist["comments"] = hist.get("comments", 0) + 1
