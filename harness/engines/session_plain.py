"""Engine `session_plain` (C19): the `session` engine restricted to the scope of C19 — plain category flags on
the command line — so that every case goes through the three-way comparison run_inline / run_pytest / real session."""
from .session import *  # noqa: F401,F403
from . import session as _S

NAME = "session_plain"


def gen(rng, tier, shape=None):
    return _S.gen(rng, tier, {"plain": True})
