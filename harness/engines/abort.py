"""Engine `abort` (C09, C02): tests written with plain `assert` statements, where a failing comparison ends the test.

Every other engine records comparison results without stopping (`rec(lambda: ...)`); here a run in which a
comparison is not made to succeed (no create / fix / update among the flags: a trim-only run, or a changed
`_return` / `_ignore_old`) stops at the first failing assert, so the statements behind it are not executed in that
run.  One test function with 2-4 asserting statements over independent call sites plus, optionally, one module-level
snapshot (list used with `in`, or dict used with `[key]`) that is used before *and* after another statement.

No Lean model stands behind the stopping itself (the site model has no notion of a test that ends early); the engine
serves the failing-input search with two direct oracles:
  C09  approving a set of categories one at a time, in every order, ends in the same syntax tree as approving them
       together
  C02  with create and fix approved together the rewritten test passes with inline-snapshot disabled
"""
from __future__ import annotations

import ast
import contextlib
import io
import itertools

from .. import common

NAME = "abort"

STMTS = [
    # (statement with {S} = the snapshot call, kind)
    ("assert 5 == snapshot({a})", "eq"),
    ("assert 3 <= snapshot({a})", "ge"),
    ("assert 3 >= snapshot({a})", "le"),
    ("assert 2 in snapshot({a})", "in"),
    ("assert 'xx' == snapshot({a})", "eqs"),
]
ARGS = {"eq": ["", "5", "4", "0+5"], "ge": ["", "3", "9", "1", "0x3"], "le": ["", "3", "1", "9"], "in": ["", "[2]", "[1]", "[1, 2, 3]", "[0+2]"],
        "eqs": ["", "'xx'", "'y'"]}
SHARED = [
    ("S = snapshot([1, 2, 3])", ["assert 1 in S", "assert 2 in S", "assert 4 in S"]),
    ("S = snapshot({'a': 1, 'b': 2, 'c': 3})", ["assert S['a'] == 1", "assert S['b'] == 2", "assert S['b'] == 7", "assert S['d'] == 4"]),
    ("S = snapshot()", ["assert S['a'] == 1", "assert S['b'] == 2"]),
    ("S = snapshot(5)", ["assert 3 <= S", "assert 4 <= S", "assert 7 <= S"]),
]


def gen(rng, tier, shape=None):
    n = rng.randint(2, 4)
    body = []
    for _ in range(n):
        tmpl, kind = rng.choice(STMTS)
        body.append(tmpl.format(a=rng.choice(ARGS[kind])))
    shared = None
    if rng.random() < 0.6:
        decl, uses = rng.choice(SHARED)
        k = rng.randint(2, 3)
        picks = [rng.choice(uses) for _ in range(k)]
        if "assert S['b'] == 2" in picks and "assert S['b'] == 7" in picks:
            picks = [u for u in picks if u != "assert S['b'] == 7"]      # a test that contradicts itself is exempt (C02 / C09 scope)
        # spread the uses over the body: at least one before and one after some other statement
        pos = sorted(rng.sample(range(len(body) + 1), min(k, len(body) + 1)))
        for off, (p, u) in enumerate(zip(pos, picks)):
            body.insert(p + off, u)
        shared = decl
    cats = rng.choice([["fix", "trim"], ["create", "fix"], ["create", "trim"], ["fix", "update"], ["create", "fix", "trim"], ["trim", "update"],
                       ["create", "fix", "update"], ["create", "fix", "trim", "update"]])
    return {"shared": shared, "body": body, "cats": cats}


def program(case, on=True):
    head = "from inline_snapshot import snapshot\n" if on else "def snapshot(x=...):\n    return x\n"
    L = [head]
    if case["shared"]:
        L.append(case["shared"])
        L.append("")
    L.append("def test_a():")
    L += ["    " + b for b in case["body"]]
    return "\n".join(L) + "\n"


def model_lines(case):
    return []


def run_flags(src, flags):
    from .. import impl_inline
    r = impl_inline.run_program({"test_case.py": src}, flags, flags)
    err = r["import_error"] or r["apply_error"] or (r["collect_errors"] or None)
    return r["files_after"].get("test_case.py", ""), err, [t["raised"] for t in r["tests"]]


def dump(text):
    try:
        return ast.dump(ast.parse(text))
    except SyntaxError as e:
        return "syntax error: " + str(e)


def run_impl(case):
    src = program(case)
    cats = case["cats"]
    obs = {"src": src, "orders": {}}
    text, err, raised = run_flags(src, cats)
    obs["together"] = {"text": text, "err": str(err) if err else None, "raised": raised}
    perms = list(itertools.permutations(cats))
    if len(perms) > 6:
        perms = perms[:3] + perms[-3:]
    for perm in perms:
        t = src
        e = None
        steps = []
        for c in perm:
            t, e, r_ = run_flags(t, [c])
            steps.append([c, r_[0] if r_ else None])
            if e:
                break
        obs["orders"][",".join(perm)] = {"text": t, "err": str(e) if e else None, "steps": steps}
    if {"create", "fix"} <= set(cats) and not err:
        g: dict = {}
        try:
            with contextlib.redirect_stdout(io.StringIO()):
                exec(compile(text.replace("from inline_snapshot import snapshot\n", "def snapshot(x=...):\n    return x\n"), "<rerun>", "exec"), g)
                g["test_a"]()
            obs["disabled"] = True
        except BaseException as ex:  # noqa: BLE001
            obs["disabled"] = type(ex).__name__ + ": " + str(ex)[:100]
    return obs


def compare(case, obs, model_out):
    return []


def oracle(case, obs):
    fails = []
    tg = obs["together"]
    what = f"{case['shared'] or ''} | {' ; '.join(case['body'])} | categories {case['cats']}"
    if tg["err"]:
        fails.append(("C18", "finish_total", f"{what}: {tg['err']}"))
        return fails
    ref = dump(tg["text"])
    for order, o in obs["orders"].items():
        if o["err"]:
            fails.append(("C18", "finish_total", f"{what}: approving {order} one at a time: {o['err']}"))
            continue
        if dump(o["text"]) != ref:
            last = lambda t: " ; ".join(l.strip() for l in t.splitlines()[1:] if l.strip())
            fails.append(("C09", "order_independent", f"{what}: approving {order} one at a time gives `{last(o['text'])}`, together `{last(tg['text'])}`"
                          f" [steps: {o['steps']}]"))
            break
    if "disabled" in obs and obs["disabled"] is not True:
        # exempt: statements that contradict each other on one shared snapshot cannot be repaired
        if not contradictory(case):
            fails.append(("C02", "fix_repairs", f"{what}: after create,fix the test gives {obs['disabled']} with inline-snapshot disabled: "
                          + " ; ".join(l.strip() for l in tg["text"].splitlines()[1:] if l.strip())))
    return fails


def contradictory(case):
    b = case["body"]
    return "assert S['b'] == 2" in b and "assert S['b'] == 7" in b


def nontrivial(case, obs):
    return obs["together"]["text"] != obs["src"]


def signature(case):
    return common.sha(repr(case))


def histogram(case, obs, hist):
    hist["cats:" + ",".join(case["cats"])] = hist.get("cats:" + ",".join(case["cats"]), 0) + 1
    hist["shared:" + (case["shared"] or "-")[:22]] = hist.get("shared:" + (case["shared"] or "-")[:22], 0) + 1
    hist["stmts:%d" % len(case["body"])] = hist.get("stmts:%d" % len(case["body"]), 0) + 1
