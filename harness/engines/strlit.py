"""Engine `strlit` (C12, C01): str / bytes values -> literal text -> value.

Per case (a string or bytes value, a nesting, a formatter setting):
  * the model's literal text (Model/StrLit.lean `valueToLiteral` / `bytesRepr`) is compared character by
    character with the token text `_utils.value_to_token` produces;
  * the model's `evalLit` is compared with `ast.literal_eval` on that literal and on an independent random
    literal (all escape forms, both quote kinds, triple quotes) — this validates the lexer model;
  * the real create run writes the value into `snapshot()`; the direct oracle evaluates the argument found in
    the rewritten file and demands the original value (top level and nested, black / format-command).
"""
from __future__ import annotations

import ast

from .. import common
from ..common import sx

NAME = "strlit"

ALPHA = [39, 34, 92, 10, 13, 32, 9, 97, 0, 0x7f, 0xe9, 0xa0, 0x2028, 0xd800, 0x1f40d, 123, 125, 35, 37]
QUOTEY = [39, 34, 92, 10, 32, 97]


def gen(rng, tier, shape=None):
    kind = "bytes" if rng.random() < 0.2 else "str"
    r = rng.random()
    if kind == "bytes":
        n = rng.randint(0, 12)
        cps = [rng.choice([39, 34, 92, 10, 13, 9, 0, 97, 255, 127, 128, 32]) for _ in range(n)]
    elif r < 0.08:
        # both triple-quote kinds in a multi-line string that ends in a quote character (the escaped-final-quote rule)
        pieces = ["'''", '"""', "\n"] + [chr(rng.choice(QUOTEY)) for _ in range(rng.randint(0, 4))]
        rng.shuffle(pieces)
        cps = [ord(c) for c in "".join(pieces) + rng.choice(["'", '"', "'", '"', " ", "a", "\\"])]
    elif r < 0.45:
        cps = [rng.choice(ALPHA) for _ in range(rng.randint(0, 10))]
    elif r < 0.8:
        cps = [rng.choice(QUOTEY) for _ in range(rng.randint(0, 14))]
    elif r < 0.9:
        cps = [rng.choice(ALPHA + list(range(32, 127))) for _ in range(rng.randint(10, 200 if tier == "thorough" else 60))]
    else:
        cps = [rng.randrange(0x110000) for _ in range(rng.randint(1, 8))]
    nest = rng.choice(["top", "top", "list", "dict", "tuple1"])
    fmt = rng.choice(["black", "black", "cat"])
    # an independent random literal for the lexer model
    lit = rand_literal(rng)
    return {"kind": kind, "cps": cps, "nest": nest, "fmt": fmt, "lit": lit, "mode": rng.choice(["create", "create", "fix"]),
            "prefix": rng.random() < 0.3}


def rand_literal(rng):
    """a random syntactically plausible str/bytes literal (may be invalid: then both sides must reject)"""
    isb = rng.random() < 0.25
    q = rng.choice(["'", '"'])
    tq = rng.random() < 0.3
    body = []
    for _ in range(rng.randint(0, 8)):
        r = rng.random()
        if r < 0.45:
            body.append(rng.choice(["a", " ", "z", "0", "7", "x", "u", "N", "'", '"', "{", "é" if not isb else "e"]))
        elif r < 0.9:
            body.append("\\" + rng.choice(["n", "t", "r", "\\", "'", '"', "a", "b", "f", "v", "0", "7", "12", "101", "377",
                                           "x41", "xff", "x0", "u00e9", "U0001f40d", "u12", "\n", "q", "8", "N{DASH}", "xg1"]))
        else:
            body.append("\n" if tq else "")
    d = q * 3 if tq else q
    return ("b" if isb else "") + d + "".join(body) + d


def value_of(case):
    return bytes(case["cps"]) if case["kind"] == "bytes" else "".join(map(chr, case["cps"]))


def program(case):
    v = case["cps"]
    mk = f"bytes({v!r})" if case["kind"] == "bytes" else f"''.join(map(chr, {v!r}))"
    wrap = {"top": "S", "list": "[1, S, 'x']", "dict": "{'k': S, 2: [S]}", "tuple1": "(S,)"}[case["nest"]]
    arg = ""
    if case.get("mode") == "fix":
        # an existing snapshot whose string leaves are replaced (ValueAdapter path, not the insert path)
        o = 'b"old"' if case["kind"] == "bytes" else ('"öld ✓"' if case.get("prefix") else '"old"')
        arg = {"top": o, "list": f"[1, {o}, 'x']", "dict": "{'k': %s, 2: [%s]}" % (o, o), "tuple1": f"({o},)"}[case["nest"]]
    # non-ASCII text on the line of the snapshot, left of it (columns are counted in characters, not bytes)
    pre = "x = 'é✓𝄞'; " if case.get("prefix") else ""
    return (f"from inline_snapshot import snapshot\nS = {mk}\n\ndef test_a():\n    {pre}assert {wrap} == snapshot({arg})\n")


def model_lines(case):
    cps = case["cps"]
    lines = []
    if case["kind"] == "bytes":
        lines.append(sx(["bytesrepr", ["s"] + cps]))
    else:
        np = sorted({c for c in cps if not chr(c).isprintable()})
        lines.append(sx(["strlit", ["np"] + np, ["s"] + cps]))
    lit = case["lit"]
    lines.append(sx(["evalbytes" if lit.startswith("b") else "evallit", ["s"] + [ord(ch) for ch in lit]]))
    return lines


def run_impl(case):
    common.use_repo_sources()
    from inline_snapshot._utils import value_to_token
    from .. import impl_inline
    v = value_of(case)
    obs = {}
    try:
        toks = value_to_token(v)
        obs["token"] = [ord(ch) for ch in toks[0].string] if len(toks) == 1 else ["multi", len(toks)]
    except BaseException as e:  # noqa: BLE001
        obs["token"] = ["exc", type(e).__name__]
    # CPython on the independent literal
    lit = case["lit"]
    try:
        import warnings
        with warnings.catch_warnings():
            warnings.simplefilter("ignore")
            w = ast.literal_eval(lit)
        obs["lit_val"] = list(w) if isinstance(w, bytes) else [ord(ch) for ch in w]
    except BaseException as e:  # noqa: BLE001
        obs["lit_val"] = None
    try:
        import io
        import tokenize
        toks = [t for t in tokenize.generate_tokens(io.StringIO(lit).readline) if t.type == tokenize.STRING]
        obs["lit_single"] = len(toks) == 1 and toks[0].string == lit
    except BaseException:  # noqa: BLE001
        obs["lit_single"] = obs["lit_val"] is None
    fl = ["fix"] if case.get("mode") == "fix" else ["create"]
    r = impl_inline.run_program({"test_case.py": program(case)}, fl, fl,
                                format_command=("cat" if case["fmt"] == "cat" else None))
    after = r["files_after"].get("test_case.py", "")
    obs["after"] = after
    obs["errors"] = [r["import_error"], r["apply_error"], r["collect_errors"], [t["raised"] for t in r["tests"]]]
    obs["problems"] = r["problems"]
    try:
        calls = impl_inline.snapshot_args(after)
        arg = calls[0][2] if calls else None
        obs["arg"] = arg
        obs["arg_val_ok"] = None
        if arg is not None:
            w = eval(arg, {})
            want = {"top": v, "list": [1, v, "x"], "dict": {"k": v, 2: [v]}, "tuple1": (v,)}[case["nest"]]
            obs["arg_val_ok"] = (w == want and type(w) is type(want))
    except BaseException as e:  # noqa: BLE001
        obs["arg"] = None
        obs["arg_val_ok"] = False
        obs["eval_error"] = type(e).__name__ + ": " + str(e)[:100]
    return obs


def compare(case, obs, model_out):
    diffs = []
    outs = [common.sx_parse(l) for l in model_out]
    if any(o == ["bad-op"] for o in outs):
        return [("protocol", ["C12", "C01"], "bad-op")]
    mlit = None if outs[0] == ["none"] else [int(x) for x in outs[0][1:]]
    if mlit != obs["token"]:
        diffs.append(("literal-text", ["C12", "C01", "C08"], f"model {mlit} impl {obs['token']}"))
    mval = None if outs[1] == ["none"] else [int(x) for x in outs[1][1:]]
    lit = case["lit"]
    if ("\\N" in lit and not lit.startswith("b")) or not obs.get("lit_single"):
        pass          # \N{...} and implicit concatenation are not modelled: skipped
    elif mval != obs["lit_val"]:
        diffs.append(("lexer-model", ["C12"], f"evalLit({lit!r}) = {mval}, CPython = {obs['lit_val']}"))
    return diffs


def oracle(case, obs):
    fails = []
    if obs.get("arg_val_ok") is not True:
        fails.append(("C12", "literal_reads_back", f"{case['kind']} {case['cps']} nest={case['nest']} fmt={case['fmt']}: "
                      f"written {obs.get('arg')!r} errors={obs.get('errors')} {obs.get('eval_error', '')}"))
        fails.append(("C01", "created_value_holds", f"{case['kind']} {case['cps']} nest={case['nest']}: written {obs.get('arg')!r}"))
    return fails


def lexer_mismatch(case, obs, model_out):
    """used by the check as assumption validation: evalLit must agree with CPython"""
    return [d for d in compare(case, obs, model_out) if d[0] == "lexer-model"]


def nontrivial(case, obs):
    cps = case["cps"]
    return len(cps) > 0 and any(c in (39, 34, 92, 10, 13) or c > 126 or c < 32 for c in cps)


def signature(case):
    return common.sha(repr((case["kind"], case["cps"], case["nest"], case["fmt"], case.get("mode"))))


def histogram(case, obs, hist):
    for k in ("kind", "nest", "fmt", "mode"):
        hist[f"{k}:{case[k]}"] = hist.get(f"{k}:{case[k]}", 0) + 1
    t = obs.get("token") or []
    style = "triple" if t[:3] in ([34] * 3, [39] * 3) else "single"
    hist["literal:" + style] = hist.get("literal:" + style, 0) + 1
    hist["lit_valid:" + str(obs.get("lit_val") is not None)] = hist.get("lit_valid:" + str(obs.get("lit_val") is not None), 0) + 1


def shape_of(case):
    return None
