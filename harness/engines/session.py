"""Engine `session` (C04, C19, C07): real pytest sessions against the gate model (Model/Session.lean).

The test project has one independent call site per category (create / fix / trim / update pending), optionally
several per category and xfail-marked copies, so the set of applied categories can be read off the files.
Enumerated dimensions: category subsets x {-, report, review, short-report, disable} x source of the flags
(command line, INLINE_SNAPSHOT_DEFAULT_FLAGS, pyproject default-flags / default-flags-tui, shortcut option) x
review answers x {CI variable, -n 2, -n 0, tty} x skip-snapshot-updates-for-now.
For plain category flags on the command line the same project also goes through Example.run_inline and
Example.run_pytest (C19 three-way comparison).
"""
from __future__ import annotations

import contextlib

import json

from .. import common
from ..common import sx

NAME = "session"
CATS = common.CATS

BODY = {"create": ("assert 5 == snapshot()", "assert 5 == snapshot(5)"),
        # a created value whose repr is not Python code: the file also needs `from inline_snapshot import HasRepr`
        "create_hr": ("assert NoRepr(1) == snapshot()", 'assert NoRepr(1) == snapshot(HasRepr(NoRepr, "<NoRepr 1>"))'),
        "fix_hr": ("assert NoRepr(1) == snapshot(5)", 'assert NoRepr(1) == snapshot(HasRepr(NoRepr, "<NoRepr 1>"))'),
        "fix": ("assert 5 == snapshot(4)", "assert 5 == snapshot(5)"),
        "trim": ("assert 2 <= snapshot(8)", "assert 2 <= snapshot(2)"),
        "update": ("assert 5 == snapshot(0+5)", "assert 5 == snapshot(5)")}


def gen(rng, tier, shape=None):
    if shape and shape.get("plain"):
        # scope of C19: plain category flags on the command line, nothing else
        pending = [c for c in CATS if rng.random() < 0.8]
        cli = [c for c in CATS if rng.random() < 0.45]
        force = rng.random() < 0.25
        if force:
            # two rewritten files, the first one needs an import that the second one must not get
            pending = ["create", "fix"] + [c for c in pending if c in ("trim", "update")]
            cli = sorted(set(cli) | {"create", "fix"}, key=CATS.index)
        return {"pending": pending, "cli": cli, "force_two_files": force, "env": None, "pyd": None, "pyd_tui": None,
                "shortcut": None, "tty": False, "ci": None, "xdist": None, "answers": {c: False for c in CATS}, "skip": False,
                "xfail": rng.random() < 0.3, "plain": True, "dup": rng.random() < 0.3, "unknown": False, "empty_no": False,
                "split": force or rng.random() < 0.5,      # the pending categories are spread over two test files
                "hasrepr": force or rng.random() < 0.5}    # the created value needs HasRepr (and its import)
    pending = [c for c in CATS if rng.random() < 0.75]
    cats = [c for c in CATS if rng.random() < 0.4]
    mode = rng.choice([[], [], ["report"], ["review"], ["short-report"], ["disable"]])
    if mode == ["disable"] and rng.random() < 0.7:
        cats = []
    how = rng.choice(["cli", "cli", "cli", "env", "pyproject", "none", "shortcut"])
    fl = cats + mode
    rng.shuffle(fl)
    case = {"pending": pending, "cli": None, "env": None, "pyd": None, "pyd_tui": None, "shortcut": None,
            "tty": rng.random() < 0.15, "ci": rng.choice(sorted(CI_VALUES)) if rng.random() < 0.12 else None,
            "xdist": rng.choice(["2", "0"]) if rng.random() < 0.12 else None,
            "answers": {c: rng.random() < 0.5 for c in CATS}, "skip": rng.random() < 0.1,
            "empty_no": rng.random() < 0.3,      # a "no" is given as an empty line (the prompt's default)
            "xfail": rng.random() < 0.1, "dup": rng.random() < 0.2, "unknown": False,
            "orphan": rng.random() < 0.4,     # a persisted external that no test references lies in the storage
            "helper": rng.random() < 0.4 and "fix" in pending}   # a test that hands a (wrong) snapshot to inline_snapshot.testing.Example
                                                                 # (one more pending fix: only where fix is pending anyway)
    if rng.random() < 0.04:
        fl = fl + ["bogus"]
        case["unknown"] = True
    if how == "cli":
        case["cli"] = fl
    elif how == "env":
        case["env"] = fl
    elif how == "pyproject":
        case["pyd"] = fl
        if rng.random() < 0.5:
            case["pyd_tui"] = [c for c in CATS if rng.random() < 0.4] + rng.choice([[], ["review"], ["report"]])
    elif how == "shortcut":
        case["shortcut"] = rng.choice(["fix", "review"])
    if how in ("env", "pyproject") and rng.random() < 0.3:
        case["cli"] = rng.sample(CATS, 2)
    if how == "pyproject" and rng.random() < 0.3:
        case["env"] = [c for c in CATS if rng.random() < 0.5]
    return case


NOREPR = ["class NoRepr:", "    def __init__(self, i): self.i = i", "    def __repr__(self): return f'<NoRepr {self.i}>'",
          "    def __eq__(self, o): return (o.i == self.i) if isinstance(o, NoRepr) else NotImplemented", ""]


def body_of(case, c):
    if case.get("force_two_files"):
        # the file that is rewritten first (a replaced value) needs HasRepr, the second one (a created value) must not get the import
        return BODY["fix_hr"] if c == "fix" else BODY[c]
    return BODY["create_hr"] if c == "create" and case.get("hasrepr") else BODY[c]


def split_cats(case):
    """(categories in test_a.py, categories in test_b.py)"""
    if not case.get("split"):
        return list(case["pending"]), []
    if case.get("force_two_files"):
        rest = [c for c in case["pending"] if c not in ("create", "fix")]
        return ["fix"] + rest[0::2], ["create"] + rest[1::2]
    return list(case["pending"][0::2]), list(case["pending"][1::2])


def bname(case):
    """name of the second test file: pytest collects `test_*.py` and `*_test.py` alike (derived from the case, no random draw)"""
    if case.get("force_two_files"):
        return "test_b.py"
    return "b_test.py" if int(common.sha(json.dumps(case, sort_keys=True))[:2], 16) % 3 == 0 else "test_b.py"


def project_b(case):
    lines = ["from inline_snapshot import snapshot", "import pytest", ""] + (NOREPR if case.get("hasrepr") else [])
    for c in split_cats(case)[1]:
        for i in range(2 if case["dup"] else 1):
            lines += [f"def test_{c}_{i}():", "    " + body_of(case, c)[0], ""]
    return "\n".join(lines)


def project(case):
    lines = ["from inline_snapshot import snapshot", "import pytest", ""] + (NOREPR if case.get("hasrepr") else [])
    for c in split_cats(case)[0]:
        copies = 2 if case["dup"] else 1
        for i in range(copies):
            lines += [f"def test_{c}_{i}():", "    " + body_of(case, c)[0], ""]
        if case["xfail"]:
            lines += ["@pytest.mark.xfail", f"def test_{c}_x():", "    " + BODY[c][0], ""]
    if case["xfail"]:
        # xfail given through the class (inherited marker)
        lines += ["@pytest.mark.xfail", "class TestMarked:", "    def test_cls_x(self):", "        assert 5 == snapshot()", "",
                  "    def test_cls_probe_x(self):", "        import os", "        v = snapshot(3)",
                  "        open(f'probex_cls_{os.getpid()}.txt', 'w').write(type(v).__name__)", "        assert False", ""]
    lines += ["def test_holds():", "    assert 7 == snapshot(7)", "    assert 1 <= snapshot(1)", ""]
    lines += ["def test_probe():", "    import os", "    v = snapshot(3)",
              "    open(f'probe_{os.getpid()}.txt', 'w').write(type(v).__name__)", ""]
    lines += ["@pytest.mark.xfail", "def test_probe_x():", "    import os", "    v = snapshot(3)",
              "    open(f'probex_{os.getpid()}.txt', 'w').write(type(v).__name__)", "    assert False", ""]
    return "\n".join(lines)


MODULE_XFAIL = ("from inline_snapshot import snapshot\nimport pytest\n\npytestmark = pytest.mark.xfail\n\n\n"
                "def test_mod_x():\n    assert 5 == snapshot()\n\n\ndef test_mod_fix_x():\n    assert 5 == snapshot(4)\n\n\n"
                "def test_mod_probe_x():\n    import os\n    v = snapshot(3)\n    open(f'probex_mod_{os.getpid()}.txt', 'w').write(type(v).__name__)\n    assert False\n")


import hashlib
# how CI systems announce themselves: most of these variables are not booleans
CI_VALUES = {"CI": "true", "GITHUB_ACTIONS": "true", "TRAVIS": "true", "CIRCLECI": "true", "BUILDKITE": "true", "CONTINUOUS_INTEGRATION": "true",
             "JENKINS_URL": "https://ci.example.org/", "HUDSON_URL": "http://hudson.example.org/", "TEAMCITY_VERSION": "2023.05.4 (build 129421)",
             "BUILD_NUMBER": "57", "BUILD_ID": "2026-09-26_12-00-00"}
HELPER = ("from inline_snapshot import snapshot\nfrom inline_snapshot.testing import Example\n\n\n"
          "def test_fix_helper_0():\n"
          "    Example({'test_x.py': 'from inline_snapshot import snapshot\\ndef test_x():\\n    assert 1 == snapshot()\\n'}).run_inline(\n"
          "        ['--inline-snapshot=create'], reported_categories=snapshot(['fix']))\n")
SEP = "\n# ---- test_b.py ----\n"
ORPHAN = ".inline-snapshot/external/" + hashlib.sha256(b"orphan").hexdigest() + ".txt"


def pyproject(case):
    py = "[tool.inline-snapshot]\n"
    if case["pyd"] is not None:
        py += "default-flags=%s\n" % json.dumps(case["pyd"])
    if case["pyd_tui"] is not None:
        py += "default-flags-tui=%s\n" % json.dumps(case["pyd_tui"])
    if case["skip"]:
        py += "skip-snapshot-updates-for-now=true\n"
    return py


def effective_flags(case):
    """the flags as the user gave them (independent of the model): used only to decide which prompts appear"""
    if case["shortcut"]:
        return {"fix": ["create", "fix"], "review": ["review"]}[case["shortcut"]]
    if case["cli"] is not None:
        return case["cli"]
    if case["env"] is not None:
        return case["env"]
    if case["tty"]:
        return case["pyd_tui"] if case["pyd_tui"] is not None else ["create", "review"]
    return case["pyd"] if case["pyd"] is not None else ["report"]


def stdin_for(case):
    fl = effective_flags(case)
    lines = []
    for c in CATS:
        if c in case["pending"] and c not in fl:
            lines.append("y" if case["answers"][c] else ("" if case.get("empty_no") else "n"))
    return ("\n".join(lines + ["n"] * 4) + "\n").encode()


def fsx(fl):
    return "-" if fl is None else ["f"] + list(fl)


def model_lines(case):
    cli = case["cli"]
    if case["shortcut"]:
        cli = {"fix": ["create", "fix"], "review": ["review"]}[case["shortcut"]]
    df = case["pyd"] if case["pyd"] is not None else ["report"]
    dft = case["pyd_tui"] if case["pyd_tui"] is not None else ["create", "review"]
    has = ["has"] + [c in case["pending"] for c in CATS]
    env = case["env"]
    if env is not None and not env:
        env = ["_empty_"]          # "".split(",") == [""]: one empty (hence unknown) flag
    line = ["session", fsx(cli), fsx(env), case["tty"], fsx(df), fsx(dft), case["xdist"] == "2",
            case["ci"] is not None, True, case["skip"], ["answers"] + [case["answers"][c] for c in CATS], has, has]
    lines = [sx(line)]
    plain = plain_cli(case)
    if plain is not None:
        lines.append(sx(["inline", ["flags"] + plain, has]))
    return lines


def plain_cli(case):
    """category flags given on the command line and nothing else that influences the session (scope of C19)"""
    if case["cli"] is None or case["shortcut"] or case["env"] is not None or case["pyd"] is not None or case["pyd_tui"] is not None:
        return None
    if any(f not in CATS for f in case["cli"]) or case["xdist"] or case["ci"] or case["tty"] or case["skip"] or (case["xfail"] and not case.get("plain")):
        return None
    return list(case["cli"])


def applied_from(text, case):
    """categories whose (non-xfail) tests were rewritten; 'partial' if only some copies of one category changed"""
    res, partial = set(), False
    copies = 2 if case["dup"] else 1
    for c in case["pending"]:
        n = 0
        for i in range(copies):
            body = text.split(f"def test_{c}_{i}():")[1].split("def test_")[0].split("@pytest")[0]
            if body_of(case, c)[1] in body and body_of(case, c)[0] not in body:
                n += 1
        if n == copies:
            res.add(c)
        elif n:
            partial = True
    return sorted(res), partial


def run_impl(case):
    from .. import impl_pytest
    src = project(case)
    args = []
    if case["cli"] is not None:
        args.append("--inline-snapshot=" + ",".join(case["cli"]))
    if case["shortcut"]:
        args.append("--" + case["shortcut"])
    if case["xdist"]:
        args += ["-n", case["xdist"]]
    env = {}
    if case["ci"]:
        env[case["ci"]] = CI_VALUES.get(case["ci"], "true")
    if case["tty"]:
        env["FORCE_COLOR"] = "true"
    if case["env"] is not None:
        env["INLINE_SNAPSHOT_DEFAULT_FLAGS"] = ",".join(case["env"])
    files = {"test_a.py": src}
    src_b = None
    if split_cats(case)[1]:
        src_b = project_b(case)
        files[bname(case)] = src_b
    if case["xfail"] and not case.get("plain"):
        files["test_zz_module_xfail.py"] = MODULE_XFAIL
    if case.get("orphan"):
        files[ORPHAN] = b"orphan"
    if case.get("helper"):
        files["test_zy_helper.py"] = HELPER
    r = impl_pytest.run_session(files, args, env, stdin_for(case), pyproject(case))
    after = r["files"].get("test_a.py", b"").decode()
    if src_b is not None:
        # two files: judged as one text (the test names are unique)
        after = after + SEP + r["files"].get(bname(case), b"").decode()
        src = src + SEP + src_b
    obs = {"rc": r["rc"], "outcomes": r["outcomes"], "changed": after != src, "after": after,
           "usage_error": r["rc"] == 4 and after == src, "traceback": "Traceback" in r["stderr"],
           "stderr": r["stderr"][-1500:], "stdout_tail": r["stdout"][-1500:],
           "other_files": sorted(k for k in r["files"] if k not in ("test_a.py", "test_b.py", "b_test.py", "pyproject.toml", "test_zz_module_xfail.py", "test_zy_helper.py", ORPHAN) and not k.startswith("probe")),
           "orphan_survived": r["files"].get(ORPHAN) == b"orphan",
           "probe": sorted({v.decode() for k, v in r["files"].items() if k.startswith("probe_")}),
           "probex": sorted({v.decode() for k, v in r["files"].items() if k.startswith("probex_")})}
    try:
        obs["applied"], obs["partial"] = applied_from(after, case)
    except Exception as e:  # noqa: BLE001
        obs["applied"], obs["partial"] = ["unreadable:" + type(e).__name__], True
    xf_changed = False
    if case["xfail"]:
        for c in split_cats(case)[0]:
            body = after.split(f"def test_{c}_x():")[1].split("def test_")[0]
            if BODY[c][0] not in body:
                xf_changed = True
        if "class TestMarked" in after and "def test_cls_x(self):\n        assert 5 == snapshot()" not in after:
            xf_changed = True
        if not case.get("plain") and r["files"].get("test_zz_module_xfail.py", b"").decode() != MODULE_XFAIL:
            xf_changed = True
    obs["xfail_changed"] = xf_changed
    plain = plain_cli(case)
    if plain is not None:
        obs["three_way"] = three_way(src, plain, bname(case))          # src: one file, or two joined by SEP
    return obs


def three_way(src, cats, b="test_b.py"):
    """Example.run_inline / Example.run_pytest on the same project (C19)"""
    import contextlib
    import io
    import os
    common.use_repo_sources()
    os.environ["PYTHONPATH"] = str(common.REPO / "src")
    from inline_snapshot.testing import Example
    out = {}
    flag = "--inline-snapshot=" + ",".join(cats)
    sink = io.StringIO()
    for name in ("run_inline", "run_pytest"):
        try:
            # run_inline executes the tests in this process: their relative writes (the probe files) go to a scratch directory
            with contextlib.redirect_stdout(sink), contextlib.redirect_stderr(sink), _scratch_cwd():
                ex = Example(dict(zip(("test_a.py", b), src.split(SEP))))
                if name == "run_inline":
                    cap = _Capture()
                    new = ex.run_inline([flag] if cats else [], raises=_Anything(), reported_categories=cap)
                    out["inline_reported"] = cap.seen
                else:
                    new = ex.run_pytest([flag] if cats else [], returncode=_Anything())
            out[name] = new.files.get("test_a.py") if SEP not in src else new.files.get("test_a.py", "") + SEP + new.files.get(b, "")
        except BaseException as e:  # noqa: BLE001
            out[name] = "EXC " + type(e).__name__ + ": " + str(e)[:200]
    return out


@contextlib.contextmanager
def _scratch_cwd():
    import os
    import tempfile
    here = os.getcwd()
    with tempfile.TemporaryDirectory(prefix="isnap_tw_") as d:
        os.chdir(d)
        try:
            yield
        finally:
            os.chdir(here)


class _Capture:
    """stands in for a snapshot argument of the testing helpers: remembers what it is compared with"""
    seen = None

    def __eq__(self, other):
        self.seen = other
        return True


class _Anything:
    def __eq__(self, other):
        return True

    def __ne__(self, other):
        return False


def compare(case, obs, model_out):
    outs = [common.sx_parse(l) for l in model_out]
    o = outs[0]
    if o == ["bad-op"]:
        return [("protocol", ["C04", "C19"], "bad-op")]
    diffs = []
    if o == ["usage-error"]:
        if not obs["usage_error"]:
            diffs.append(("usage-error", ["C04"], f"model: usage error; impl rc={obs['rc']} changed={obs['changed']}"))
        return diffs
    if obs["usage_error"]:
        diffs.append(("usage-error", ["C04"], f"impl: usage error (rc 4); model {sx(o)}"))
        return diffs
    mapplied = sorted(o[3][1:])
    if mapplied != obs["applied"] or obs["partial"]:
        diffs.append(("applied", ["C04", "C19"], f"model {mapplied} impl {obs['applied']} partial={obs['partial']}"))
    if len(outs) > 1 and "three_way" in obs:
        minl = sorted(outs[1][1:])
        if minl != mapplied:
            diffs.append(("inline-vs-plugin-model", ["C19"], f"model: run_inline applies {minl}, plugin {mapplied}"))
    return diffs


def approved_set(case):
    """categories the user approved for this session, straight from the property text"""
    fl = effective_flags(case)
    if any(f not in CATS + ["disable", "review", "report", "short-report"] for f in fl):
        return set()
    if "short-report" in fl or "disable" in fl or case["ci"] or case["xdist"] == "2":
        return set()
    ap = {c for c in CATS if c in fl}
    if "review" in fl:
        ap |= {c for c in CATS if case["answers"][c]}
    return ap


def oracle(case, obs):
    fails = []
    if obs["usage_error"]:
        return fails
    ap = approved_set(case)
    applied = set(a for a in obs["applied"] if a in CATS)
    if not ap and obs["changed"]:
        fails.append(("C04", "nothing_approved_nothing_written", f"flags {effective_flags(case)} ci={case['ci']} xdist={case['xdist']}: test file changed"))
    extra = applied - ap
    if extra:
        fails.append(("C04", "applied_subset_approved", f"approved {sorted(ap)}, applied {sorted(applied)} (flags {effective_flags(case)}, answers {case['answers']})"))
    if obs["xfail_changed"]:
        fails.append(("C04", "xfail_untouched", "a test marked xfail was rewritten"))
    if case.get("orphan") and "trim" not in ap and not obs["orphan_survived"]:
        d = f"flags {effective_flags(case)} answers {case['answers']} ci={case['ci']} xdist={case['xdist']}: trim is not approved, but the unreferenced persisted external was removed from the storage"
        fails.append(("C04", "storage_untouched_without_approval", d))
        fails.append(("C13", "removed_only_by_approved_trim", d))
    if obs["other_files"] and not ap:
        fails.append(("C04", "no_other_files", f"files appeared: {obs['other_files']}"))
    # exactness: with F given alone or together with report / review the outcome equals applying exactly the pending changes in F
    fl = effective_flags(case)
    if ap and "short-report" not in fl and not obs["partial"]:
        expect = {c for c in ap if c in case["pending"]}
        if case["skip"] and "update" not in fl:
            expect.discard("update")
        if applied != expect:
            fails.append(("C04", "applied_exact", f"approved {sorted(ap)} pending {case['pending']}: applied {sorted(applied)}"))
    if obs["traceback"] and "EOFError" not in obs["stderr"]:
        fails.append(("C18", "finish_total", obs["stderr"][-300:]))
    # C07 at session level
    active = not (case["ci"] or case["xdist"] == "2" or "disable" in fl)
    for name, outc in obs["outcomes"].items():
        if name.endswith("_x"):
            continue
        wrong = name.startswith("test_create") or name.startswith("test_fix")
        if wrong and outc == "passed":
            fails.append(("C07", "never_green", f"{name} executed a wrong/missing snapshot and passed (flags {fl})"))
        if not wrong and outc in ("failed", "error"):
            fails.append(("C07", "no_false_failure", f"{name}: all snapshots hold but outcome {outc} (flags {fl})"))
    if any(n.startswith(("test_create", "test_fix")) and not n.endswith("_x") for n in obs["outcomes"]) and obs["rc"] == 0:
        fails.append(("C07", "exit_status", f"wrong snapshots executed but exit status 0 (flags {fl}, active={active})"))
    # C06: when disabled (flag, CI, xdist, xfail) snapshot(v) returns v itself
    if not active and obs["probe"] not in ([], ["int"]):
        fails.append(("C06", "disabled_identity", f"flags {fl} ci={case['ci']} xdist={case['xdist']}: snapshot(3) returned a {obs['probe']}"))
    if obs["probex"] not in ([], ["int"]):
        fails.append(("C06", "disabled_identity", f"xfail-marked test: snapshot(3) returned a {obs['probex']}"))
    # C19 three-way
    tw = obs.get("three_way")
    if tw:
        real = obs["after"]
        rep = tw.pop("inline_reported", None)
        if rep is not None and sorted(rep) != sorted(case["pending"]):
            fails.append(("C19", "pending_categories_agree", f"run_inline reports pending {rep}, the project has pending {sorted(case['pending'])} (flags {case['cli']})"))
        for k, v in tw.items():
            if v != real:
                fails.append(("C19", "helpers_agree", f"{k} gives a different test_a.py than the real session for --inline-snapshot={','.join(case['cli'])}: {str(v)[:300]!r}"))
    return fails


def nontrivial(case, obs):
    return bool(case["pending"]) and not obs["usage_error"]


def signature(case):
    return common.sha(json.dumps(case, sort_keys=True))


def histogram(case, obs, hist):
    src = "shortcut" if case["shortcut"] else "cli" if case["cli"] is not None else "env" if case["env"] is not None else "pyproject" if case["pyd"] is not None else "default"
    for k in ["src:" + src, "mode:" + "+".join(sorted(set(effective_flags(case)) - set(CATS))), "xdist:" + str(case["xdist"]),
              "ci:" + str(bool(case["ci"])), "tty:" + str(case["tty"]), "applied:" + ",".join(obs["applied"]),
              "usage_error:" + str(obs["usage_error"]), "three_way:" + str("three_way" in obs), "orphan:" + str(bool(case.get("orphan")))]:
        hist[k] = hist.get(k, 0) + 1
