"""Engine `reeval` (C14, last sentence): the hand-written argument of one textual snapshot() call evaluates to a
different value on a later evaluation.

One call site `snapshot(V[0])` (or `snapshot([V[0], 7])` used with `in`) inside a helper function, a lambda or a
loop; the test script interleaves comparisons with assignments to `V[0]`.  Every evaluation after the first one
re-evaluates the argument (`GenericValue._re_eval`): if it is no longer equal to the value of the first evaluation
a `UsageError` must be raised — whatever flags are active — instead of silently recording either value.
Model voice: `Table.snap` (Model/Table.lean: re-evaluation with an unequal argument answers `usageError`),
theorem `reeval_changed_argument_raises` (Props/C14.lean).  Compared: the result of every comparison and the
categories reported.  Direct oracle: result is "UsageError" exactly when the argument differs from its first value.
"""
from __future__ import annotations

from .. import common
from ..common import sx
from . import site as S

NAME = "reeval"


def _val(rng, fam):
    """no bool: `0` and `False` are equal values of different types, and the implementation treats a change of the
    type as a change of the value (UsageError) while the model only knows `==` — kept out of this engine's scope"""
    v = S.rand_val(rng, fam)
    return int(v) if isinstance(v, bool) else v


def gen(rng, tier, shape=None):
    role = rng.choice(["eq", "eq", "ge", "le", "in"])
    fam = "any" if role in ("eq", "in") else rng.choice(["int", "int", "str"])
    v0 = _val(rng, fam)
    while v0 is None and role in ("ge", "le"):
        v0 = _val(rng, fam)
    steps = []
    cur = v0
    for _ in range(rng.randint(2, 6 if tier == "quick" else 10)):
        if rng.random() < 0.35:
            nv = _val(rng, fam) if rng.random() < 0.8 else cur
            steps.append(["set", nv])
            cur = nv
        else:
            x = _val(rng, fam)
            if rng.random() < 0.4:
                x = cur
            steps.append(["op", x])
    if not any(s[0] == "op" for s in steps):
        steps.append(["op", cur])
    r = rng.random()
    flags = [] if r < 0.25 else ["fix"] if r < 0.4 else ["update"] if r < 0.5 else ["create", "fix", "trim", "update"] if r < 0.65 else sorted(c for c in common.CATS if rng.random() < 0.5)
    return {"role": role, "v0": v0, "steps": steps, "flags": flags, "style": rng.choice(["fn", "lambda"]),
            "split": rng.random() < 0.3}


def arg_src(case):
    return "[V[0], 7]" if case["role"] == "in" else "V[0]"


def old_sx(case, cur):
    if case["role"] == "in":
        return ["coll", [S.val_sx(cur), False], [S.val_sx(7), True]]
    return ["leaf", S.val_sx(cur), False]


def render(case):
    lines = ["from inline_snapshot import snapshot", "R = []", f"V = [{case['v0']!r}]",
             "def rec(f):", "    try:", "        R.append(bool(f()))", "    except Exception as e:", "        R.append(type(e).__name__)", ""]
    a = arg_src(case)
    if case["style"] == "lambda":
        lines.append(f"site0 = lambda: snapshot({a})")
    else:
        lines.append(f"def site0():\n    return snapshot({a})")
    lines.append("")
    events, evaluated = [["begin"]], []
    cur = case["v0"]
    body = []
    half = len(case["steps"]) // 2 if case["split"] and len(case["steps"]) > 1 else len(case["steps"])
    for i, st in enumerate(case["steps"]):
        if i == half:
            events.append(["begin"])          # second test function
        if st[0] == "set":
            body.append(f"V[0] = {st[1]!r}")
            cur = st[1]
        else:
            body.append("rec(lambda: " + S.OPSRC[case["role"]].format(x=repr(st[1]), s="site0()") + ")")
            events.append(["stmt", [[0, old_sx(case, cur)]], ["op", 0, "-", case["role"], S.val_sx(st[1]), True]])
            evaluated.append(cur)
    lines.append("def test_0():")
    lines += ["    " + b for b in body[:half]] or ["    pass"]
    if half < len(body):
        lines += ["", "def test_1():"] + ["    " + b for b in body[half:]]
    return "\n".join(lines) + "\n", events, evaluated


def model_lines(case):
    _src, events, _ev = render(case)
    return [sx(["sites", ["flags"] + case["flags"], ["approved"] + case["flags"]] + events)]


def run_impl(case):
    from .. import impl_inline
    src, _events, evaluated = render(case)
    r = impl_inline.run_program({"test_case.py": src}, case["flags"], case["flags"])
    R = []
    for _f, rr in (r["R"] or []):
        R = rr
    return {"R": R, "cats": sorted({c for s in r["sites"] for c in s["cats"]}), "evaluated": evaluated, "src": src,
            "errors": [r["import_error"], r["apply_error"], r["collect_errors"]],
            "after": r["files_after"].get("test_case.py", "")}


def compare(case, obs, model_out):
    o = common.sx_parse(model_out[0])
    if o == ["bad-op"]:
        return [("protocol", ["C14"], "bad-op")]
    if obs["errors"][0] or obs["errors"][1] or obs["errors"][2]:
        return [("impl-error", ["C18"], str(obs["errors"]))]
    diffs = []
    mres = o[1][1:]
    ires = [common.sx_parse(sx(S.res_sx(r))) for r in obs["R"]]
    if mres != ires:
        diffs.append(("results", ["C14", "C06", "C07"], f"model {sx(mres)} impl {sx(ires)} for {case['steps']} flags {case['flags']}"))
    msites = {int(s_[1]): s_[2] for s_ in o[3:]}
    mc = msites.get(0)
    if mc is not None and mc != "crash" and sorted(mc) != obs["cats"]:
        diffs.append(("cats", ["C05", "C14"], f"model {mc} impl {obs['cats']}"))
    return diffs


def oracle(case, obs):
    fails = []
    if obs["errors"][0] or obs["errors"][1] or obs["errors"][2]:
        fails.append(("C18", "finish_total", f"{case['steps']} flags {case['flags']}: {obs['errors']}"))
        return fails
    ev = obs["evaluated"]
    if len(obs["R"]) != len(ev):
        return fails
    first = ev[0]
    for i, (cur, r) in enumerate(zip(ev, obs["R"])):
        if i == 0:
            continue
        changed = not (cur == first)
        if changed and r != "UsageError":
            fails.append(("C14", "changed_argument_raises", f"snapshot({arg_src(case)}) with V[0]={first!r} at its first evaluation and V[0]={cur!r} at evaluation {i + 1} "
                          f"(flags {case['flags']}, style {case['style']}): the comparison answered {r!r} instead of raising a usage error; results {obs['R']}"))
            break
        if not changed and r == "UsageError":
            fails.append(("C14", "unchanged_argument_accumulates", f"evaluation {i + 1} of snapshot({arg_src(case)}) saw the same value {cur!r} but raised a usage error; results {obs['R']}"))
            break
    return fails


def nontrivial(case, obs):
    return len(obs["R"]) >= 2


def signature(case):
    return common.sha(repr(case))


def histogram(case, obs, hist):
    hist["role:" + case["role"]] = hist.get("role:" + case["role"], 0) + 1
    hist["style:" + case["style"]] = hist.get("style:" + case["style"], 0) + 1
    hist["flags:" + ",".join(case["flags"])] = hist.get("flags:" + ",".join(case["flags"]), 0) + 1
    for r in obs["R"]:
        hist["res:" + str(r)] = hist.get("res:" + str(r), 0) + 1
