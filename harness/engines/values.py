"""Engine `values` (C01, C16, C08): values of the whole supported type universe, written by `create`.

The value is built by an expression at module level of the generated test (so the harness never needs its
own copy); the direct oracle re-executes the rewritten module with inline-snapshot disabled: the same
comparison must hold (C01).  A second run with every category approved must change nothing and report nothing
to create / fix / trim (C08).  For values containing sets / frozensets / dicts the create session is repeated
in separate interpreters with different PYTHONHASHSEED, with black missing, and with a format-command: the
texts must be identical across seeds, the argument's AST identical across formatter settings (C16).
The model voice: the order of set elements in the written text is compared with Model/SetSort.lean.
"""
from __future__ import annotations

import ast
import contextlib
import io

from .. import common
from ..common import sx

NAME = "values"

PRELUDE = '''from inline_snapshot import snapshot
from dataclasses import dataclass, field
from collections import defaultdict, namedtuple
from enum import Enum, Flag, auto
from typing import NamedTuple, List, Optional
import attrs
import pydantic

class Color(Enum):
    RED = 1
    GREEN = 2

class Perm(Flag):
    R = auto()
    W = auto()
    X = auto()

class Plain:
    pass

@dataclass
class DC:
    a: int
    b: str = "x"
    c: List[int] = field(default_factory=list)
    def __hash__(self): return hash((self.a, self.b))

class NT(NamedTuple):
    p: int
    q: str = "q"

NT2 = namedtuple("NT2", "u,v")

@attrs.define
class AT:
    m: int
    n: list = attrs.field(factory=list)

class PM(pydantic.BaseModel):
    s: int
    t: str = "t"

# several defaulted fields, so that default / non-default values occur in every order
@dataclass
class DC3:
    a: int
    b: str = "x"
    c: int = 0
    d: tuple = ()

@attrs.define
class AT3:
    m: int
    n: list = attrs.field(factory=list)
    o: str = "o"
    p: int = 0

class PM3(pydantic.BaseModel):
    s: int
    t: str = "t"
    u: int = 0
    v: Optional[int] = None

# a field that repr() hides but == compares
@dataclass
class DCH:
    a: int
    hidden: int = field(default=0, repr=False)

@attrs.define
class ATH:
    m: int
    hidden: int = attrs.field(default=0, repr=False)

# a field the constructor does not accept (computed in __post_init__)
@dataclass
class DCI:
    a: int
    double: int = field(init=False)
    def __post_init__(self): self.double = self.a * 2

@attrs.define
class ATI:
    m: int
    double: int = attrs.field(init=False)
    def __attrs_post_init__(self): self.double = self.m * 2

class NT3(NamedTuple):
    p: int
    q: str = "q"
    r: int = 0

class NoRepr:
    def __init__(self, i): self.i = i
    def __repr__(self): return f"<NoRepr {self.i}>"
    def __eq__(self, o): return (o.i == self.i) if isinstance(o, NoRepr) else NotImplemented
    def __hash__(self): return self.i

class Outer:
    class Tok:
        def __init__(self, i): self.i = i
        def __repr__(self): return f"<tok {self.i}>"
        def __eq__(self, o): return (o.i == self.i) if isinstance(o, Outer.Tok) else NotImplemented
        def __hash__(self): return self.i

    class Col(Enum):
        A = 1
        B = 2

    @dataclass
    class Rec:
        x: int
        y: str = "y"
        def __hash__(self): return self.x

    class Kind:
        pass

R = []
'''


def atom(rng, hashable=False, orderable=None):
    if orderable == "int":
        return rng.choice(["0", "1", "-3", "10**20", "True", "7"]), {"int"}
    if orderable == "str":
        return rng.choice(["'a'", "'b'", "''", "'é'", "'a b'"]), {"str"}
    opts = [("0", "int"), ("-7", "int"), ("10**30", "int"), ("True", "bool"), ("None", "none"), ("1.5", "float"), ("-0.0", "float"),
            ("1e100", "float"), ("'s'", "str"), ("'it''s'", "str"), ("'multi\\nline\\ntext'", "str"), ("'  pad  '", "str"),
            ("b'by\\x00te'", "bytes"), ("Color.RED", "enum"), ("Perm.R | Perm.X", "flag"), ("Perm.W", "flag"), ("Perm(0)", "flag"), ("Perm.R & Perm.W", "flag"), ("Plain", "type"), ("int", "type"),
            ("NoRepr(3)", "hasrepr"), ("NT(1)", "namedtuple"), ("NT(2, 'z')", "namedtuple"), ("NT2(1, 2)", "namedtuple"),
            ("DC(1)", "dataclass"), ("DC(2, 'y')", "dataclass"), ("2+3j", "complex"), ("-1j", "complex"), ("float('inf')", "inf"), ("-float('inf')", "inf"),
            ("Outer.Tok(1)", "nested_hasrepr"), ("Outer.Col.B", "nested_enum"), ("Outer.Rec(1)", "nested_dataclass"),
            ("Outer.Rec(2, 'z')", "nested_dataclass"), ("Outer.Kind", "nested_type")]
    # a lone string that the formatter has to wrap (longer than the line) and that a docstring formatter would strip
    opts += [("' ' + 'x' * 90 + ' '", "longstr"), ("'\"' + 'wide text ' * 9 + ' '", "longstr"), ("'y' * 95", "longstr")]
    opts += [("NT3(1, r=4)", "namedtuple"), ("NT3(2, 'z')", "namedtuple"), ("NT3(3, 'q', 5)", "namedtuple")]
    if not hashable:
        opts += [("DCI(3)", "dataclass"), ("ATI(4)", "attrs")]
        opts += [("DCH(1, hidden=2)", "dataclass"), ("DCH(2)", "dataclass"), ("ATH(1, hidden=2)", "attrs"), ("ATH(2)", "attrs")]
        opts += [("DC3(1, c=5)", "dataclass"), ("DC3(2, d=(1,))", "dataclass"), ("DC3(3, 'x', 0, (2,))", "dataclass"), ("DC3(4, 'y')", "dataclass"),
                 ("AT3(1, o='z')", "attrs"), ("AT3(2, p=5)", "attrs"), ("AT3(3, [], 'o', 7)", "attrs"), ("AT3(4, [1])", "attrs"), ("AT3(5, [1], 'o', 2)", "attrs"),
                 ("PM3(s=1, v=3)", "pydantic"), ("PM3(s=2, u=2)", "pydantic"), ("PM3(s=3, t='t', u=0, v=0)", "pydantic")]
        opts += [("DC(3, c=[1, 2])", "dataclass"), ("AT(4)", "attrs"), ("AT(5, [6])", "attrs"), ("PM(s=1)", "pydantic"),
                 ("PM(s=2, t='u')", "pydantic"), ("defaultdict(list, {1: [2]})", "defaultdict"), ("defaultdict(int)", "defaultdict")]
    weights = [3 if k in ("int", "str") else 1 for _s, k in opts]
    s, k = rng.choices(opts, weights)[0]
    return s, {k}


def expr(rng, depth, hashable=False):
    r = rng.random()
    if depth <= 0 or r < 0.4:
        return atom(rng, hashable)
    kinds = ["tuple", "frozenset"] if hashable else ["list", "tuple", "dict", "set", "frozenset", "dataclass", "list", "dict"]
    k = rng.choice(kinds)
    tags = {k}
    n = rng.randint(0, 3)
    if k == "list":
        parts = [expr(rng, depth - 1) for _ in range(n)]
        src = "[" + ", ".join(p[0] for p in parts) + "]"
    elif k == "tuple":
        parts = [expr(rng, depth - 1, hashable) for _ in range(n)]
        src = "(" + ", ".join(p[0] for p in parts) + ("," if n == 1 else "") + ")"
    elif k == "dict":
        keys = [atom(rng, True, rng.choice(["int", "str"])) for _ in range(n)]
        vals = [expr(rng, depth - 1) for _ in range(n)]
        parts = keys + vals
        src = "{" + ", ".join(f"{kk[0]}: {vv[0]}" for kk, vv in zip(keys, vals)) + "}"
    elif k in ("set", "frozenset"):
        mode = rng.choice(["int", "str", "mixed", "any", "nested"])
        if mode == "nested":
            # not mutually orderable, and some elements are sets of strings (whose builtin repr follows the hash seed)
            n = rng.randint(2, 4)
            parts = [atom(rng, True, rng.choice(["int", "str"])) for _ in range(n - 1)]
            for _ in range(rng.randint(1, 2)):
                letters = rng.sample(["x", "y", "z", "w", "v"], rng.randint(2, 3))
                parts.append(("frozenset({" + ", ".join(repr(c) for c in letters) + "})", {"frozenset"}))
        elif mode == "any":
            parts = [expr(rng, depth - 1, True) for _ in range(n)]
        elif mode == "mixed":
            parts = [atom(rng, True, rng.choice(["int", "str"])) for _ in range(n)]
        else:
            parts = [atom(rng, True, mode) for _ in range(n)]
        inner = "{" + ", ".join(p[0] for p in parts) + "}" if n else "set()"
        src = inner if k == "set" else f"frozenset({inner})"
        tags.add("setmode:" + mode)
    else:
        parts = [expr(rng, depth - 1)]
        src = f"DC(9, c=[1], b={atom(rng, True, 'str')[0]})" if rng.random() < 0.5 else f"AT(1, [{parts[0][0]}])"
        tags.add("attrs" if src.startswith("AT") else "dataclass")
    for p in parts:
        tags |= p[1]
    return src, tags


def gen(rng, tier, shape=None):
    depth = rng.choice([0, 1, 2, 2] if tier == "quick" else [0, 1, 2, 3])
    if rng.random() < 0.08:
        # a set that is not orderable (mixed element types) and contains sets of strings: always run across hash seeds
        parts = [atom(rng, True, rng.choice(["int", "str"]))[0] for _ in range(rng.randint(1, 2))] + ["None"][:rng.randint(0, 1)]
        for _ in range(rng.randint(2, 3)):
            letters = rng.sample(["x", "y", "z", "w", "v", "u"], rng.randint(2, 3))
            parts.append("frozenset({" + ", ".join(repr(c) for c in letters) + "})")
        parts = list(dict.fromkeys(parts))
        src = ("frozenset({%s})" if rng.random() < 0.3 else "{%s}") % ", ".join(parts)
        return {"op": "eq", "vals": [src], "tags": ["frozenset", "set", "setmode:nonorderable-nested"],
                "placement": rng.choice(["assert", "module"]), "seeds": True}
    if rng.random() < 0.05:
        # a lone string the formatter must wrap (longer than the line), padded so that a docstring formatter would strip it:
        # always compared across formatter present / missing / replaced (C16) and re-read (C01)
        n = rng.randint(84, 120)
        pad = rng.choice([(" ", " "), (" ", ""), ("", " "), ('"', ' '), ("'", "")])
        src = repr(pad[0] + "w" * n + pad[1])
        if rng.random() < 0.4:
            src = rng.choice(["[1, %s]", "{'k': %s}", "(%s,)"]) % src        # not lone: inside a container written as a whole
        return {"op": rng.choice(["eq", "eq", "in", "getitem"]), "vals": [src] if True else [], "tags": ["longstr", "str"],
                "placement": rng.choice(["assert", "module"]), "seeds": True}
    op = rng.choice(["eq", "eq", "eq", "eq", "le", "ge", "in", "getitem"])
    if op in ("le", "ge"):
        fam = rng.choice(["int", "str"])
        src, tags = atom(rng, True, fam)
        src2, _ = atom(rng, True, fam)
        vals = [src, src2]
    elif op == "in":
        a, tags = expr(rng, min(depth, 1), False)
        b, t2 = atom(rng)
        tags |= t2
        vals = [a, b]
    else:
        src, tags = expr(rng, depth)
        vals = [src]
    has_set = any(t in ("set", "frozenset") for t in tags)
    p_seeds = (0.5 if has_set else 0.03) if tier == "quick" else (0.6 if has_set else 0.05)
    if "longstr" in tags:
        p_seeds = 0.7          # formatter present / missing / replaced must only change the layout (C16)
    return {"op": op, "vals": vals, "tags": sorted(tags), "placement": rng.choice(["assert", "helper", "module", "loop"]),
            "seeds": rng.random() < p_seeds}


OP = {"eq": "{v} == {s}", "le": "{v} <= {s}", "ge": "{v} >= {s}", "in": "{v} in {s}", "getitem": "{v} == {s}['key']"}


def program(case, arg=""):
    L = [PRELUDE]
    for i, v in enumerate(case["vals"]):
        L.append(f"V{i} = {v}")
    L.append("")
    op, pl = case["op"], case["placement"]
    n = len(case["vals"])
    if pl == "module":
        L.append(f"S = snapshot({arg})")
        s = "S"
    else:
        s = f"snapshot({arg})"
    if pl == "helper":
        L.append("def check(v, s):\n    R.append(bool(" + OP[op].format(v="v", s="s") + "))\n")
        L.append("def test_a():")
        if n == 1:
            L.append(f"    check(V0, {s})")
        else:
            L.append("    for v in (V0, V1):")
            L.append(f"        check(v, {s})")
    else:
        L.append("def test_a():")
        if n == 1 and pl != "loop":
            L.append("    R.append(bool(" + OP[op].format(v="V0", s=s) + "))")
        else:
            L.append("    for v in (" + ", ".join(f"V{i}" for i in range(n)) + ",):")
            L.append("        R.append(bool(" + OP[op].format(v="v", s=s) + "))")
    return "\n".join(L) + "\n"


def model_lines(case):
    return []


def exec_disabled(src):
    import sys
    import types
    mod = types.ModuleType("vt_disabled_mod")
    sys.modules["vt_disabled_mod"] = mod
    g = mod.__dict__
    try:
        with contextlib.redirect_stdout(io.StringIO()), contextlib.redirect_stderr(io.StringIO()):
            exec(compile(src, "<disabled>", "exec"), g)
            g["test_a"]()
        return g["R"]
    except BaseException as e:  # noqa: BLE001
        return "EXC " + type(e).__name__ + ": " + str(e)[:160]
    finally:
        sys.modules.pop("vt_disabled_mod", None)


def run_impl(case):
    from .. import impl_inline
    src = program(case)
    r = impl_inline.run_program({"test_case.py": src}, ["create"], ["create"])
    after = r["files_after"].get("test_case.py", "")
    obs = {"errors": [r["import_error"], r["apply_error"], r["collect_errors"], [t["raised"] for t in r["tests"]]],
           "cats": sorted({c for s in r["sites"] for c in s["cats"]}), "changed": after != src, "R": r["R"][0][1] if r["R"] else None}
    try:
        calls = impl_inline.snapshot_args(after)
        obs["arg"] = calls[0][2] if calls else None
    except SyntaxError as e:
        obs["arg"] = None
        obs["syntax_error"] = str(e)
    obs["after_head"] = after[len(PRELUDE) - 200:len(PRELUDE)] if False else ""
    obs["imports"] = [l for l in after.splitlines() if l.startswith("from inline_snapshot import") and "snapshot" not in l.split("import")[1]]
    # C01: re-run with inline-snapshot disabled
    obs["disabled"] = exec_disabled(after)
    # C08: second run, everything approved
    r2 = impl_inline.run_program({"test_case.py": after}, common.CATS, common.CATS)
    after2 = r2["files_after"].get("test_case.py", "")
    obs["second_changed"] = after2 != after
    obs["second_cats"] = sorted({c for s in r2["sites"] for c in s["cats"]})
    obs["second_errors"] = [r2["import_error"], r2["apply_error"], r2["collect_errors"]]
    try:
        c2 = impl_inline.snapshot_args(after2)
        obs["arg2"] = c2[0][2] if c2 else None
    except SyntaxError:
        obs["arg2"] = None
    # the value reaches the snapshot through a name: `S = snapshot(V0)` never compared, `V0 == snapshot(V0)` in a loop
    # (the argument node is an ast.Name whatever the value is; second iteration re-evaluates the argument)
    if case["op"] == "eq" and len(case["vals"]) == 1:
        L = [PRELUDE, f"V0 = {case['vals'][0]}", "", "S = snapshot(V0)", "", "def test_a():", "    for _ in range(2):",
             "        R.append(bool(V0 == snapshot(V0)))", ""]
        rn = impl_inline.run_program({"test_case.py": "\n".join(L)}, common.CATS, common.CATS)
        obs["name_probe"] = {"errors": [rn["import_error"], rn["apply_error"], rn["collect_errors"]], "R": rn["R"][0][1] if rn["R"] else None,
                             "raised": [t["raised"] for t in rn["tests"]]}
    # a third run: the second run may have been an update; the third must be a fixed point
    r3 = impl_inline.run_program({"test_case.py": after2}, common.CATS, common.CATS)
    obs["third_changed"] = r3["files_after"].get("test_case.py", "") != after2
    if case["seeds"]:
        obs["multi"] = multi_env(case, src)
    return obs


BLACK_STUB = "raise ImportError('black is not installed (verification stub)')\n"


def multi_env(case, src):
    """the same create session in separate interpreters: hash seeds x formatter configurations"""
    from .. import impl_inline, impl_pytest
    out = {}
    for label, env, pyproj, extra in [
        ("seed0", {"PYTHONHASHSEED": "0"}, "", {}),
        ("seed1", {"PYTHONHASHSEED": "1"}, "", {}),
        ("seed4242", {"PYTHONHASHSEED": "4242"}, "", {}),
        ("noblack", {"PYTHONHASHSEED": "0"}, "", {"stub/black/__init__.py": BLACK_STUB}),
        ("fmtcmd", {"PYTHONHASHSEED": "0"}, "[tool.inline-snapshot]\nformat-command=\"cat\"\n", {}),
    ]:
        files = {"test_case.py": src}
        files.update(extra)
        e = dict(env)
        if extra:
            e["PYTHONPATH"] = "stub:" + str(common.REPO / "src")
        r = impl_pytest.run_session(files, ["--inline-snapshot=create"], e, pyproject=pyproj)
        text = r["files"].get("test_case.py", b"").decode("utf-8", "replace")
        try:
            calls = impl_inline.snapshot_args(text)
            arg = calls[0][2] if calls else None
            dump = ast.dump(calls[0][3].args[0]) if calls and calls[0][3].args else None
        except SyntaxError:
            arg, dump = "<syntax error>", None
        out[label] = {"arg": arg, "dump": dump, "rc": r["rc"], "traceback": "Traceback" in r["stderr"]}
    return out


def compare(case, obs, model_out):
    return []


def oracle(case, obs):
    fails = []
    desc = f"{case['op']} {case['vals']} ({case['placement']})"
    if obs["errors"][0] or obs["errors"][1] or obs["errors"][2]:
        fails.append(("C18", "finish_total", f"{desc}: {obs['errors']}"))
        return fails
    if any(obs["errors"][3]):
        return fails                      # the comparison itself raised (e.g. unorderable): outside the property
    if obs.get("syntax_error"):
        fails.append(("C01", "valid_python", f"{desc}: {obs['syntax_error']}"))
        fails.append(("C03", "valid_python", f"{desc}: {obs['syntax_error']}"))
        return fails
    if obs["arg"] is None:
        fails.append(("C01", "create_writes", f"{desc}: no argument was written (cats {obs['cats']})"))
        return fails
    d = obs["disabled"]
    if not (isinstance(d, list) and d and all(x is True for x in d)):
        fails.append(("C01", "created_value_holds", f"{desc}: written {obs['arg']!r}; with inline-snapshot disabled the comparisons give {d!r}"))
    if obs["second_errors"][0]:
        pass        # the rewritten module does not import any more: that is the C01 clause above, not end-of-session processing
    elif obs["second_errors"][1] or obs["second_errors"][2]:
        fails.append(("C18", "finish_total", f"{desc} second run: {obs['second_errors']}"))
    else:
        if {"create", "fix", "trim"} & set(obs["second_cats"]):
            fails.append(("C08", "nothing_pending", f"{desc}: after create {obs['arg']!r} the second run reports {obs['second_cats']}"))
        if obs["third_changed"]:
            fails.append(("C08", "rerun_noop", f"{desc}: {obs['arg']!r} -> {obs.get('arg2')!r} -> changes again in a third identical run"))
    npb = obs.get("name_probe")
    if npb:
        if npb["errors"][1] or npb["errors"][2]:
            fails.append(("C18", "finish_total", f"S = snapshot(V0) / V0 == snapshot(V0) in a loop with V0 = {case['vals'][0]}: {npb['errors']}"))
        elif not npb["errors"][0] and (npb["R"] != [True, True] or any(npb["raised"])):
            fails.append(("C06", "transparent", f"V0 == snapshot(V0) twice in a loop with V0 = {case['vals'][0]}: results {npb['R']}, raised {npb['raised']}"))
            fails.append(("C14", "unchanged_argument_accumulates", f"V0 == snapshot(V0) twice in a loop with V0 = {case['vals'][0]}: results {npb['R']}, raised {npb['raised']}"))
    m = obs.get("multi")
    if m:
        seeds = [m[k]["arg"] for k in ("seed0", "seed1", "seed4242")]
        if len(set(seeds)) != 1:
            fails.append(("C16", "hash_seed_independent", f"{desc}: texts per PYTHONHASHSEED {seeds}"))
        dumps = {k: m[k]["dump"] for k in ("seed0", "noblack", "fmtcmd")}
        if len(set(dumps.values())) != 1:
            fails.append(("C16", "formatter_independent", f"{desc}: argument differs between formatter settings: "
                          + str({k: m[k]['arg'] for k in ('seed0', 'noblack', 'fmtcmd')})))
        if any(v["traceback"] for v in m.values()):
            fails.append(("C18", "finish_total", f"{desc}: traceback in a real session"))
    return fails


def nontrivial(case, obs):
    return obs.get("arg") is not None and len(case["tags"]) > 1


def signature(case):
    return common.sha(repr((case["op"], case["vals"], case["placement"])))


def histogram(case, obs, hist):
    hist["op:" + case["op"]] = hist.get("op:" + case["op"], 0) + 1
    hist["placement:" + case["placement"]] = hist.get("placement:" + case["placement"], 0) + 1
    for t in case["tags"]:
        hist["type:" + t] = hist.get("type:" + t, 0) + 1
    if case["seeds"]:
        hist["multi_env"] = hist.get("multi_env", 0) + 1
