"""Check runner: proof gate -> corpus -> correspondence + assumption validation + direct oracle
-> failing-input search on any break -> known-finding triage -> evidence (DESIGN.md §3.2)."""
from __future__ import annotations

import importlib
import json
import multiprocessing as mp
import os
import sys
import time
import traceback

from . import common, proofgate

ENGINE_MODS = {}


def engine(name):
    if name not in ENGINE_MODS:
        ENGINE_MODS[name] = importlib.import_module(f"harness.engines.{name}")
    return ENGINE_MODS[name]


def _work(job):
    """runs in a pool worker: generate (or take) a case, run the implementation, evaluate the oracles"""
    ename, idx, tier, seed, shape, given = job
    try:
        eng = engine(ename)
        if given is not None:
            case = given
        else:
            case = eng.gen(common.rng_for(ename + (":" + shape["tag"] if shape else ""), idx, seed), tier, shape)
        obs = eng.run_impl(case)
        fails = eng.oracle(case, obs)
        lines = eng.model_lines_obs(case, obs) if hasattr(eng, "model_lines_obs") else eng.model_lines(case)
        return {"idx": idx, "case": case, "obs": obs, "fails": fails, "lines": lines, "error": None}
    except BaseException as e:  # noqa: BLE001
        return {"idx": idx, "case": given, "obs": None, "fails": [], "lines": [],
                "error": f"{type(e).__name__}: {e}\n{traceback.format_exc()[-1200:]}"}


_POOL = None


def pool():
    global _POOL
    if _POOL is None:
        n = int(os.environ.get("VERIF_JOBS", "0")) or min(16, os.cpu_count() or 4)
        ctx = mp.get_context("fork")
        _POOL = ctx.Pool(n, maxtasksperchild=400)
    return _POOL


def close_pool():
    global _POOL
    if _POOL is not None:
        _POOL.terminate()
        _POOL.join()
        _POOL = None
    sweep_scratch_roots()


def sweep_scratch_roots():
    """remove the (empty) per-process scratch roots of processes that no longer exist"""
    import glob
    import tempfile
    base = os.environ.get("VERIF_TMP", tempfile.gettempdir())
    for d in glob.glob(os.path.join(base, "isnap-verif-*")):
        try:
            pid = int(d.rsplit("-", 1)[1])
            if pid != os.getpid():
                os.kill(pid, 0)
                continue                      # still running (possibly a worker of another check)
        except ProcessLookupError:
            pass
        except (ValueError, PermissionError):
            continue
        try:
            os.rmdir(d)                       # only when empty
        except OSError:
            pass


class Budget:
    def __init__(self, seconds):
        self.end = time.time() + seconds

    def left(self):
        return self.end - time.time()


def run_cases(ename, jobs, driver):
    """-> list of records with model output and diffs attached"""
    eng = engine(ename)
    recs = pool().map(_work, jobs, chunksize=max(1, len(jobs) // 64))
    lines, spans = [], []
    for r in recs:
        spans.append((len(lines), len(r["lines"])))
        lines += r["lines"]
    outs = driver.run(lines) if lines else []
    for r, (a, n) in zip(recs, spans):
        r["model"] = outs[a:a + n]
        if r["error"] is None:
            try:
                r["diffs"] = eng.compare(r["case"], r["obs"], r["model"])
            except BaseException as e:  # noqa: BLE001
                r["error"] = f"compare: {type(e).__name__}: {e}\n{traceback.format_exc()[-800:]}"
                r["diffs"] = []
        else:
            r["diffs"] = []
    return recs


def load_known():
    p = common.VERIF / "known_findings.json"
    return json.loads(p.read_text()) if p.exists() else []


def classify(prop, ename, rec, fail, known):
    """-> id of the open known finding this oracle failure belongs to, or None"""
    from . import known as K
    for kf in known:
        if kf.get("status") != "open" or kf["property"] != prop:
            continue
        fn = getattr(K, kf["classifier"], None)
        if fn is None:
            continue
        try:
            if fn(ename, rec["case"], fail, rec["obs"]):
                return kf["id"]
        except Exception:  # noqa: BLE001
            continue
    return None


def write_replay(prop, payload):
    payload = common.jenc(payload)
    name = f"{prop}-{common.sha(json.dumps(payload, default=str))}.json"
    path = common.REPLAYS / name
    common.jdump(payload, path)
    return path


def slim(obs):
    if not isinstance(obs, dict):
        return obs
    return {k: v for k, v in obs.items() if k not in ("apply_tb",)}


class Check:
    def __init__(self, prop, tier):
        self.prop, self.tier = prop, tier
        self.t0 = time.time()
        self.violations = []        # (replay path, concrete?)
        self.known_lines = []
        self.known_seen = set()
        self.infra_errors = []
        self.cov = {"evaluations": 0, "distinct_nontrivial": 0, "samples": [], "traces_validated_against_impl": 0,
                    "model_impl_differences": 0, "oracle_failures": 0, "known_finding_hits": 0,
                    "unsupported_by_model": 0, "histogram": {}, "engines": {}}
        self.sigs = set()
        self.known = load_known()
        self.driver = None
        self.reported_clauses = set()

    # -------------------------------------------------------------- reporting
    def violation(self, payload, concrete):
        if len(self.violations) >= 8:
            return
        payload = dict(payload)
        payload["property"] = self.prop
        payload["kind"] = "concrete" if concrete else "no-failing-input-found"
        path = write_replay(self.prop, payload)
        self.violations.append((path, concrete))
        print(f"VIOLATION property={self.prop} replay={path}" + ("" if concrete else " no-failing-input-found"), flush=True)

    def known_hit(self, kid, detail):
        self.cov["known_finding_hits"] += 1
        if kid not in self.known_seen:
            self.known_seen.add(kid)
            kf = next(k for k in self.known if k["id"] == kid)
            print(f"KNOWN-FINDING: property={self.prop} {kid} {kf['what']}", flush=True)

    # -------------------------------------------------------------- processing of records
    def absorb(self, ename, recs, count=True, allow_search=True):
        eng = engine(ename)
        ecov = self.cov["engines"].setdefault(ename, {"cases": 0, "nontrivial": 0})
        broken = []
        for r in recs:
            if r["error"]:
                self.infra_errors.append(f"{ename}#{r['idx']}: {r['error']}")
                continue
            if r["diffs"] and r["diffs"][0][0] == "unsupported":
                self.cov["unsupported_by_model"] += 1
                continue
            if count:
                self.cov["evaluations"] += 1
                ecov["cases"] += 1
                self.cov["traces_validated_against_impl"] += 1
                try:
                    if eng.nontrivial(r["case"], r["obs"]):
                        sig = ename + ":" + eng.signature(r["case"])
                        if sig not in self.sigs:
                            self.sigs.add(sig)
                            ecov["nontrivial"] += 1
                    eng.histogram(r["case"], r["obs"], self.cov["histogram"])
                except Exception as e:  # noqa: BLE001
                    self.infra_errors.append(f"{ename}#{r['idx']} histogram: {e}")
                if len(self.cov["samples"]) < 3:
                    self.cov["samples"].append({"engine": ename, "index": r["idx"], "case": common.jenc(r["case"]),
                                                "model_lines": r["lines"][:2], "model_out": r["model"][:2]})
            pf = [f for f in r["fails"] if f[0] == self.prop]
            pd = [d for d in r["diffs"] if self.prop in d[1]]
            for f in pf:
                self.cov["oracle_failures"] += 1
                kid = classify(self.prop, ename, r, f, self.known)
                if kid:
                    self.known_hit(kid, f)
                    continue
                key = (ename, f[1])
                if key in self.reported_clauses:
                    continue
                self.reported_clauses.add(key)
                self.violation({"engine": ename, "seed": common.seed(), "index": r["idx"], "case": r["case"],
                                "impl_observed": slim(r["obs"]), "model_output": r["model"],
                                "oracle_clauses_failed": [list(f)], "model_impl_diffs": [list(d) for d in r["diffs"]]},
                               True)
            if pd and not pf:
                self.cov["model_impl_differences"] += 1
                broken.append(r)
        if broken and allow_search:
            self.search(ename, broken)

    def search(self, ename, broken):
        """model and implementation disagree on an observable this property depends on, and the direct
        oracle did not fail on the disagreeing case itself: look for a concrete failing input nearby."""
        eng = engine(ename)
        r0 = broken[0]
        key = (ename, "diff:" + r0["diffs"][0][0])
        if key in self.reported_clauses:
            return
        self.reported_clauses.add(key)
        shape = eng.shape_of(r0["case"]) if hasattr(eng, "shape_of") else None
        n = 2000 if self.tier == "quick" else 20000
        found = None
        base = 10_000_000
        done = 0
        while done < n and found is None and time.time() - self.t0 < (150 if self.tier == "quick" else 1500):
            m = min(400, n - done)
            jobs = [(ename, base + done + i, self.tier, common.seed(), shape, None) for i in range(m)]
            recs = pool().map(_work, jobs, chunksize=8)
            done += m
            for r in recs:
                if r["error"]:
                    continue
                for f in r["fails"]:
                    if f[0] == self.prop and not classify(self.prop, ename, r, f, self.known):
                        found = (r, f)
                        break
                if found:
                    break
        payload = {"engine": ename, "seed": common.seed(), "index": r0["idx"], "case": r0["case"],
                   "impl_observed": slim(r0["obs"]), "model_output": r0["model"],
                   "model_impl_diffs": [list(d) for d in r0["diffs"]],
                   "theorem_or_correspondence": f"correspondence {ename} ({len(broken)} disagreeing cases)",
                   "search": {"neighbourhood_cases": done, "shape": shape}}
        if found:
            r, f = found
            payload["failing_input"] = {"index": r["idx"], "case": r["case"], "impl_observed": slim(r["obs"]),
                                        "oracle_clauses_failed": [list(f)]}
            self.violation(payload, True)
        else:
            self.violation(payload, False)

    # -------------------------------------------------------------- phases
    def corpus(self, spec):
        d = common.CORPUS / self.prop
        if not d.exists():
            return
        for p in sorted(d.glob("*.json")):
            item = common.jdec(json.loads(p.read_text()))
            ename = item["engine"]
            recs = run_cases(ename, [(ename, -1, self.tier, common.seed(), None, item["case"])], self.driver)
            self.cov.setdefault("corpus_replayed", 0)
            self.cov["corpus_replayed"] += 1
            exp = item.get("expect", "pass")
            if exp.startswith("known:"):
                kid = exp.split(":", 1)[1]
                r = recs[0]
                hit = any(f[0] == self.prop and classify(self.prop, ename, r, f, self.known) == kid for f in r["fails"])
                if not hit and not r["error"]:
                    self.cov.setdefault("known_findings_not_reproduced", []).append(kid)
            self.absorb(ename, recs, count=False, allow_search=False)

    def engines(self, spec):
        for ename, sizes in spec["engines"]:
            n = sizes[self.tier]
            cap = spec.get("cap_s", {"quick": 75, "thorough": 840})[self.tier]
            if self.tier == "thorough":
                # one time budget per property, shared by its engines (a property with seven engines would otherwise run for an hour)
                cap = min(cap, max(120, int(os.environ.get("VERIF_THOROUGH_BUDGET_S", "1200")) // len(spec["engines"])))
            done = 0
            step = 400 if self.tier == "quick" else 2000
            t_eng = time.time()
            while done < n and time.time() - t_eng < cap:
                m = min(step, n - done)
                jobs = [(ename, done + i, self.tier, common.seed(), None, None) for i in range(m)]
                self.absorb(ename, run_cases(ename, jobs, self.driver))
                done += m


def evidence(chk: Check, gate, spec, exit_code):
    cov = dict(chk.cov)
    cov["distinct_nontrivial"] = len(chk.sigs)
    cov["obligations"] = gate["obligations"]
    cov["discharged"] = gate["discharged"]
    cov["checker_cmd"] = ("cd lean && lake build ISnap isnap-driver && lake env lean ISnap/Audit/%s.lean"
                          % chk.prop) + (" && lake env leanchecker ISnap.Props.%s" % chk.prop if chk.tier == "thorough" else "")
    cov["trusted_base"] = spec.get("trusted_base", []) + [
        "Lean 4.33.0 kernel; axioms allowed: propext, Classical.choice, Quot.sound",
        "hand-written model lean/ISnap/Model/*.lean tied to /repo/src by the differential correspondence run of this check",
        "s-expression parser/printer of lean/Driver.lean and harness/common.py",
        "CPython 3.12 ast/tokenize/repr/copy, black, asttokens, executing as installed",
    ]
    cov["theorems"] = gate.get("axioms", {})
    cov["theorem_statements"] = proofgate.statements(chk.prop)
    cov["undischarged"] = gate["failed"]
    cov["rule"] = spec.get("rule", "")
    cov["proof_gate_s"] = round(gate.get("wall_s", 0), 1)
    if "leanchecker" in gate:
        cov["leanchecker"] = gate["leanchecker"]
    cov["infrastructure_errors"] = chk.infra_errors[:5]
    cov["exhaustive"] = bool(spec.get("exhaustive", {}).get(chk.tier, False))
    ev = {"property_id": chk.prop, "tier": chk.tier, "seed": common.seed(), "level": "proof", "coverage": cov,
          "assumptions": spec.get("assumptions", []), "wall_s": round(time.time() - chk.t0, 2),
          "violations": len(chk.violations), "known_findings_reported": sorted(chk.known_seen),
          "exit_code": exit_code}
    common.jdump(ev, common.EVIDENCE / f"{chk.prop}.json")


def main(argv):
    import argparse
    from . import registry
    ap = argparse.ArgumentParser()
    ap.add_argument("prop")
    ap.add_argument("--tier", default="quick", choices=["quick", "thorough"])
    ap.add_argument("--replay")
    a = ap.parse_args(argv)
    tier = os.environ.get("VERIF_TIER") or a.tier
    if tier not in ("quick", "thorough"):
        tier = a.tier
    prop = a.prop
    if prop not in registry.PROPS:
        print(f"unknown property {prop}", file=sys.stderr)
        return 2
    spec = registry.PROPS[prop]
    common.scrub_process_env()
    chk = Check(prop, tier)
    try:
        if a.replay:
            return replay(chk, spec, a.replay)
        gate = proofgate.run(prop, thorough=(tier == "thorough"))
        if not gate.get("build_ok", False):
            print("lake build failed — infrastructure error\n" + "\n".join(gate["detail"])[-3000:], file=sys.stderr)
            evidence(chk, gate, spec, 2)
            return 2
        chk.driver = common.Driver()
        chk.corpus(spec)
        chk.engines(spec)
        for hook in spec.get("extra", []):
            hook(chk)
        if gate["failed"]:
            # a theorem of this property no longer checks: the property is not shown to hold
            payload = {"theorem_or_correspondence": "proof gate: " + ", ".join(gate["failed"]),
                       "detail": gate["detail"][:6],
                       "search": {"cases_explored_with_direct_oracle": chk.cov["evaluations"]}}
            if not any(c for (_p, c) in chk.violations):
                chk.violation(payload, False)
        code = 1 if chk.violations else 0
        if chk.infra_errors and not chk.violations:
            frac = len(chk.infra_errors) / max(1, chk.cov["evaluations"] + len(chk.infra_errors))
            print(f"infrastructure errors in {len(chk.infra_errors)} cases, first: {chk.infra_errors[0][:600]}", file=sys.stderr)
            if frac > 0.02:
                code = 2
        evidence(chk, gate, spec, code)
        print(f"{prop} {tier}: theorems {gate['discharged']}/{gate['obligations']}, cases {chk.cov['evaluations']}, "
              f"distinct non-trivial {len(chk.sigs)}, violations {len(chk.violations)}, "
              f"known findings {sorted(chk.known_seen)}, {time.time() - chk.t0:.1f}s")
        return code
    finally:
        close_pool()
        common.rmtree(common.scratch_root())


def replay(chk, spec, path):
    item = common.jdec(json.loads(open(path).read()))
    target = item.get("failing_input") or item
    if "case" not in target or "engine" not in item:
        print(f"replay file names no executable case: {item.get('theorem_or_correspondence')}")
        return 1 if item.get("kind") == "no-failing-input-found" else 2
    ok, out, _ = proofgate.build()
    if not ok:
        print(out[-2000:], file=sys.stderr)
        return 2
    chk.driver = common.Driver()
    ename = item["engine"]
    recs = run_cases(ename, [(ename, -1, chk.tier, item.get("seed", 0), None, target["case"])], chk.driver)
    r = recs[0]
    print(json.dumps({"oracle_fails": r["fails"], "diffs": r["diffs"], "error": r["error"]}, indent=1, default=str))
    chk.absorb(ename, recs, count=False, allow_search=False)
    if not chk.violations and any(chk.prop in d[1] for d in r["diffs"]):
        chk.violation({"engine": ename, "case": target["case"], "model_impl_diffs": [list(d) for d in r["diffs"]],
                       "theorem_or_correspondence": f"correspondence {ename}"}, False)
    return 1 if chk.violations else 0
