"""Real `python -m pytest` sessions in throw-away project directories (the plugin entry point resolves to
$VERIF_REPO/src because PYTHONPATH puts it first)."""
from __future__ import annotations

import pathlib
import subprocess
import xml.etree.ElementTree as ET

from . import common


def run_session(files: dict, args=(), env: dict | None = None, stdin: bytes = b"", pyproject: str | None = "",
                timeout: int = 120, keep: bool = False, pre_existing_dir: pathlib.Path | None = None,
                cwd_sub: str | None = None) -> dict:
    d = pre_existing_dir or common.mkscratch("s")
    top = d
    if cwd_sub:
        # the project lives in <scratch>/proj, the session is started from its sibling <scratch>/<cwd_sub>
        d = top / "proj"
        d.mkdir(parents=True, exist_ok=True)
    try:
        if pyproject is not None:
            (d / "pyproject.toml").write_text(pyproject)
        for name, content in files.items():
            p = d / name
            p.parent.mkdir(parents=True, exist_ok=True)
            p.write_bytes(content.encode("utf-8") if isinstance(content, str) else content)
        junit = d / "junit.xml"
        cmd = [common.PYTHON, "-m", "pytest", "-q", "-p", "no:cacheprovider", "-p", "no:randomly",
               f"--junitxml={junit}", *args]
        e = common.clean_env(env)
        try:
            cwd = d
            if cwd_sub:
                # the session is started from another directory; the project is given as an argument
                cwd = top / cwd_sub
                cwd.mkdir(parents=True, exist_ok=True)
                cmd = cmd + [str(d)]
            r = subprocess.run(cmd, cwd=cwd, env=e, capture_output=True, input=stdin, timeout=timeout)
            rc, out, err = r.returncode, r.stdout.decode("utf-8", "replace"), r.stderr.decode("utf-8", "replace")
        except subprocess.TimeoutExpired:
            rc, out, err = -9, "", "timeout"
        outcomes = {}
        if junit.exists():
            try:
                for tc in ET.parse(junit).iter("testcase"):
                    name = tc.get("name")
                    kinds = [c.tag for c in tc]
                    if "failure" in kinds:
                        o = "failed"
                    elif "error" in kinds:
                        o = "error"
                    elif "skipped" in kinds:
                        sk = [c for c in tc if c.tag == "skipped"][0]
                        o = "xfailed" if "xfail" in (sk.get("type") or "") else "skipped"
                    else:
                        o = "passed"
                    # a test can carry both a call failure and a teardown error: keep the worst
                    prev = outcomes.get(name)
                    rank = {"passed": 0, "skipped": 0, "xfailed": 0, "failed": 2, "error": 2}
                    if prev is None or rank[o] > rank[prev]:
                        outcomes[name] = o
            except ET.ParseError:
                outcomes = {"<junit>": "unparsable"}
        after = {}
        for p in sorted(d.rglob("*")):
            if p.is_file() and "__pycache__" not in p.parts and p.name not in ("junit.xml",):
                after[str(p.relative_to(d))] = p.read_bytes()
        return {"rc": rc, "stdout": out[-6000:], "stderr": err[-4000:], "outcomes": outcomes, "files": after,
                "dir": str(d) if keep else None}
    finally:
        if not keep and pre_existing_dir is None:
            common.rmtree(top)
