import ISnap.Model.Rewrite
/-
  Supporting definitions and lemmas for C03 / C20 (`_rewrite_code.py`).

  Specification notions defined here (namespace `ISnap.Rewrite`):
    * `Chained t p rs`  — the offset replacements `rs` are ordered, non-overlapping, inside `t`, and start at or
                          after the read position `p`;
    * `headPart t p pre`— what `replaceFrom` emits for a prefix of the list, and the read position afterwards;
    * `removed`/`inserted` — length bookkeeping;
    * `inLine t l c`    — (Bool) the position `(l, c)` does not reach past the start of line `l + 1`;
    * `Canon t l c`     — `(l, c)` is a position `offset_to_line` produces (decidable);
    * `InLines`/`Canons`— the above for both ends of every replacement of a list;
    * `NoOverlap`       — symmetric non-overlap of two offset replacements.
-/
namespace ISnap.Rewrite

/-- `rs` is a list of offset replacements `(start, end, text)` that is ordered and non-overlapping from `p` on -/
inductive Chained (t : Str) : Nat → List (Nat × Nat × Str) → Prop
  | nil (p : Nat) : Chained t p []
  | cons {p s e : Nat} {x : Str} {rest : List (Nat × Nat × Str)} :
      p ≤ s → s ≤ e → e ≤ t.length → Chained t e rest → Chained t p ((s, e, x) :: rest)

theorem take_drop_split (t : Str) (p a s : Nat) (hpa : p ≤ a) (has : a ≤ s) :
    (t.take s).drop p = (t.take a).drop p ++ (t.take s).drop a := by
  have h1 : t.take s = t.take a ++ (t.take s).drop a := by
    conv => lhs; rw [← List.take_append_drop a (t.take s)]
    rw [List.take_take, Nat.min_eq_left has]
  conv => lhs; rw [h1]
  rw [List.drop_append]
  have : p - (List.take a t).length = 0 ∨ (t.take s).drop a = [] := by
    by_cases h : a ≤ t.length
    · left; simp [List.length_take]; omega
    · right; simp; omega
  rcases this with h | h
  · rw [h]; simp
  · rw [h]; simp

theorem drop_split (t : Str) (p b : Nat) (hpb : p ≤ b) :
    t.drop p = (t.take b).drop p ++ t.drop b := by
  have := take_drop_split t p b (max b t.length) hpb (by omega)
  rw [List.take_of_length_le (by omega)] at this
  exact this

@[simp] theorem replaceFrom_nil (t : Str) (p : Nat) : replaceFrom t p [] = t.drop p := rfl
@[simp] theorem replaceFrom_cons (t : Str) (p s e : Nat) (x : Str) (rest) :
    replaceFrom t p ((s, e, x) :: rest) = (t.take s).drop p ++ x ++ replaceFrom t e rest := rfl

/-- suffix: everything after `b` survives (no ordering assumption at all) -/
theorem replaceFrom_suffix (t : Str) (b : Nat) (rs : List (Nat × Nat × Str)) :
    ∀ p, (rs = [] → p ≤ b) → (∀ r ∈ rs, r.2.1 ≤ b) → ∃ m, replaceFrom t p rs = m ++ t.drop b := by
  induction rs with
  | nil => intro p hp _; exact ⟨(t.take b).drop p, drop_split t p b (hp rfl)⟩
  | cons r rest ih =>
    obtain ⟨s, e, x⟩ := r
    intro p _ h
    have he : e ≤ b := h (s, e, x) (by simp)
    obtain ⟨m, hm⟩ := ih e (fun _ => he) (fun r hr => h r (by simp [hr]))
    exact ⟨(t.take s).drop p ++ x ++ m, by simp [hm]⟩

theorem frame_aux (t : Str) (p a b : Nat) (rs : List (Nat × Nat × Str))
    (hpa : p ≤ a) (hab : a ≤ b) (h : ∀ r ∈ rs, a ≤ r.1 ∧ r.2.1 ≤ b) :
    ∃ mid, replaceFrom t p rs = (t.take a).drop p ++ mid ++ t.drop b := by
  cases rs with
  | nil =>
    refine ⟨(t.take b).drop a, ?_⟩
    rw [replaceFrom_nil, List.append_assoc, ← drop_split t a b hab, ← drop_split t p a hpa]
  | cons r rest =>
    obtain ⟨s, e, x⟩ := r
    have hse := h (s, e, x) (by simp)
    obtain ⟨m, hm⟩ := replaceFrom_suffix t b rest e (fun _ => hse.2)
      (fun r hr => (h r (by simp [hr])).2)
    refine ⟨(t.take s).drop a ++ x ++ m, ?_⟩
    rw [replaceFrom_cons, hm, take_drop_split t p a s hpa hse.1]
    simp

theorem Chained.bounds {t : Str} {p : Nat} {rs} (h : Chained t p rs) :
    ∀ r ∈ rs, p ≤ r.1 ∧ r.1 ≤ r.2.1 ∧ r.2.1 ≤ t.length := by
  induction h with
  | nil => simp
  | cons h1 h2 h3 _ ih =>
    intro r hr
    rcases List.mem_cons.1 hr with rfl | hr
    · exact ⟨h1, h2, h3⟩
    · have := ih r hr; omega

/-- explicit middle part for a chained list -/
theorem replaceFrom_frame_chained (t : Str) (b : Nat) (rs : List (Nat × Nat × Str)) :
    ∀ p a, Chained t p rs → p ≤ a → a ≤ b → (∀ r ∈ rs, a ≤ r.1 ∧ r.2.1 ≤ b) →
      replaceFrom t p rs = (t.take a).drop p ++ replaceFrom (t.take b) a rs ++ t.drop b := by
  induction rs with
  | nil =>
    intro p a _ hpa hab _
    rw [replaceFrom_nil, replaceFrom_nil, List.append_assoc, ← drop_split t a b hab,
      ← drop_split t p a hpa]
  | cons r rest ih =>
    obtain ⟨s, e, x⟩ := r
    intro p a hc hpa hab h
    cases hc with
    | cons h1 h2 h3 hc' =>
      have hse : a ≤ s ∧ e ≤ b := h (s, e, x) (by simp)
      have := ih e e hc' (Nat.le_refl _) hse.2
        (fun r hr => ⟨(hc'.bounds r hr).1, (h r (by simp [hr])).2⟩)
      have hee : (t.take e).drop e = [] := by simp
      rw [replaceFrom_cons, replaceFrom_cons, this, List.take_take,
        Nat.min_eq_left (show s ≤ b by omega), take_drop_split t p a s hpa hse.1, hee]
      simp

/-! ### splitting a replacement list -/

/-- what `replaceFrom` emits for a prefix `pre` of the list, and the read position afterwards -/
def headPart (t : Str) : Nat → List (Nat × Nat × Str) → Str × Nat
  | p, [] => ([], p)
  | p, (s, e, x) :: rest => ((t.take s).drop p ++ x ++ (headPart t e rest).1, (headPart t e rest).2)

theorem replaceFrom_append (t : Str) (pre rest : List (Nat × Nat × Str)) :
    ∀ p, replaceFrom t p (pre ++ rest) =
      (headPart t p pre).1 ++ replaceFrom t (headPart t p pre).2 rest := by
  induction pre with
  | nil => intro p; simp [headPart]
  | cons r pre ih =>
    obtain ⟨s, e, x⟩ := r
    intro p
    simp [headPart, ih e]

theorem replaceFrom_eq_headPart (t : Str) (p : Nat) (rs : List (Nat × Nat × Str)) :
    replaceFrom t p rs = (headPart t p rs).1 ++ t.drop (headPart t p rs).2 := by
  have := replaceFrom_append t rs [] p
  simpa using this

/-- the read position after a chained prefix is the end of its last replacement -/
theorem Chained.headPart_snd {t : Str} {p : Nat} {rs} (h : Chained t p rs) :
    p ≤ (headPart t p rs).2 ∧ (p ≤ t.length → (headPart t p rs).2 ≤ t.length) := by
  induction h with
  | nil => simp [headPart]
  | cons h1 h2 h3 _ ih => simp only [headPart]; omega

theorem Chained.append_right {t : Str} {p : Nat} {pre rest} (h : Chained t p (pre ++ rest)) :
    Chained t (headPart t p pre).2 rest := by
  induction pre generalizing p with
  | nil => simpa [headPart] using h
  | cons r pre ih =>
    obtain ⟨s, e, x⟩ := r
    cases h with
    | cons h1 h2 h3 hc => simpa [headPart] using ih hc

/-! ### length bookkeeping -/

def removed : List (Nat × Nat × Str) → Nat
  | [] => 0
  | (s, e, _) :: rest => (e - s) + removed rest

def inserted : List (Nat × Nat × Str) → Nat
  | [] => 0
  | (_, _, x) :: rest => x.length + inserted rest

theorem Chained.length_replaceFrom {t : Str} {p : Nat} {rs} (h : Chained t p rs)
    (hp : p ≤ t.length) :
    (replaceFrom t p rs).length + removed rs + p = t.length + inserted rs := by
  induction h with
  | nil => simp [removed, inserted]; omega
  | cons h1 h2 h3 _ ih =>
    have := ih h3
    simp only [replaceFrom_cons, List.length_append, List.length_drop, List.length_take,
      removed, inserted]
    omega

/-! ### line numbers -/

theorem lineEnds_bounds (o : Nat) (t : Str) : ∀ v ∈ lineEnds o t, o < v ∧ v ≤ o + t.length := by
  fun_induction lineEnds o t with
  | case1 => simp
  | case2 o rest ih =>
    intro v hv
    rcases List.mem_cons.1 hv with rfl | hv
    · simp
    · have := ih v hv; simp only [List.length_cons]; omega
  | case3 o rest _ ih =>
    intro v hv
    rcases List.mem_cons.1 hv with rfl | hv
    · simp
    · have := ih v hv; simp only [List.length_cons]; omega
  | case4 o rest ih =>
    intro v hv
    rcases List.mem_cons.1 hv with rfl | hv
    · simp
    · have := ih v hv; simp only [List.length_cons]; omega
  | case5 o c rest _ _ _ ih =>
    intro v hv
    have := ih v hv; simp only [List.length_cons]; omega

theorem lineEnds_sorted (o : Nat) (t : Str) : (lineEnds o t).Pairwise (· < ·) := by
  fun_induction lineEnds o t with
  | case1 => simp
  | case2 o rest ih =>
    exact List.pairwise_cons.2 ⟨fun v hv => (lineEnds_bounds _ _ v hv).1, ih⟩
  | case3 o rest _ ih =>
    exact List.pairwise_cons.2 ⟨fun v hv => (lineEnds_bounds _ _ v hv).1, ih⟩
  | case4 o rest ih =>
    exact List.pairwise_cons.2 ⟨fun v hv => (lineEnds_bounds _ _ v hv).1, ih⟩
  | case5 o c rest _ _ _ ih => exact ih

theorem lineOffsets_sorted (t : Str) : (lineOffsets t).Pairwise (· < ·) :=
  List.pairwise_cons.2 ⟨fun v hv => by have := (lineEnds_bounds 0 t v hv).1; omega, lineEnds_sorted 0 t⟩

theorem lineOffsets_le (t : Str) : ∀ v ∈ lineOffsets t, v ≤ t.length := by
  intro v hv
  rcases List.mem_cons.1 hv with rfl | hv
  · omega
  · have := (lineEnds_bounds 0 t v hv).2; omega

/-- the last element of a non-empty `takeWhile` sits at index `length - 1` of the list and satisfies `p` -/
theorem takeWhile_last (p : Nat → Bool) (xs : List Nat) (d : Nat) :
    xs.takeWhile p ≠ [] →
      xs[(xs.takeWhile p).length - 1]? = some ((xs.takeWhile p).getLastD d) ∧
        p ((xs.takeWhile p).getLastD d) = true := by
  induction xs generalizing d with
  | nil => simp
  | cons x xs ih =>
    intro hne
    by_cases hx : p x = true
    · simp only [List.takeWhile_cons, hx, if_true, List.length_cons, Nat.add_sub_cancel,
        List.getLastD_cons]
      by_cases hys : xs.takeWhile p = []
      · simp [hys, hx]
      · have := ih x hys
        obtain ⟨n, hn⟩ : ∃ n, (xs.takeWhile p).length = n + 1 :=
          ⟨(xs.takeWhile p).length - 1, by
            have : (xs.takeWhile p).length ≠ 0 := by simpa using hys
            omega⟩
        rw [hn] at this ⊢
        simpa using this
    · simp [hx] at hne

/-- the element right after a `takeWhile` fails `p` -/
theorem takeWhile_next (p : Nat → Bool) (xs : List Nat) (v : Nat) :
    xs[(xs.takeWhile p).length]? = some v → p v = false := by
  induction xs with
  | nil => simp
  | cons x xs ih =>
    by_cases hx : p x = true
    · simpa [List.takeWhile_cons, hx] using ih
    · simp only [List.takeWhile_cons, hx]
      simp
      intro h; subst h; simpa using hx

theorem lto_le (t : Str) (l c : Nat) : lineToOffset t l c ≤ t.length := by
  unfold lineToOffset
  split
  · omega
  · split <;> omega

private theorem starts_ne (t : Str) (i : Nat) : (lineOffsets t).takeWhile (· ≤ i) ≠ [] := by
  simp [lineOffsets]

/-- `line_to_offset (offset_to_line i) = clamp i`; no `\r\n` side condition is needed. -/
theorem lto_otl (t : Str) (i : Nat) :
    lineToOffset t (offsetToLine t i).1 (offsetToLine t i).2 = min i t.length := by
  have hne := starts_ne t (min i t.length)
  have h := takeWhile_last (· ≤ min i t.length) (lineOffsets t) 0 hne
  have hlen : ((lineOffsets t).takeWhile (· ≤ min i t.length)).length ≠ 0 := by simpa using hne
  simp only [offsetToLine, lineToOffset, if_neg hlen, h.1]
  have := h.2
  simp only [decide_eq_true_eq] at this
  omega

/-! ### orders -/

theorem posLe_iff (l1 c1 l2 c2 : Nat) :
    posLe l1 c1 l2 c2 = true ↔ l1 < l2 ∨ (l1 = l2 ∧ c1 ≤ c2) := by
  simp [posLe]

theorem strLe_refl : ∀ a : Str, strLe a a = true
  | [] => rfl
  | a :: as => by simp [strLe, strLe_refl as]

theorem strLe_total : ∀ a b : Str, strLe a b = true ∨ strLe b a = true
  | [], _ => Or.inl rfl
  | _ :: _, [] => Or.inr rfl
  | a :: as, b :: bs => by
    simp only [strLe, Bool.or_eq_true, decide_eq_true_eq, Bool.and_eq_true, beq_iff_eq]
    rcases strLe_total as bs with h | h <;> rcases Nat.lt_trichotomy a b with h' | h' | h' <;>
      simp [h, h'] <;> omega

theorem strLe_trans : ∀ a b c : Str, strLe a b = true → strLe b c = true → strLe a c = true
  | [], _, _ => fun _ _ => rfl
  | _ :: _, [], _ => fun h _ => by simp [strLe] at h
  | _ :: _, _ :: _, [] => fun _ h => by simp [strLe] at h
  | a :: as, b :: bs, c :: cs => by
    simp only [strLe, Bool.or_eq_true, decide_eq_true_eq, Bool.and_eq_true, beq_iff_eq]
    intro h1 h2
    rcases h1 with h1 | ⟨rfl, h1⟩ <;> rcases h2 with h2 | ⟨rfl, h2⟩
    · left; omega
    · left; omega
    · left; omega
    · right; exact ⟨rfl, strLe_trans as bs cs h1 h2⟩

theorem strLe_antisymm : ∀ a b : Str, strLe a b = true → strLe b a = true → a = b
  | [], [] => fun _ _ => rfl
  | [], _ :: _ => fun _ h => by simp [strLe] at h
  | _ :: _, [] => fun h _ => by simp [strLe] at h
  | a :: as, b :: bs => by
    simp only [strLe, Bool.or_eq_true, decide_eq_true_eq, Bool.and_eq_true, beq_iff_eq]
    intro h1 h2
    rcases h1 with h1 | ⟨rfl, h1⟩ <;> rcases h2 with h2 | ⟨h2', h2⟩
    · omega
    · omega
    · omega
    · rw [strLe_antisymm as bs h1 h2]

theorem tripleLe_iff (a b : Nat × Nat × Str) :
    tripleLe a b = true ↔
      a.1 < b.1 ∨ (a.1 = b.1 ∧ (a.2.1 < b.2.1 ∨ (a.2.1 = b.2.1 ∧ strLe a.2.2 b.2.2 = true))) := by
  unfold tripleLe
  by_cases h1 : a.1 = b.1 <;> by_cases h2 : a.2.1 = b.2.1 <;> simp [h1, h2] <;> omega

theorem tripleLe_total (a b : Nat × Nat × Str) : (tripleLe a b || tripleLe b a) = true := by
  rw [Bool.or_eq_true, tripleLe_iff, tripleLe_iff]
  rcases strLe_total a.2.2 b.2.2 with h | h <;> simp [h] <;> omega

theorem tripleLe_trans (a b c : Nat × Nat × Str) (h1 : tripleLe a b = true)
    (h2 : tripleLe b c = true) : tripleLe a c = true := by
  rw [tripleLe_iff] at *
  rcases h1 with h1 | ⟨h1, h1' | ⟨h1', h1''⟩⟩ <;> rcases h2 with h2 | ⟨h2, h2' | ⟨h2', h2''⟩⟩
  all_goals first
    | (left; omega)
    | (right; refine ⟨by omega, Or.inl (by omega)⟩)
    | (right; exact ⟨by omega, Or.inr ⟨by omega, strLe_trans _ _ _ h1'' h2''⟩⟩)

/-- lexicographic reading of the dataclass order -/
theorem Repl.le_iff (a b : Repl) :
    Repl.le a b = true ↔
      (a.sl < b.sl ∨ (a.sl = b.sl ∧ (a.sc < b.sc ∨ (a.sc = b.sc ∧
        (a.el < b.el ∨ (a.el = b.el ∧ (a.ec < b.ec ∨ (a.ec = b.ec ∧
          ((a.text ≠ b.text ∧ strLe a.text b.text = true) ∨
            (a.text = b.text ∧ a.id ≤ b.id)))))))))) := by
  unfold Repl.le posLe
  by_cases h1 : a.sl = b.sl <;> by_cases h2 : a.sc = b.sc <;> by_cases h3 : a.el = b.el <;>
    by_cases h4 : a.ec = b.ec <;> by_cases h5 : a.text = b.text <;>
    simp [h1, h2, h3, h4, h5] <;> omega

theorem Repl.le_total (a b : Repl) : (Repl.le a b || Repl.le b a) = true := by
  rw [Bool.or_eq_true, Repl.le_iff, Repl.le_iff]
  have := strLe_total a.text b.text
  grind (splits := 30)

theorem Repl.le_trans (a b c : Repl) (h1 : Repl.le a b = true) (h2 : Repl.le b c = true) :
    Repl.le a c = true := by
  rw [Repl.le_iff] at *
  have ht := strLe_trans a.text b.text c.text
  have ha := strLe_antisymm a.text b.text
  grind (splits := 30)

/-! ### monotonicity, canonical positions -/

theorem lineOffsets_mono (t : Str) (i j a b : Nat) (hij : i ≤ j)
    (hi : (lineOffsets t)[i]? = some a) (hj : (lineOffsets t)[j]? = some b) : a ≤ b := by
  rcases Nat.eq_or_lt_of_le hij with rfl | hlt
  · rw [hi] at hj; cases hj; exact Nat.le_refl _
  · obtain ⟨hi', rfl⟩ := List.getElem?_eq_some_iff.1 hi
    obtain ⟨hj', rfl⟩ := List.getElem?_eq_some_iff.1 hj
    exact Nat.le_of_lt (List.pairwise_iff_getElem.1 (lineOffsets_sorted t) i j hi' hj' hlt)

/-- the position `(l, c)` does not reach past the start of the next line (if there is one) -/
def inLine (t : Str) (l c : Nat) : Bool :=
  match (lineOffsets t)[l]? with
  | none => true
  | some o' => decide (lineToOffset t l c ≤ o')

theorem lto_mono_col (t : Str) (l c1 c2 : Nat) (h : c1 ≤ c2) :
    lineToOffset t l c1 ≤ lineToOffset t l c2 := by
  unfold lineToOffset
  split
  · omega
  · split <;> omega

theorem lto_mono (t : Str) (l1 c1 l2 c2 : Nat) (hin : inLine t l1 c1 = true)
    (h : posLe l1 c1 l2 c2 = true) : lineToOffset t l1 c1 ≤ lineToOffset t l2 c2 := by
  rcases (posLe_iff ..).1 h with hlt | ⟨rfl, hc⟩
  · have hle := lto_le t l1 c1
    have h20 : l2 ≠ 0 := by omega
    rw [show lineToOffset t l2 c2 = _ from by unfold lineToOffset; rw [if_neg h20]]
    cases h2 : (lineOffsets t)[l2 - 1]? with
    | none => exact hle
    | some o2 =>
      have hlen : l2 - 1 < (lineOffsets t).length := (List.getElem?_eq_some_iff.1 h2).1
      have hl1 : l1 < (lineOffsets t).length := by omega
      have h1 : (lineOffsets t)[l1]? = some (lineOffsets t)[l1] := List.getElem?_eq_getElem hl1
      have := lineOffsets_mono t l1 (l2 - 1) _ _ (by omega) h1 h2
      simp only [inLine, h1, decide_eq_true_eq] at hin
      simp only
      omega
  · exact lto_mono_col t l1 c1 c2 hc

/-- canonical positions: the ones `offset_to_line` produces -/
def Canon (t : Str) (l c : Nat) : Prop := offsetToLine t (lineToOffset t l c) = (l, c)

instance (t : Str) (l c : Nat) : Decidable (Canon t l c) := by unfold Canon; infer_instance

theorem canon_offsetToLine (t : Str) (i : Nat) :
    Canon t (offsetToLine t i).1 (offsetToLine t i).2 := by
  unfold Canon
  rw [lto_otl]
  simp [offsetToLine]

theorem Canon.inj {t : Str} {l1 c1 l2 c2 : Nat} (h1 : Canon t l1 c1) (h2 : Canon t l2 c2)
    (h : lineToOffset t l1 c1 = lineToOffset t l2 c2) : l1 = l2 ∧ c1 = c2 := by
  unfold Canon at h1 h2
  rw [h, h2] at h1
  simpa using h1.symm

theorem Canon.inLine {t : Str} {l c : Nat} (h : Canon t l c) : inLine t l c = true := by
  unfold Canon offsetToLine at h
  have hle := lto_le t l c
  rw [Nat.min_eq_left hle] at h
  have hl : ((lineOffsets t).takeWhile (· ≤ lineToOffset t l c)).length = l := congrArg Prod.fst h
  unfold Rewrite.inLine
  split
  · rfl
  · next o' ho' =>
    rw [← hl] at ho'
    have := takeWhile_next _ _ _ ho'
    simp only [decide_eq_false_iff_not] at this
    simp only [decide_eq_true_eq]; omega

/-! ### `_check` on positions gives a chained offset list -/

theorem checkSorted_cons (r : Repl) (rest : List Repl) (h : checkSorted (r :: rest) = true) :
    posLe r.sl r.sc r.el r.ec = true ∧
      (∀ r', rest.head? = some r' → posLe r.el r.ec r'.sl r'.sc = true) ∧
      checkSorted rest = true := by
  cases rest with
  | nil => simpa [checkSorted] using h
  | cons r' rest' =>
    simp only [checkSorted, Bool.and_eq_true] at h
    simp [h.1.1, h.1.2, h.2]

/-- positions whose columns stay inside their line -/
def InLines (t : Str) (rs : List Repl) : Prop :=
  ∀ r ∈ rs, inLine t r.sl r.sc = true ∧ inLine t r.el r.ec = true

theorem chained_of_checkSorted (t : Str) (rs : List Repl) :
    ∀ p, checkSorted rs = true → InLines t rs →
      (∀ r, rs.head? = some r → p ≤ lineToOffset t r.sl r.sc) →
      Chained t p (rs.map (toOffsets t)) := by
  induction rs with
  | nil => intro p _ _ _; exact Chained.nil p
  | cons r rest ih =>
    intro p hc hin hp
    obtain ⟨h1, h2, h3⟩ := checkSorted_cons r rest hc
    have hr := hin r (by simp)
    refine Chained.cons (hp r rfl) (lto_mono t _ _ _ _ hr.1 h1) (lto_le ..) ?_
    exact ih _ h3 (fun r' hr' => hin r' (by simp [hr']))
      (fun r' hr' => lto_mono t _ _ _ _ hr.2 (h2 r' hr'))

/-- in a chained list every replacement ends before every later one starts -/
theorem Chained.pairwise {t : Str} {p : Nat} {rs} (h : Chained t p rs) :
    rs.Pairwise (fun a b => a.1 ≤ a.2.1 ∧ a.2.1 ≤ b.1 ∧ b.1 ≤ b.2.1) := by
  induction h with
  | nil => exact List.Pairwise.nil
  | cons h1 h2 h3 hc ih =>
    refine List.pairwise_cons.2 ⟨fun b hb => ?_, ih⟩
    have := hc.bounds b hb
    exact ⟨h2, this.1, this.2.1⟩

def Canons (t : Str) (rs : List Repl) : Prop :=
  ∀ r ∈ rs, Canon t r.sl r.sc ∧ Canon t r.el r.ec

theorem Canons.inLines {t : Str} {rs : List Repl} (h : Canons t rs) : InLines t rs :=
  fun r hr => ⟨(h r hr).1.inLine, (h r hr).2.inLine⟩

theorem tripleLe_of_le (t : Str) (a b : Repl)
    (ha : Canon t a.sl a.sc ∧ Canon t a.el a.ec) (hb : Canon t b.sl b.sc ∧ Canon t b.el b.ec)
    (hle : Repl.le a b = true)
    (ho : (toOffsets t a).1 ≤ (toOffsets t a).2.1 ∧ (toOffsets t a).2.1 ≤ (toOffsets t b).1 ∧
      (toOffsets t b).1 ≤ (toOffsets t b).2.1) :
    tripleLe (toOffsets t a) (toOffsets t b) = true := by
  rw [tripleLe_iff]
  simp only [toOffsets] at ho ⊢
  by_cases h1 : lineToOffset t a.sl a.sc = lineToOffset t b.sl b.sc
  · by_cases h2 : lineToOffset t a.el a.ec = lineToOffset t b.el b.ec
    · right; refine ⟨h1, Or.inr ⟨h2, ?_⟩⟩
      have e1 := Canon.inj ha.1 hb.1 h1
      have e2 := Canon.inj ha.2 hb.2 h2
      rw [Repl.le_iff] at hle
      rcases hle with h | ⟨_, h | ⟨_, h | ⟨_, h | ⟨_, h | h⟩⟩⟩⟩
      · omega
      · omega
      · omega
      · omega
      · exact h.2
      · rw [h.1]; exact strLe_refl _
    · right; exact ⟨h1, Or.inl (by omega)⟩
  · left; omega

/-! ### `replace` sorts again -/

/-- symmetric "do not overlap" -/
def NoOverlap (a b : Nat × Nat × Str) : Prop := a.2.1 ≤ b.1 ∨ b.2.1 ≤ a.1

theorem chained_of_sorted_noOverlap (t : Str) (rs : List (Nat × Nat × Str)) :
    ∀ p, (∀ r ∈ rs, p ≤ r.1 ∧ r.1 ≤ r.2.1 ∧ r.2.1 ≤ t.length) →
      rs.Pairwise (fun a b => tripleLe a b = true) → rs.Pairwise NoOverlap → Chained t p rs := by
  induction rs with
  | nil => intro p _ _ _; exact Chained.nil p
  | cons r rest ih =>
    obtain ⟨s, e, x⟩ := r
    intro p hb hs hn
    have h0 : p ≤ s ∧ s ≤ e ∧ e ≤ t.length := hb (s, e, x) (by simp)
    rw [List.pairwise_cons] at hs hn
    refine Chained.cons h0.1 h0.2.1 h0.2.2 (ih e (fun r hr => ?_) hs.2 hn.2)
    have hr0 := hb r (by simp [hr])
    refine ⟨?_, hr0.2⟩
    have h1 := (tripleLe_iff _ _).1 (hs.1 r hr)
    have h2 : e ≤ r.1 ∨ r.2.1 ≤ s := hn.1 r hr
    simp only at h1
    omega

/-- sorting a chained list by `tripleLe` (what `asttokens.util.replace` does) keeps it chained -/
theorem Chained.mergeSort {t : Str} {rs : List (Nat × Nat × Str)} (h : Chained t 0 rs) :
    Chained t 0 (rs.mergeSort tripleLe) := by
  have hperm := List.mergeSort_perm rs tripleLe
  apply chained_of_sorted_noOverlap
  · intro r hr
    have := h.bounds r (List.mem_mergeSort.1 hr)
    omega
  · exact List.pairwise_mergeSort tripleLe_trans tripleLe_total rs
  · have : rs.Pairwise NoOverlap := h.pairwise.imp (fun h => Or.inl h.2.1)
    exact hperm.symm.pairwise this (fun h => h.symm)

/-! ### sorting -/

theorem mergeSort_pair {α} (le : α → α → Bool) (a b : α) :
    [a, b].mergeSort le = if le a b then [a, b] else [b, a] := by
  simp [List.mergeSort, List.merge]

theorem sortRepls_sorted (rs : List Repl) :
    (sortRepls rs).Pairwise (fun a b => Repl.le a b = true) :=
  List.pairwise_mergeSort Repl.le_trans Repl.le_total rs

theorem sortRepls_of_sorted {rs : List Repl} (h : rs.Pairwise (fun a b => Repl.le a b = true)) :
    sortRepls rs = rs := List.mergeSort_of_pairwise h

theorem mem_sortRepls {r : Repl} {rs : List Repl} : r ∈ sortRepls rs ↔ r ∈ rs :=
  List.mem_mergeSort

/-- `new_code` with the `let`s and Boolean tests unfolded -/
theorem newCode_eq (fmt : Str → Str) (enforce : Bool) (t : Str) (rs : List Repl) :
    newCode fmt enforce t rs =
      if checkSorted (sortRepls rs) = true then
        some (if (enforce = true ∨ fmt t = t) then fmt (replaceText t ((sortRepls rs).map (toOffsets t)))
          else replaceText t ((sortRepls rs).map (toOffsets t)))
      else none := by
  unfold newCode
  cases h : checkSorted (sortRepls rs) <;> simp [h]

end ISnap.Rewrite
