import ISnap.Model.SeqEdit
/-
  Lemmas for Props/C03b.lean: the text-level sequence edit (`Model/SeqEdit.lean`).

  The parser is run over the output piecewise: `Seg st a ks st'` says that the tokens `a` take the parser
  from state `st` to state `st'` and emit the elements `ks`, whatever follows.
-/
namespace ISnap.SeqEdit

/-! ### running the parser over a piece of text -/

def Seg (st : PState) (a : List Tok) (ks : List Nat) (st' : PState) : Prop :=
  ∀ b, parseFrom st (a ++ b) = (parseFrom st' b).map (fun r => (ks ++ r.1, r.2))

theorem Seg.nil (st : PState) : Seg st [] [] st := by
  intro b
  cases h : parseFrom st b <;> simp [h]

theorem Seg.append {st st' st'' : PState} {a a' : List Tok} {ks ks' : List Nat}
    (h1 : Seg st a ks st') (h2 : Seg st' a' ks' st'') : Seg st (a ++ a') (ks ++ ks') st'' := by
  intro b
  rw [List.append_assoc, h1, h2, Option.map_map]
  cases parseFrom st'' b <;> simp

theorem Seg.cast {st st' : PState} {a a' : List Tok} {ks ks' : List Nat}
    (h : Seg st a ks st') (ha : a = a') (hk : ks = ks') : Seg st a' ks' st' := by
  subst ha; subst hk; exact h

theorem parseFrom_ws (st : PState) (k : Nat) (b : List Tok) :
    parseFrom st (.ws k :: b) = parseFrom st b := by
  cases st <;> simp [parseFrom]

theorem Seg.ws (st : PState) (k : Nat) : Seg st [.ws k] [] st := by
  intro b
  rw [List.singleton_append, parseFrom_ws]
  cases parseFrom st b <;> simp

theorem Seg.comma : Seg .afterElem [.comma] [] .afterComma := by
  intro b
  rw [List.singleton_append]
  simp only [parseFrom]
  cases parseFrom .afterComma b <;> simp

theorem Seg.elem {st : PState} (k : Nat) (h : st ≠ .afterElem) : Seg st [.elem k] [k] .afterElem := by
  intro b
  rw [List.singleton_append]
  cases st
  · simp only [parseFrom]; cases parseFrom .afterElem b <;> simp
  · exact absurd rfl h
  · simp only [parseFrom]; cases parseFrom .afterElem b <;> simp

theorem Seg.sep : Seg .afterElem sep [] .afterComma :=
  (Seg.comma.append (Seg.ws .afterComma 0)).cast rfl rfl

theorem Seg.joinCode {st : PState} (h : st ≠ .afterElem) :
    ∀ nc : List Nat, nc ≠ [] → Seg st (joinCode nc) nc .afterElem
  | [], hne => absurd rfl hne
  | [a], _ => Seg.elem a h
  | a :: b :: rest, _ => by
    have ih := Seg.joinCode (st := .afterComma) (by decide) (b :: rest) (by simp)
    exact ((Seg.elem a h).append (Seg.sep.append ih)).cast (by simp [SeqEdit.joinCode]) (by simp)

/-! ### gaps -/

def nonElem (t : Tok) : Bool := match t with | .elem _ => false | _ => true
def isWs (t : Tok) : Bool := match t with | .ws _ => true | _ => false

theorem isBlank_eq (g : List Tok) : isBlank g = g.all isWs := rfl
theorem isSep_eq (g : List Tok) : isSep g = (g.all nonElem && g.count .comma == 1) := rfl
theorem isTail_eq (g : List Tok) : isTail g = (g.all nonElem && decide (g.count .comma ≤ 1)) := rfl

theorem Seg.blank (st : PState) : ∀ a : List Tok, isBlank a = true → Seg st a [] st
  | [], _ => Seg.nil st
  | t :: a, h => by
    rw [isBlank_eq, List.all_cons, Bool.and_eq_true] at h
    have ih := Seg.blank st a h.2
    cases t with
    | ws k => exact ((Seg.ws st k).append ih).cast rfl rfl
    | elem k => simp [isWs] at h
    | comma => simp [isWs] at h

theorem blank_of_count_zero : ∀ a : List Tok, a.all nonElem = true → a.count .comma = 0 → isBlank a = true
  | [], _, _ => rfl
  | t :: a, h, hc => by
    rw [List.all_cons, Bool.and_eq_true] at h
    cases t with
    | ws k =>
      have hc' : a.count .comma = 0 := by simpa [List.count_cons] using hc
      have := blank_of_count_zero a h.2 hc'
      rw [isBlank_eq] at this ⊢
      simp [isWs, this]
    | elem k => simp [nonElem] at h
    | comma => simp at hc

theorem Seg.sepGap' : ∀ a : List Tok, a.all nonElem = true → a.count .comma = 1 →
    Seg .afterElem a [] .afterComma
  | [], _, hc => by simp at hc
  | t :: a, h, hc => by
    rw [List.all_cons, Bool.and_eq_true] at h
    cases t with
    | ws k =>
      have hc' : a.count .comma = 1 := by simpa [List.count_cons] using hc
      exact ((Seg.ws .afterElem k).append (Seg.sepGap' a h.2 hc')).cast rfl rfl
    | elem k => simp [nonElem] at h
    | comma =>
      have hc' : a.count .comma = 0 := by simpa [List.count_cons] using hc
      exact (Seg.comma.append (Seg.blank .afterComma a (blank_of_count_zero a h.2 hc'))).cast rfl rfl

theorem Seg.sepGap (a : List Tok) (h : isSep a = true) : Seg .afterElem a [] .afterComma := by
  rw [isSep_eq, Bool.and_eq_true] at h
  exact Seg.sepGap' a h.1 (by simpa using h.2)

theorem parseFrom_of_seg_nil {st st' : PState} {a : List Tok} {ks : List Nat} (h : Seg st a ks st') :
    parseFrom st a = some (ks, st' == .afterComma) := by
  have := h []
  simpa [parseFrom] using this

theorem parse_tail (a : List Tok) (h : isTail a = true) : ∃ tc, parseFrom .afterElem a = some ([], tc) := by
  rw [isTail_eq, Bool.and_eq_true] at h
  have hc : a.count .comma ≤ 1 := by simpa using h.2
  rcases Nat.lt_or_ge (a.count .comma) 1 with h0 | h1
  · have hb := blank_of_count_zero a h.1 (by omega)
    exact ⟨_, parseFrom_of_seg_nil (Seg.blank .afterElem a hb)⟩
  · exact ⟨_, parseFrom_of_seg_nil (Seg.sepGap' a h.1 (by omega))⟩

/-! ### well-formed gaps, generalised to a position inside the display -/

/-- `g` is the gap in front of the remaining entries; `b` = nothing in front of it -/
def wfFrom (g : List Tok) (b : Bool) : List Entry → Bool
  | [] => if b then isBlank g else isTail g
  | e :: rest => (if b then isBlank g else isSep g) && wfFrom e.gapAfter false rest

/-- the gaps after the remaining entries are well formed -/
def wfAfter : List Entry → Bool
  | [] => true
  | e :: rest => wfFrom e.gapAfter false rest

theorem wfGapsTail_eq : ∀ es : List Entry, wfGaps.wfGapsTail es = wfAfter es
  | [] => rfl
  | [e] => by simp [wfGaps.wfGapsTail, wfAfter, wfFrom]
  | e :: e' :: rest => by
    have ih := wfGapsTail_eq (e' :: rest)
    simp only [wfGaps.wfGapsTail, wfAfter, wfFrom] at ih ⊢
    rw [ih]; simp

theorem wfGaps_eq (gap0 : List Tok) : ∀ es : List Entry, wfGaps gap0 es = wfFrom gap0 true es
  | [] => by simp [wfGaps, wfFrom]
  | [e] => by simp [wfGaps, wfFrom]
  | e :: e' :: rest => by
    have ih := wfGapsTail_eq (e' :: rest)
    simp only [wfGaps, wfFrom, wfAfter] at ih ⊢
    rw [ih]; simp [Bool.and_assoc]

theorem wfAfter_of_wfFrom {g : List Tok} {b : Bool} : ∀ {es : List Entry}, wfFrom g b es = true → wfAfter es = true
  | [], _ => rfl
  | e :: rest, h => by
    simp only [wfFrom, Bool.and_eq_true] at h
    exact h.2

/-! ### `original` is a display -/

def pst (isStart : Bool) : PState := if isStart then .start else .afterElem

theorem original_parseFrom : ∀ (es : List Entry) (g : List Tok) (b : Bool), wfFrom g b es = true →
    ∃ tc, parseFrom (pst b) (original g es) = some (es.map (·.key), tc)
  | [], g, b, h => by
    cases b
    · simp only [wfFrom] at h
      simpa [pst, original] using parse_tail g (by simpa using h)
    · simp only [wfFrom] at h
      exact ⟨_, by simpa [pst, original] using parseFrom_of_seg_nil (Seg.blank .start g (by simpa using h))⟩
  | e :: rest, g, b, h => by
    simp only [wfFrom, Bool.and_eq_true] at h
    obtain ⟨tc, ih⟩ := original_parseFrom rest e.gapAfter false h.2
    have hg : ∃ st', st' ≠ PState.afterElem ∧ Seg (pst b) g [] st' := by
      cases b
      · exact ⟨.afterComma, by decide, Seg.sepGap g (by simpa using h.1)⟩
      · exact ⟨.start, by decide, Seg.blank .start g (by simpa using h.1)⟩
    obtain ⟨st', hne, hseg⟩ := hg
    have := (hseg.append (Seg.elem e.key hne)) (original e.gapAfter rest)
    refine ⟨tc, ?_⟩
    simp only [original, List.append_assoc, List.map_cons]
    rw [List.append_assoc] at this
    rw [this]
    have ih' : parseFrom .afterElem (original e.gapAfter rest) = some (rest.map (·.key), tc) := ih
    simp [ih']

theorem original_parse (gap0 : List Tok) (es : List Entry) (hwf : wfGaps gap0 es = true) :
    ∃ tc, parse (original gap0 es) = some (es.map (·.key), tc) := by
  rw [wfGaps_eq] at hwf
  exact original_parseFrom es gap0 true hwf

/-! ### one step of the loop -/

/-- the text written in front of a kept element -/
def segOf (s : St) (nc : List Nat) : List Tok :=
  if s.deleted || !nc.isEmpty then
    (if s.isStart then [] else sep) ++ (if nc.isEmpty then [] else joinCode nc ++ sep)
  else s.orig

theorem step_del {ins : List (List Nat)} {i : Nat} {e : Entry} {s : St} (h : e.keep = false) :
    step ins i e s = { s with newCode := s.newCode ++ ins.getD i [], deleted := true,
                              orig := s.orig ++ [.elem e.key] ++ e.gapAfter } := by
  simp [step, h]

theorem step_keep {ins : List (List Nat)} {i : Nat} {e : Entry} {s : St} (h : e.keep = true) :
    step ins i e s =
      { newCode := [], deleted := false, isStart := false,
        elements := s.elements + (s.newCode ++ ins.getD i []).length + 1,
        orig := e.gapAfter, out := s.out ++ segOf s (s.newCode ++ ins.getD i []) ++ [.elem e.key] } := by
  simp [step, h, segOf]

/-- what has been written so far is the beginning of a display holding `ks` -/
structure Inv (s : St) (ks : List Nat) : Prop where
  seg : Seg .start s.out ks (pst s.isStart)
  elems : s.elements = ks.length
  start : s.isStart = ks.isEmpty

/-- while nothing is deleted or pending, `orig` is the gap in front of the remaining entries -/
def Clean (s : St) (es : List Entry) : Prop :=
  s.deleted = false → s.newCode = [] ∧ wfFrom s.orig s.isStart es = true

theorem segOf_seg (s : St) (nc : List Nat) (e : Entry) (rest : List Entry)
    (hc : s.deleted = false → nc = [] → wfFrom s.orig s.isStart (e :: rest) = true) :
    ∃ st', st' ≠ PState.afterElem ∧ Seg (pst s.isStart) (segOf s nc) nc st' := by
  unfold segOf
  by_cases hnc : nc = []
  · subst hnc
    cases hd : s.deleted
    · have := hc hd rfl
      simp only [wfFrom, Bool.and_eq_true] at this
      cases hs : s.isStart
      · rw [hs] at this
        exact ⟨.afterComma, by decide, by simpa [pst] using Seg.sepGap _ (by simpa using this.1)⟩
      · rw [hs] at this
        exact ⟨.start, by decide, by simpa [pst] using Seg.blank .start _ (by simpa using this.1)⟩
    · cases hs : s.isStart
      · exact ⟨.afterComma, by decide, by simpa [pst] using Seg.sep⟩
      · exact ⟨.start, by decide, by simpa [pst] using Seg.nil .start⟩
  · have hne : nc.isEmpty = false := by simpa using hnc
    simp only [hne, Bool.not_false, Bool.or_true, if_true]
    cases hs : s.isStart
    · refine ⟨.afterComma, by decide, ?_⟩
      have := Seg.sep.append ((Seg.joinCode (st := .afterComma) (by decide) nc hnc).append Seg.sep)
      simpa [pst] using this
    · refine ⟨.afterComma, by decide, ?_⟩
      have := (Seg.joinCode (st := .start) (by decide) nc hnc).append Seg.sep
      simpa [pst] using this

/-! ### the loop -/

theorem loop_inv (ins : List (List Nat)) : ∀ (es : List Entry) (i : Nat) (s : St) (ks : List Nat),
    Inv s ks → wfAfter es = true → Clean s es →
    ∃ ks', Inv (loop ins i es s) ks' ∧ Clean (loop ins i es s) [] ∧
      ks' ++ (loop ins i es s).newCode ++ ins.getD (i + es.length) []
        = ks ++ s.newCode ++ expectedFrom ins i es
  | [], i, s, ks, hinv, _, hcl => ⟨ks, hinv, hcl, by simp [loop, expectedFrom]⟩
  | e :: rest, i, s, ks, hinv, hwa, hcl => by
    have hwa' : wfAfter rest = true := wfAfter_of_wfFrom (by simpa [wfAfter] using hwa)
    cases hk : e.keep
    · -- deleted
      have hinv' : Inv (step ins i e s) ks := by
        rw [step_del hk]; exact ⟨hinv.seg, hinv.elems, hinv.start⟩
      have hcl' : Clean (step ins i e s) rest := by
        rw [step_del hk]; intro h; simp at h
      obtain ⟨ks', h1, h2, h3⟩ := loop_inv ins rest (i + 1) _ ks hinv' hwa' hcl'
      refine ⟨ks', h1, h2, ?_⟩
      simp only [loop, List.length_cons, expectedFrom, hk]
      rw [show i + (rest.length + 1) = i + 1 + rest.length by omega, h3, step_del hk]
      simp
    · -- kept
      obtain ⟨st', hne, hseg⟩ := segOf_seg s (s.newCode ++ ins.getD i []) e rest (by
        intro hd _
        exact (hcl hd).2)
      have hinv' : Inv (step ins i e s) (ks ++ (s.newCode ++ ins.getD i []) ++ [e.key]) := by
        rw [step_keep hk]
        refine ⟨?_, ?_, ?_⟩
        · exact (hinv.seg.append hseg).append (Seg.elem e.key hne)
        · simp [hinv.elems]; omega
        · simp
      have hcl' : Clean (step ins i e s) rest := by
        rw [step_keep hk]; intro _
        exact ⟨rfl, by simpa [wfAfter] using hwa⟩
      obtain ⟨ks', h1, h2, h3⟩ := loop_inv ins rest (i + 1) _ _ hinv' hwa' hcl'
      refine ⟨ks', h1, h2, ?_⟩
      simp only [loop, List.length_cons, expectedFrom, hk]
      rw [show i + (rest.length + 1) = i + 1 + rest.length by omega, h3, step_keep hk]
      simp

/-! ### the part after the loop -/

def codeOf (s : St) (nc : List Nat) : List Tok :=
  if !s.isStart && !(joinCode nc).isEmpty then sep ++ joinCode nc else joinCode nc

def finEl (ins : List (List Nat)) (n : Nat) (s : St) : Nat :=
  if (ins.getD n []).isEmpty then s.elements else s.elements + (s.newCode ++ ins.getD n []).length

theorem finish_eq (isTuple : Bool) (ins : List (List Nat)) (n : Nat) (s : St) :
    finish isTuple ins n s =
      if !(s.newCode ++ ins.getD n []).isEmpty || s.deleted || finEl ins n s == 1 || n ≤ 1 then
        s.out ++ (if finEl ins n s == 1 && isTuple then codeOf s (s.newCode ++ ins.getD n []) ++ [.comma]
                  else codeOf s (s.newCode ++ ins.getD n []))
      else s.out ++ s.orig := rfl

theorem joinCode_isEmpty : ∀ nc : List Nat, (joinCode nc).isEmpty = nc.isEmpty
  | [] => rfl
  | [_] => rfl
  | _ :: _ :: _ => rfl

theorem codeOf_seg (s : St) (nc : List Nat) :
    Seg (pst s.isStart) (codeOf s nc) nc (pst (s.isStart && nc.isEmpty)) := by
  unfold codeOf
  rw [joinCode_isEmpty]
  by_cases hnc : nc = []
  · subst hnc
    simpa [SeqEdit.joinCode] using Seg.nil (pst s.isStart)
  · have hne : nc.isEmpty = false := by simpa using hnc
    cases hs : s.isStart
    · simpa [pst, hne] using Seg.sep.append (Seg.joinCode (st := .afterComma) (by decide) nc hnc)
    · simpa [pst, hne] using Seg.joinCode (st := .start) (by decide) nc hnc

theorem finish_text_nocomma {s : St} {ks : List Nat} (hinv : Inv s ks) (nc : List Nat) :
    ∃ tc, parse (s.out ++ codeOf s nc) = some (ks ++ nc, tc) :=
  ⟨_, parseFrom_of_seg_nil (hinv.seg.append (codeOf_seg s nc))⟩

theorem finish_text_comma {s : St} {ks : List Nat} (hinv : Inv s ks) (nc : List Nat)
    (h : ks ++ nc ≠ []) :
    parse (s.out ++ (codeOf s nc ++ [.comma])) = some (ks ++ nc, true) := by
  have hst : pst (s.isStart && nc.isEmpty) = .afterElem := by
    rw [hinv.start]
    cases ks <;> cases nc <;> simp_all [pst]
  have h1 := codeOf_seg s nc
  rw [hst] at h1
  have := parseFrom_of_seg_nil ((hinv.seg.append h1).append Seg.comma)
  simpa [parse, List.append_assoc] using this

theorem finEl_eq_one {ins : List (List Nat)} {n : Nat} {s : St} {ks : List Nat} (hinv : Inv s ks)
    (h : finEl ins n s = 1) : ks ++ (s.newCode ++ ins.getD n []) ≠ [] := by
  unfold finEl at h
  rw [hinv.elems] at h
  intro h0
  simp only [List.append_eq_nil_iff] at h0
  obtain ⟨hk, hn, ht⟩ := h0
  rw [hk, hn, ht] at h
  simp at h

theorem finish_parse (isTuple : Bool) (ins : List (List Nat)) (n : Nat) (s : St) (ks : List Nat)
    (hinv : Inv s ks) (hcl : Clean s []) :
    ∃ tc, parse (finish isTuple ins n s) = some (ks ++ s.newCode ++ ins.getD n [], tc) := by
  rw [finish_eq, List.append_assoc]
  split
  · split
    · next _ hc =>
      simp only [Bool.and_eq_true, beq_iff_eq] at hc
      exact ⟨true, finish_text_comma hinv _ (finEl_eq_one hinv hc.1)⟩
    · exact finish_text_nocomma hinv _
  · next hc =>
    simp only [Bool.or_eq_true, not_or, Bool.not_eq_true', Bool.not_eq_true, decide_eq_true_eq] at hc
    obtain ⟨⟨⟨hnc, hd⟩, _⟩, _⟩ := hc
    have hnc' : s.newCode ++ ins.getD n [] = [] := by simpa using hnc
    rw [hnc', List.append_nil]
    have hwf := (hcl hd).2
    simp only [wfFrom] at hwf
    cases hs : s.isStart
    · rw [hs] at hwf
      obtain ⟨tc, ht⟩ := parse_tail s.orig (by simpa using hwf)
      have hseg := hinv.seg s.orig
      rw [hs] at hseg
      refine ⟨tc, ?_⟩
      show parseFrom .start (s.out ++ s.orig) = _
      rw [hseg]
      simp only [pst] at ht ⊢
      simp [ht]
    · rw [hs] at hwf
      have hb := Seg.blank .start s.orig (by simpa using hwf)
      have hseg := hinv.seg
      rw [hs] at hseg
      exact ⟨_, by simpa [parse, pst] using parseFrom_of_seg_nil (hseg.append hb)⟩

theorem Inv.init (gap0 : List Tok) : Inv (St.init gap0) [] :=
  ⟨Seg.nil .start, rfl, rfl⟩

theorem Clean.init {gap0 : List Tok} {es : List Entry} (h : wfFrom gap0 true es = true) :
    Clean (St.init gap0) es := fun _ => ⟨rfl, h⟩

theorem seqUpdate_parse (isTuple : Bool) (gap0 : List Tok) (es : List Entry) (ins : List (List Nat))
    (hwf : wfGaps gap0 es = true) :
    ∃ tc, parse (seqUpdate isTuple gap0 es ins) = some (expected es ins, tc) := by
  rw [wfGaps_eq] at hwf
  obtain ⟨ks', h1, h2, h3⟩ :=
    loop_inv ins es 0 (St.init gap0) [] (Inv.init gap0) (wfAfter_of_wfFrom hwf) (Clean.init hwf)
  obtain ⟨tc, h⟩ := finish_parse isTuple ins es.length _ ks' h1 h2
  refine ⟨tc, ?_⟩
  unfold seqUpdate expected
  rw [h]
  simp only [Nat.zero_add] at h3
  rw [h3]
  simp [St.init]

/-! ### a tuple with one element -/

theorem loop_newCode_nil (ins : List (List Nat)) : ∀ (es : List Entry) (i : Nat) (s : St),
    insertsAnchored ins i es = true → (s.newCode = [] ∨ es.any (·.keep) = true) →
    (loop ins i es s).newCode = []
  | [], _, s, _, h => by
    rcases h with h | h
    · exact h
    · simp at h
  | e :: rest, i, s, ha, h => by
    simp only [insertsAnchored, Bool.and_eq_true, Bool.or_eq_true] at ha
    simp only [loop]
    apply loop_newCode_nil ins rest (i + 1) _ ha.2
    cases hk : e.keep
    · rw [step_del hk]
      by_cases hr : rest.any (·.keep) = true
      · exact Or.inr hr
      · left
        have hany : (e :: rest).any (·.keep) = false := by
          simp only [List.any_cons, hk, Bool.false_or]; simpa using hr
        rw [hany] at h ha
        have h1 : s.newCode = [] := by simpa using h
        have h2 : ins.getD i [] = [] := by simpa using ha.1
        show s.newCode ++ ins.getD i [] = []
        rw [h1, h2]; rfl
    · rw [step_keep hk]; exact Or.inl rfl

theorem finish_tuple (ins : List (List Nat)) (n : Nat) (s : St) (ks : List Nat)
    (hinv : Inv s ks) (hnc : s.newCode = []) (h1 : (ks ++ ins.getD n []).length = 1) :
    parse (finish true ins n s) = some (ks ++ ins.getD n [], true) := by
  have hel : finEl ins n s = 1 := by
    unfold finEl
    rw [hinv.elems, hnc]
    split
    · next ht =>
      have : ins.getD n [] = [] := by simpa using ht
      rw [this] at h1; simpa using h1
    · simpa using h1
  have hne : ks ++ (s.newCode ++ ins.getD n []) ≠ [] := finEl_eq_one hinv hel
  have := finish_text_comma hinv _ hne
  rw [finish_eq]
  simp only [hel, beq_self_eq_true, Bool.or_true, Bool.true_or, Bool.and_true, if_true]
  rw [this, hnc, List.nil_append]

theorem seqUpdate_tuple_single (gap0 : List Tok) (es : List Entry) (ins : List (List Nat))
    (hwf : wfGaps gap0 es = true) (ha : insertsAnchored ins 0 es = true)
    (h1 : (expected es ins).length = 1) :
    parse (seqUpdate true gap0 es ins) = some (expected es ins, true) := by
  rw [wfGaps_eq] at hwf
  obtain ⟨ks', hi, _, h3⟩ :=
    loop_inv ins es 0 (St.init gap0) [] (Inv.init gap0) (wfAfter_of_wfFrom hwf) (Clean.init hwf)
  have hnc := loop_newCode_nil ins es 0 (St.init gap0) ha (Or.inl rfl)
  simp only [Nat.zero_add, hnc, List.append_nil] at h3
  have hexp : expected es ins = ks' ++ ins.getD es.length [] := by
    unfold expected; rw [h3]; simp [St.init]
  rw [hexp] at h1 ⊢
  exact finish_tuple ins es.length _ ks' hi hnc h1

/-! ### nothing to do -/

theorem getD_isEmpty_of_all {ins : List (List Nat)} (hi : ins.all (·.isEmpty) = true) (i : Nat) :
    ins.getD i [] = [] := by
  rw [List.getD_eq_getElem?_getD]
  cases h : ins[i]? with
  | none => rfl
  | some l =>
    have hm : l ∈ ins := List.mem_of_getElem? h
    have := (List.all_eq_true.mp hi) l hm
    simpa using this

theorem loop_noop (ins : List (List Nat)) (hi : ins.all (·.isEmpty) = true) :
    ∀ (es : List Entry) (i : Nat) (s : St), es.all (·.keep) = true → s.deleted = false → s.newCode = [] →
    (loop ins i es s).deleted = false ∧ (loop ins i es s).newCode = [] ∧
    (loop ins i es s).elements = s.elements + es.length ∧
    (loop ins i es s).out ++ (loop ins i es s).orig = s.out ++ original s.orig es
  | [], _, s, _, hd, hn => ⟨hd, hn, rfl, rfl⟩
  | e :: rest, i, s, hk, hd, hn => by
    simp only [List.all_cons, Bool.and_eq_true] at hk
    have hs : step ins i e s =
        { newCode := [], deleted := false, isStart := false, elements := s.elements + 1,
          orig := e.gapAfter, out := s.out ++ s.orig ++ [.elem e.key] } := by
      rw [step_keep hk.1, getD_isEmpty_of_all hi, hn]
      simp [segOf, hd]
    obtain ⟨h1, h2, h3, h4⟩ := loop_noop ins hi rest (i + 1) (step ins i e s) hk.2
      (by rw [hs]) (by rw [hs])
    simp only [loop]
    refine ⟨h1, h2, ?_, ?_⟩
    · rw [h3, hs]; simp; omega
    · rw [h4, hs]; simp [original]

theorem seqUpdate_noop (isTuple : Bool) (gap0 : List Tok) (es : List Entry) (ins : List (List Nat))
    (hk : es.all (·.keep) = true) (hi : ins.all (·.isEmpty) = true) (hn : 2 ≤ es.length) :
    seqUpdate isTuple gap0 es ins = original gap0 es := by
  obtain ⟨h1, h2, h3, h4⟩ := loop_noop ins hi es 0 (St.init gap0) hk rfl rfl
  unfold seqUpdate
  rw [finish_eq]
  have hel : finEl ins es.length (loop ins 0 es (St.init gap0)) = es.length := by
    unfold finEl
    rw [getD_isEmpty_of_all hi, h3]
    simp [St.init]
  rw [hel, h1, h2, getD_isEmpty_of_all hi]
  have e1 : (es.length == 1) = false := by simp; omega
  have e2 : decide (es.length ≤ 1) = false := by simp; omega
  simp only [List.append_nil, List.isEmpty_nil, Bool.not_true, Bool.or_false, e1, e2]
  simpa [St.init] using h4

/-! ### the prefix survives -/

theorem loop_out_prefix (ins : List (List Nat)) : ∀ (es : List Entry) (i : Nat) (s : St),
    ∃ r, (loop ins i es s).out = s.out ++ r
  | [], _, s => ⟨[], by simp [loop]⟩
  | e :: rest, i, s => by
    obtain ⟨r, hr⟩ := loop_out_prefix ins rest (i + 1) (step ins i e s)
    simp only [loop]
    rw [hr]
    cases hk : e.keep
    · rw [step_del hk]; exact ⟨r, rfl⟩
    · rw [step_keep hk]; exact ⟨_, by simp only [List.append_assoc]; rfl⟩

theorem finish_out_prefix (isTuple : Bool) (ins : List (List Nat)) (n : Nat) (s : St) :
    ∃ r, finish isTuple ins n s = s.out ++ r := by
  rw [finish_eq]
  split
  · exact ⟨_, rfl⟩
  · exact ⟨_, rfl⟩

theorem run_out_prefix (isTuple : Bool) (ins : List (List Nat)) (n : Nat) (es : List Entry) (i : Nat) (s : St) :
    ∃ r, finish isTuple ins n (loop ins i es s) = s.out ++ r := by
  obtain ⟨r1, h1⟩ := loop_out_prefix ins es i s
  obtain ⟨r2, h2⟩ := finish_out_prefix isTuple ins n (loop ins i es s)
  exact ⟨r1 ++ r2, by rw [h2, h1, List.append_assoc]⟩

theorem run_prefix (isTuple : Bool) (ins : List (List Nat)) (n : Nat) :
    ∀ (es : List Entry) (k i : Nat) (s : St), s.deleted = false → s.newCode = [] →
    (es.take k).all (·.keep) = true → (∀ j, j < k → (ins.getD (i + j) []).isEmpty = true) →
    ∃ r, finish isTuple ins n (loop ins i es s) = s.out ++ prefixText s.orig (es.take k) ++ r
  | [], k, i, s, _, _, _, _ => by
    simpa [prefixText] using run_out_prefix isTuple ins n [] i s
  | e :: rest, 0, i, s, _, _, _, _ => by
    simpa [prefixText] using run_out_prefix isTuple ins n (e :: rest) i s
  | e :: rest, k + 1, i, s, hd, hn, hk, hi => by
    simp only [List.take_succ_cons, List.all_cons, Bool.and_eq_true] at hk
    have h0 : ins.getD i [] = [] := by simpa using hi 0 (by omega)
    have hs : step ins i e s =
        { newCode := [], deleted := false, isStart := false, elements := s.elements + 1,
          orig := e.gapAfter, out := s.out ++ s.orig ++ [.elem e.key] } := by
      rw [step_keep hk.1, h0, hn]
      simp [segOf, hd]
    obtain ⟨r, hr⟩ := run_prefix isTuple ins n rest k (i + 1) (step ins i e s) (by rw [hs]) (by rw [hs])
      hk.2 (fun j hj => by
        have := hi (j + 1) (by omega)
        rwa [show i + (j + 1) = i + 1 + j by omega] at this)
    simp only [loop, List.take_succ_cons]
    rw [hr, hs]
    cases hr' : rest.take k with
    | nil => exact ⟨r, by simp [prefixText]⟩
    | cons e' r' => exact ⟨r, by simp [prefixText]⟩

theorem seqUpdate_prefix (isTuple : Bool) (gap0 : List Tok) (es : List Entry) (ins : List (List Nat))
    (k : Nat) (hk : (es.take k).all (·.keep) = true)
    (hi : ∀ i, i < k → (ins.getD i []).isEmpty = true) :
    ∃ rest, seqUpdate isTuple gap0 es ins = prefixText gap0 (es.take k) ++ rest := by
  obtain ⟨r, hr⟩ := run_prefix isTuple ins es.length es k 0 (St.init gap0) rfl rfl hk
    (fun j hj => by simpa using hi j hj)
  exact ⟨r, by unfold seqUpdate; rw [hr]; simp [St.init]⟩

end ISnap.SeqEdit
