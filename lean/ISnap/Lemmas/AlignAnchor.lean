import ISnap.Lemmas.AlignLemmas
import ISnap.Props.C03b
/-
  The edit scripts `add_x(align(old, new))` never contain an insertion directly followed by a deletion, and
  therefore the insert positions `SequenceAdapter.assign` hands to `generic_sequence_update` are anchored
  (`insertsAnchored`, Model/SeqEdit.lean).
-/
namespace ISnap.SeqEdit
open ISnap.Align

/-- no insertion directly followed by a deletion -/
def noID : List Dir → Bool
  | .i :: .d :: _ => false
  | _ :: rest => noID rest
  | [] => true

/-- what `SequenceAdapter.assign` hands to `generic_sequence_update` for an edit script: one entry per old
    element (`m` / `x`: kept, `d`: deleted; key = old index, the gap after it is `gap oldIndex`), the code of
    every `i` (key `1000 + newIndex`) is inserted at the number of old elements seen so far -/
def plan (gap : Nat → List Tok) : List Dir → Nat → Nat → List Nat → List Entry × List (List Nat)
  | [], _, _, pending => ([], [pending])
  | .i :: t, o, n, pending => plan gap t o (n + 1) (pending ++ [1000 + n])
  | .d :: t, o, n, pending =>
    let r := plan gap t (o + 1) n []
    ({ key := o, keep := false, gapAfter := gap o } :: r.1, pending :: r.2)
  | .e :: t, o, n, pending => plan gap t o n pending
  | _ :: t, o, n, pending =>          -- m, x
    let r := plan gap t (o + 1) (n + 1) []
    ({ key := o, keep := true, gapAfter := gap o } :: r.1, pending :: r.2)

/-! ### `noID` -/

@[simp] theorem noID_nil : noID [] = true := by simp [noID]

theorem noID_cons (a : Dir) (rest : List Dir) :
    noID (a :: rest) = (!(a == .i && rest.head? == some .d) && noID rest) := by
  cases rest with
  | nil => cases a <;> simp [noID]
  | cons b rest => cases a <;> cases b <;> simp [noID]

theorem noID_append (s t : List Dir) :
    noID (s ++ t) = (noID s && noID t && !(s.getLast? == some .i && t.head? == some .d)) := by
  induction s with
  | nil => simp
  | cons a s ih =>
    cases s with
    | nil =>
      simp only [List.cons_append, List.nil_append, noID_cons a t, noID_cons a [], List.getLast?_singleton]
      generalize noID t = u
      generalize (t.head? == some Dir.d) = v
      cases a <;> cases u <;> cases v <;> rfl
    | cons b s =>
      rw [List.cons_append, noID_cons, ih, noID_cons a (b :: s)]
      simp only [List.cons_append, List.head?_cons, List.getLast?_cons_cons]
      generalize noID (b :: s) = u
      generalize noID t = u'
      generalize (t.head? == some Dir.d) = v
      generalize ((b :: s).getLast? == some Dir.i) = w
      generalize (a == Dir.i && some b == some Dir.d) = z
      cases u <;> cases u' <;> cases v <;> cases w <;> cases z <;> rfl

theorem noID_replicate (k : Nat) (c : Dir) : noID (List.replicate k c) = true := by
  induction k with
  | zero => simp
  | succ k ih =>
    rw [List.replicate_succ, noID_cons, ih]
    cases k <;> cases c <;> simp [List.replicate_succ]

/-! ### the backtracking walk never steps from an `i` cell to a `d` cell (forward: no `i` then `d`) -/

theorem pick_dir_d_lt {eq la lc lb} (h : (pick eq la lc lb).2 = .d) : la < lb := by
  unfold pick at h
  split at h
  · simp at h
  · split at h
    · simp at h
    · omega

/-- the cell above a `d` cell is not an `i` cell: `pick` prefers `i` on ties -/
theorem cell_d_above_ne_i (E : Nat → Nat → Bool) (i j : Nat) (h : (cell E (i+1) j).2 = .d) :
    (cell E i j).2 ≠ .i := by
  intro hi
  cases j with
  | zero => cases i <;> simp at hi
  | succ j =>
    rw [cell_succ_succ] at h
    have hlt := pick_dir_d_lt h
    have hd := cell_dir E i (j+1)
    rw [hi] at hd
    obtain ⟨j', hj, hs⟩ := hd
    have hj' : j' = j := by omega
    subst hj'
    have := score_mono_left E i j'
    simp only [score] at hs this
    omega

theorem backM_noID (E) (n m : Nat) :
    ∀ fuel i j acc, i ≤ n → j ≤ m → noID acc = true →
      (acc.head? = some .d → (cell E i j).2 ≠ .i) →
      noID (backM (matrix E n m) fuel i j acc) = true := by
  intro fuel
  induction fuel with
  | zero => intro i j acc _ _ h _; simpa [backM] using h
  | succ fuel ih =>
    intro i j acc hi hj hacc hhead
    have hd := cell_dir E i j
    unfold backM
    rw [getCell_matrix E n m i j hi hj]
    generalize hc : (cell E i j).2 = dir at hd
    cases dir with
    | e => exact hacc
    | x => exact hacc
    | m =>
      exact ih (i-1) (j-1) _ (by omega) (by omega) (by rw [noID_cons]; simpa using hacc) (by simp)
    | i =>
      refine ih i (j-1) _ hi (by omega) ?_ (by simp)
      rw [noID_cons, hacc]
      have : acc.head? ≠ some .d := fun h => hhead h hc
      simpa using this
    | d =>
      obtain ⟨i', rfl, -⟩ := hd
      refine ih i' j _ (by omega) hj (by rw [noID_cons]; simpa using hacc) ?_
      intro _
      exact cell_d_above_ne_i E i' j hc

theorem nwAlign_noID (E) (n m : Nat) : noID (nwAlign E n m) = true :=
  backM_noID E n m _ n m [] (Nat.le_refl _) (Nat.le_refl _) (by simp) (by simp)

theorem align_noID (E : Nat → Nat → Bool) (n m : Nat) : noID (align E n m) = true := by
  rw [align_eq E n m _ _ rfl rfl]
  split
  · exact noID_replicate _ _
  · rw [noID_append, noID_append, noID_replicate, noID_replicate, nwAlign_noID]
    simp only [Bool.and_self, Bool.true_and]
    generalize prefixLen E (min n m) 0 = s
    generalize suffixLen E n m _ 0 = e
    cases s <;> cases e <;> simp [List.getLast?_replicate, List.head?_replicate]

/-! ### `add_x` keeps the property -/

theorem rle_pos (t : List Dir) : ∀ g ∈ rle t, 0 < g.2 := by
  induction t with
  | nil => simp [rle]
  | cons c cs ih =>
    rw [rle]
    split
    · rename_i c' k rest h
      rw [h] at ih
      split
      · intro g hg
        simp only [List.mem_cons] at hg ih
        rcases hg with rfl | hg
        · simp
        · exact ih g (Or.inr hg)
      · intro g hg
        simp only [List.mem_cons] at hg ih
        rcases hg with rfl | hg
        · simp
        · exact ih g hg
    · simp

theorem addXGroups_noID (g : List (Dir × Nat)) :
    (∀ x ∈ g, 0 < x.2) → noID (expand g) = true →
      noID (addXGroups g) = true ∧
        ((addXGroups g).head? = some .d → (expand g).head? = some .d) := by
  fun_induction addXGroups g with
  | case1 => intro _ _; simp
  | case2 g => intro _ h; simpa [expand] using h
  | case3 g ng rest hc ih =>
    intro hpos h
    obtain ⟨h1, h2, h3⟩ := hc
    have hg : 0 < g.2 := hpos g (by simp)
    simp only [expand, noID_append] at h
    simp only [Bool.and_eq_true] at h
    obtain ⟨⟨_, ⟨⟨_, hrest⟩, _⟩⟩, _⟩ := h
    have := ih (fun x hx => hpos x (by simp [hx])) hrest
    refine ⟨?_, ?_⟩
    · rw [noID_append, noID_replicate, this.1]
      obtain ⟨k, hk⟩ : ∃ k, g.2 = k + 1 := ⟨g.2 - 1, by omega⟩
      simp [hk, List.getLast?_replicate]
    · obtain ⟨k, hk⟩ : ∃ k, g.2 = k + 1 := ⟨g.2 - 1, by omega⟩
      simp [hk, List.replicate_succ]
  | case4 g ng rest hc ih =>
    intro hpos h
    have hg : 0 < g.2 := hpos g (by simp)
    obtain ⟨k, hk⟩ : ∃ k, g.2 = k + 1 := ⟨g.2 - 1, by omega⟩
    rw [expand, noID_append] at h
    simp only [Bool.and_eq_true] at h
    obtain ⟨⟨_, hrest⟩, hb⟩ := h
    have := ih (fun x hx => hpos x (by simp [hx])) hrest
    refine ⟨?_, ?_⟩
    · rw [noID_append, noID_replicate, this.1]
      simp only [hk, List.getLast?_replicate] at hb ⊢
      simp only [Bool.and_self, Bool.true_and, Bool.not_eq_true', Bool.and_eq_false_iff] at hb ⊢
      rcases hb with hb | hb
      · exact Or.inl hb
      · right
        cases hh : (addXGroups (ng :: rest)).head? == some Dir.d
        · rfl
        · have := this.2 (by simpa using hh)
          simp [this] at hb
    · simp [hk, List.replicate_succ, expand]

theorem addX_noID (t : List Dir) (h : noID t = true) : noID (addX t) = true :=
  (addXGroups_noID (rle t) (rle_pos t) (by rw [expand_rle]; exact h)).1

theorem addX_align_noID (E : Nat → Nat → Bool) (n m : Nat) : noID (addX (align E n m)) = true :=
  addX_noID _ (align_noID E n m)

/-! ### scripts do not contain the letter `e` -/

theorem SegX.no_e {E p q i j s} (h : SegX E p q i j s) : Dir.e ∉ s := by
  induction h with
  | nil => simp
  | m _ _ ih => simpa using ih
  | i _ ih => simpa using ih
  | d _ ih => simpa using ih
  | x _ ih => simpa using ih

theorem addX_align_no_e (E : Nat → Nat → Bool) (n m : Nat) : Dir.e ∉ addX (align E n m) :=
  SegX.no_e (addX_segX (valid_align E n m).toValidX.toSegX)

/-! ### the plan is anchored -/

theorem insertsAnchored_cons (a : List Nat) (ins : List (List Nat)) (i : Nat) (es : List Entry) :
    insertsAnchored (a :: ins) (i + 1) es = insertsAnchored ins i es := by
  induction es generalizing i with
  | nil => simp [insertsAnchored]
  | cons e rest ih => simp [insertsAnchored, ih]

theorem plan_anchored_aux (gap : Nat → List Tok) (t : List Dir) :
    ∀ o n pending, noID t = true → Dir.e ∉ t → (pending ≠ [] → t.head? ≠ some .d) →
      insertsAnchored (plan gap t o n pending).2 0 (plan gap t o n pending).1 = true := by
  induction t with
  | nil => intro o n pending _ _ _; simp [plan, insertsAnchored]
  | cons a t ih =>
    intro o n pending h he hp
    rw [noID_cons] at h
    simp only [Bool.and_eq_true] at h
    obtain ⟨h1, h2⟩ := h
    have he' : Dir.e ∉ t := fun hh => he (List.mem_cons_of_mem _ hh)
    cases a with
    | e => exact absurd (List.mem_cons_self) he
    | i =>
      simp only [plan]
      exact ih _ _ _ h2 he' (fun _ => by simpa using h1)
    | d =>
      have hpe : pending = [] := by
        cases pending with
        | nil => rfl
        | cons x xs => exact absurd rfl (hp (by simp))
      subst hpe
      simp only [plan, insertsAnchored, insertsAnchored_cons]
      simpa using ih _ _ [] h2 he' (by simp)
    | m =>
      simp only [plan, insertsAnchored, insertsAnchored_cons]
      simpa using ih _ _ [] h2 he' (by simp)
    | x =>
      simp only [plan, insertsAnchored, insertsAnchored_cons]
      simpa using ih _ _ [] h2 he' (by simp)

/-- scripts without the letter `e` (every script `align` / `add_x` produce: `addX_align_no_e`) and without an
    insertion directly followed by a deletion give anchored insert positions -/
theorem plan_anchored (gap : Nat → List Tok) (t : List Dir) (h : noID t = true) (he : Dir.e ∉ t) :
    insertsAnchored (plan gap t 0 0 []).2 0 (plan gap t 0 0 []).1 = true :=
  plan_anchored_aux gap t 0 0 [] h he (by simp)

/-- the hypothesis `e ∉ t` is needed: `plan` skips `e`, so the code of an `i` stays pending over it -/
theorem plan_anchored_needs_no_e :
    noID [.i, .e, .d] = true ∧
      insertsAnchored (plan (fun _ => []) [.i, .e, .d] 0 0 []).2 0 (plan (fun _ => []) [.i, .e, .d] 0 0 []).1
        = false := by decide

end ISnap.SeqEdit
