import ISnap.Props.C09
import ISnap.Props.C11c
/-
  Helper lemmas for `ISnap.Props.C09b` (two runs over a constructor call compose).

    * `oldOne_compose`     what becomes of one old keyword after two runs = after one run with the union;
    * `insertsT`           `inserts` with the groups tagged by the *name* of the keyword they are put in front of
                           (`none` = end of the call) instead of its index: the tags do not depend on which
                           default-valued keywords are still there (`insertsT_congr`);
    * `weave_tagged`       the woven keyword list, index-free: every old keyword preceded by its group;
    * `weave_filterMap`    running over a woven list when nothing has to be inserted any more.
-/
namespace ISnap.CallAssign
open ISnap ISnap.Assign List

/-! ### one keyword, two runs -/

theorem oldOne_compose (F₁ F₂ : Flags) (fields : List Field) (p : Nat × Expr)
    (hp : Managed p.2 ∧ WfExpr p.2) (hfv : ∀ f ∈ fields, ValOk f.2.1 ∧ WfVal f.2.1) :
    (oldOne F₁ fields p).bind (oldOne F₂ fields) = oldOne (F₁.union F₂) fields p := by
  obtain ⟨name, e⟩ := p
  rcases h : lookupF name fields with _ | ⟨v, _ | _⟩
  · -- no such field: deleted by `fix`
    cases h1 : F₁.fix <;> cases h2 : F₂.fix <;> simp [oldOne, h, h1, h2]
  · -- matched: the adapter of the value, `Assign.run_compose`
    have hv := hfv _ (lookupF_mem h)
    have := run_compose F₁ F₂ e v hp.1 hv.1 hp.2 hv.2
    simp only [run] at this
    simp [oldOne, h, this]
  · -- the field holds its default: deleted by the category that depends on the (unchanged) old value
    cases h1 : F₁.has (if pyEq (eval e) v then Cat.update else Cat.fix) <;>
      cases h2 : F₂.has (if pyEq (eval e) v then Cat.update else Cat.fix) <;>
      simp [oldOne, h, h1, h2]

/-! ### insert groups tagged by name -/

/-- `inserts` with every group tagged by the name of the matched keyword it goes in front of -/
def insertsT (S : Nat → Bool) : List Field → List (Nat × Val) → List (Option Nat × List (Nat × Val))
  | [], pending => [(none, pending)]
  | (name, v, d) :: rest, pending =>
    if d then insertsT S rest pending
    else if S name then (some name, pending) :: insertsT S rest []
    else insertsT S rest (pending ++ [(name, v)])

/-- the index a tag stands for -/
def posOf (oldNames : List Nat) (off : Nat) : Option Nat → Nat
  | some n => off + oldNames.idxOf n
  | none => off + oldNames.length

theorem inserts_eq_T (oldNames : List Nat) : ∀ (fields : List Field) (off : Nat)
    (pending : List (Nat × Val)),
    inserts oldNames fields off pending =
      (insertsT (fun n => oldNames.contains n) fields pending).map
        (fun p => (posOf oldNames off p.1, p.2)) := by
  intro fields
  induction fields with
  | nil => intro off pending; simp [inserts, insertsT, posOf]
  | cons f rest ih =>
    intro off pending
    obtain ⟨name, v, d⟩ := f
    cases d with
    | true => simp only [inserts, insertsT, ↓reduceIte, ih]
    | false =>
      cases hc : oldNames.contains name with
      | true => simp only [inserts, insertsT, Bool.false_eq_true, ↓reduceIte, hc, ih, map_cons, posOf]
      | false => simp only [inserts, insertsT, Bool.false_eq_true, ↓reduceIte, hc, ih]

/-- only the names of non-default fields are ever asked for -/
theorem insertsT_congr {S S' : Nat → Bool} : ∀ (fields : List Field) (pending : List (Nat × Val)),
    (∀ f ∈ fields, f.2.2 = false → S f.1 = S' f.1) →
    insertsT S fields pending = insertsT S' fields pending := by
  intro fields
  induction fields with
  | nil => intro pending _; rfl
  | cons f rest ih =>
    intro pending h
    obtain ⟨name, v, d⟩ := f
    have hr : ∀ f ∈ rest, f.2.2 = false → S f.1 = S' f.1 := fun f hf => h f (mem_cons_of_mem _ hf)
    cases d with
    | true => simp only [insertsT, ↓reduceIte]; exact ih _ hr
    | false =>
      have : S name = S' name := h (name, v, false) mem_cons_self rfl
      simp only [insertsT, Bool.false_eq_true, ↓reduceIte, ← this]
      split
      · rw [ih _ hr]
      · exact ih _ hr

/-- every tag is the name of a matched non-default field -/
theorem insertsT_tag {S : Nat → Bool} : ∀ (fields : List Field) (pending : List (Nat × Val))
    (n : Nat) (g : List (Nat × Val)), (some n, g) ∈ insertsT S fields pending →
    S n = true ∧ ∃ v, (n, v, false) ∈ fields := by
  intro fields
  induction fields with
  | nil => intro pending n g h; simp [insertsT] at h
  | cons f rest ih =>
    intro pending n g h
    obtain ⟨name, v, d⟩ := f
    have lift : (S n = true ∧ ∃ w, (n, w, false) ∈ rest) →
        S n = true ∧ ∃ w, (n, w, false) ∈ (name, v, d) :: rest :=
      fun ⟨a, w, hw⟩ => ⟨a, w, mem_cons_of_mem _ hw⟩
    cases d with
    | true =>
      simp only [insertsT, ↓reduceIte] at h
      exact lift (ih _ n g h)
    | false =>
      simp only [insertsT, Bool.false_eq_true, ↓reduceIte] at h
      split at h
      · next hS =>
        rcases mem_cons.1 h with h | h
        · simp only [Prod.mk.injEq, Option.some.injEq] at h
          obtain ⟨rfl, _⟩ := h
          exact ⟨hS, v, mem_cons_self⟩
        · exact lift (ih _ n g h)
      · exact lift (ih _ n g h)

/-- the keywords inserted under tag `t` -/
def grpT (T : List (Option Nat × List (Nat × Val))) (t : Option Nat) : List (Nat × Expr) :=
  (T.filter (fun p => p.1 == t)).flatMap (fun p => insG (0, p.2))

theorem grpT_nil {T : List (Option Nat × List (Nat × Val))} {t : Option Nat}
    (h : ∀ p ∈ T, p.1 ≠ t) : grpT T t = [] := by
  rw [grpT, filter_eq_nil_iff.2]
  · rfl
  · intro p hp
    simpa using h p hp

/-- tags that stand for positions of `oldNames` -/
def TagOk (oldNames : List Nat) (t : Option Nat) : Prop := ∀ n, t = some n → n ∈ oldNames

theorem idxOf_inj' {l : List Nat} {a b : Nat} (ha : a ∈ l) (h : l.idxOf a = l.idxOf b) : a = b := by
  have h1 : l.idxOf a < l.length := idxOf_lt_length_iff.2 ha
  have h2 : l.idxOf b < l.length := h ▸ h1
  have e1 := getElem_idxOf h1
  have e2 := getElem_idxOf h2
  rw [← e1, ← e2]
  simp [h]

theorem posOf_inj {oldNames : List Nat} {off : Nat} {s t : Option Nat} (hs : TagOk oldNames s)
    (ht : TagOk oldNames t) : posOf oldNames off s = posOf oldNames off t ↔ s = t := by
  constructor
  · intro h
    cases s with
    | none =>
      cases t with
      | none => rfl
      | some m =>
        have := idxOf_lt_length_iff.2 (ht m rfl)
        simp only [posOf] at h; omega
    | some n =>
      cases t with
      | none =>
        have := idxOf_lt_length_iff.2 (hs n rfl)
        simp only [posOf] at h; omega
      | some m =>
        simp only [posOf] at h
        rw [idxOf_inj' (b := m) (hs n rfl) (by omega)]
  · rintro rfl; rfl

theorem insG_snd (p : Nat × List (Nat × Val)) (i : Nat) : insG (i, p.2) = insG p := rfl

theorem insAt_tagged {oldNames : List Nat} {off : Nat} {T : List (Option Nat × List (Nat × Val))}
    (hT : ∀ p ∈ T, TagOk oldNames p.1) {t : Option Nat} (ht : TagOk oldNames t) :
    insAt (T.map (fun p => (posOf oldNames off p.1, p.2))) (posOf oldNames off t) = grpT T t := by
  rw [insAt_eq, grpT, filter_map, flatMap_map]
  have : filter ((fun p : Nat × List (Nat × Val) => p.1 == posOf oldNames off t) ∘
      fun p : Option Nat × List (Nat × Val) => (posOf oldNames off p.1, p.2)) T =
      filter (fun p => p.1 == t) T := by
    apply filter_congr
    intro p hp
    simp only [Function.comp_apply]
    rw [Bool.eq_iff_iff]
    simp only [beq_iff_eq]
    exact posOf_inj (hT p hp) ht
  rw [this]
  rfl

theorem tailIns_tagged {oldNames : List Nat} {off : Nat} {T : List (Option Nat × List (Nat × Val))}
    (hT : ∀ p ∈ T, TagOk oldNames p.1) :
    tailIns (T.map (fun p => (posOf oldNames off p.1, p.2))) (off + oldNames.length) = grpT T none := by
  rw [tailIns, grpT, filter_map, flatMap_map]
  have : filter ((fun p : Nat × List (Nat × Val) => decide (p.1 ≥ off + oldNames.length)) ∘
      fun p : Option Nat × List (Nat × Val) => (posOf oldNames off p.1, p.2)) T =
      filter (fun p => p.1 == none) T := by
    apply filter_congr
    intro p hp
    simp only [Function.comp_apply]
    rw [Bool.eq_iff_iff]
    simp only [decide_eq_true_eq, beq_iff_eq]
    cases h : p.1 with
    | none => simp [posOf]
    | some n =>
      have := idxOf_lt_length_iff.2 (hT p hp n h)
      simp only [posOf, reduceCtorEq, iff_false]
      omega
  rw [this]
  rfl

/-- the woven keyword list without indices: every old keyword is preceded by the group tagged with its
    name, the group tagged `none` comes last -/
theorem weave_tagged (kw : List (Nat × Expr)) (hkn : (kw.map (·.1)).Nodup)
    (T : List (Option Nat × List (Nat × Val))) (hT : ∀ p ∈ T, TagOk (kw.map (·.1)) p.1)
    (f : Nat × Expr → Option (Nat × Expr)) :
    ∀ (l pre : List (Nat × Expr)), kw = pre ++ l →
      weave (l.map f) (T.map (fun p => (posOf (kw.map (·.1)) 0 p.1, p.2))) pre.length =
        l.flatMap (fun p => grpT T (some p.1) ++ optL (f p)) ++ grpT T none := by
  intro l
  induction l with
  | nil =>
    intro pre h
    simp only [append_nil] at h
    subst h
    have := tailIns_tagged (off := 0) hT
    simp only [Nat.zero_add, length_map] at this
    simp only [map_nil, weave_nil, flatMap_nil, nil_append, this]
  | cons p l ih =>
    intro pre h
    have hpos : pre.length = posOf (kw.map (·.1)) 0 (some p.1) := by
      have hnp : p.1 ∉ pre.map (·.1) := by
        intro hm
        rw [h, map_append, map_cons] at hkn
        exact (nodup_append.1 hkn).2.2 _ hm _ mem_cons_self rfl
      simp only [posOf, Nat.zero_add, h, map_append, map_cons, idxOf_append, hnp, ↓reduceIte,
        idxOf_cons, beq_self_eq_true, cond_true, Nat.zero_add, length_map]
    have hok : TagOk (kw.map (·.1)) (some p.1) := by
      intro n hn
      simp only [Option.some.injEq] at hn
      subst hn
      rw [h]
      simp
    have h' : kw = (pre ++ [p]) ++ l := by simp [h]
    have ih' := ih (pre ++ [p]) h'
    simp only [length_append, length_cons, length_nil, Nat.zero_add] at ih'
    rw [map_cons, weave_cons, ih', flatMap_cons]
    conv => lhs; rw [hpos, insAt_tagged hT hok]
    simp only [append_assoc]

theorem call_kw_tagged (F : Flags) (kw : List (Nat × Expr)) (fields : List Field)
    (hF : F.fix = true) (hkn : (kw.map (·.1)).Nodup) :
    (assignCall F kw fields).kw =
      kw.flatMap (fun p =>
        grpT (insertsT (fun n => (kw.map (·.1)).contains n) fields []) (some p.1) ++
          optL (oldOne F fields p)) ++
        grpT (insertsT (fun n => (kw.map (·.1)).contains n) fields []) none := by
  rw [call_kw_fix F kw fields hF, inserts_eq_T]
  have hT : ∀ p ∈ insertsT (fun n => (kw.map (·.1)).contains n) fields [],
      TagOk (kw.map (·.1)) p.1 := by
    rintro ⟨t, g⟩ hp n rfl
    simpa using (insertsT_tag fields [] n g hp).1
  exact weave_tagged kw hkn _ hT (oldOne F fields) kw [] rfl

/-! ### a run over a woven list -/

theorem filterMap_eq_self {α : Type} {g : α → Option α} {l : List α} (h : ∀ q ∈ l, g q = some q) :
    l.filterMap g = l := by
  induction l with
  | nil => rfl
  | cons a l ih =>
    rw [filterMap_cons, h a mem_cons_self, ih (fun q hq => h q (mem_cons_of_mem _ hq))]

theorem optL_filterMap (g : Nat × Expr → Option (Nat × Expr)) (o : Option (Nat × Expr)) :
    (optL o).filterMap g = optL (o.bind g) := by
  cases o with
  | none => rfl
  | some q => cases h : g q <;> simp [optL, h]

/-- a map over the woven list that leaves the inserted keywords alone acts on the old keywords only -/
theorem weave_filterMap (g : Nat × Expr → Option (Nat × Expr)) (ins : List (Nat × List (Nat × Val)))
    (hg : ∀ p ∈ ins, ∀ q ∈ insG p, g q = some q) :
    ∀ (os : List (Option (Nat × Expr))) (i : Nat),
      (weave os ins i).filterMap g = weave (os.map (fun o => o.bind g)) ins i := by
  have hfl : ∀ L : List (Nat × List (Nat × Val)), (∀ p ∈ L, p ∈ ins) →
      (L.flatMap insG).filterMap g = L.flatMap insG := by
    intro L hL
    apply filterMap_eq_self
    intro q hq
    obtain ⟨p, hp, hq⟩ := mem_flatMap.1 hq
    exact hg p (hL p hp) q hq
  intro os
  induction os with
  | nil =>
    intro i
    rw [map_nil, weave_nil, tailIns]
    exact hfl _ (fun p hp => (mem_filter.1 hp).1)
  | cons o rest ih =>
    intro i
    rw [map_cons, weave_cons, weave_cons, filterMap_append, filterMap_append, ih, optL_filterMap,
      insAt_eq, hfl _ (fun p hp => (mem_filter.1 hp).1)]

theorem flatMap_filterMap' {α β : Type} (g : α → Option α) (h h' : α → List β) (l : List α)
    (hh : ∀ p ∈ l, (match g p with | none => [] | some q => h q) = h' p) :
    (l.filterMap g).flatMap h = l.flatMap h' := by
  induction l with
  | nil => rfl
  | cons a l ih =>
    have ha := hh a mem_cons_self
    have ih' := ih (fun p hp => hh p (mem_cons_of_mem _ hp))
    rw [filterMap_cons, flatMap_cons, ← ha]
    cases hg : g a with
    | none => simpa using ih'
    | some q => simp [ih']

end ISnap.CallAssign
