import ISnap.Model.Assign
import ISnap.Props.C11
/-
  Lemmas about the model `ISnap.Assign` (`assign` / `run` / `cats` / `merged`) behind the properties
  C02, C08, C09, C10, C11b.

  Contents, in order:
    * predicates `ValOk`, `WfVal`, `Managed`, `WfExpr` (and the internal conjunctions `gv`, `ge`), `unmLeaves`;
    * `Atom.pyEq` is an equivalence; association lists with distinct keys; pigeonhole facts;
    * induction principles `Val.ind`, `Expr.ind`;
    * `pyEq` is an equivalence on good values;
    * `eval` / `canon`; the alignment script as a `Walk`; unfolding lemmas for `assign`;
    * dict displays: `dictInserts` / `weave` up to permutation;
    * the main inductions (`merged_eq_gen`, `ge_run_gen`, `fix_repairs_gen`, `nofix_of_eq`, `eq_of_nofix`,
      `run_disjoint`, `keep_gen`, `canon_cats`, `compose_gen`, `nothing_pending_gen`, `ul_run`, `seq_siblings`,
      `pending_gen`, `indep_gen`).
-/


/-! ## part: AssignDefs -/
/-
  Predicates used by the properties about `ISnap.Assign` (C02, C08, C09, C10, C11b).
-/
namespace ISnap.Assign
open ISnap

/-- the keys of an association list are pairwise different w.r.t. Python `==` (`Atom.pyEq`) -/
def dkeys : List (Atom × α) → Bool
  | [] => true
  | (k, _) :: rest => !(rest.any (fun p => Atom.pyEq k p.1)) && dkeys rest

/-- no `Unmanaged` wrapper anywhere inside the value -/
def valOk : Val → Bool
  | .atom _ => true
  | .list xs => okL xs
  | .tuple xs => okL xs
  | .dict kvs => okD kvs
  | .unmIs _ _ => false
  | .unmAny _ => false
where
  okL : List Val → Bool
    | [] => true
    | x :: xs => valOk x && okL xs
  okD : List (Atom × Val) → Bool
    | [] => true
    | (_, v) :: rest => valOk v && okD rest

/-- at every level the keys of a dict are pairwise different (always true of Python dicts) -/
def wfVal : Val → Bool
  | .atom _ => true
  | .list xs => wfL xs
  | .tuple xs => wfL xs
  | .dict kvs => dkeys kvs && wfD kvs
  | .unmIs _ v => wfVal v
  | .unmAny _ => true
where
  wfL : List Val → Bool
    | [] => true
    | x :: xs => wfVal x && wfL xs
  wfD : List (Atom × Val) → Bool
    | [] => true
    | (_, v) :: rest => wfVal v && wfD rest

/-- no unmanaged leaf, f-string or star-expression in the tree; leaf values are unmanaged-free -/
def managed : Expr → Bool
  | .leaf _ _ v => valOk v
  | .unm _ _ => false
  | .fstr _ _ => false
  | .seq _ es => mgL es
  | .dict es => mgD es
  | .star _ => false
where
  mgL : List Expr → Bool
    | [] => true
    | e :: es => managed e && mgL es
  mgD : List (Atom × Expr) → Bool
    | [] => true
    | (_, e) :: rest => managed e && mgD rest

/-- the keys of every dict display are pairwise different, leaf values are well-formed -/
def wfExpr : Expr → Bool
  | .leaf _ _ v => wfVal v
  | .unm _ v => wfVal v
  | .fstr _ v => wfVal v
  | .seq _ es => wfEL es
  | .dict es => dkeys es && wfED es
  | .star e => wfExpr e
where
  wfEL : List Expr → Bool
    | [] => true
    | e :: es => wfExpr e && wfEL es
  wfED : List (Atom × Expr) → Bool
    | [] => true
    | (_, e) :: rest => wfExpr e && wfED rest

def ValOk (v : Val) : Prop := valOk v = true
def WfVal (v : Val) : Prop := wfVal v = true
def Managed (e : Expr) : Prop := managed e = true
def WfExpr (e : Expr) : Prop := wfExpr e = true

instance (v : Val) : Decidable (ValOk v) := inferInstanceAs (Decidable (_ = true))
instance (v : Val) : Decidable (WfVal v) := inferInstanceAs (Decidable (_ = true))
instance (e : Expr) : Decidable (Managed e) := inferInstanceAs (Decidable (_ = true))
instance (e : Expr) : Decidable (WfExpr e) := inferInstanceAs (Decidable (_ = true))

/-- `ValOk` and `WfVal` together (internal) -/
def gv : Val → Bool
  | .atom _ => true
  | .list xs => gvL xs
  | .tuple xs => gvL xs
  | .dict kvs => dkeys kvs && gvD kvs
  | .unmIs _ _ => false
  | .unmAny _ => false
where
  gvL : List Val → Bool
    | [] => true
    | x :: xs => gv x && gvL xs
  gvD : List (Atom × Val) → Bool
    | [] => true
    | (_, v) :: rest => gv v && gvD rest

/-- `Managed` and `WfExpr` together (internal) -/
def ge : Expr → Bool
  | .leaf _ _ v => gv v
  | .unm _ _ => false
  | .fstr _ _ => false
  | .seq _ es => geL es
  | .dict es => dkeys es && geD es
  | .star _ => false
where
  geL : List Expr → Bool
    | [] => true
    | e :: es => ge e && geL es
  geD : List (Atom × Expr) → Bool
    | [] => true
    | (_, e) :: rest => ge e && geD rest

/-- all `unm` / `fstr` nodes of a tree, in source order (also those below a `*`) -/
def unmLeaves : Expr → List Expr
  | .leaf _ _ _ => []
  | .unm t v => [.unm t v]
  | .fstr t v => [.fstr t v]
  | .seq _ es => ulL es
  | .dict es => ulD es
  | .star e => unmLeaves e
where
  ulL : List Expr → List Expr
    | [] => []
    | e :: es => unmLeaves e ++ ulL es
  ulD : List (Atom × Expr) → List Expr
    | [] => []
    | (_, e) :: rest => unmLeaves e ++ ulD rest

end ISnap.Assign


/-! ## part: AssignVal -/
/-
  Laws of `Atom.pyEq`, association lists with `Atom.pyEq`-distinct keys (including the pigeonhole
  facts), induction principles for `Val` / `Expr`, `pyEq` is an equivalence on good values.
-/
namespace ISnap.Assign
open ISnap

/-! ### `Atom.pyEq` is an equivalence -/

theorem atomEq_refl (a : Atom) : Atom.pyEq a a = true := by
  cases a <;> simp [Atom.pyEq, Atom.num?]

theorem atomEq_symm (a b : Atom) : Atom.pyEq a b = Atom.pyEq b a := by
  cases a <;> cases b <;> simp only [Atom.pyEq, Atom.num?] <;> exact Bool.beq_comm

theorem atomEq_trans {a b c : Atom} (h1 : Atom.pyEq a b = true) (h2 : Atom.pyEq b c = true) :
    Atom.pyEq a c = true := by
  cases a <;> cases b <;> cases c <;> simp_all [Atom.pyEq, Atom.num?]

theorem atomEq_congr_left {a b : Atom} (h : Atom.pyEq a b = true) (c : Atom) :
    Atom.pyEq a c = Atom.pyEq b c := by
  rw [Bool.eq_iff_iff]
  constructor
  · intro h1; exact atomEq_trans (by rw [atomEq_symm]; exact h) h1
  · intro h1; exact atomEq_trans h h1

theorem atomEq_congr_right {a b : Atom} (h : Atom.pyEq a b = true) (c : Atom) :
    Atom.pyEq c a = Atom.pyEq c b := by
  rw [atomEq_symm c a, atomEq_symm c b]; exact atomEq_congr_left h c

/-! ### association lists -/

/-- some key of `l` equals `k` -/
def hasKey (k : Atom) (l : List (Atom × α)) : Bool := l.any (fun p => Atom.pyEq k p.1)

@[simp] theorem hasKey_nil (k : Atom) : hasKey k ([] : List (Atom × α)) = false := rfl
@[simp] theorem hasKey_cons (k : Atom) (p : Atom × α) (l : List (Atom × α)) :
    hasKey k (p :: l) = (Atom.pyEq k p.1 || hasKey k l) := by simp [hasKey]

theorem hasKey_iff {k : Atom} {l : List (Atom × α)} :
    hasKey k l = true ↔ ∃ p ∈ l, Atom.pyEq k p.1 = true := by simp [hasKey]

theorem hasKey_congr {k k' : Atom} (h : Atom.pyEq k k' = true) (l : List (Atom × α)) :
    hasKey k l = hasKey k' l := by
  induction l with
  | nil => rfl
  | cons p l ih => simp [ih, atomEq_congr_left h]

theorem hasKey_map (k : Atom) (l : List (Atom × α)) (f : Atom × α → Atom × β)
    (hf : ∀ p, (f p).1 = p.1) : hasKey k (l.map f) = hasKey k l := by
  induction l with
  | nil => rfl
  | cons p l ih => simp [ih, hf]

@[simp] theorem dkeys_nil : dkeys ([] : List (Atom × α)) = true := rfl
@[simp] theorem dkeys_cons (p : Atom × α) (l : List (Atom × α)) :
    dkeys (p :: l) = (!hasKey p.1 l && dkeys l) := by
  cases p; simp [dkeys, hasKey]

theorem dkeys_map (l : List (Atom × α)) (f : Atom × α → Atom × β)
    (hf : ∀ p, (f p).1 = p.1) : dkeys (l.map f) = dkeys l := by
  induction l with
  | nil => rfl
  | cons p l ih => simp [ih, hf, hasKey_map _ _ f hf]

@[simp] theorem lookupA_nil (k : Atom) : lookupA k ([] : List (Atom × α)) = none := rfl
@[simp] theorem lookupA_cons (k : Atom) (p : Atom × α) (l : List (Atom × α)) :
    lookupA k (p :: l) = if Atom.pyEq k p.1 then some p.2 else lookupA k l := by
  cases p; simp [lookupA]

theorem lookupA_none_iff {k : Atom} {l : List (Atom × α)} :
    lookupA k l = none ↔ hasKey k l = false := by
  induction l with
  | nil => simp
  | cons p l ih => by_cases h : Atom.pyEq k p.1 = true <;> simp [h, ih]

theorem lookupA_isSome {k : Atom} {l : List (Atom × α)} :
    (lookupA k l).isSome = hasKey k l := by
  induction l with
  | nil => simp
  | cons p l ih => by_cases h : Atom.pyEq k p.1 = true <;> simp [h, ih]

theorem lookupA_congr {k k' : Atom} (h : Atom.pyEq k k' = true) (l : List (Atom × α)) :
    lookupA k l = lookupA k' l := by
  induction l with
  | nil => rfl
  | cons p l ih => simp [ih, atomEq_congr_left h]

theorem lookupA_mem {k : Atom} {l : List (Atom × α)} {v : α} (h : lookupA k l = some v) :
    ∃ k', (k', v) ∈ l ∧ Atom.pyEq k k' = true := by
  induction l with
  | nil => simp at h
  | cons p l ih =>
    by_cases hk : Atom.pyEq k p.1 = true
    · simp [hk] at h; exact ⟨p.1, by simp [← h], hk⟩
    · simp [hk] at h
      obtain ⟨k', h1, h2⟩ := ih h
      exact ⟨k', by simp [h1], h2⟩

theorem lookupA_of_mem {k k' : Atom} {l : List (Atom × α)} {v : α} (hd : dkeys l = true)
    (hm : (k', v) ∈ l) (hk : Atom.pyEq k k' = true) : lookupA k l = some v := by
  induction l with
  | nil => simp at hm
  | cons p l ih =>
    simp at hd
    rcases List.mem_cons.1 hm with h | h
    · subst h; simp [hk]
    · have : Atom.pyEq k p.1 = false := by
        cases hkp : Atom.pyEq k p.1 with
        | false => rfl
        | true =>
          have : hasKey p.1 l = true := hasKey_iff.2 ⟨(k', v), h, by
            rw [atomEq_symm] at hkp; exact atomEq_trans hkp hk⟩
          simp [this] at hd
      simp [this, ih hd.2 h]

theorem lookupA_self {k : Atom} {l : List (Atom × α)} {v : α} (hd : dkeys l = true)
    (hm : (k, v) ∈ l) : lookupA k l = some v :=
  lookupA_of_mem hd hm (atomEq_refl k)

theorem lookupA_map (k : Atom) (l : List (Atom × α)) (g : α → β) :
    lookupA k (l.map (fun p => (p.1, g p.2))) = (lookupA k l).map g := by
  induction l with
  | nil => rfl
  | cons p l ih => by_cases h : Atom.pyEq k p.1 = true <;> simp [h, ih]

/-! pigeonhole -/

theorem length_le_of_keys_into {a : List (Atom × α)} : ∀ {b : List (Atom × β)}, dkeys a = true →
    (∀ p ∈ a, hasKey p.1 b = true) → a.length ≤ b.length := by
  induction a with
  | nil => intros; simp
  | cons p a ih =>
    intro b hd hsub
    simp at hd
    let b' := b.filter (fun q => !Atom.pyEq p.1 q.1)
    have h1 : a.length ≤ b'.length := by
      apply ih hd.2
      intro r hr
      obtain ⟨q, hq, hrq⟩ := hasKey_iff.1 (hsub r (by simp [hr]))
      refine hasKey_iff.2 ⟨q, ?_, hrq⟩
      simp only [b', List.mem_filter, hq, true_and, Bool.not_eq_eq_eq_not, Bool.not_true]
      cases hpq : Atom.pyEq p.1 q.1 with
      | false => rfl
      | true =>
        have : hasKey p.1 a = true := hasKey_iff.2 ⟨r, hr, by
          rw [atomEq_symm] at hrq; exact atomEq_trans hpq hrq⟩
        simp [this] at hd
    have h2 : b'.length < b.length := by
      apply List.length_filter_lt_length_iff_exists.2
      obtain ⟨q, hq, hpq⟩ := hasKey_iff.1 (hsub p (by simp))
      exact ⟨q, hq, by simp [hpq]⟩
    simp only [List.length_cons]; omega

theorem keys_onto {a : List (Atom × α)} {b : List (Atom × β)} (hd : dkeys a = true)
    (hsub : ∀ p ∈ a, hasKey p.1 b = true) (hlen : b.length ≤ a.length) :
    ∀ q ∈ b, hasKey q.1 a = true := by
  intro q hq
  cases hqa : hasKey q.1 a with
  | true => rfl
  | false =>
    exfalso
    let b' := b.filter (fun r => !Atom.pyEq q.1 r.1)
    have h1 : a.length ≤ b'.length := by
      apply length_le_of_keys_into hd
      intro p hp
      obtain ⟨r, hr, hpr⟩ := hasKey_iff.1 (hsub p hp)
      refine hasKey_iff.2 ⟨r, ?_, hpr⟩
      simp only [b', List.mem_filter, hr, true_and, Bool.not_eq_eq_eq_not, Bool.not_true]
      cases hqr : Atom.pyEq q.1 r.1 with
      | false => rfl
      | true =>
        have : hasKey q.1 a = true := hasKey_iff.2 ⟨p, hp, by
          rw [atomEq_symm] at hpr; exact atomEq_trans hqr hpr⟩
        simp [this] at hqa
    have h2 : b'.length < b.length := by
      apply List.length_filter_lt_length_iff_exists.2
      exact ⟨q, hq, by simp [atomEq_refl]⟩
    omega

/-! ### induction principles -/

theorem Val.ind {P : Val → Prop} (atom : ∀ a, P (.atom a))
    (list : ∀ xs, (∀ x ∈ xs, P x) → P (.list xs))
    (tuple : ∀ xs, (∀ x ∈ xs, P x) → P (.tuple xs))
    (dict : ∀ kvs, (∀ p ∈ kvs, P p.2) → P (.dict kvs))
    (unmIs : ∀ i v, P v → P (.unmIs i v)) (unmAny : ∀ i, P (.unmAny i)) : ∀ v, P v := by
  refine Val.rec (motive_1 := P) (motive_2 := fun xs => ∀ x ∈ xs, P x)
    (motive_3 := fun kvs => ∀ p ∈ kvs, P p.2) (motive_4 := fun p => P p.2)
    atom list tuple dict unmIs unmAny ?_ ?_ ?_ ?_ ?_
  · intro x hx; simp at hx
  · intro h t hh ht x hx
    rcases List.mem_cons.1 hx with rfl | hx
    · exact hh
    · exact ht x hx
  · intro x hx; simp at hx
  · intro h t hh ht x hx
    rcases List.mem_cons.1 hx with rfl | hx
    · exact hh
    · exact ht x hx
  · intro _ _ h; exact h

theorem Expr.ind {P : Expr → Prop} (leaf : ∀ t c v, P (.leaf t c v)) (unm : ∀ t v, P (.unm t v))
    (fstr : ∀ t v, P (.fstr t v))
    (seq : ∀ tup es, (∀ e ∈ es, P e) → P (.seq tup es))
    (dict : ∀ es, (∀ p ∈ es, P p.2) → P (.dict es))
    (star : ∀ e, P e → P (.star e)) : ∀ e, P e := by
  refine Expr.rec (motive_1 := P) (motive_2 := fun xs => ∀ x ∈ xs, P x)
    (motive_3 := fun kvs => ∀ p ∈ kvs, P p.2) (motive_4 := fun p => P p.2)
    leaf unm fstr seq dict star ?_ ?_ ?_ ?_ ?_
  · intro x hx; simp at hx
  · intro h t hh ht x hx
    rcases List.mem_cons.1 hx with rfl | hx
    · exact hh
    · exact ht x hx
  · intro x hx; simp at hx
  · intro h t hh ht x hx
    rcases List.mem_cons.1 hx with rfl | hx
    · exact hh
    · exact ht x hx
  · intro _ _ h; exact h

/-! ### the predicates, list-wise -/

@[simp] theorem gv_atom (a : Atom) : gv (.atom a) = true := by simp [gv]
@[simp] theorem gv_list (xs : List Val) : gv (.list xs) = gv.gvL xs := by simp [gv]
@[simp] theorem gv_tuple (xs : List Val) : gv (.tuple xs) = gv.gvL xs := by simp [gv]
@[simp] theorem gv_dict (kvs : List (Atom × Val)) : gv (.dict kvs) = (dkeys kvs && gv.gvD kvs) := by
  simp [gv]
@[simp] theorem gv_unmIs (i : Nat) (v : Val) : gv (.unmIs i v) = false := by simp [gv]
@[simp] theorem gv_unmAny (i : Nat) : gv (.unmAny i) = false := by simp [gv]

theorem gvL_iff {xs : List Val} : gv.gvL xs = true ↔ ∀ x ∈ xs, gv x = true := by
  induction xs with
  | nil => simp [gv.gvL]
  | cons x xs ih => simp [gv.gvL, ih]

theorem gvD_iff {kvs : List (Atom × Val)} : gv.gvD kvs = true ↔ ∀ p ∈ kvs, gv p.2 = true := by
  induction kvs with
  | nil => simp [gv.gvD]
  | cons p kvs ih => cases p; simp [gv.gvD, ih]

@[simp] theorem ge_leaf (t : Nat) (c : Bool) (v : Val) : ge (.leaf t c v) = gv v := by simp [ge]
@[simp] theorem ge_unm (t : Nat) (v : Val) : ge (.unm t v) = false := by simp [ge]
@[simp] theorem ge_fstr (t : Nat) (v : Val) : ge (.fstr t v) = false := by simp [ge]
@[simp] theorem ge_star (e : Expr) : ge (.star e) = false := by simp [ge]
@[simp] theorem ge_seq (t : Bool) (es : List Expr) : ge (.seq t es) = ge.geL es := by simp [ge]
@[simp] theorem ge_dict (es : List (Atom × Expr)) : ge (.dict es) = (dkeys es && ge.geD es) := by
  simp [ge]

theorem geL_iff {es : List Expr} : ge.geL es = true ↔ ∀ e ∈ es, ge e = true := by
  induction es with
  | nil => simp [ge.geL]
  | cons x xs ih => simp [ge.geL, ih]

theorem geD_iff {es : List (Atom × Expr)} : ge.geD es = true ↔ ∀ p ∈ es, ge p.2 = true := by
  induction es with
  | nil => simp [ge.geD]
  | cons p kvs ih => cases p; simp [ge.geD, ih]

theorem gv_eq (v : Val) : gv v = (valOk v && wfVal v) := by
  induction v using Val.ind with
  | atom a => simp [valOk, wfVal]
  | list xs ih =>
    simp only [gv_list, valOk, wfVal]
    induction xs with
    | nil => rfl
    | cons x xs ih2 =>
      simp only [gv.gvL, valOk.okL, wfVal.wfL, ih x (by simp),
        ih2 (fun y hy => ih y (by simp [hy]))]
      cases valOk x <;> cases wfVal x <;> simp
  | tuple xs ih =>
    simp only [gv_tuple, valOk, wfVal]
    induction xs with
    | nil => rfl
    | cons x xs ih2 =>
      simp only [gv.gvL, valOk.okL, wfVal.wfL, ih x (by simp),
        ih2 (fun y hy => ih y (by simp [hy]))]
      cases valOk x <;> cases wfVal x <;> simp
  | dict kvs ih =>
    simp only [gv_dict, valOk, wfVal]
    have : gv.gvD kvs = (valOk.okD kvs && wfVal.wfD kvs) := by
      induction kvs with
      | nil => rfl
      | cons p kvs ih2 =>
        obtain ⟨k, x⟩ := p
        have := ih (k, x) (by simp)
        simp only at this
        simp only [gv.gvD, valOk.okD, wfVal.wfD, this,
          ih2 (fun y hy => ih y (by simp [hy]))]
        cases valOk x <;> cases wfVal x <;> simp
    rw [this]; cases dkeys kvs <;> cases valOk.okD kvs <;> simp
  | unmIs i v _ => simp [valOk]
  | unmAny i => simp [valOk]

theorem gv_of {v : Val} (h1 : ValOk v) (h2 : WfVal v) : gv v = true := by
  rw [gv_eq]; simp [show valOk v = true from h1, show wfVal v = true from h2]

theorem ge_eq (e : Expr) : ge e = (managed e && wfExpr e) := by
  induction e using Expr.ind with
  | leaf t c v => simp [managed, wfExpr, gv_eq]
  | unm t v => simp [managed]
  | fstr t v => simp [managed]
  | star e _ => simp [managed]
  | seq tup es ih =>
    simp only [ge_seq, managed, wfExpr]
    induction es with
    | nil => rfl
    | cons x xs ih2 =>
      simp only [ge.geL, managed.mgL, wfExpr.wfEL, ih x (by simp),
        ih2 (fun y hy => ih y (by simp [hy]))]
      cases managed x <;> cases wfExpr x <;> simp
  | dict kvs ih =>
    simp only [ge_dict, managed, wfExpr]
    have : ge.geD kvs = (managed.mgD kvs && wfExpr.wfED kvs) := by
      induction kvs with
      | nil => rfl
      | cons p kvs ih2 =>
        obtain ⟨k, x⟩ := p
        have := ih (k, x) (by simp)
        simp only at this
        simp only [ge.geD, managed.mgD, wfExpr.wfED, this,
          ih2 (fun y hy => ih y (by simp [hy]))]
        cases managed x <;> cases wfExpr x <;> simp
    rw [this]; cases dkeys kvs <;> cases managed.mgD kvs <;> simp

theorem ge_of {e : Expr} (h1 : Managed e) (h2 : WfExpr e) : ge e = true := by
  rw [ge_eq]; simp [show managed e = true from h1, show wfExpr e = true from h2]

end ISnap.Assign


/-! ## part: AssignPyEq -/
/-
  `pyEq` on good values (no unmanaged parts, distinct dict keys) is an equivalence relation.
-/
namespace ISnap.Assign
open ISnap

@[simp] theorem pyEq_atom_atom (a b : Atom) : pyEq (.atom a) (.atom b) = Atom.pyEq a b := by
  simp [pyEq]
@[simp] theorem pyEq_list_list (xs ys : List Val) : pyEq (.list xs) (.list ys) = pyEq.eqL xs ys := by
  simp [pyEq]
@[simp] theorem pyEq_tuple_tuple (xs ys : List Val) :
    pyEq (.tuple xs) (.tuple ys) = pyEq.eqL xs ys := by simp [pyEq]
@[simp] theorem pyEq_dict_dict (xs ys : List (Atom × Val)) :
    pyEq (.dict xs) (.dict ys) = (xs.length == ys.length && pyEq.eqD xs ys) := by simp [pyEq]

@[simp] theorem eqL_nil_nil : pyEq.eqL [] [] = true := by simp [pyEq.eqL]
@[simp] theorem eqL_cons_cons (x y : Val) (xs ys : List Val) :
    pyEq.eqL (x :: xs) (y :: ys) = (pyEq x y && pyEq.eqL xs ys) := by simp [pyEq.eqL]
@[simp] theorem eqL_nil_cons (y : Val) (ys : List Val) : pyEq.eqL [] (y :: ys) = false := by
  simp [pyEq.eqL]
@[simp] theorem eqL_cons_nil (y : Val) (ys : List Val) : pyEq.eqL (y :: ys) [] = false := by
  simp [pyEq.eqL]

theorem eqL_iff {xs ys : List Val} : pyEq.eqL xs ys = true ↔
    xs.length = ys.length ∧ ∀ i (h1 : i < xs.length) (h2 : i < ys.length), pyEq xs[i] ys[i] = true := by
  induction xs generalizing ys with
  | nil => cases ys <;> simp
  | cons x xs ih =>
    cases ys with
    | nil => simp
    | cons y ys =>
      simp only [eqL_cons_cons, Bool.and_eq_true, ih, List.length_cons, Nat.add_right_cancel_iff]
      constructor
      · rintro ⟨h1, h2, h3⟩
        refine ⟨h2, fun i hi1 hi2 => ?_⟩
        cases i with
        | zero => simpa using h1
        | succ i => exact h3 i (by omega) (by omega)
      · rintro ⟨h1, h2⟩
        refine ⟨by simpa using h2 0 (by omega) (by omega), h1, fun i hi1 hi2 => ?_⟩
        exact h2 (i+1) (by omega) (by omega)

theorem eqL_length {xs ys : List Val} (h : pyEq.eqL xs ys = true) : xs.length = ys.length :=
  (eqL_iff.1 h).1

@[simp] theorem eqD_nil (b : List (Atom × Val)) : pyEq.eqD [] b = true := by simp [pyEq.eqD]
@[simp] theorem eqD_cons (p : Atom × Val) (a b : List (Atom × Val)) :
    pyEq.eqD (p :: a) b = ((match lookupA p.1 b with | some w => pyEq p.2 w | none => false)
      && pyEq.eqD a b) := by
  cases p; rw [pyEq.eqD]; rfl

theorem eqD_iff {a b : List (Atom × Val)} : pyEq.eqD a b = true ↔
    ∀ p ∈ a, ∃ w, lookupA p.1 b = some w ∧ pyEq p.2 w = true := by
  induction a with
  | nil => simp
  | cons p a ih =>
    simp only [eqD_cons, Bool.and_eq_true, ih, List.mem_cons, forall_eq_or_imp]
    constructor
    · rintro ⟨h1, h2⟩
      refine ⟨?_, h2⟩
      cases hl : lookupA p.1 b with
      | none => simp [hl] at h1
      | some w => simp [hl] at h1; exact ⟨w, rfl, h1⟩
    · rintro ⟨⟨w, h1, h2⟩, h3⟩
      exact ⟨by simp [h1, h2], h3⟩

/-- the constructor of the second argument, when the first is unmanaged-free -/
theorem pyEq_ty {a b : Val} (ha : gv a = true) (h : pyEq a b = true) : a.ty = b.ty ∨
    (∃ x y, a = .atom x ∧ b = .atom y) := by
  cases a <;> cases b <;> simp_all [pyEq, Val.ty]

theorem pyEq_refl : ∀ v, gv v = true → pyEq v v = true := by
  intro v
  induction v using Val.ind with
  | atom a => intro _; simp [atomEq_refl]
  | list xs ih =>
    intro h; simp only [gv_list, gvL_iff] at h
    simp only [pyEq_list_list, eqL_iff, true_and]
    exact fun i h1 _ => ih _ (List.getElem_mem h1) (h _ (List.getElem_mem h1))
  | tuple xs ih =>
    intro h; simp only [gv_tuple, gvL_iff] at h
    simp only [pyEq_tuple_tuple, eqL_iff, true_and]
    exact fun i h1 _ => ih _ (List.getElem_mem h1) (h _ (List.getElem_mem h1))
  | dict kvs ih =>
    intro h; simp only [gv_dict, Bool.and_eq_true, gvD_iff] at h
    simp only [pyEq_dict_dict, beq_self_eq_true, Bool.true_and, eqD_iff]
    intro p hp
    exact ⟨p.2, lookupA_self h.1 hp, ih p hp (h.2 p hp)⟩
  | unmIs i v _ => intro h; simp at h
  | unmAny i => intro h; simp at h

theorem pyEq_symm : ∀ a b, gv a = true → gv b = true → pyEq a b = true → pyEq b a = true := by
  intro a
  induction a using Val.ind with
  | atom a =>
    intro b _ _ h
    cases b <;> simp [pyEq] at h
    simpa [atomEq_symm] using h
  | list xs ih =>
    intro b ha hb h
    cases b <;> simp [pyEq] at h
    rename_i ys
    simp only [gv_list, gvL_iff] at ha hb
    simp only [pyEq_list_list, eqL_iff] at h ⊢
    refine ⟨h.1.symm, fun i h1 h2 => ?_⟩
    exact ih _ (List.getElem_mem h2) _ (ha _ (List.getElem_mem h2)) (hb _ (List.getElem_mem h1))
      (h.2 i h2 h1)
  | tuple xs ih =>
    intro b ha hb h
    cases b <;> simp [pyEq] at h
    rename_i ys
    simp only [gv_tuple, gvL_iff] at ha hb
    simp only [pyEq_tuple_tuple, eqL_iff] at h ⊢
    refine ⟨h.1.symm, fun i h1 h2 => ?_⟩
    exact ih _ (List.getElem_mem h2) _ (ha _ (List.getElem_mem h2)) (hb _ (List.getElem_mem h1))
      (h.2 i h2 h1)
  | dict kvs ih =>
    intro b ha hb h
    cases b <;> simp [pyEq] at h
    rename_i kws
    simp only [gv_dict, Bool.and_eq_true, gvD_iff] at ha hb
    obtain ⟨hlen, hD⟩ := h
    rw [eqD_iff] at hD
    simp only [pyEq_dict_dict, Bool.and_eq_true, beq_iff_eq, eqD_iff]
    refine ⟨hlen.symm, fun q hq => ?_⟩
    have hsub : ∀ p ∈ kvs, hasKey p.1 kws = true := by
      intro p hp
      obtain ⟨w, hw, _⟩ := hD p hp
      rw [← lookupA_isSome, hw]; rfl
    have hon := keys_onto ha.1 hsub (by omega) q hq
    rw [← lookupA_isSome] at hon
    cases hl : lookupA q.1 kvs with
    | none => simp [hl] at hon
    | some v =>
      obtain ⟨k', hmem, hk⟩ := lookupA_mem hl
      obtain ⟨w, hw, hvw⟩ := hD _ hmem
      have : lookupA k' kws = some q.2 := by
        rw [atomEq_symm] at hk
        exact lookupA_of_mem hb.1 hq hk
      simp only at hw
      rw [this] at hw
      cases hw
      exact ⟨v, rfl, ih _ hmem _ (ha.2 _ hmem) (hb.2 _ hq) hvw⟩
  | unmIs i v _ => intro b h; simp at h
  | unmAny i => intro b h; simp at h

theorem pyEq_trans : ∀ a b c, gv a = true → gv b = true → pyEq a b = true → pyEq b c = true →
    pyEq a c = true := by
  intro a
  induction a using Val.ind with
  | atom a =>
    intro b c _ _ h1 h2
    cases b <;> simp [pyEq] at h1
    cases c <;> simp [pyEq] at h2
    simpa using atomEq_trans h1 h2
  | list xs ih =>
    intro b c ha hb h1 h2
    cases b <;> simp [pyEq] at h1
    cases c <;> simp [pyEq] at h2
    simp only [gv_list, gvL_iff] at ha hb
    simp only [pyEq_list_list, eqL_iff] at h1 h2 ⊢
    refine ⟨h1.1.trans h2.1, fun i i1 i2 => ?_⟩
    have i3 : i < _ := h1.1 ▸ i1
    exact ih _ (List.getElem_mem i1) _ _ (ha _ (List.getElem_mem i1)) (hb _ (List.getElem_mem i3))
      (h1.2 i i1 i3) (h2.2 i i3 i2)
  | tuple xs ih =>
    intro b c ha hb h1 h2
    cases b <;> simp [pyEq] at h1
    cases c <;> simp [pyEq] at h2
    simp only [gv_tuple, gvL_iff] at ha hb
    simp only [pyEq_tuple_tuple, eqL_iff] at h1 h2 ⊢
    refine ⟨h1.1.trans h2.1, fun i i1 i2 => ?_⟩
    have i3 : i < _ := h1.1 ▸ i1
    exact ih _ (List.getElem_mem i1) _ _ (ha _ (List.getElem_mem i1)) (hb _ (List.getElem_mem i3))
      (h1.2 i i1 i3) (h2.2 i i3 i2)
  | dict kvs ih =>
    intro b c ha hb h1 h2
    cases b <;> simp [pyEq] at h1
    cases c <;> simp [pyEq] at h2
    simp only [gv_dict, Bool.and_eq_true, gvD_iff] at ha hb
    simp only [pyEq_dict_dict, Bool.and_eq_true, beq_iff_eq, eqD_iff] at h1 h2 ⊢
    refine ⟨h1.1.trans h2.1, fun p hp => ?_⟩
    obtain ⟨w, hw, hpw⟩ := h1.2 p hp
    obtain ⟨k', hmem, hk⟩ := lookupA_mem hw
    obtain ⟨u, hu, hwu⟩ := h2.2 _ hmem
    refine ⟨u, by rw [lookupA_congr hk]; exact hu, ?_⟩
    exact ih p hp _ _ (ha.2 p hp) (hb.2 _ hmem) hpw hwu
  | unmIs i v _ => intro b c h; simp at h
  | unmAny i => intro b c h; simp at h

/-- equal values compare alike with everything -/
theorem pyEq_congr_left {a b : Val} (ha : gv a = true) (hb : gv b = true)
    (h : pyEq a b = true) (c : Val) : pyEq a c = pyEq b c := by
  rw [Bool.eq_iff_iff]
  exact ⟨fun h1 => pyEq_trans _ _ _ hb ha (pyEq_symm _ _ ha hb h) h1,
    fun h1 => pyEq_trans _ _ _ ha hb h h1⟩

end ISnap.Assign


/-! ## part: AssignCore -/
/-
  `eval` / `canon`, the alignment script seen as a walk over two lists, unfolding of `assign`.
-/
namespace ISnap.Assign
open ISnap ISnap.Align

/-! ### `eval`, `canon` -/

@[simp] theorem eval_leaf (t c v) : eval (.leaf t c v) = v := by simp [eval]
@[simp] theorem eval_unm (t v) : eval (.unm t v) = v := by simp [eval]
@[simp] theorem eval_fstr (t v) : eval (.fstr t v) = v := by simp [eval]
@[simp] theorem eval_star (e) : eval (.star e) = eval e := by simp [eval]
theorem eval_seq (t es) : eval (.seq t es) = if t then .tuple (eval.evalL es) else .list (eval.evalL es) := by
  simp [eval]
@[simp] theorem eval_dict (es) : eval (.dict es) = .dict (eval.evalD es) := by simp [eval]

theorem isStar_of_ge {e : Expr} (h : ge e = true) : isStar e = false := by
  cases e <;> simp_all [isStar]

theorem evalL_eq_map {es : List Expr} (h : ∀ e ∈ es, isStar e = false) :
    eval.evalL es = es.map eval := by
  induction es with
  | nil => simp [eval.evalL]
  | cons e es ih =>
    have he : isStar e = false := h e (by simp)
    have ih' := ih (fun q hq => h q (by simp [hq]))
    cases e <;> first | (simp [isStar] at he; done) | simp [eval.evalL, ih']

theorem evalD_eq_map {es : List (Atom × Expr)} (h : ∀ p ∈ es, isStar p.2 = false) :
    eval.evalD es = es.map (fun p => (p.1, eval p.2)) := by
  induction es with
  | nil => simp [eval.evalD]
  | cons p es ih =>
    obtain ⟨k, e⟩ := p
    have he : isStar e = false := h (k, e) (by simp)
    have ih' := ih (fun q hq => h q (by simp [hq]))
    cases e <;> first | (simp [isStar] at he; done) | simp [eval.evalD, ih']

theorem any_isStar_false {es : List Expr} (h : ∀ e ∈ es, ge e = true) : es.any isStar = false := by
  simp only [List.any_eq_false]
  intro e he; simp [isStar_of_ge (h e he)]

theorem any_isStarD_false {es : List (Atom × Expr)} (h : ∀ p ∈ es, ge p.2 = true) :
    es.any (fun kv => isStar kv.2) = false := by
  simp only [List.any_eq_false]
  intro e he; simp [isStar_of_ge (h e he)]

theorem evalL_ge {es : List Expr} (h : ∀ e ∈ es, ge e = true) : eval.evalL es = es.map eval :=
  evalL_eq_map (fun e he => isStar_of_ge (h e he))

theorem evalD_ge {es : List (Atom × Expr)} (h : ∀ p ∈ es, ge p.2 = true) :
    eval.evalD es = es.map (fun p => (p.1, eval p.2)) :=
  evalD_eq_map (fun e he => isStar_of_ge (h e he))

theorem canonL_eq_map (xs : List Val) : canon.canonL xs = xs.map canon := by
  induction xs with
  | nil => simp [canon.canonL]
  | cons x xs ih => simp [canon.canonL, ih]

theorem canonD_eq_map (kvs : List (Atom × Val)) :
    canon.canonD kvs = kvs.map (fun p => (p.1, canon p.2)) := by
  induction kvs with
  | nil => simp [canon.canonD]
  | cons p xs ih => cases p; simp [canon.canonD, ih]

@[simp] theorem canon_atom (a) : canon (.atom a) = .leaf 0 true (.atom a) := by simp [canon]
@[simp] theorem canon_list (xs) : canon (.list xs) = .seq false (xs.map canon) := by
  simp [canon, canonL_eq_map]
@[simp] theorem canon_tuple (xs) : canon (.tuple xs) = .seq true (xs.map canon) := by
  simp [canon, canonL_eq_map]
@[simp] theorem canon_dict (kvs) : canon (.dict kvs) = .dict (kvs.map (fun p => (p.1, canon p.2))) := by
  simp [canon, canonD_eq_map]

theorem isStar_canon (v : Val) : isStar (canon v) = false := by
  cases v <;> simp [canon, isStar]

/-- `code_repr` round-trips: the written expression evaluates to the value (any value) -/
theorem eval_canon_any (v : Val) : eval (canon v) = v := by
  induction v using Val.ind with
  | atom a => simp
  | list xs ih =>
    simp only [canon_list, eval_seq, Bool.false_eq_true, ↓reduceIte, Val.list.injEq]
    rw [evalL_eq_map (by simp [isStar_canon])]
    simp only [List.map_map]
    conv => rhs; rw [← List.map_id xs]
    exact List.map_congr_left (fun x hx => ih x hx)
  | tuple xs ih =>
    simp only [canon_tuple, eval_seq, ↓reduceIte, Val.tuple.injEq]
    rw [evalL_eq_map (by simp [isStar_canon])]
    simp only [List.map_map]
    conv => rhs; rw [← List.map_id xs]
    exact List.map_congr_left (fun x hx => ih x hx)
  | dict kvs ih =>
    simp only [canon_dict, eval_dict, Val.dict.injEq]
    rw [evalD_eq_map (by
      intro p hp; simp only [List.mem_map] at hp; obtain ⟨q, _, rfl⟩ := hp; exact isStar_canon _)]
    simp only [List.map_map]
    conv => rhs; rw [← List.map_id kvs]
    exact List.map_congr_left (fun x hx => by simp [ih x hx])
  | unmIs i v _ => simp [canon]
  | unmAny i => simp [canon]

theorem gv_eval : ∀ e, ge e = true → gv (eval e) = true := by
  intro e
  induction e using Expr.ind with
  | leaf t c v => simp
  | unm t v => simp
  | fstr t v => simp
  | star e _ => simp
  | seq tup es ih =>
    intro h; simp only [ge_seq, geL_iff] at h
    rw [eval_seq, evalL_ge h]
    cases tup <;> simp only [Bool.false_eq_true, ↓reduceIte, gv_list, gv_tuple, gvL_iff, List.mem_map] <;>
    · rintro x ⟨e, he, rfl⟩; exact ih e he (h e he)
  | dict es ih =>
    intro h; simp only [ge_dict, Bool.and_eq_true, geD_iff] at h
    rw [eval_dict, evalD_ge h.2]
    simp only [gv_dict, Bool.and_eq_true, gvD_iff, List.mem_map]
    refine ⟨?_, ?_⟩
    · rw [dkeys_map es (fun p => (p.1, eval p.2)) (fun _ => rfl)]; exact h.1
    · rintro x ⟨e, he, rfl⟩; exact ih e he (h.2 e he)

theorem ge_canon : ∀ v, gv v = true → ge (canon v) = true := by
  intro v
  induction v using Val.ind with
  | atom a => simp
  | list xs ih =>
    intro h; simp only [gv_list, gvL_iff] at h
    simp only [canon_list, ge_seq, geL_iff, List.mem_map]
    rintro e ⟨x, hx, rfl⟩; exact ih x hx (h x hx)
  | tuple xs ih =>
    intro h; simp only [gv_tuple, gvL_iff] at h
    simp only [canon_tuple, ge_seq, geL_iff, List.mem_map]
    rintro e ⟨x, hx, rfl⟩; exact ih x hx (h x hx)
  | dict kvs ih =>
    intro h; simp only [gv_dict, Bool.and_eq_true, gvD_iff] at h
    simp only [canon_dict, ge_dict, Bool.and_eq_true, geD_iff, List.mem_map]
    refine ⟨?_, ?_⟩
    · rw [dkeys_map kvs (fun p => (p.1, canon p.2)) (fun _ => rfl)]; exact h.1
    · rintro e ⟨x, hx, rfl⟩; exact ih x hx (h.2 x hx)
  | unmIs i v _ => simp
  | unmAny i => simp

/-- `same` is reflexive on unmanaged-free values -/
theorem same_refl : ∀ v, gv v = true → same v v = true := by
  intro v
  induction v using Val.ind with
  | atom a => simp [same]
  | list xs ih =>
    intro h; simp only [gv_list, gvL_iff] at h
    simp only [same]
    induction xs with
    | nil => simp [same.sameL]
    | cons x xs ih2 =>
      simp only [same.sameL, Bool.and_eq_true]
      exact ⟨ih x (by simp) (h x (by simp)),
        ih2 (fun y hy => ih y (by simp [hy])) (fun y hy => h y (by simp [hy]))⟩
  | tuple xs ih =>
    intro h; simp only [gv_tuple, gvL_iff] at h
    simp only [same]
    induction xs with
    | nil => simp [same.sameL]
    | cons x xs ih2 =>
      simp only [same.sameL, Bool.and_eq_true]
      exact ⟨ih x (by simp) (h x (by simp)),
        ih2 (fun y hy => ih y (by simp [hy])) (fun y hy => h y (by simp [hy]))⟩
  | dict kvs ih =>
    intro h; simp only [gv_dict, Bool.and_eq_true, gvD_iff] at h
    replace h := h.2
    simp only [same]
    induction kvs with
    | nil => simp [same.sameD]
    | cons p xs ih2 =>
      obtain ⟨k, x⟩ := p
      simp only [same.sameD, Bool.and_eq_true, beq_self_eq_true, true_and]
      exact ⟨ih (k, x) (by simp) (h (k, x) (by simp)),
        ih2 (fun y hy => ih y (by simp [hy])) (fun y hy => h y (by simp [hy]))⟩
  | unmIs i v _ => simp
  | unmAny i => simp

/-! ### the script as a walk over the old elements and the new values -/

/-- `sc` consumes exactly the old elements `es` and the new elements `ns` -/
inductive Walk {α β : Type} : List Dir → List α → List β → Prop
  | nil : Walk [] [] []
  | m {sc e es n ns} : Walk sc es ns → Walk (.m :: sc) (e :: es) (n :: ns)
  | x {sc e es n ns} : Walk sc es ns → Walk (.x :: sc) (e :: es) (n :: ns)
  | i {sc es n ns} : Walk sc es ns → Walk (.i :: sc) es (n :: ns)
  | d {sc e es ns} : Walk sc es ns → Walk (.d :: sc) (e :: es) ns

theorem SegX.le {E p q i j s} (h : SegX E p q i j s) : p ≤ i ∧ q ≤ j := by
  induction h with
  | nil => exact ⟨Nat.le_refl _, Nat.le_refl _⟩
  | m _ _ ih => omega
  | i _ ih => omega
  | d _ ih => omega
  | x _ ih => omega

theorem walk_of_segX {α β : Type} {E p q i j s} (h : SegX E p q i j s) :
    ∀ (es : List α) (ns : List β), p + es.length = i → q + ns.length = j → Walk s es ns := by
  induction h with
  | nil =>
    intro es ns h1 h2
    have : es = [] := List.eq_nil_of_length_eq_zero (by omega)
    have : ns = [] := List.eq_nil_of_length_eq_zero (by omega)
    subst_vars; exact Walk.nil
  | m _ hs ih =>
    intro es ns h1 h2
    have := SegX.le hs
    cases es with
    | nil => simp at h1; omega
    | cons e es =>
      cases ns with
      | nil => simp at h2; omega
      | cons n ns => exact Walk.m (ih es ns (by simp at h1; omega) (by simp at h2; omega))
  | x hs ih =>
    intro es ns h1 h2
    have := SegX.le hs
    cases es with
    | nil => simp at h1; omega
    | cons e es =>
      cases ns with
      | nil => simp at h2; omega
      | cons n ns => exact Walk.x (ih es ns (by simp at h1; omega) (by simp at h2; omega))
  | i hs ih =>
    intro es ns h1 h2
    have := SegX.le hs
    cases ns with
    | nil => simp at h2; omega
    | cons n ns => exact Walk.i (ih es ns h1 (by simp at h2; omega))
  | d hs ih =>
    intro es ns h1 h2
    have := SegX.le hs
    cases es with
    | nil => simp at h1; omega
    | cons e es => exact Walk.d (ih es ns (by simp at h1; omega) h2)

/-- the script computed for two lists is a walk over any two lists of these lengths -/
theorem script_walk {α β : Type} (olds news : List Val) (es : List α) (ns : List β)
    (h1 : es.length = olds.length) (h2 : ns.length = news.length) :
    Walk (script olds news) es ns := by
  have h := (addX_valid _ _ _ _ (align_valid (relE olds news) olds.length news.length)).toSegX
  exact walk_of_segX h es ns (by omega) (by omega)

theorem rle_replicate_m (k : Nat) : rle (List.replicate (k+1) Dir.m) = [(Dir.m, k+1)] := by
  induction k with
  | zero => simp [rle]
  | succ k ih => rw [List.replicate_succ, rle, ih]; simp

theorem addX_replicate_m (k : Nat) : addX (List.replicate k Dir.m) = List.replicate k Dir.m := by
  cases k with
  | zero => simp [addX, rle, addXGroups]
  | succ k => simp [addX, rle_replicate_m, addXGroups]

/-- pairwise equal lists of the same length: the script is all `m` -/
theorem script_all_m (olds news : List Val) (hlen : olds.length = news.length)
    (h : ∀ i (h1 : i < olds.length) (h2 : i < news.length), pyEq olds[i] news[i] = true) :
    script olds news = List.replicate olds.length Dir.m := by
  unfold script
  obtain ⟨⟨h1, _, h3⟩, h4, _⟩ := align_prefix_suffix (relE olds news) olds.length news.length _ _ rfl rfl
  have hs : prefixLen (relE olds news) (min olds.length news.length) 0 = olds.length := by
    apply Classical.byContradiction
    intro hne
    have hlt : prefixLen (relE olds news) (min olds.length news.length) 0 <
        min olds.length news.length := by omega
    have := h3 hlt
    have hlt1 : prefixLen (relE olds news) (min olds.length news.length) 0 < olds.length := by omega
    have hlt2 : prefixLen (relE olds news) (min olds.length news.length) 0 < news.length := by omega
    simp [relE, hlt1, hlt2, h _ hlt1 hlt2] at this
  rw [h4 ⟨hs, by omega⟩, addX_replicate_m]

theorem script_of_eqL {olds news : List Val} (h : pyEq.eqL olds news = true) :
    script olds news = List.replicate olds.length Dir.m :=
  script_all_m olds news (eqL_iff.1 h).1 (eqL_iff.1 h).2

/-! ### unfolding `assign` -/

def listOf : Val → List Val
  | .list xs => xs
  | .tuple xs => xs
  | _ => []

def dictOf : Val → List (Atom × Val)
  | .dict kvs => kvs
  | _ => []

@[simp] theorem assign_unm (F t v n) : assign F (.unm t v) n = ⟨Flags.empty, v, .unm t v⟩ := by
  rw [assign]
@[simp] theorem assign_fstr (F t v n) : assign F (.fstr t v) n = ⟨Flags.empty, v, .fstr t v⟩ := by
  rw [assign]
@[simp] theorem assign_star (F e n) : assign F (.star e) n = ⟨Flags.empty, eval e, .star e⟩ := by
  rw [assign]

theorem assign_leaf {F t c v n} (h : gv v = true) :
    assign F (.leaf t c v) n = leafOut F (.leaf t c v) v n c := by
  cases v <;> first | (simp at h; done) | (rw [assign] <;> simp)

theorem assign_seq (F tup es n) : assign F (.seq tup es) n =
    if (eval (.seq tup es)).ty ≠ n.ty then leafOut F (.seq tup es) (eval (.seq tup es)) n false
    else if es.any isStar then ⟨Flags.empty, eval (.seq tup es), .seq tup es⟩
    else
      let r := assignSeq F (script (eval.evalL es) (listOf n)) es (listOf n)
      ⟨r.1, if tup then .tuple r.2.1 else .list r.2.1, .seq tup r.2.2⟩ := by
  cases n <;> rw [assign] <;> simp [listOf]

/-- which old entries stay -/
def keptOpt (F : Flags) (r : List (Atom × Expr × Option Val)) : List (Option (Atom × Expr)) :=
  r.map (fun x => match x.2.2 with
    | some _ => some (x.1, x.2.1)
    | none => if F.fix then none else some (x.1, x.2.1))

def mergedKvs (r : List (Atom × Expr × Option Val)) (news : List (Atom × Val)) : List (Atom × Val) :=
  news.map (fun kn =>
    match lookupA kn.1 (r.map (fun x => (x.1, x.2.2))) with
    | some (some m) => (kn.1, m)
    | _ => (kn.1, kn.2))

theorem assign_dict (F es n) : assign F (.dict es) n =
    if (eval (.dict es)).ty ≠ n.ty then leafOut F (.dict es) (eval (.dict es)) n false
    else if es.any (fun kv => isStar kv.2) then ⟨Flags.empty, eval (.dict es), .dict es⟩
    else
      let news := dictOf n
      let r := assignDictOld F es news
      let ins := dictInserts (es.map (·.1)) news 0 []
      ⟨unionCats r.1 (if ins.any (fun p => !p.2.isEmpty) then Flags.single .fix else Flags.empty),
       .dict (mergedKvs r.2 news),
       .dict (if F.fix then weave (keptOpt F r.2) ins 0 else (keptOpt F r.2).filterMap id)⟩ := by
  cases n <;> rw [assign] <;> first | rfl | simp

@[simp] theorem assignSeq_nil (F es ns) : assignSeq F [] es ns = (Flags.empty, [], es) := by
  rw [assignSeq]; all_goals simp

theorem assignSeq_m (F sc e es n ns) : assignSeq F (.m :: sc) (e :: es) (n :: ns) =
    (unionCats (assign F e n).cats (assignSeq F sc es ns).1,
     (assign F e n).merged :: (assignSeq F sc es ns).2.1,
     (assign F e n).expr :: (assignSeq F sc es ns).2.2) := by rw [assignSeq]
theorem assignSeq_x (F sc e es n ns) : assignSeq F (.x :: sc) (e :: es) (n :: ns) =
    (unionCats (assign F e n).cats (assignSeq F sc es ns).1,
     (assign F e n).merged :: (assignSeq F sc es ns).2.1,
     (assign F e n).expr :: (assignSeq F sc es ns).2.2) := by rw [assignSeq]
theorem assignSeq_i (F sc es n ns) : assignSeq F (.i :: sc) es (n :: ns) =
    (unionCats (Flags.single .fix) (assignSeq F sc es ns).1, n :: (assignSeq F sc es ns).2.1,
     if F.fix then canon n :: (assignSeq F sc es ns).2.2 else (assignSeq F sc es ns).2.2) := by
  rw [assignSeq]
theorem assignSeq_d (F sc e es ns) : assignSeq F (.d :: sc) (e :: es) ns =
    (unionCats (Flags.single .fix) (assignSeq F sc es ns).1, (assignSeq F sc es ns).2.1,
     if F.fix then (assignSeq F sc es ns).2.2 else e :: (assignSeq F sc es ns).2.2) := by
  rw [assignSeq]

@[simp] theorem assignDictOld_nil (F news) : assignDictOld F [] news = (Flags.empty, []) := by
  rw [assignDictOld]
theorem assignDictOld_cons (F p es news) : assignDictOld F (p :: es) news =
    match lookupA p.1 news with
    | none => (unionCats (Flags.single .fix) (assignDictOld F es news).1,
        (p.1, p.2, none) :: (assignDictOld F es news).2)
    | some n => (unionCats (assign F p.2 n).cats (assignDictOld F es news).1,
        (p.1, (assign F p.2 n).expr, some (assign F p.2 n).merged) :: (assignDictOld F es news).2) := by
  cases p; rw [assignDictOld]; rfl

theorem assign_seq_mismatch {F tup es n} (hty : (eval (.seq tup es)).ty ≠ n.ty) :
    assign F (.seq tup es) n = leafOut F (.seq tup es) (eval (.seq tup es)) n false := by
  rw [assign_seq, if_pos hty]

theorem assign_seq_star {F tup es n} (hty : (eval (.seq tup es)).ty = n.ty)
    (hs : es.any isStar = true) :
    assign F (.seq tup es) n = ⟨Flags.empty, eval (.seq tup es), .seq tup es⟩ := by
  rw [assign_seq, if_neg (by simpa using hty), if_pos hs]

theorem assign_seq_of {F tup es n} (hty : (eval (.seq tup es)).ty = n.ty)
    (hs : es.any isStar = false) :
    assign F (.seq tup es) n =
      ⟨(assignSeq F (script (eval.evalL es) (listOf n)) es (listOf n)).1,
       if tup then .tuple (assignSeq F (script (eval.evalL es) (listOf n)) es (listOf n)).2.1
       else .list (assignSeq F (script (eval.evalL es) (listOf n)) es (listOf n)).2.1,
       .seq tup (assignSeq F (script (eval.evalL es) (listOf n)) es (listOf n)).2.2⟩ := by
  rw [assign_seq, if_neg (by simpa using hty), if_neg (by simp [hs])]

theorem assign_dict_mismatch {F es n} (hty : (eval (.dict es)).ty ≠ n.ty) :
    assign F (.dict es) n = leafOut F (.dict es) (eval (.dict es)) n false := by
  rw [assign_dict, if_pos hty]

theorem assign_dict_star {F es n} (hty : (eval (.dict es)).ty = n.ty)
    (hs : es.any (fun kv => isStar kv.2) = true) :
    assign F (.dict es) n = ⟨Flags.empty, eval (.dict es), .dict es⟩ := by
  rw [assign_dict, if_neg (by simpa using hty), if_pos hs]

end ISnap.Assign


/-! ## part: AssignMain1 -/
/-
  First batch of facts about `assign`: closed form of `assignDictOld`, the merged value,
  `Managed`/`WfExpr` are preserved.
-/
namespace ISnap.Assign
open ISnap ISnap.Align

/-! ### small facts -/

theorem ty_seq_eq {tup : Bool} {es : List Expr} {n : Val} (h : (eval (.seq tup es)).ty = n.ty) :
    n = if tup then .tuple (listOf n) else .list (listOf n) := by
  cases tup <;> cases n <;> simp_all [eval_seq, Val.ty, listOf] <;>
  · rename_i a; cases a <;> simp_all

theorem ty_dict_eq {es : List (Atom × Expr)} {n : Val} (h : (eval (.dict es)).ty = n.ty) : n = .dict (dictOf n) := by
  cases n <;> simp_all [Val.ty, dictOf] <;>
  · rename_i a; cases a <;> simp_all

theorem gv_listOf {n : Val} (h : gv n = true) : ∀ x ∈ listOf n, gv x = true := by
  cases n <;> simp_all [listOf, gvL_iff]

theorem gv_dictOf {n : Val} (h : gv n = true) :
    dkeys (dictOf n) = true ∧ ∀ p ∈ dictOf n, gv p.2 = true := by
  cases n <;> simp_all [dictOf]
  exact fun a b hab => gvD_iff.1 h.2 (a, b) hab

theorem walk_script {es : List Expr} (h : es.any isStar = false) (ns : List Val) :
    Walk (script (eval.evalL es) ns) es ns := by
  apply script_walk _ _ _ _ _ rfl
  rw [evalL_eq_map (by simpa using h)]; simp

theorem leafOut_merged (F e v n c) (hn : gv n = true) : pyEq (leafOut F e v n c).merged n = true := by
  unfold leafOut
  cases h1 : pyEq v n <;> simp [pyEq_refl n hn]
  split <;> simp [pyEq_refl n hn, h1]

/-! ### closed form of `assignDictOld` -/

def oldEntry (F : Flags) (news : List (Atom × Val)) (p : Atom × Expr) : Atom × Expr × Option Val :=
  match lookupA p.1 news with
  | none => (p.1, p.2, none)
  | some n => (p.1, (assign F p.2 n).expr, some (assign F p.2 n).merged)

def oldCats (F : Flags) (news : List (Atom × Val)) (p : Atom × Expr) : Flags :=
  match lookupA p.1 news with
  | none => Flags.single .fix
  | some n => (assign F p.2 n).cats

theorem assignDictOld_snd (F es news) : (assignDictOld F es news).2 = es.map (oldEntry F news) := by
  induction es with
  | nil => simp
  | cons p es ih =>
    rw [assignDictOld_cons]
    cases h : lookupA p.1 news <;> simp [oldEntry, h, ih]

theorem assignDictOld_fst (F es news) : (assignDictOld F es news).1 =
    es.foldr (fun p acc => unionCats (oldCats F news p) acc) Flags.empty := by
  induction es with
  | nil => simp
  | cons p es ih =>
    rw [assignDictOld_cons]
    cases h : lookupA p.1 news <;> simp [oldCats, h, ih]

@[simp] theorem oldEntry_fst (F news p) : (oldEntry F news p).1 = p.1 := by
  unfold oldEntry; split <;> rfl

/-- which old entries stay, with their new expression -/
def keptE (F : Flags) (news : List (Atom × Val)) (p : Atom × Expr) : Option (Atom × Expr) :=
  match lookupA p.1 news with
  | none => if F.fix then none else some p
  | some n => some (p.1, (assign F p.2 n).expr)

theorem keptOpt_eq (F : Flags) (es : List (Atom × Expr)) (news : List (Atom × Val)) : keptOpt F (es.map (oldEntry F news)) = es.map (keptE F news) := by
  simp only [keptOpt, List.map_map]
  apply List.map_congr_left
  intro p _
  simp only [Function.comp, oldEntry, keptE]
  cases h : lookupA p.1 news <;> simp

/-! ### the merged value equals the new value -/

theorem seq_merged {F : Flags} {sc es ns} (hw : Walk sc es ns)
    (ih : ∀ e ∈ es, ∀ n, gv n = true → pyEq (assign F e n).merged n = true)
    (hn : ∀ n ∈ ns, gv n = true) : pyEq.eqL (assignSeq F sc es ns).2.1 ns = true := by
  induction hw with
  | nil => simp
  | m _ ih2 =>
    rw [assignSeq_m]; simp only [eqL_cons_cons, Bool.and_eq_true]
    exact ⟨ih _ (by simp) _ (hn _ (by simp)),
      ih2 (fun e he => ih e (by simp [he])) (fun n h => hn n (by simp [h]))⟩
  | x _ ih2 =>
    rw [assignSeq_x]; simp only [eqL_cons_cons, Bool.and_eq_true]
    exact ⟨ih _ (by simp) _ (hn _ (by simp)),
      ih2 (fun e he => ih e (by simp [he])) (fun n h => hn n (by simp [h]))⟩
  | i _ ih2 =>
    rw [assignSeq_i]; simp only [eqL_cons_cons, Bool.and_eq_true]
    exact ⟨pyEq_refl _ (hn _ (by simp)), ih2 ih (fun n h => hn n (by simp [h]))⟩
  | d _ ih2 =>
    rw [assignSeq_d]
    exact ih2 (fun e he => ih e (by simp [he])) hn

theorem merged_eq_gen (F : Flags) : ∀ e, ge e = true → ∀ n, gv n = true →
    pyEq (assign F e n).merged n = true := by
  intro e
  induction e using Expr.ind with
  | leaf t c v => intro h n hn; simp at h; rw [assign_leaf h]; exact leafOut_merged _ _ _ _ _ hn
  | unm t v => simp
  | fstr t v => simp
  | star e _ => simp
  | seq tup es ih =>
    intro h n hn
    simp only [ge_seq, geL_iff] at h
    rw [assign_seq]
    split
    · exact leafOut_merged _ _ _ _ _ hn
    · rename_i hty
      simp only [ne_eq, Decidable.not_not] at hty
      have hs := any_isStar_false h
      simp only [hs, Bool.false_eq_true, ↓reduceIte]
      have hw := walk_script hs (listOf n)
      have := seq_merged (F := F) hw (fun e he n hn => ih e he (h e he) n hn) (gv_listOf hn)
      have hn' := ty_seq_eq hty
      cases tup <;> simp only [Bool.false_eq_true, ↓reduceIte] at hn' ⊢ <;>
      · rw [hn']; simpa [listOf] using this
  | dict es ih =>
    intro h n hn
    simp only [ge_dict, Bool.and_eq_true, geD_iff] at h
    rw [assign_dict]
    split
    · exact leafOut_merged _ _ _ _ _ hn
    · rename_i hty
      simp only [ne_eq, Decidable.not_not] at hty
      have hs := any_isStarD_false h.2
      simp only [hs, Bool.false_eq_true, ↓reduceIte]
      have hn' := ty_dict_eq hty
      obtain ⟨hdk, hgv⟩ := gv_dictOf hn
      generalize dictOf n = news at hn' hdk hgv
      subst hn'
      simp only [pyEq_dict_dict, Bool.and_eq_true, beq_iff_eq, eqD_iff]
      refine ⟨by simp [mergedKvs], ?_⟩
      intro p hp
      simp only [mergedKvs, List.mem_map] at hp
      obtain ⟨kn, hkn, rfl⟩ := hp
      have hl : lookupA kn.1 news = some kn.2 := lookupA_self hdk hkn
      rw [assignDictOld_snd]
      simp only [List.map_map]
      split
      · rename_i m hm
        refine ⟨kn.2, hl, ?_⟩
        obtain ⟨k', hmem, hk⟩ := lookupA_mem hm
        simp only [List.mem_map, Function.comp] at hmem
        obtain ⟨q, hq, hqe⟩ := hmem
        simp only [oldEntry_fst, Prod.mk.injEq] at hqe
        obtain ⟨rfl, hqm⟩ := hqe
        have hl2 : lookupA q.1 news = some kn.2 := by
          rw [← lookupA_congr hk]; exact hl
        simp only [oldEntry, hl2, Option.some.injEq] at hqm
        subst hqm
        exact ih q hq (h.2 q hq) _ (hgv _ hkn)
      · exact ⟨kn.2, hl, pyEq_refl _ (hgv _ hkn)⟩

end ISnap.Assign


/-! ## part: AssignDict -/
/-
  `dictInserts` / `insAt` / `weave`: the entries of a dict display after `fix` are a permutation of
  the kept old entries followed by the new ones.
-/
namespace ISnap.Assign
open ISnap List

def insG (p : Nat × List (Atom × Val)) : List (Atom × Expr) := p.2.map (fun kv => (kv.1, canon kv.2))

def allIns (ins : List (Nat × List (Atom × Val))) : List (Atom × Expr) := ins.flatMap insG

theorem insAt_eq (ins : List (Nat × List (Atom × Val))) (i : Nat) :
    insAt ins i = allIns (ins.filter (fun p => p.1 == i)) := rfl

theorem mem_insAt {ins : List (Nat × List (Atom × Val))} {i : Nat} {q : Atom × Expr}
    (h : q ∈ insAt ins i) : q ∈ allIns ins := by
  simp only [insAt_eq, allIns, mem_flatMap, mem_filter] at h ⊢
  obtain ⟨p, ⟨hp, _⟩, hq⟩ := h
  exact ⟨p, hp, hq⟩

theorem weave_congr (K : List (Option (Atom × Expr))) (ins ins' : List (Nat × List (Atom × Val))) :
    ∀ i, (∀ j, i ≤ j → insAt ins j = insAt ins' j) → weave K ins i = weave K ins' i := by
  induction K with
  | nil => intro i h; simp [weave, h i (Nat.le_refl _)]
  | cons o K ih =>
    intro i h
    simp only [weave, h i (Nat.le_refl _)]
    rw [ih (i+1) (fun j hj => h j (by omega))]

theorem weave_cons (o : Option (Atom × Expr)) (K : List (Option (Atom × Expr)))
    (ins : List (Nat × List (Atom × Val))) (i : Nat) :
    weave (o :: K) ins i = insAt ins i ++ o.toList ++ weave K ins (i+1) := by
  cases o <;> rfl

theorem allIns_filter_perm (ins : List (Nat × List (Atom × Val))) (q : Nat × List (Atom × Val) → Bool) :
    allIns (ins.filter q) ++ allIns (ins.filter (fun p => !q p)) ~ allIns ins := by
  unfold allIns
  rw [← flatMap_append]
  exact Perm.flatMap_right _ (filter_append_perm q ins)

theorem weave_perm (K : List (Option (Atom × Expr))) : ∀ (ins : List (Nat × List (Atom × Val))) (i : Nat),
    (∀ p ∈ ins, i ≤ p.1 ∧ p.1 ≤ i + K.length) → weave K ins i ~ K.filterMap id ++ allIns ins := by
  induction K with
  | nil =>
    intro ins i h
    simp only [weave, insAt_eq, filterMap_nil, nil_append]
    rw [filter_eq_self.2]
    intro p hp
    have := h p hp
    simp at this ⊢; omega
  | cons o K ih =>
    intro ins i h
    rw [weave_cons]
    let ins' := ins.filter (fun p => !(p.1 == i))
    have h1 : weave K ins (i+1) = weave K ins' (i+1) := by
      apply weave_congr
      intro j hj
      simp only [insAt_eq, ins', filter_filter]
      congr 1
      apply filter_congr
      intro p _
      by_cases hpj : p.1 = j
      · simp [hpj]; omega
      · simp [hpj]
    have h2 := ih ins' (i+1) (by
      intro p hp
      simp only [ins', mem_filter, Bool.not_eq_eq_eq_not, Bool.not_true, beq_eq_false_iff_ne] at hp
      have := h p hp.1
      simp only [length_cons] at this
      omega)
    rw [h1]
    have h3 := allIns_filter_perm ins (fun p => p.1 == i)
    rw [insAt_eq]
    have hA : o.toList ++ filterMap id K = filterMap id (o :: K) := by cases o <;> simp
    calc allIns (filter (fun p => p.1 == i) ins) ++ o.toList ++ weave K ins' (i + 1)
        ~ allIns (filter (fun p => p.1 == i) ins) ++ o.toList
          ++ (filterMap id K ++ allIns ins') := Perm.append_left _ h2
      _ ~ (o.toList ++ filterMap id K) ++
          (allIns (filter (fun p => p.1 == i) ins) ++ allIns ins') := by
        simp only [append_assoc]
        refine (perm_append_comm_assoc _ _ _).trans (Perm.append_left _ ?_)
        exact perm_append_comm_assoc _ _ _
      _ ~ filterMap id (o :: K) ++ allIns ins := by
        rw [hA]; exact Perm.append_left _ h3

theorem weave_map (f : Atom × Expr → Atom × Expr) (K : List (Option (Atom × Expr)))
    (ins : List (Nat × List (Atom × Val))) (hf : ∀ q ∈ allIns ins, f q = q) :
    ∀ i, (weave K ins i).map f = weave (K.map (Option.map f)) ins i := by
  have hA : ∀ i, (insAt ins i).map f = insAt ins i := by
    intro i
    conv => rhs; rw [← map_id (insAt ins i)]
    exact map_congr_left (fun q hq => hf q (mem_insAt hq))
  induction K with
  | nil => intro i; simp [weave, hA]
  | cons o K ih =>
    intro i
    simp only [weave, map_append, hA, ih, map_cons, Option.map]
    cases o <;> simp

theorem weave_no_ins (K : List (Option (Atom × Expr))) (ins : List (Nat × List (Atom × Val)))
    (h : allIns ins = []) : ∀ i, weave K ins i = K.filterMap id := by
  have hA : ∀ i, insAt ins i = [] := by
    intro i
    cases hh : insAt ins i with
    | nil => rfl
    | cons q l =>
      have : q ∈ allIns ins := mem_insAt (by rw [hh]; simp)
      rw [h] at this; simp at this
  induction K with
  | nil => intro i; simp [weave, hA]
  | cons o K ih => intro i; simp only [weave, hA, ih]; cases o <;> simp

/-! `dictInserts` -/

theorem dictInserts_flat (ok : List Atom) (news : List (Atom × Val)) :
    ∀ pos pend, (dictInserts ok news pos pend).flatMap (·.2) =
      pend ++ news.filter (fun kv => !(ok.any (fun k' => Atom.pyEq kv.1 k'))) := by
  induction news with
  | nil => intro pos pend; simp [dictInserts]
  | cons kv news ih =>
    intro pos pend
    obtain ⟨k, v⟩ := kv
    simp only [dictInserts]
    by_cases h : ok.any (fun k' => Atom.pyEq k k') = true
    · simp [h, ih]
    · simp only [h, Bool.false_eq_true, ↓reduceIte, ih]
      simp only [Bool.not_eq_true] at h
      simp [h]

theorem dictInserts_pos (ok : List Atom) (news : List (Atom × Val)) :
    ∀ pos pend, ∀ p ∈ dictInserts ok news pos pend, pos ≤ p.1 ∨ p.1 = ok.length := by
  induction news with
  | nil => intro pos pend p hp; simp [dictInserts] at hp; simp [hp]
  | cons kv news ih =>
    intro pos pend p hp
    obtain ⟨k, v⟩ := kv
    simp only [dictInserts] at hp
    split at hp
    · rcases mem_cons.1 hp with rfl | hp
      · simp
      · rcases ih _ _ p hp with h | h
        · left; omega
        · right; exact h
    · exact ih _ _ p hp

theorem dictInserts_pos_le (ok : List Atom) (news : List (Atom × Val)) :
    ∀ pos pend, ∀ p ∈ dictInserts ok news pos pend,
      p.1 ≤ pos + (news.filter (fun kv => ok.any (fun k' => Atom.pyEq kv.1 k'))).length ∨
      p.1 = ok.length := by
  induction news with
  | nil => intro pos pend p hp; simp [dictInserts] at hp; simp [hp]
  | cons kv news ih =>
    intro pos pend p hp
    obtain ⟨k, v⟩ := kv
    simp only [dictInserts] at hp
    by_cases h : ok.any (fun k' => Atom.pyEq k k') = true
    · simp only [h, ↓reduceIte] at hp
      rcases mem_cons.1 hp with rfl | hp
      · left; simp
      · rcases ih _ _ p hp with h1 | h1
        · left; simp only [filter_cons, h, ↓reduceIte, length_cons]; omega
        · right; exact h1
    · simp only [h, Bool.false_eq_true, ↓reduceIte] at hp
      rcases ih _ _ p hp with h1 | h1
      · left; simp only [filter_cons, h, Bool.false_eq_true, ↓reduceIte]; exact h1
      · right; exact h1

theorem any_keys (k : Atom) (es : List (Atom × α)) :
    (es.map (·.1)).any (fun k' => Atom.pyEq k k') = hasKey k es := by
  simp [hasKey, any_map, Function.comp_def]

theorem hasKey_filter_le {k : Atom} {l : List (Atom × α)} {q : Atom × α → Bool}
    (h : hasKey k (l.filter q) = true) : hasKey k l = true := by
  obtain ⟨p, hp, hk⟩ := hasKey_iff.1 h
  exact hasKey_iff.2 ⟨p, (mem_filter.1 hp).1, hk⟩

theorem dkeys_filter {l : List (Atom × α)} (q : Atom × α → Bool) (h : dkeys l = true) :
    dkeys (l.filter q) = true := by
  induction l with
  | nil => rfl
  | cons p l ih =>
    simp only [dkeys_cons, Bool.and_eq_true, Bool.not_eq_eq_eq_not, Bool.not_true] at h
    simp only [filter_cons]
    split
    · simp only [dkeys_cons, Bool.and_eq_true, Bool.not_eq_eq_eq_not, Bool.not_true, ih h.2, and_true]
      cases hh : hasKey p.1 (filter q l) with
      | false => rfl
      | true => rw [hasKey_filter_le hh] at h; simp at h
    · exact ih h.2

theorem allIns_eq (ins : List (Nat × List (Atom × Val))) :
    allIns ins = (ins.flatMap (·.2)).map (fun kv => (kv.1, canon kv.2)) := by
  simp only [allIns, map_flatMap]; rfl

/-- the new entries: keys of the new value that no old entry has, in the order of the new value -/
def newEntries (es : List (Atom × Expr)) (news : List (Atom × Val)) : List (Atom × Expr) :=
  (news.filter (fun kv => !hasKey kv.1 es)).map (fun kv => (kv.1, canon kv.2))

theorem allIns_dictInserts (es : List (Atom × Expr)) (news : List (Atom × Val)) :
    allIns (dictInserts (es.map (·.1)) news 0 []) = newEntries es news := by
  rw [allIns_eq, dictInserts_flat]
  simp only [any_keys, nil_append, newEntries]

theorem anyIns_eq (es : List (Atom × Expr)) (news : List (Atom × Val)) :
    (dictInserts (es.map (·.1)) news 0 []).any (fun p => !p.2.isEmpty) =
      news.any (fun kv => !hasKey kv.1 es) := by
  have h := dictInserts_flat (es.map (·.1)) news 0 []
  simp only [any_keys, nil_append] at h
  rw [Bool.eq_iff_iff]
  constructor
  · intro h1
    simp only [any_eq_true] at h1
    obtain ⟨p, hp, hne⟩ := h1
    cases hp2 : p.2 with
    | nil => simp [hp2] at hne
    | cons kv r =>
      have : kv ∈ (dictInserts (es.map (·.1)) news 0 []).flatMap (·.2) :=
        mem_flatMap.2 ⟨p, hp, by simp [hp2]⟩
      rw [h, mem_filter] at this
      exact any_eq_true.2 ⟨kv, this.1, this.2⟩
  · intro h1
    simp only [any_eq_true] at h1
    obtain ⟨kv, hkv, hne⟩ := h1
    have : kv ∈ (dictInserts (es.map (·.1)) news 0 []).flatMap (·.2) := by
      rw [h, mem_filter]; exact ⟨hkv, hne⟩
    obtain ⟨p, hp, hkp⟩ := mem_flatMap.1 this
    refine any_eq_true.2 ⟨p, hp, ?_⟩
    cases hp2 : p.2 with
    | nil => simp [hp2] at hkp
    | cons _ _ => simp

/-- after `fix` the entries are the kept ones and the new ones, up to order -/
theorem dict_fix_perm (es : List (Atom × Expr)) (news : List (Atom × Val)) (hd : dkeys news = true)
    (K : List (Option (Atom × Expr))) (hK : K.length = es.length) :
    weave K (dictInserts (es.map (·.1)) news 0 []) 0 ~ K.filterMap id ++ newEntries es news := by
  rw [← allIns_dictInserts]
  apply weave_perm
  intro p hp
  refine ⟨Nat.zero_le _, ?_⟩
  have hle : (news.filter (fun kv => hasKey kv.1 es)).length ≤ es.length :=
    length_le_of_keys_into (dkeys_filter _ hd) (fun q hq => (mem_filter.1 hq).2)
  rcases dictInserts_pos_le _ _ _ _ p hp with h | h
  · simp only [any_keys] at h; omega
  · simp at h; omega

end ISnap.Assign


/-! ## part: AssignMain2 -/
/-
  The expression after a run stays managed / well formed; approving `fix` repairs the value.
-/
namespace ISnap.Assign
open ISnap ISnap.Align List

/-! ### `dkeys` and permutations -/

theorem dkeys_iff_pairwise {l : List (Atom × α)} :
    dkeys l = true ↔ l.Pairwise (fun p q => Atom.pyEq p.1 q.1 = false) := by
  induction l with
  | nil => simp
  | cons p l ih =>
    simp only [dkeys_cons, Bool.and_eq_true, Bool.not_eq_eq_eq_not, Bool.not_true, ih, pairwise_cons,
      hasKey, any_eq_false]
    simp

theorem dkeys_perm {l l' : List (Atom × α)} (h : l ~ l') : dkeys l = dkeys l' := by
  rw [Bool.eq_iff_iff, dkeys_iff_pairwise, dkeys_iff_pairwise]
  exact h.pairwise_iff (fun {x y} hxy => by rw [atomEq_symm]; exact hxy)

theorem hasKey_perm {l l' : List (Atom × α)} (h : l ~ l') (k : Atom) : hasKey k l = hasKey k l' := by
  rw [Bool.eq_iff_iff, hasKey_iff, hasKey_iff]
  constructor
  · rintro ⟨p, hp, hk⟩; exact ⟨p, h.mem_iff.1 hp, hk⟩
  · rintro ⟨p, hp, hk⟩; exact ⟨p, h.mem_iff.2 hp, hk⟩

theorem dkeys_append {l l' : List (Atom × α)} : dkeys (l ++ l') = true ↔
    dkeys l = true ∧ dkeys l' = true ∧ ∀ p ∈ l, hasKey p.1 l' = false := by
  simp only [dkeys_iff_pairwise, pairwise_append, hasKey, any_eq_false]
  simp

theorem dkeys_filterMap {l : List (Atom × α)} {f : Atom × α → Option (Atom × β)}
    (hf : ∀ p q, f p = some q → q.1 = p.1) (h : dkeys l = true) : dkeys (l.filterMap f) = true := by
  induction l with
  | nil => rfl
  | cons p l ih =>
    simp only [dkeys_cons, Bool.and_eq_true, Bool.not_eq_eq_eq_not, Bool.not_true] at h
    simp only [filterMap_cons]
    split
    · exact ih h.2
    · rename_i q hq
      simp only [dkeys_cons, Bool.and_eq_true, Bool.not_eq_eq_eq_not, Bool.not_true, ih h.2, and_true]
      cases hh : hasKey q.1 (filterMap f l) with
      | false => rfl
      | true =>
        obtain ⟨r, hr, hk⟩ := hasKey_iff.1 hh
        obtain ⟨r0, hr0, hfr⟩ := mem_filterMap.1 hr
        have : hasKey p.1 l = true := hasKey_iff.2 ⟨r0, hr0, by
          rw [← hf _ _ hq, ← hf _ _ hfr]; exact hk⟩
        rw [this] at h; simp at h

/-! ### the entries of a dict display after a run -/

def keptL (F : Flags) (es : List (Atom × Expr)) (news : List (Atom × Val)) : List (Atom × Expr) :=
  es.filterMap (keptE F news)

theorem keptE_fst {F news p q} (h : keptE F news p = some q) : q.1 = p.1 := by
  unfold keptE at h
  split at h
  · split at h <;> simp at h; rw [← h]
  · simp at h; rw [← h]

theorem filterMap_id_map (es : List (Atom × Expr)) (f : Atom × Expr → Option (Atom × Expr)) :
    (es.map f).filterMap id = es.filterMap f := by
  rw [filterMap_map]; rfl

theorem assign_dict_expr {F : Flags} {es : List (Atom × Expr)} {n : Val}
    (hty : (eval (.dict es)).ty = n.ty) (hs : es.any (fun kv => isStar kv.2) = false) :
    (assign F (.dict es) n).expr = .dict (if F.fix then
      weave (es.map (keptE F (dictOf n))) (dictInserts (es.map (·.1)) (dictOf n) 0 []) 0
      else keptL F es (dictOf n)) := by
  rw [assign_dict]
  simp only [hty, ne_eq, not_true_eq_false, ↓reduceIte, hs, Bool.false_eq_true, assignDictOld_snd,
    keptOpt_eq, filterMap_id_map, keptL]

theorem assign_dict_cats {F : Flags} {es : List (Atom × Expr)} {n : Val}
    (hty : (eval (.dict es)).ty = n.ty) (hs : es.any (fun kv => isStar kv.2) = false) :
    (assign F (.dict es) n).cats = unionCats
      (es.foldr (fun p acc => unionCats (oldCats F (dictOf n) p) acc) Flags.empty)
      (if (dictOf n).any (fun kv => !hasKey kv.1 es) then Flags.single .fix else Flags.empty) := by
  rw [assign_dict]
  simp only [hty, ne_eq, not_true_eq_false, ↓reduceIte, hs, Bool.false_eq_true, assignDictOld_fst,
    anyIns_eq]

/-- entries after the run, up to order -/
theorem entries_perm (F : Flags) (es : List (Atom × Expr)) (news : List (Atom × Val))
    (hd : dkeys news = true) :
    weave (es.map (keptE F news)) (dictInserts (es.map (·.1)) news 0 []) 0 ~
      keptL F es news ++ newEntries es news := by
  have := dict_fix_perm es news hd (es.map (keptE F news)) (by simp)
  rwa [filterMap_id_map] at this

theorem mem_keptL {F es news q} (h : q ∈ keptL F es news) :
    ∃ p ∈ es, q.1 = p.1 ∧ ((lookupA p.1 news = none ∧ F.fix = false ∧ q = p) ∨
      ∃ n, lookupA p.1 news = some n ∧ q = (p.1, (assign F p.2 n).expr)) := by
  obtain ⟨p, hp, hq⟩ := mem_filterMap.1 h
  refine ⟨p, hp, keptE_fst hq, ?_⟩
  unfold keptE at hq
  split at hq
  · rename_i hl
    split at hq
    · simp at hq
    · rename_i hfix
      simp at hq; left; exact ⟨hl, by simpa using hfix, hq.symm⟩
  · rename_i n hl
    simp at hq; right; exact ⟨n, hl, hq.symm⟩

theorem mem_newEntries {es news q} (h : q ∈ newEntries es news) :
    ∃ kv ∈ news, hasKey kv.1 es = false ∧ q = (kv.1, canon kv.2) := by
  simp only [newEntries, mem_map, mem_filter] at h
  obtain ⟨kv, ⟨h1, h2⟩, rfl⟩ := h
  exact ⟨kv, h1, by simpa using h2, rfl⟩

theorem dkeys_keptL {F es news} (h : dkeys es = true) : dkeys (keptL F es news) = true :=
  dkeys_filterMap (fun _ _ hq => keptE_fst hq) h

theorem dkeys_entries {F : Flags} {es : List (Atom × Expr)} {news : List (Atom × Val)}
    (he : dkeys es = true) (hn : dkeys news = true) :
    dkeys (keptL F es news ++ newEntries es news) = true := by
  rw [dkeys_append]
  refine ⟨dkeys_keptL he, ?_, ?_⟩
  · unfold newEntries
    rw [dkeys_map _ (fun kv => (kv.1, canon kv.2)) (fun _ => rfl)]
    exact dkeys_filter _ hn
  · intro q hq
    obtain ⟨p, hp, hqp, _⟩ := mem_keptL hq
    cases hh : hasKey q.1 (newEntries es news) with
    | false => rfl
    | true =>
      obtain ⟨r, hr, hk⟩ := hasKey_iff.1 hh
      obtain ⟨kv, _, hno, rfl⟩ := mem_newEntries hr
      have : hasKey kv.1 es = true := hasKey_iff.2 ⟨p, hp, by
        rw [atomEq_symm, ← hqp]; exact hk⟩
      rw [this] at hno; simp at hno

/-! ### `ge` is preserved -/

theorem leafOut_ge {F e v n c} (he : ge e = true) (hn : gv n = true) :
    ge (leafOut F e v n c).expr = true := by
  unfold leafOut
  split
  · simp only; split <;> simp [he, ge_canon n hn]
  · split
    · simp only; split <;> simp [he, ge_canon n hn]
    · exact he

theorem seq_ge {F : Flags} {sc es ns} (hw : Walk sc es ns)
    (ih : ∀ e ∈ es, ge e = true ∧ ∀ n, gv n = true → ge (assign F e n).expr = true)
    (hn : ∀ n ∈ ns, gv n = true) : ∀ e' ∈ (assignSeq F sc es ns).2.2, ge e' = true := by
  induction hw with
  | nil => simp
  | m _ ih2 =>
    rw [assignSeq_m]
    intro e' he'
    rcases mem_cons.1 he' with rfl | he'
    · exact (ih _ (by simp)).2 _ (hn _ (by simp))
    · exact ih2 (fun e he => ih e (by simp [he])) (fun n h => hn n (by simp [h])) e' he'
  | x _ ih2 =>
    rw [assignSeq_x]
    intro e' he'
    rcases mem_cons.1 he' with rfl | he'
    · exact (ih _ (by simp)).2 _ (hn _ (by simp))
    · exact ih2 (fun e he => ih e (by simp [he])) (fun n h => hn n (by simp [h])) e' he'
  | i _ ih2 =>
    rw [assignSeq_i]
    intro e' he'
    have := ih2 ih (fun n h => hn n (by simp [h]))
    split at he'
    · rcases mem_cons.1 he' with rfl | he'
      · exact ge_canon _ (hn _ (by simp))
      · exact this e' he'
    · exact this e' he'
  | d _ ih2 =>
    rw [assignSeq_d]
    intro e' he'
    have := ih2 (fun e he => ih e (by simp [he])) hn
    split at he'
    · exact this e' he'
    · rcases mem_cons.1 he' with rfl | he'
      · exact (ih _ (by simp)).1
      · exact this e' he'

theorem ge_run_gen (F : Flags) : ∀ e, ge e = true → ∀ n, gv n = true →
    ge (assign F e n).expr = true := by
  intro e
  induction e using Expr.ind with
  | leaf t c v =>
    intro h n hn; rw [assign_leaf (by simpa using h)]; exact leafOut_ge h hn
  | unm t v => simp
  | fstr t v => simp
  | star e _ => simp
  | seq tup es ih =>
    intro h n hn
    have h' := h
    simp only [ge_seq, geL_iff] at h
    rw [assign_seq]
    split
    · exact leafOut_ge h' hn
    · have hs := any_isStar_false h
      simp only [hs, Bool.false_eq_true, ↓reduceIte, ge_seq, geL_iff]
      exact seq_ge (walk_script hs _) (fun e he => ⟨h e he, ih e he (h e he)⟩) (gv_listOf hn)
  | dict es ih =>
    intro h n hn
    have h' := h
    simp only [ge_dict, Bool.and_eq_true, geD_iff] at h
    by_cases hty : (eval (.dict es)).ty = n.ty
    · have hs := any_isStarD_false h.2
      rw [assign_dict_expr hty hs]
      obtain ⟨hdk, hgv⟩ := gv_dictOf hn
      generalize dictOf n = news at hdk hgv
      have hk : ∀ q ∈ keptL F es news, ge q.2 = true := by
        intro q hq
        obtain ⟨p, hp, _, h1 | ⟨n', hl, rfl⟩⟩ := mem_keptL hq
        · rw [h1.2.2]; exact h.2 p hp
        · obtain ⟨k', hm, _⟩ := lookupA_mem hl
          exact ih p hp (h.2 p hp) n' (hgv _ hm)
      simp only [ge_dict, Bool.and_eq_true, geD_iff]
      split
      · have hp := entries_perm F es news hdk
        refine ⟨by rw [dkeys_perm hp]; exact dkeys_entries h.1 hdk, ?_⟩
        intro q hq
        rcases mem_append.1 (hp.mem_iff.1 hq) with hq | hq
        · exact hk q hq
        · obtain ⟨kv, hkv, _, rfl⟩ := mem_newEntries hq
          exact ge_canon _ (hgv _ hkv)
      · exact ⟨dkeys_keptL h.1, hk⟩
    · rw [assign_dict]; simp only [ne_eq, hty, not_false_eq_true, ↓reduceIte]
      exact leafOut_ge h' hn

/-! ### approving `fix` repairs the value -/

theorem leafOut_fix {F : Flags} {e v n c} (hF : F.fix = true) (hev : eval e = v) (hn : gv n = true) :
    pyEq (eval (leafOut F e v n c).expr) n = true := by
  unfold leafOut
  cases h1 : pyEq v n
  · simp [hF, eval_canon_any, pyEq_refl n hn]
  · simp only [Bool.not_true, Bool.false_eq_true, ↓reduceIte]
    split
    · simp only; split
      · simp [eval_canon_any, pyEq_refl n hn]
      · rw [hev]; exact h1
    · simp only; rw [hev]; exact h1

theorem seq_fix {F : Flags} (hF : F.fix = true) {sc es ns} (hw : Walk sc es ns)
    (ih : ∀ e ∈ es, ∀ n, gv n = true → pyEq (eval (assign F e n).expr) n = true)
    (hn : ∀ n ∈ ns, gv n = true) :
    pyEq.eqL ((assignSeq F sc es ns).2.2.map eval) ns = true := by
  induction hw with
  | nil => simp
  | m _ ih2 =>
    rw [assignSeq_m]; simp only [map_cons, eqL_cons_cons, Bool.and_eq_true]
    exact ⟨ih _ (by simp) _ (hn _ (by simp)),
      ih2 (fun e he => ih e (by simp [he])) (fun n h => hn n (by simp [h]))⟩
  | x _ ih2 =>
    rw [assignSeq_x]; simp only [map_cons, eqL_cons_cons, Bool.and_eq_true]
    exact ⟨ih _ (by simp) _ (hn _ (by simp)),
      ih2 (fun e he => ih e (by simp [he])) (fun n h => hn n (by simp [h]))⟩
  | i _ ih2 =>
    rw [assignSeq_i]; simp only [hF, ↓reduceIte, map_cons, eqL_cons_cons, Bool.and_eq_true]
    exact ⟨by rw [eval_canon_any]; exact pyEq_refl _ (hn _ (by simp)),
      ih2 ih (fun n h => hn n (by simp [h]))⟩
  | d _ ih2 =>
    rw [assignSeq_d]; simp only [hF, ↓reduceIte]
    exact ih2 (fun e he => ih e (by simp [he])) hn

theorem mem_keptL_of {F : Flags} {es : List (Atom × Expr)} {news : List (Atom × Val)} {p n}
    (hp : p ∈ es) (hl : lookupA p.1 news = some n) :
    (p.1, (assign F p.2 n).expr) ∈ keptL F es news :=
  mem_filterMap.2 ⟨p, hp, by simp [keptE, hl]⟩

/-- after `fix`: the keys of the entries are exactly the keys of the new value -/
theorem entries_keys {F : Flags} (hF : F.fix = true) {es : List (Atom × Expr)}
    {news : List (Atom × Val)} {E : List (Atom × Expr)}
    (hp : E ~ keptL F es news ++ newEntries es news) :
    (∀ kv ∈ news, hasKey kv.1 E = true) ∧ (∀ q ∈ E, hasKey q.1 news = true) := by
  constructor
  · intro kv hkv
    rw [hasKey_perm hp]
    cases hh : hasKey kv.1 es with
    | false =>
      refine hasKey_iff.2 ⟨(kv.1, canon kv.2), mem_append.2 (Or.inr ?_), atomEq_refl _⟩
      simp only [newEntries, mem_map, mem_filter]
      exact ⟨kv, ⟨hkv, by simp [hh]⟩, rfl⟩
    | true =>
      obtain ⟨p, hp', hk⟩ := hasKey_iff.1 hh
      have : hasKey p.1 news = true := hasKey_iff.2 ⟨kv, hkv, by rw [atomEq_symm]; exact hk⟩
      rw [← lookupA_isSome] at this
      cases hl : lookupA p.1 news with
      | none => simp [hl] at this
      | some n' =>
        exact hasKey_iff.2 ⟨_, mem_append.2 (Or.inl (mem_keptL_of hp' hl)), hk⟩
  · intro q hq
    rcases mem_append.1 (hp.mem_iff.1 hq) with hq | hq
    · obtain ⟨p, _, hqp, h1 | ⟨n', hl, _⟩⟩ := mem_keptL hq
      · rw [hF] at h1; simp at h1
      · rw [hqp, ← lookupA_isSome, hl]; rfl
    · obtain ⟨kv, hkv, _, rfl⟩ := mem_newEntries hq
      exact hasKey_iff.2 ⟨kv, hkv, atomEq_refl _⟩

theorem entries_length {F : Flags} (hF : F.fix = true) {es : List (Atom × Expr)}
    {news : List (Atom × Val)} {E : List (Atom × Expr)}
    (hp : E ~ keptL F es news ++ newEntries es news) (he : dkeys es = true) (hn : dkeys news = true) :
    E.length = news.length := by
  obtain ⟨h1, h2⟩ := entries_keys hF hp
  have hE : dkeys E = true := by rw [dkeys_perm hp]; exact dkeys_entries he hn
  exact Nat.le_antisymm (length_le_of_keys_into hE h2) (length_le_of_keys_into hn h1)

theorem fix_repairs_gen (F : Flags) (hF : F.fix = true) : ∀ e, ge e = true → ∀ n, gv n = true →
    pyEq (eval (assign F e n).expr) n = true := by
  intro e
  induction e using Expr.ind with
  | leaf t c v =>
    intro h n hn; rw [assign_leaf (by simpa using h)]; exact leafOut_fix hF (by simp) hn
  | unm t v => simp
  | fstr t v => simp
  | star e _ => simp
  | seq tup es ih =>
    intro h n hn
    have hge := ge_run_gen F _ h n hn
    simp only [ge_seq, geL_iff] at h
    rw [assign_seq] at hge ⊢
    split
    · exact leafOut_fix hF rfl hn
    · rename_i hty
      simp only [ne_eq, Decidable.not_not] at hty
      have hs := any_isStar_false h
      simp only [hty, ne_eq, not_true_eq_false, hs, Bool.false_eq_true, ↓reduceIte, ge_seq, geL_iff] at hge ⊢
      have := seq_fix hF (walk_script hs (listOf n)) (fun e he n hn => ih e he (h e he) n hn)
        (gv_listOf hn)
      have hn' := ty_seq_eq hty
      rw [eval_seq, evalL_ge hge]
      cases tup <;> simp only [Bool.false_eq_true, ↓reduceIte] at hn' ⊢ <;>
      · rw [hn']; simpa [listOf] using this
  | dict es ih =>
    intro h n hn
    have hge := ge_run_gen F _ h n hn
    have h' := h
    simp only [ge_dict, Bool.and_eq_true, geD_iff] at h
    by_cases hty : (eval (.dict es)).ty = n.ty
    · have hs := any_isStarD_false h.2
      rw [assign_dict_expr hty hs] at hge ⊢
      have hn' := ty_dict_eq hty
      obtain ⟨hdk, hgv⟩ := gv_dictOf hn
      generalize dictOf n = news at hn' hdk hgv hge
      subst hn'
      simp only [hF, ↓reduceIte] at hge ⊢
      have hp := entries_perm F es news hdk
      generalize weave _ _ _ = E at hp hge
      simp only [ge_dict, Bool.and_eq_true, geD_iff] at hge
      rw [eval_dict, evalD_ge hge.2]
      simp only [pyEq_dict_dict, length_map, Bool.and_eq_true, beq_iff_eq, eqD_iff]
      refine ⟨entries_length hF hp h.1 hdk, ?_⟩
      intro q hq
      obtain ⟨q', hq', rfl⟩ := mem_map.1 hq
      simp only
      rcases mem_append.1 (hp.mem_iff.1 hq') with hq | hq
      · obtain ⟨p, hp', hqp, h1 | ⟨n', hl, rfl⟩⟩ := mem_keptL hq
        · rw [hF] at h1; simp at h1
        · refine ⟨n', hl, ?_⟩
          obtain ⟨k', hm, _⟩ := lookupA_mem hl
          exact ih p hp' (h.2 p hp') n' (hgv _ hm)
      · obtain ⟨kv, hkv, _, rfl⟩ := mem_newEntries hq
        exact ⟨kv.2, lookupA_self hdk hkv, by
          simp only [eval_canon_any]; exact pyEq_refl _ (hgv _ hkv)⟩
    · rw [assign_dict]; simp only [ne_eq, hty, not_false_eq_true, ↓reduceIte]
      exact leafOut_fix hF rfl hn

end ISnap.Assign


/-! ## part: AssignMain3 -/
/-
  Categories: `fix` is reported exactly when the values differ; a run whose approved categories do not
  occur among the reported ones changes nothing; without `fix` the value is kept.
-/
namespace ISnap.Assign
open ISnap ISnap.Align List

/-! ### flag sets -/

@[simp] theorem unionCats_fix (a b : Flags) : (unionCats a b).fix = (a.fix || b.fix) := rfl
@[simp] theorem unionCats_update (a b : Flags) : (unionCats a b).update = (a.update || b.update) := rfl
@[simp] theorem unionCats_create (a b : Flags) : (unionCats a b).create = (a.create || b.create) := rfl
@[simp] theorem unionCats_trim (a b : Flags) : (unionCats a b).trim = (a.trim || b.trim) := rfl
@[simp] theorem single_fix_fix : (Flags.single .fix).fix = true := rfl
@[simp] theorem single_fix_update : (Flags.single .fix).update = false := rfl
@[simp] theorem single_update_fix : (Flags.single .update).fix = false := rfl
@[simp] theorem single_update_update : (Flags.single .update).update = true := rfl
@[simp] theorem empty_fix : Flags.empty.fix = false := rfl
@[simp] theorem empty_update : Flags.empty.update = false := rfl

theorem foldr_fix {α : Type} (g : α → Flags) (l : List α) :
    (l.foldr (fun p acc => unionCats (g p) acc) Flags.empty).fix = l.any (fun p => (g p).fix) := by
  induction l with
  | nil => rfl
  | cons a l ih => simp [ih]

theorem foldr_update {α : Type} (g : α → Flags) (l : List α) :
    (l.foldr (fun p acc => unionCats (g p) acc) Flags.empty).update = l.any (fun p => (g p).update) := by
  induction l with
  | nil => rfl
  | cons a l ih => simp [ih]

theorem dict_cats_fix {F : Flags} {es : List (Atom × Expr)} {n : Val}
    (hty : (eval (.dict es)).ty = n.ty) (hs : es.any (fun kv => isStar kv.2) = false) :
    (assign F (.dict es) n).cats.fix =
      (es.any (fun p => (oldCats F (dictOf n) p).fix) || (dictOf n).any (fun kv => !hasKey kv.1 es)) := by
  rw [assign_dict_cats hty hs, unionCats_fix, foldr_fix]
  congr 1
  cases (dictOf n).any (fun kv => !hasKey kv.1 es) <;> rfl

theorem dict_cats_update {F : Flags} {es : List (Atom × Expr)} {n : Val}
    (hty : (eval (.dict es)).ty = n.ty) (hs : es.any (fun kv => isStar kv.2) = false) :
    (assign F (.dict es) n).cats.update = es.any (fun p => (oldCats F (dictOf n) p).update) := by
  rw [assign_dict_cats hty hs, unionCats_update, foldr_update]
  cases (dictOf n).any (fun kv => !hasKey kv.1 es) <;> simp

theorem any_not_hasKey_false {es : List (Atom × Expr)} {news : List (Atom × Val)} :
    news.any (fun kv => !hasKey kv.1 es) = false ↔ ∀ kv ∈ news, hasKey kv.1 es = true := by
  simp

theorem or_and_false {a b c : Bool} : ((a || b) && c) = false ↔ (a && c) = false ∧ (b && c) = false := by
  cases a <;> cases b <;> cases c <;> simp

/-! ### equal values: no `fix` reported -/

theorem leafOut_cats_fix (F e v n c) : (leafOut F e v n c).cats.fix = !pyEq v n := by
  unfold leafOut
  cases pyEq v n
  · simp
  · simp only [Bool.not_true, Bool.false_eq_true, ↓reduceIte]; split <;> simp

theorem seq_m_nofix {F : Flags} : ∀ (es : List Expr) (ns : List Val),
    pyEq.eqL (es.map eval) ns = true →
    (∀ e ∈ es, ∀ n, gv n = true → pyEq (eval e) n = true → (assign F e n).cats.fix = false) →
    (∀ n ∈ ns, gv n = true) →
    (assignSeq F (replicate es.length Dir.m) es ns).1.fix = false := by
  intro es
  induction es with
  | nil => intro ns _ _ _; simp
  | cons e es ih =>
    intro ns h hi hn
    cases ns with
    | nil => simp at h
    | cons n ns =>
      simp only [map_cons, eqL_cons_cons, Bool.and_eq_true] at h
      simp only [length_cons, replicate_succ, assignSeq_m, unionCats_fix, Bool.or_eq_false_iff]
      exact ⟨hi e (by simp) n (hn n (by simp)) h.1,
        ih ns h.2 (fun e he => hi e (by simp [he])) (fun n h => hn n (by simp [h]))⟩

theorem pyEq_seq_left {tup : Bool} {xs : List Val} {n : Val}
    (h : pyEq (if tup then .tuple xs else .list xs) n = true) :
    n = (if tup then .tuple (listOf n) else .list (listOf n)) ∧ pyEq.eqL xs (listOf n) = true := by
  cases tup <;> cases n <;> simp_all [pyEq, listOf]

theorem pyEq_dict_left {xs : List (Atom × Val)} {n : Val} (h : pyEq (.dict xs) n = true) :
    n = .dict (dictOf n) ∧ xs.length = (dictOf n).length ∧ pyEq.eqD xs (dictOf n) = true := by
  cases n <;> simp_all [pyEq, dictOf]

theorem nofix_of_eq (F : Flags) : ∀ e, ge e = true → ∀ n, gv n = true → pyEq (eval e) n = true →
    (assign F e n).cats.fix = false := by
  intro e
  induction e using Expr.ind with
  | leaf t c v =>
    intro h n hn heq; rw [assign_leaf (by simpa using h), leafOut_cats_fix]
    simpa using heq
  | unm t v => simp
  | fstr t v => simp
  | star e _ => simp
  | seq tup es ih =>
    intro h n hn heq
    simp only [ge_seq, geL_iff] at h
    rw [assign_seq]
    split
    · rw [leafOut_cats_fix]; simpa using heq
    · have hs := any_isStar_false h
      simp only [hs, Bool.false_eq_true, ↓reduceIte]
      rw [eval_seq, evalL_ge h] at heq
      obtain ⟨_, hL⟩ := pyEq_seq_left heq
      rw [evalL_ge h, script_of_eqL hL, length_map]
      exact seq_m_nofix es _ hL (fun e he => ih e he (h e he)) (gv_listOf hn)
  | dict es ih =>
    intro h n hn heq
    simp only [ge_dict, Bool.and_eq_true, geD_iff] at h
    have hs := any_isStarD_false h.2
    rw [eval_dict, evalD_ge h.2] at heq
    obtain ⟨hn', hlen, hD⟩ := pyEq_dict_left heq
    have hty : (eval (.dict es)).ty = n.ty := by rw [hn']; rfl
    rw [dict_cats_fix hty hs]
    obtain ⟨hdk, hgv⟩ := gv_dictOf hn
    generalize dictOf n = news at hn' hdk hgv hlen hD
    rw [eqD_iff] at hD
    rw [Bool.or_eq_false_iff, any_not_hasKey_false, any_eq_false]
    constructor
    · intro p hp
      rw [Bool.not_eq_true]
      obtain ⟨w, hw, hpw⟩ := hD (p.1, eval p.2) (mem_map.2 ⟨p, hp, rfl⟩)
      simp only at hw hpw
      simp only [oldCats, hw]
      obtain ⟨k', hm, _⟩ := lookupA_mem hw
      exact ih p hp (h.2 p hp) w (hgv _ hm) hpw
    · intro kv hkv
      have hsub : ∀ p ∈ es, hasKey p.1 news = true := by
        intro p hp
        obtain ⟨w, hw, _⟩ := hD (p.1, eval p.2) (mem_map.2 ⟨p, hp, rfl⟩)
        simp only at hw
        rw [← lookupA_isSome, hw]; rfl
      exact keys_onto h.1 hsub (by simp at hlen; omega) kv hkv

/-! ### no `fix` reported: equal values -/

theorem seq_nofix_eq {F : Flags} {sc es ns} (hw : Walk sc es ns)
    (hc : (assignSeq F sc es ns).1.fix = false)
    (ih : ∀ e ∈ es, ∀ n, gv n = true → (assign F e n).cats.fix = false → pyEq (eval e) n = true)
    (hn : ∀ n ∈ ns, gv n = true) : pyEq.eqL (es.map eval) ns = true := by
  induction hw with
  | nil => simp
  | m _ ih2 =>
    rw [assignSeq_m] at hc
    simp only [unionCats_fix, Bool.or_eq_false_iff] at hc
    simp only [map_cons, eqL_cons_cons, Bool.and_eq_true]
    exact ⟨ih _ (by simp) _ (hn _ (by simp)) hc.1,
      ih2 hc.2 (fun e he => ih e (by simp [he])) (fun n h => hn n (by simp [h]))⟩
  | x _ ih2 =>
    rw [assignSeq_x] at hc
    simp only [unionCats_fix, Bool.or_eq_false_iff] at hc
    simp only [map_cons, eqL_cons_cons, Bool.and_eq_true]
    exact ⟨ih _ (by simp) _ (hn _ (by simp)) hc.1,
      ih2 hc.2 (fun e he => ih e (by simp [he])) (fun n h => hn n (by simp [h]))⟩
  | i _ _ => rw [assignSeq_i] at hc; simp at hc
  | d _ _ => rw [assignSeq_d] at hc; simp at hc

theorem eq_of_nofix (F : Flags) : ∀ e, ge e = true → ∀ n, gv n = true →
    (assign F e n).cats.fix = false → pyEq (eval e) n = true := by
  intro e
  induction e using Expr.ind with
  | leaf t c v =>
    intro h n hn hc; rw [assign_leaf (by simpa using h), leafOut_cats_fix] at hc
    simpa using hc
  | unm t v => simp
  | fstr t v => simp
  | star e _ => simp
  | seq tup es ih =>
    intro h n hn hc
    simp only [ge_seq, geL_iff] at h
    rw [assign_seq] at hc
    split at hc
    · rw [leafOut_cats_fix] at hc; simpa using hc
    · rename_i hty
      simp only [ne_eq, Decidable.not_not] at hty
      have hs := any_isStar_false h
      simp only [hs, Bool.false_eq_true, ↓reduceIte] at hc
      have := seq_nofix_eq (walk_script hs _) hc (fun e he => ih e he (h e he)) (gv_listOf hn)
      have hn' := ty_seq_eq hty
      rw [eval_seq, evalL_ge h]
      cases tup <;> simp only [Bool.false_eq_true, ↓reduceIte] at hn' ⊢ <;>
      · rw [hn']; simpa [listOf] using this
  | dict es ih =>
    intro h n hn hc
    simp only [ge_dict, Bool.and_eq_true, geD_iff] at h
    have hs := any_isStarD_false h.2
    by_cases hty : (eval (.dict es)).ty = n.ty
    · rw [dict_cats_fix hty hs] at hc
      have hn' := ty_dict_eq hty
      obtain ⟨hdk, hgv⟩ := gv_dictOf hn
      generalize dictOf n = news at hn' hdk hgv hc
      subst hn'
      rw [Bool.or_eq_false_iff, any_not_hasKey_false, any_eq_false] at hc
      obtain ⟨hc1, hc2⟩ := hc
      rw [eval_dict, evalD_ge h.2]
      have hlook : ∀ p ∈ es, ∃ w, lookupA p.1 news = some w ∧ pyEq (eval p.2) w = true := by
        intro p hp
        have := hc1 p hp
        rw [Bool.not_eq_true] at this
        cases hl : lookupA p.1 news with
        | none => simp [oldCats, hl] at this
        | some w =>
          simp only [oldCats, hl] at this
          obtain ⟨k', hm, _⟩ := lookupA_mem hl
          exact ⟨w, rfl, ih p hp (h.2 p hp) w (hgv _ hm) this⟩
      simp only [pyEq_dict_dict, length_map, Bool.and_eq_true, beq_iff_eq, eqD_iff]
      constructor
      · apply Nat.le_antisymm
        · apply length_le_of_keys_into h.1
          intro p hp
          obtain ⟨w, hw, _⟩ := hlook p hp
          rw [← lookupA_isSome, hw]; rfl
        · exact length_le_of_keys_into hdk hc2
      · intro q hq
        obtain ⟨p, hp, rfl⟩ := mem_map.1 hq
        exact hlook p hp
    · rw [assign_dict] at hc
      simp only [ne_eq, hty, not_false_eq_true, ↓reduceIte, leafOut_cats_fix] at hc
      simpa using hc

/-! ### approved categories that were not reported: nothing happens -/

theorem leafOut_disjoint {F e v n c}
    (h1 : ((leafOut F e v n c).cats.fix && F.fix) = false)
    (h2 : ((leafOut F e v n c).cats.update && F.update) = false) : (leafOut F e v n c).expr = e := by
  unfold leafOut at h1 h2 ⊢
  split
  · rename_i h; simp only [h, ↓reduceIte, single_fix_fix, Bool.true_and] at h1; simp [h1]
  · rename_i h
    split
    · rename_i h'
      simp only [h, h', Bool.false_eq_true, ↓reduceIte, single_update_update, Bool.true_and] at h2
      simp [h2]
    · rfl

theorem seq_disjoint {F : Flags} {sc es ns} (hw : Walk sc es ns)
    (h1 : ((assignSeq F sc es ns).1.fix && F.fix) = false)
    (h2 : ((assignSeq F sc es ns).1.update && F.update) = false)
    (ih : ∀ e ∈ es, ∀ n, ((assign F e n).cats.fix && F.fix) = false →
      ((assign F e n).cats.update && F.update) = false → (assign F e n).expr = e) :
    (assignSeq F sc es ns).2.2 = es := by
  induction hw with
  | nil => simp
  | m _ ih2 =>
    rw [assignSeq_m] at h1 h2 ⊢
    simp only [unionCats_fix, unionCats_update, or_and_false] at h1 h2
    simp only [cons.injEq]
    exact ⟨ih _ (by simp) _ h1.1 h2.1, ih2 h1.2 h2.2 (fun e he => ih e (by simp [he]))⟩
  | x _ ih2 =>
    rw [assignSeq_x] at h1 h2 ⊢
    simp only [unionCats_fix, unionCats_update, or_and_false] at h1 h2
    simp only [cons.injEq]
    exact ⟨ih _ (by simp) _ h1.1 h2.1, ih2 h1.2 h2.2 (fun e he => ih e (by simp [he]))⟩
  | i _ ih2 =>
    rw [assignSeq_i] at h1 h2 ⊢
    simp only [unionCats_fix, unionCats_update, single_fix_fix, single_fix_update, Bool.true_or,
      Bool.true_and, Bool.false_or] at h1 h2
    simp only [h1, Bool.false_eq_true, ↓reduceIte]
    exact ih2 (by simp [h1]) h2 ih
  | d _ ih2 =>
    rw [assignSeq_d] at h1 h2 ⊢
    simp only [unionCats_fix, unionCats_update, single_fix_fix, single_fix_update, Bool.true_or,
      Bool.true_and, Bool.false_or] at h1 h2
    simp only [h1, Bool.false_eq_true, ↓reduceIte, cons.injEq, true_and]
    exact ih2 (by simp [h1]) h2 (fun e he => ih e (by simp [he]))

theorem filterMap_eq_self {α : Type} {f : α → Option α} {l : List α} (h : ∀ a ∈ l, f a = some a) :
    l.filterMap f = l := by
  induction l with
  | nil => rfl
  | cons a l ih => simp [h a (by simp), ih (fun b hb => h b (by simp [hb]))]

/-- a run that approves none of the reported categories leaves the expression alone (any expression) -/
theorem run_disjoint (F : Flags) : ∀ e n, ((assign F e n).cats.fix && F.fix) = false →
    ((assign F e n).cats.update && F.update) = false → (assign F e n).expr = e := by
  intro e
  induction e using Expr.ind with
  | leaf t c v =>
    intro n h1 h2
    by_cases hv : gv v = true
    · rw [assign_leaf hv] at h1 h2 ⊢; exact leafOut_disjoint h1 h2
    · cases v with
      | unmIs i v => rw [assign]
      | unmAny i => rw [assign]
      | _ => rw [assign] at h1 h2 ⊢ <;> first | exact leafOut_disjoint h1 h2 | simp
  | unm t v => simp
  | fstr t v => simp
  | star e _ => simp
  | seq tup es ih =>
    intro n h1 h2
    by_cases hty : (eval (.seq tup es)).ty = n.ty
    · cases hs : es.any isStar with
      | true => rw [assign_seq_star hty hs]
      | false =>
        rw [assign_seq_of hty hs] at h1 h2 ⊢
        simp only at h1 h2 ⊢
        rw [seq_disjoint (walk_script hs _) h1 h2 (fun e he n => ih e he n)]
    · rw [assign_seq_mismatch hty] at h1 h2 ⊢
      exact leafOut_disjoint h1 h2
  | dict es ih =>
    intro n h1 h2
    by_cases hty : (eval (.dict es)).ty = n.ty
    · cases hs : es.any (fun kv => isStar kv.2) with
      | true => rw [assign_dict_star hty hs]
      | false =>
        rw [dict_cats_fix hty hs] at h1
        rw [dict_cats_update hty hs] at h2
        rw [assign_dict_expr hty hs]
        generalize dictOf n = news at h1 h2
        have hk : F.fix = false ∨ (∀ p ∈ es, (oldCats F news p).fix = false) := by
          cases hF : F.fix with
          | false => exact Or.inl rfl
          | true =>
            right
            simp only [hF, Bool.and_true, Bool.or_eq_false_iff, any_eq_false] at h1
            intro p hp; simpa using h1.1 p hp
        have hkept : keptL F es news = es := by
          apply filterMap_eq_self
          intro p hp
          have hu : ((oldCats F news p).update && F.update) = false := by
            cases hF : F.update with
            | false => simp
            | true =>
              simp only [hF, Bool.and_true, any_eq_false] at h2
              simpa using h2 p hp
          unfold keptE
          cases hl : lookupA p.1 news with
          | none =>
            rcases hk with hk | hk
            · simp [hk]
            · have := hk p hp; simp [oldCats, hl] at this
          | some n' =>
            simp only [Option.some.injEq]
            simp only [oldCats, hl] at hu
            have hf : ((assign F p.2 n').cats.fix && F.fix) = false := by
              rcases hk with hk | hk
              · simp [hk]
              · have := hk p hp; simp only [oldCats, hl] at this; simp [this]
            rw [ih p hp n' hf hu]
        cases hF : F.fix with
        | false => simp [hkept]
        | true =>
          simp only [hF, Bool.and_true, Bool.or_eq_false_iff] at h1
          have : allIns (dictInserts (es.map (·.1)) news 0 []) = [] := by
            rw [allIns_dictInserts, newEntries, filter_eq_nil_iff.2, map_nil]
            intro kv hkv
            have := h1.2
            simp only [any_eq_false] at this
            exact this kv hkv
          simp only [↓reduceIte, weave_no_ins _ _ this, filterMap_id_map]
          exact congrArg Expr.dict hkept
    · rw [assign_dict_mismatch hty] at h1 h2 ⊢
      exact leafOut_disjoint h1 h2

/-- equal value and `update` not approved: the expression is untouched at every depth -/
theorem equal_kept_gen (F : Flags) (hu : F.update = false) (e : Expr) (he : ge e = true) (n : Val)
    (hn : gv n = true) (heq : pyEq (eval e) n = true) : (assign F e n).expr = e :=
  run_disjoint F e n (by rw [nofix_of_eq F e he n hn heq]; rfl) (by rw [hu]; simp)

end ISnap.Assign


/-! ## part: AssignMain4 -/
/-
  Without `fix` the value is kept; only `fix` and `update` are ever reported; the regenerated
  expression `canon n` is settled w.r.t. `n`.
-/
namespace ISnap.Assign
open ISnap ISnap.Align List

/-! ### without `fix` the value does not change -/

theorem leafOut_keep {F : Flags} {e v n c} (hF : F.fix = false) (hev : eval e = v)
    (hv : gv v = true) : pyEq v (eval (leafOut F e v n c).expr) = true := by
  unfold leafOut
  cases h1 : pyEq v n
  · simp [hF, hev, pyEq_refl v hv]
  · simp only [Bool.not_true, Bool.false_eq_true, ↓reduceIte]
    split
    · simp only; split
      · rw [eval_canon_any]; exact h1
      · rw [hev]; exact pyEq_refl v hv
    · simp only; rw [hev]; exact pyEq_refl v hv

theorem seq_keep {F : Flags} (hF : F.fix = false) {sc es ns} (hw : Walk sc es ns)
    (ih : ∀ e ∈ es, ge e = true ∧
      ∀ n, gv n = true → pyEq (eval e) (eval (assign F e n).expr) = true)
    (hn : ∀ n ∈ ns, gv n = true) :
    pyEq.eqL (es.map eval) ((assignSeq F sc es ns).2.2.map eval) = true := by
  induction hw with
  | nil => simp
  | m _ ih2 =>
    rw [assignSeq_m]; simp only [map_cons, eqL_cons_cons, Bool.and_eq_true]
    exact ⟨(ih _ (by simp)).2 _ (hn _ (by simp)),
      ih2 (fun e he => ih e (by simp [he])) (fun n h => hn n (by simp [h]))⟩
  | x _ ih2 =>
    rw [assignSeq_x]; simp only [map_cons, eqL_cons_cons, Bool.and_eq_true]
    exact ⟨(ih _ (by simp)).2 _ (hn _ (by simp)),
      ih2 (fun e he => ih e (by simp [he])) (fun n h => hn n (by simp [h]))⟩
  | i _ ih2 =>
    rw [assignSeq_i]; simp only [hF, Bool.false_eq_true, ↓reduceIte]
    exact ih2 ih (fun n h => hn n (by simp [h]))
  | d _ ih2 =>
    rw [assignSeq_d]
    simp only [hF, Bool.false_eq_true, ↓reduceIte, map_cons, eqL_cons_cons, Bool.and_eq_true]
    exact ⟨pyEq_refl _ (gv_eval _ (ih _ (by simp)).1), ih2 (fun e he => ih e (by simp [he])) hn⟩

/-- old entry with its expression after the run (when it stays) -/
def updE (F : Flags) (news : List (Atom × Val)) (p : Atom × Expr) : Atom × Expr :=
  match lookupA p.1 news with
  | none => p
  | some n => (p.1, (assign F p.2 n).expr)

@[simp] theorem updE_fst (F news p) : (updE F news p).1 = p.1 := by
  unfold updE; split <;> rfl

theorem keptL_eq_map {F : Flags} {es : List (Atom × Expr)} {news : List (Atom × Val)}
    (h : F.fix = false ∨ ∀ p ∈ es, hasKey p.1 news = true) :
    keptL F es news = es.map (updE F news) := by
  unfold keptL
  induction es with
  | nil => rfl
  | cons p es ih =>
    have ih' := ih (h.imp id (fun h q hq => h q (by simp [hq])))
    have : keptE F news p = some (updE F news p) := by
      unfold keptE updE
      cases hl : lookupA p.1 news with
      | some n => rfl
      | none =>
        rcases h with h | h
        · simp [h]
        · have := h p (by simp)
          rw [← lookupA_isSome, hl] at this; simp at this
    simp [this, ih']

theorem keep_gen (F : Flags) (hF : F.fix = false) : ∀ e, ge e = true → ∀ n, gv n = true →
    pyEq (eval e) (eval (assign F e n).expr) = true := by
  intro e
  induction e using Expr.ind with
  | leaf t c v =>
    intro h n hn; rw [assign_leaf (by simpa using h)]
    exact leafOut_keep hF (by simp) (by simpa using h)
  | unm t v => simp
  | fstr t v => simp
  | star e _ => simp
  | seq tup es ih =>
    intro h n hn
    have hge := ge_run_gen F _ h n hn
    have hgv := gv_eval _ h
    simp only [ge_seq, geL_iff] at h
    by_cases hty : (eval (.seq tup es)).ty = n.ty
    · have hs := any_isStar_false h
      rw [assign_seq_of hty hs] at hge ⊢
      simp only [ge_seq, geL_iff] at hge
      have := seq_keep hF (walk_script hs (listOf n)) (fun e he => ⟨h e he, ih e he (h e he)⟩)
        (gv_listOf hn)
      rw [eval_seq, eval_seq, evalL_ge hge]
      rw [evalL_ge h] at this ⊢
      cases tup <;> simpa using this
    · rw [assign_seq_mismatch hty]; exact leafOut_keep hF rfl hgv
  | dict es ih =>
    intro h n hn
    have hge := ge_run_gen F _ h n hn
    have hgv := gv_eval _ h
    simp only [ge_dict, Bool.and_eq_true, geD_iff] at h
    by_cases hty : (eval (.dict es)).ty = n.ty
    · have hs := any_isStarD_false h.2
      rw [assign_dict_expr hty hs] at hge ⊢
      obtain ⟨hdk, hgvn⟩ := gv_dictOf hn
      generalize dictOf n = news at hdk hgvn hge
      simp only [hF, Bool.false_eq_true, ↓reduceIte] at hge ⊢
      rw [keptL_eq_map (Or.inl hF)] at hge ⊢
      simp only [ge_dict, Bool.and_eq_true, geD_iff] at hge
      rw [eval_dict, eval_dict, evalD_ge h.2, evalD_ge hge.2]
      simp only [pyEq_dict_dict, length_map, beq_self_eq_true, Bool.true_and, eqD_iff]
      intro q hq
      obtain ⟨p, hp, rfl⟩ := mem_map.1 hq
      refine ⟨eval (updE F news p).2, ?_, ?_⟩
      · apply lookupA_self
        · rw [dkeys_map _ (fun p => (p.1, eval p.2)) (fun _ => rfl)]; exact hge.1
        · simp only [map_map, mem_map, Function.comp]
          exact ⟨p, hp, by simp⟩
      · simp only [updE]
        cases hl : lookupA p.1 news with
        | none => exact pyEq_refl _ (gv_eval _ (h.2 p hp))
        | some n' =>
          obtain ⟨k', hm, _⟩ := lookupA_mem hl
          exact ih p hp (h.2 p hp) n' (hgvn _ hm)
    · rw [assign_dict_mismatch hty]; exact leafOut_keep hF rfl hgv

/-! ### only `fix` and `update` are reported -/

theorem leafOut_create_trim (F e v n c) :
    (leafOut F e v n c).cats.create = false ∧ (leafOut F e v n c).cats.trim = false := by
  unfold leafOut; split
  · exact ⟨rfl, rfl⟩
  · split <;> exact ⟨rfl, rfl⟩

theorem seq_create_trim {F : Flags} {sc es ns} (hw : Walk sc es ns)
    (ih : ∀ e ∈ es, ∀ n, (assign F e n).cats.create = false ∧ (assign F e n).cats.trim = false) :
    (assignSeq F sc es ns).1.create = false ∧ (assignSeq F sc es ns).1.trim = false := by
  induction hw with
  | nil => simp only [assignSeq_nil]; exact ⟨rfl, rfl⟩
  | @m sc e es n ns _ ih2 =>
    rw [assignSeq_m]
    have h1 := ih e (by simp) n
    have h2 := ih2 (fun e he => ih e (by simp [he]))
    simp [h1, h2]
  | @x sc e es n ns _ ih2 =>
    rw [assignSeq_x]
    have h1 := ih e (by simp) n
    have h2 := ih2 (fun e he => ih e (by simp [he]))
    simp [h1, h2]
  | i _ ih2 =>
    rw [assignSeq_i]
    have h2 := ih2 ih
    simp only [unionCats_create, unionCats_trim, h2]; exact ⟨rfl, rfl⟩
  | d _ ih2 =>
    rw [assignSeq_d]
    have h2 := ih2 (fun e he => ih e (by simp [he]))
    simp only [unionCats_create, unionCats_trim, h2]; exact ⟨rfl, rfl⟩

theorem cats_create_trim (F : Flags) : ∀ e n,
    (assign F e n).cats.create = false ∧ (assign F e n).cats.trim = false := by
  intro e
  induction e using Expr.ind with
  | leaf t c v =>
    intro n
    cases v with
    | unmIs i v => rw [assign]; exact ⟨rfl, rfl⟩
    | unmAny i => rw [assign]; exact ⟨rfl, rfl⟩
    | _ => rw [assign] <;> first | exact leafOut_create_trim .. | simp
  | unm t v => intro n; simp; exact ⟨rfl, rfl⟩
  | fstr t v => intro n; simp; exact ⟨rfl, rfl⟩
  | star e _ => intro n; simp; exact ⟨rfl, rfl⟩
  | seq tup es ih =>
    intro n
    by_cases hty : (eval (.seq tup es)).ty = n.ty
    · cases hs : es.any isStar with
      | true => rw [assign_seq_star hty hs]; exact ⟨rfl, rfl⟩
      | false => rw [assign_seq_of hty hs]; exact seq_create_trim (walk_script hs _) ih
    · rw [assign_seq_mismatch hty]; exact leafOut_create_trim ..
  | dict es ih =>
    intro n
    by_cases hty : (eval (.dict es)).ty = n.ty
    · cases hs : es.any (fun kv => isStar kv.2) with
      | true => rw [assign_dict_star hty hs]; exact ⟨rfl, rfl⟩
      | false =>
        rw [assign_dict_cats hty hs]
        generalize dictOf n = news
        have : ∀ l : List (Atom × Expr), (∀ p ∈ l, p ∈ es) →
            (l.foldr (fun p acc => unionCats (oldCats F news p) acc) Flags.empty).create = false ∧
            (l.foldr (fun p acc => unionCats (oldCats F news p) acc) Flags.empty).trim = false := by
          intro l
          induction l with
          | nil => intro _; exact ⟨rfl, rfl⟩
          | cons p l ih2 =>
            intro hl
            have h2 := ih2 (fun q hq => hl q (by simp [hq]))
            have h1 : (oldCats F news p).create = false ∧ (oldCats F news p).trim = false := by
              unfold oldCats; split
              · exact ⟨rfl, rfl⟩
              · exact ih p (hl p (by simp)) _
            simp [h1, h2]
        have := this es (fun _ h => h)
        simp only [unionCats_create, unionCats_trim, this]
        split <;> exact ⟨rfl, rfl⟩
    · rw [assign_dict_mismatch hty]; exact leafOut_create_trim ..

theorem flags_eq_empty {f : Flags} (h1 : f.create = false) (h2 : f.fix = false) (h3 : f.trim = false)
    (h4 : f.update = false) : f = Flags.empty := by
  cases f; simp_all [Flags.empty]

/-! ### `canon n` is settled w.r.t. `n` -/

theorem seq_m_noupdate {F : Flags} : ∀ (es : List Expr) (ns : List Val), es.length = ns.length →
    (∀ i (h1 : i < es.length) (h2 : i < ns.length), (assign F es[i] ns[i]).cats.update = false) →
    (assignSeq F (replicate es.length Dir.m) es ns).1.update = false := by
  intro es
  induction es with
  | nil => intro ns _ _; simp
  | cons e es ih =>
    intro ns hl h
    cases ns with
    | nil => simp at hl
    | cons n ns =>
      simp only [length_cons, replicate_succ, assignSeq_m, unionCats_update, Bool.or_eq_false_iff]
      refine ⟨h 0 (by simp) (by simp), ih ns (by simpa using hl) (fun i h1 h2 => ?_)⟩
      exact h (i+1) (by simp; omega) (by simp; omega)

theorem canon_noupdate (F : Flags) : ∀ n, gv n = true → (assign F (canon n) n).cats.update = false := by
  intro n
  induction n using Val.ind with
  | atom a =>
    intro _
    rw [canon_atom, assign_leaf (by simp)]
    simp [leafOut, atomEq_refl, same]
  | list xs ih =>
    intro h
    have hc := ge_canon _ h
    simp only [gv_list, gvL_iff] at h
    simp only [canon_list, ge_seq, geL_iff] at hc
    rw [canon_list, assign_seq_of (by simp [eval_seq, Val.ty]) (any_isStar_false hc)]
    simp only [listOf]
    have hev : eval.evalL (map canon xs) = xs := by
      rw [evalL_ge hc, map_map]
      conv => rhs; rw [← map_id xs]
      exact map_congr_left (fun x _ => eval_canon_any x)
    have hrefl : pyEq.eqL xs xs = true := eqL_iff.2 ⟨rfl, fun i h1 _ =>
      pyEq_refl _ (h _ (getElem_mem h1))⟩
    rw [hev, script_of_eqL hrefl]
    have := seq_m_noupdate (F := F) (map canon xs) xs (by simp) (fun i h1 h2 => by
      simp only [getElem_map]
      exact ih _ (getElem_mem h2) (h _ (getElem_mem h2)))
    simpa using this
  | tuple xs ih =>
    intro h
    have hc := ge_canon _ h
    simp only [gv_tuple, gvL_iff] at h
    simp only [canon_tuple, ge_seq, geL_iff] at hc
    rw [canon_tuple, assign_seq_of (by simp [eval_seq, Val.ty]) (any_isStar_false hc)]
    simp only [listOf]
    have hev : eval.evalL (map canon xs) = xs := by
      rw [evalL_ge hc, map_map]
      conv => rhs; rw [← map_id xs]
      exact map_congr_left (fun x _ => eval_canon_any x)
    have hrefl : pyEq.eqL xs xs = true := eqL_iff.2 ⟨rfl, fun i h1 _ =>
      pyEq_refl _ (h _ (getElem_mem h1))⟩
    rw [hev, script_of_eqL hrefl]
    have := seq_m_noupdate (F := F) (map canon xs) xs (by simp) (fun i h1 h2 => by
      simp only [getElem_map]
      exact ih _ (getElem_mem h2) (h _ (getElem_mem h2)))
    simpa using this
  | dict kvs ih =>
    intro h
    have hc := ge_canon _ h
    simp only [gv_dict, Bool.and_eq_true, gvD_iff] at h
    simp only [canon_dict, ge_dict, Bool.and_eq_true, geD_iff] at hc
    rw [canon_dict, dict_cats_update (by simp [Val.ty]) (any_isStarD_false hc.2)]
    simp only [dictOf, any_map, any_eq_false, Function.comp, Bool.not_eq_true]
    intro p hp
    simp only [oldCats, lookupA_self h.1 hp]
    exact ih p hp (h.2 p hp)
  | unmIs i v _ => simp
  | unmAny i => simp

theorem canon_cats (F : Flags) (n : Val) (hn : gv n = true) :
    (assign F (canon n) n).cats = Flags.empty := by
  obtain ⟨h1, h3⟩ := cats_create_trim F (canon n) n
  exact flags_eq_empty h1
    (nofix_of_eq F _ (ge_canon n hn) n hn (by rw [eval_canon_any]; exact pyEq_refl n hn)) h3
    (canon_noupdate F n hn)

theorem canon_run (F : Flags) (n : Val) (hn : gv n = true) : (assign F (canon n) n).expr = canon n :=
  run_disjoint F _ _ (by rw [canon_cats F n hn]; rfl) (by rw [canon_cats F n hn]; rfl)

end ISnap.Assign


/-! ## part: AssignMain5 -/
/-
  Two runs in a row are one run with the union of the approved categories.
-/
namespace ISnap.Assign
open ISnap ISnap.Align List

@[simp] theorem union_fix (a b : Flags) : (a.union b).fix = (a.fix || b.fix) := rfl
@[simp] theorem union_update (a b : Flags) : (a.union b).update = (a.update || b.update) := rfl

theorem seq_ty (tup : Bool) (es : List Expr) :
    (eval (.seq tup es)).ty = if tup then Ty.tuple else Ty.list := by
  rw [eval_seq]; cases tup <;> rfl

theorem leafOut_compose {F₁ F₂ : Flags} {e : Expr} {v n : Val} {c : Bool} (hn : gv n = true)
    (h : ∀ F, assign F e n = leafOut F e v n c) :
    (assign F₂ (leafOut F₁ e v n c).expr n).expr = (leafOut (F₁.union F₂) e v n c).expr := by
  have h2 := h F₂
  simp only [leafOut] at h2 ⊢
  cases hA : pyEq v n <;> cases hB : (c && same v n) <;> cases hf1 : F₁.fix <;>
    cases hu1 : F₁.update <;>
    simp only [hA, hB, hf1, hu1, union_fix, union_update, Bool.not_true, Bool.not_false,
      Bool.false_eq_true, ↓reduceIte, Bool.false_or, Bool.true_or] at h2 ⊢ <;>
    first
      | exact canon_run _ _ hn
      | (rw [h2])

/-! ### sequences -/

theorem relE_congr {olds olds' news : List Val} (hl : olds.length = olds'.length)
    (h : ∀ i (h1 : i < olds.length) (h2 : i < olds'.length),
      gv olds[i] = true ∧ gv olds'[i] = true ∧ pyEq olds[i] olds'[i] = true) :
    relE olds news = relE olds' news := by
  funext i j
  unfold relE
  by_cases hi : i < olds.length
  · have hi' : i < olds'.length := hl ▸ hi
    obtain ⟨g1, g2, g3⟩ := h i hi hi'
    simp only [getElem?_eq_getElem hi, getElem?_eq_getElem hi']
    cases news[j]? with
    | none => rfl
    | some b => exact pyEq_congr_left g1 g2 g3 b
  · have hi' : ¬ i < olds'.length := hl ▸ hi
    simp [getElem?_eq_none (Nat.le_of_not_lt hi), getElem?_eq_none (Nat.le_of_not_lt hi')]

theorem script_congr {olds olds' news : List Val} (hl : olds.length = olds'.length)
    (h : ∀ i (h1 : i < olds.length) (h2 : i < olds'.length),
      gv olds[i] = true ∧ gv olds'[i] = true ∧ pyEq olds[i] olds'[i] = true) :
    script olds news = script olds' news := by
  unfold script; rw [relE_congr hl h, hl]

theorem seq_compose_nofix {F₁ F₂ : Flags} (hF : F₁.fix = false) {sc es ns} (hw : Walk sc es ns)
    (ih : ∀ e ∈ es, ∀ n, gv n = true →
      (assign F₂ (assign F₁ e n).expr n).expr = (assign (F₁.union F₂) e n).expr)
    (hn : ∀ n ∈ ns, gv n = true) :
    (assignSeq F₂ sc (assignSeq F₁ sc es ns).2.2 ns).2.2 = (assignSeq (F₁.union F₂) sc es ns).2.2 := by
  induction hw with
  | nil => simp
  | m _ ih2 =>
    simp only [assignSeq_m, cons.injEq]
    exact ⟨ih _ (by simp) _ (hn _ (by simp)),
      ih2 (fun e he => ih e (by simp [he])) (fun n h => hn n (by simp [h]))⟩
  | x _ ih2 =>
    simp only [assignSeq_x, cons.injEq]
    exact ⟨ih _ (by simp) _ (hn _ (by simp)),
      ih2 (fun e he => ih e (by simp [he])) (fun n h => hn n (by simp [h]))⟩
  | i _ ih2 =>
    simp only [assignSeq_i, hF, Bool.false_eq_true, ↓reduceIte, union_fix, Bool.false_or]
    rw [ih2 ih (fun n h => hn n (by simp [h]))]
  | d _ ih2 =>
    simp only [assignSeq_d, hF, Bool.false_eq_true, ↓reduceIte, union_fix, Bool.false_or]
    rw [ih2 (fun e he => ih e (by simp [he])) hn]

theorem seq_compose_fix {F₁ F₂ : Flags} (hF : F₁.fix = true) {sc es ns} (hw : Walk sc es ns)
    (ih : ∀ e ∈ es, ∀ n, gv n = true →
      (assign F₂ (assign F₁ e n).expr n).expr = (assign (F₁.union F₂) e n).expr)
    (hn : ∀ n ∈ ns, gv n = true) :
    (assignSeq F₂ (replicate (assignSeq F₁ sc es ns).2.2.length Dir.m) (assignSeq F₁ sc es ns).2.2 ns).2.2
      = (assignSeq (F₁.union F₂) sc es ns).2.2 := by
  induction hw with
  | nil => simp
  | m _ ih2 =>
    simp only [assignSeq_m, length_cons, replicate_succ, cons.injEq]
    exact ⟨ih _ (by simp) _ (hn _ (by simp)),
      ih2 (fun e he => ih e (by simp [he])) (fun n h => hn n (by simp [h]))⟩
  | x _ ih2 =>
    simp only [assignSeq_x, assignSeq_m, length_cons, replicate_succ, cons.injEq]
    exact ⟨ih _ (by simp) _ (hn _ (by simp)),
      ih2 (fun e he => ih e (by simp [he])) (fun n h => hn n (by simp [h]))⟩
  | i _ ih2 =>
    simp only [assignSeq_i, hF, ↓reduceIte, union_fix, Bool.true_or, length_cons, replicate_succ,
      assignSeq_m, cons.injEq]
    exact ⟨canon_run _ _ (hn _ (by simp)), ih2 ih (fun n h => hn n (by simp [h]))⟩
  | d _ ih2 =>
    simp only [assignSeq_d, hF, ↓reduceIte, union_fix, Bool.true_or]
    exact ih2 (fun e he => ih e (by simp [he])) hn

/-! ### the main statement -/

theorem compose_gen (F₁ F₂ : Flags) : ∀ e, ge e = true → ∀ n, gv n = true →
    (assign F₂ (assign F₁ e n).expr n).expr = (assign (F₁.union F₂) e n).expr := by
  intro e
  induction e using Expr.ind with
  | leaf t c v =>
    intro h n hn
    have hv : gv v = true := by simpa using h
    rw [assign_leaf hv, assign_leaf hv]
    exact leafOut_compose hn (fun F => assign_leaf hv)
  | unm t v => simp
  | fstr t v => simp
  | star e _ => simp
  | seq tup es ih =>
    intro h n hn
    have hge := ge_run_gen F₁ _ h n hn
    simp only [ge_seq, geL_iff] at h
    by_cases hty : (eval (.seq tup es)).ty = n.ty
    · have hs := any_isStar_false h
      rw [assign_seq_of hty hs] at hge
      rw [assign_seq_of hty hs, assign_seq_of hty hs]
      simp only [ge_seq, geL_iff] at hge ⊢
      have hs' := any_isStar_false hge
      have hty' : (eval (.seq tup
          (assignSeq F₁ (script (eval.evalL es) (listOf n)) es (listOf n)).2.2)).ty = n.ty :=
        (seq_ty _ _).trans ((seq_ty _ _).symm.trans hty)
      rw [assign_seq_of hty' hs']
      simp only [Expr.seq.injEq, true_and]
      have hw := walk_script hs (listOf n)
      have hgl := gv_listOf hn
      have ihe : ∀ e ∈ es, ∀ n, gv n = true →
          (assign F₂ (assign F₁ e n).expr n).expr = (assign (F₁.union F₂) e n).expr :=
        fun e he n hn => ih e he (h e he) n hn
      rw [evalL_ge hge]
      generalize hsc : script (eval.evalL es) (listOf n) = sc at hw hge
      cases hF : F₁.fix with
      | false =>
        have hk := seq_keep hF hw (fun e he => ⟨h e he, keep_gen F₁ hF e (h e he)⟩) hgl
        rw [eqL_iff] at hk
        have : script (map eval (assignSeq F₁ sc es (listOf n)).2.2) (listOf n) = sc := by
          have e1 := script_congr (news := listOf n) hk.1 (by
            intro i h1 h2
            refine ⟨?_, ?_, hk.2 i h1 h2⟩
            · simp only [getElem_map]; exact gv_eval _ (h _ (getElem_mem _))
            · simp only [getElem_map]; exact gv_eval _ (hge _ (getElem_mem _)))
          rw [← e1, ← evalL_ge h]; exact hsc
        rw [this]
        exact seq_compose_nofix hF hw ihe hgl
      | true =>
        have hk := seq_fix hF hw (fun e he n hn => fix_repairs_gen F₁ hF e (h e he) n hn) hgl
        rw [script_of_eqL hk, length_map]
        exact seq_compose_fix hF hw ihe hgl
    · rw [assign_seq_mismatch hty, assign_seq_mismatch hty]
      exact leafOut_compose hn (fun F => assign_seq_mismatch hty)
  | dict es ih =>
    intro h n hn
    have hge := ge_run_gen F₁ _ h n hn
    simp only [ge_dict, Bool.and_eq_true, geD_iff] at h
    by_cases hty : (eval (.dict es)).ty = n.ty
    · have hs := any_isStarD_false h.2
      rw [assign_dict_expr hty hs] at hge
      rw [assign_dict_expr hty hs, assign_dict_expr hty hs]
      obtain ⟨hdk, hgvn⟩ := gv_dictOf hn
      have ihe : ∀ p ∈ es, ∀ n', lookupA p.1 (dictOf n) = some n' →
          (assign F₂ (assign F₁ p.2 n').expr n').expr = (assign (F₁.union F₂) p.2 n').expr := by
        intro p hp n' hl
        obtain ⟨k', hm, _⟩ := lookupA_mem hl
        exact ih p hp (h.2 p hp) n' (hgvn _ hm)
      cases hF : F₁.fix with
      | false =>
        simp only [hF, Bool.false_eq_true, ↓reduceIte, union_fix, Bool.false_or] at hge ⊢
        rw [keptL_eq_map (Or.inl hF)] at hge ⊢
        have hty' : (eval (.dict (map (updE F₁ (dictOf n)) es))).ty = n.ty := hty
        simp only [ge_dict, Bool.and_eq_true, geD_iff] at hge
        rw [assign_dict_expr hty' (any_isStarD_false hge.2)]
        have hkeys : map (·.1) (map (updE F₁ (dictOf n)) es) = map (·.1) es := by
          simp [map_map, Function.comp_def]
        have hK : ∀ p ∈ es, keptE F₂ (dictOf n) (updE F₁ (dictOf n) p) =
            keptE (F₁.union F₂) (dictOf n) p := by
          intro p hp
          unfold keptE
          rw [updE_fst]
          cases hl : lookupA p.1 (dictOf n) with
          | none => simp [updE, hl, hF]
          | some n' => simp [updE, hl, ihe p hp n' hl]
        have hKm : map (keptE F₂ (dictOf n)) (map (updE F₁ (dictOf n)) es) =
            map (keptE (F₁.union F₂) (dictOf n)) es := by
          rw [map_map]; exact map_congr_left hK
        simp only [keptL]
        rw [← filterMap_id_map (map _ es) (keptE F₂ _), ← filterMap_id_map es (keptE (F₁.union F₂) _),
          hKm, hkeys]
      | true =>
        simp only [hF, ↓reduceIte, union_fix, Bool.true_or] at hge ⊢
        have hp := entries_perm F₁ es (dictOf n) hdk
        generalize hE : weave (map (keptE F₁ (dictOf n)) es)
          (dictInserts (map (·.1) es) (dictOf n) 0 []) 0 = E at hp hge
        have hty' : (eval (.dict E)).ty = n.ty := hty
        simp only [ge_dict, Bool.and_eq_true, geD_iff] at hge
        rw [assign_dict_expr hty' (any_isStarD_false hge.2)]
        obtain ⟨hk1, hk2⟩ := entries_keys hF hp
        have hnone : allIns (dictInserts (map (·.1) E) (dictOf n) 0 []) = [] := by
          rw [allIns_dictInserts, newEntries, filter_eq_nil_iff.2, map_nil]
          intro kv hkv; simp [hk1 kv hkv]
        have hres : (if F₂.fix = true then
            weave (map (keptE F₂ (dictOf n)) E) (dictInserts (map (·.1) E) (dictOf n) 0 []) 0
            else keptL F₂ E (dictOf n)) = map (updE F₂ (dictOf n)) E := by
          rw [weave_no_ins _ _ hnone, filterMap_id_map]
          change (if F₂.fix = true then keptL F₂ E (dictOf n) else keptL F₂ E (dictOf n)) = _
          rw [ite_self]
          exact keptL_eq_map (Or.inr hk2)
        rw [hres, ← hE]
        rw [weave_map]
        · simp only [map_map]
          congr 2
          apply map_congr_left
          intro p hp'
          simp only [Function.comp, keptE, hF, ↓reduceIte, union_fix, Bool.true_or]
          cases hl : lookupA p.1 (dictOf n) with
          | none => rfl
          | some n' => simp [updE, hl, ihe p hp' n' hl]
        · intro q hq
          rw [allIns_dictInserts] at hq
          obtain ⟨kv, hkv, _, rfl⟩ := mem_newEntries hq
          simp only [updE, lookupA_self hdk hkv, canon_run _ _ (hgvn _ hkv)]
    · rw [assign_dict_mismatch hty, assign_dict_mismatch hty]
      exact leafOut_compose hn (fun F => assign_dict_mismatch hty)

end ISnap.Assign


/-! ## part: AssignMain6 -/
/-
  After a run with `fix` and `update` approved nothing is pending.
-/
namespace ISnap.Assign
open ISnap ISnap.Align List

theorem leafOut_noupdate {F F' : Flags} {e : Expr} {v n : Val} {c : Bool} (hf : F.fix = true)
    (hu : F.update = true) (hn : gv n = true) (h : ∀ F, assign F e n = leafOut F e v n c) :
    (assign F' (leafOut F e v n c).expr n).cats.update = false := by
  have h2 := h F'
  simp only [leafOut] at h2 ⊢
  cases hA : pyEq v n <;> cases hB : (c && same v n) <;>
    simp only [hA, hB, hf, hu, Bool.not_true, Bool.not_false, Bool.false_eq_true, ↓reduceIte] at h2 ⊢ <;>
    first
      | (rw [canon_cats _ _ hn]; rfl)
      | (rw [h2]; rfl)

theorem seq_noupdate_fix {F F' : Flags} (hF : F.fix = true) {sc es ns} (hw : Walk sc es ns)
    (ih : ∀ e ∈ es, ∀ n, gv n = true → (assign F' (assign F e n).expr n).cats.update = false)
    (hn : ∀ n ∈ ns, gv n = true) :
    (assignSeq F' (replicate (assignSeq F sc es ns).2.2.length Dir.m)
      (assignSeq F sc es ns).2.2 ns).1.update = false := by
  induction hw with
  | nil => simp
  | m _ ih2 =>
    simp only [assignSeq_m, length_cons, replicate_succ, unionCats_update, Bool.or_eq_false_iff]
    exact ⟨ih _ (by simp) _ (hn _ (by simp)),
      ih2 (fun e he => ih e (by simp [he])) (fun n h => hn n (by simp [h]))⟩
  | x _ ih2 =>
    simp only [assignSeq_x, assignSeq_m, length_cons, replicate_succ, unionCats_update,
      Bool.or_eq_false_iff]
    exact ⟨ih _ (by simp) _ (hn _ (by simp)),
      ih2 (fun e he => ih e (by simp [he])) (fun n h => hn n (by simp [h]))⟩
  | i _ ih2 =>
    simp only [assignSeq_i, hF, ↓reduceIte, length_cons, replicate_succ, assignSeq_m,
      unionCats_update, Bool.or_eq_false_iff]
    exact ⟨by rw [canon_cats _ _ (hn _ (by simp))]; rfl, ih2 ih (fun n h => hn n (by simp [h]))⟩
  | d _ ih2 =>
    simp only [assignSeq_d, hF, ↓reduceIte]
    exact ih2 (fun e he => ih e (by simp [he])) hn

theorem noupdate_after (F F' : Flags) (hf : F.fix = true) (hu : F.update = true) :
    ∀ e, ge e = true → ∀ n, gv n = true →
    (assign F' (assign F e n).expr n).cats.update = false := by
  intro e
  induction e using Expr.ind with
  | leaf t c v =>
    intro h n hn
    have hv : gv v = true := by simpa using h
    rw [assign_leaf hv]
    exact leafOut_noupdate hf hu hn (fun F => assign_leaf hv)
  | unm t v => simp
  | fstr t v => simp
  | star e _ => simp
  | seq tup es ih =>
    intro h n hn
    have hge := ge_run_gen F _ h n hn
    simp only [ge_seq, geL_iff] at h
    by_cases hty : (eval (.seq tup es)).ty = n.ty
    · have hs := any_isStar_false h
      rw [assign_seq_of hty hs] at hge ⊢
      simp only [ge_seq, geL_iff] at hge ⊢
      have hs' := any_isStar_false hge
      have hty' : (eval (.seq tup
          (assignSeq F (script (eval.evalL es) (listOf n)) es (listOf n)).2.2)).ty = n.ty :=
        (seq_ty _ _).trans ((seq_ty _ _).symm.trans hty)
      rw [assign_seq_of hty' hs']
      simp only
      have hw := walk_script hs (listOf n)
      have hgl := gv_listOf hn
      rw [evalL_ge hge]
      generalize script (eval.evalL es) (listOf n) = sc at hw hge
      have hk := seq_fix hf hw (fun e he n hn => fix_repairs_gen F hf e (h e he) n hn) hgl
      rw [script_of_eqL hk, length_map]
      exact seq_noupdate_fix hf hw (fun e he n hn => ih e he (h e he) n hn) hgl
    · rw [assign_seq_mismatch hty]
      exact leafOut_noupdate hf hu hn (fun F => assign_seq_mismatch hty)
  | dict es ih =>
    intro h n hn
    have hge := ge_run_gen F _ h n hn
    simp only [ge_dict, Bool.and_eq_true, geD_iff] at h
    by_cases hty : (eval (.dict es)).ty = n.ty
    · have hs := any_isStarD_false h.2
      rw [assign_dict_expr hty hs] at hge ⊢
      obtain ⟨hdk, hgvn⟩ := gv_dictOf hn
      simp only [hf, ↓reduceIte] at hge ⊢
      have hp := entries_perm F es (dictOf n) hdk
      generalize weave (map (keptE F (dictOf n)) es)
        (dictInserts (map (·.1) es) (dictOf n) 0 []) 0 = E at hp hge
      have hty' : (eval (.dict E)).ty = n.ty := hty
      simp only [ge_dict, Bool.and_eq_true, geD_iff] at hge
      rw [dict_cats_update hty' (any_isStarD_false hge.2), any_eq_false]
      intro q hq
      rw [Bool.not_eq_true]
      rcases mem_append.1 (hp.mem_iff.1 hq) with hq | hq
      · obtain ⟨p, hp', hqp, h1 | ⟨n', hl, rfl⟩⟩ := mem_keptL hq
        · rw [hf] at h1; simp at h1
        · simp only [oldCats, hl]
          obtain ⟨k', hm, _⟩ := lookupA_mem hl
          exact ih p hp' (h.2 p hp') n' (hgvn _ hm)
      · obtain ⟨kv, hkv, _, rfl⟩ := mem_newEntries hq
        simp only [oldCats, lookupA_self hdk hkv]
        rw [canon_cats _ _ (hgvn _ hkv)]; rfl
    · rw [assign_dict_mismatch hty]
      exact leafOut_noupdate hf hu hn (fun F => assign_dict_mismatch hty)

/-- after a run with `fix` and `update` approved no category is reported any more -/
theorem nothing_pending_gen (F F' : Flags) (hf : F.fix = true) (hu : F.update = true) (e : Expr)
    (he : ge e = true) (n : Val) (hn : gv n = true) :
    (assign F' (assign F e n).expr n).cats = Flags.empty := by
  obtain ⟨h1, h3⟩ := cats_create_trim F' (assign F e n).expr n
  exact flags_eq_empty h1
    (nofix_of_eq F' _ (ge_run_gen F e he n hn) n hn (fix_repairs_gen F hf e he n hn)) h3
    (noupdate_after F F' hf hu e he n hn)

end ISnap.Assign


/-! ## part: AssignMain7 -/
/-
  Unmanaged nodes (C10).
-/
namespace ISnap.Assign
open ISnap ISnap.Align List

@[simp] theorem ul_leaf (t c v) : unmLeaves (.leaf t c v) = [] := by simp [unmLeaves]
@[simp] theorem ul_unm (t v) : unmLeaves (.unm t v) = [.unm t v] := by simp [unmLeaves]
@[simp] theorem ul_fstr (t v) : unmLeaves (.fstr t v) = [.fstr t v] := by simp [unmLeaves]
@[simp] theorem ul_star (e) : unmLeaves (.star e) = unmLeaves e := by simp [unmLeaves]
@[simp] theorem ul_seq (t es) : unmLeaves (.seq t es) = unmLeaves.ulL es := by simp [unmLeaves]
@[simp] theorem ul_dict (es) : unmLeaves (.dict es) = unmLeaves.ulD es := by simp [unmLeaves]
@[simp] theorem ulL_nil : unmLeaves.ulL [] = [] := by simp [unmLeaves.ulL]
@[simp] theorem ulL_cons (e es) : unmLeaves.ulL (e :: es) = unmLeaves e ++ unmLeaves.ulL es := by
  simp [unmLeaves.ulL]
@[simp] theorem ulD_nil : unmLeaves.ulD [] = [] := by simp [unmLeaves.ulD]
@[simp] theorem ulD_cons (p es) : unmLeaves.ulD (p :: es) = unmLeaves p.2 ++ unmLeaves.ulD es := by
  cases p; simp [unmLeaves.ulD]

theorem ulD_append (a b : List (Atom × Expr)) :
    unmLeaves.ulD (a ++ b) = unmLeaves.ulD a ++ unmLeaves.ulD b := by
  induction a with
  | nil => simp
  | cons p a ih => simp [ih]

theorem ulD_eq_nil {a : List (Atom × Expr)} (h : ∀ q ∈ a, unmLeaves q.2 = []) :
    unmLeaves.ulD a = [] := by
  induction a with
  | nil => simp
  | cons p a ih => simp [h p (by simp), ih (fun q hq => h q (by simp [hq]))]

theorem okL_iff {xs : List Val} : valOk.okL xs = true ↔ ∀ x ∈ xs, valOk x = true := by
  induction xs with
  | nil => simp [valOk.okL]
  | cons x xs ih => simp [valOk.okL, ih]

theorem okD_iff {kvs : List (Atom × Val)} : valOk.okD kvs = true ↔ ∀ p ∈ kvs, valOk p.2 = true := by
  induction kvs with
  | nil => simp [valOk.okD]
  | cons p kvs ih => cases p; simp [valOk.okD, ih]

theorem valOk_listOf {n : Val} (h : valOk n = true) : ∀ x ∈ listOf n, valOk x = true := by
  cases n <;> simp_all [listOf, valOk, okL_iff]

theorem valOk_dictOf {n : Val} (h : valOk n = true) : ∀ p ∈ dictOf n, valOk p.2 = true := by
  cases n <;> simp_all [dictOf, valOk]
  exact fun a b hab => okD_iff.1 h (a, b) hab

/-- the expression written for an unmanaged-free value contains no unmanaged node -/
theorem ul_canon : ∀ v, valOk v = true → unmLeaves (canon v) = [] := by
  intro v
  induction v using Val.ind with
  | atom a => simp
  | list xs ih =>
    intro h; simp only [valOk, okL_iff] at h
    simp only [canon_list, ul_seq]
    induction xs with
    | nil => simp
    | cons x xs ih2 =>
      simp [ih x (by simp) (h x (by simp)),
        ih2 (fun y hy => ih y (by simp [hy])) (fun y hy => h y (by simp [hy]))]
  | tuple xs ih =>
    intro h; simp only [valOk, okL_iff] at h
    simp only [canon_tuple, ul_seq]
    induction xs with
    | nil => simp
    | cons x xs ih2 =>
      simp [ih x (by simp) (h x (by simp)),
        ih2 (fun y hy => ih y (by simp [hy])) (fun y hy => h y (by simp [hy]))]
  | dict kvs ih =>
    intro h; simp only [valOk, okD_iff] at h
    simp only [canon_dict, ul_dict]
    apply ulD_eq_nil
    intro q hq
    obtain ⟨p, hp, rfl⟩ := mem_map.1 hq
    exact ih p hp (h p hp)
  | unmIs i v _ => simp [valOk]
  | unmAny i => simp [valOk]

theorem leafOut_ul {F e v n c} (hn : valOk n = true) :
    (unmLeaves (leafOut F e v n c).expr).Sublist (unmLeaves e) := by
  unfold leafOut
  split
  · simp only; split
    · rw [ul_canon n hn]; exact nil_sublist _
    · exact Sublist.refl _
  · split
    · simp only; split
      · rw [ul_canon n hn]; exact nil_sublist _
      · exact Sublist.refl _
    · exact Sublist.refl _

theorem seq_ul {F : Flags} {sc es ns} (hw : Walk sc es ns)
    (ih : ∀ e ∈ es, ∀ n, valOk n = true → (unmLeaves (assign F e n).expr).Sublist (unmLeaves e))
    (hn : ∀ n ∈ ns, valOk n = true) :
    (unmLeaves.ulL (assignSeq F sc es ns).2.2).Sublist (unmLeaves.ulL es) := by
  induction hw with
  | nil => simp
  | m _ ih2 =>
    rw [assignSeq_m]; simp only [ulL_cons]
    exact (ih _ (by simp) _ (hn _ (by simp))).append
      (ih2 (fun e he => ih e (by simp [he])) (fun n h => hn n (by simp [h])))
  | x _ ih2 =>
    rw [assignSeq_x]; simp only [ulL_cons]
    exact (ih _ (by simp) _ (hn _ (by simp))).append
      (ih2 (fun e he => ih e (by simp [he])) (fun n h => hn n (by simp [h])))
  | @i sc es n ns _ ih2 =>
    rw [assignSeq_i]
    have := ih2 ih (fun n h => hn n (by simp [h]))
    split
    · simp only [ulL_cons, ul_canon n (hn n (by simp)), nil_append]; exact this
    · exact this
  | d _ ih2 =>
    rw [assignSeq_d]
    have := ih2 (fun e he => ih e (by simp [he])) hn
    split
    · simp only [ulL_cons]; exact this.trans (sublist_append_right _ _)
    · simp only [ulL_cons]; exact (Sublist.refl _).append this

theorem ulD_weave (K : List (Option (Atom × Expr))) (ins : List (Nat × List (Atom × Val)))
    (h : ∀ q ∈ allIns ins, unmLeaves q.2 = []) :
    ∀ i, unmLeaves.ulD (weave K ins i) = unmLeaves.ulD (K.filterMap id) := by
  have hA : ∀ i, unmLeaves.ulD (insAt ins i) = [] :=
    fun i => ulD_eq_nil (fun q hq => h q (mem_insAt hq))
  induction K with
  | nil => intro i; simp [weave, hA]
  | cons o K ih =>
    intro i
    rw [weave_cons, ulD_append, ulD_append, hA, ih]
    cases o <;> simp

theorem ul_keptL {F : Flags} {es : List (Atom × Expr)} {news : List (Atom × Val)}
    (ih : ∀ p ∈ es, ∀ n, valOk n = true → (unmLeaves (assign F p.2 n).expr).Sublist (unmLeaves p.2))
    (hn : ∀ p ∈ news, valOk p.2 = true) :
    (unmLeaves.ulD (keptL F es news)).Sublist (unmLeaves.ulD es) := by
  unfold keptL
  induction es with
  | nil => simp
  | cons p es ih2 =>
    have h2 := ih2 (fun q hq => ih q (by simp [hq]))
    simp only [filterMap_cons, ulD_cons]
    cases hk : keptE F news p with
    | none => exact h2.trans (sublist_append_right _ _)
    | some q =>
      simp only [ulD_cons]
      refine Sublist.append ?_ h2
      unfold keptE at hk
      cases hl : lookupA p.1 news with
      | none =>
        simp only [hl] at hk
        split at hk
        · simp at hk
        · simp at hk; rw [← hk]; exact Sublist.refl _
      | some n' =>
        simp only [hl, Option.some.injEq] at hk
        rw [← hk]
        obtain ⟨k', hm, _⟩ := lookupA_mem hl
        exact ih p (by simp) n' (hn _ hm)

/-- no unmanaged node is altered or created; one can only disappear together with its element -/
theorem ul_run (F : Flags) : ∀ e n, valOk n = true →
    (unmLeaves (assign F e n).expr).Sublist (unmLeaves e) := by
  intro e
  induction e using Expr.ind with
  | leaf t c v =>
    intro n hn
    cases v with
    | unmIs i v => rw [assign]; exact Sublist.refl _
    | unmAny i => rw [assign]; exact Sublist.refl _
    | _ => rw [assign] <;> first | exact leafOut_ul hn | simp
  | unm t v => intro n _; simp
  | fstr t v => intro n _; simp
  | star e _ => intro n _; simp
  | seq tup es ih =>
    intro n hn
    by_cases hty : (eval (.seq tup es)).ty = n.ty
    · cases hs : es.any isStar with
      | true => rw [assign_seq_star hty hs]; exact Sublist.refl _
      | false =>
        rw [assign_seq_of hty hs]; simp only [ul_seq]
        exact seq_ul (walk_script hs _) ih (valOk_listOf hn)
    · rw [assign_seq_mismatch hty]; exact leafOut_ul hn
  | dict es ih =>
    intro n hn
    by_cases hty : (eval (.dict es)).ty = n.ty
    · cases hs : es.any (fun kv => isStar kv.2) with
      | true => rw [assign_dict_star hty hs]; exact Sublist.refl _
      | false =>
        rw [assign_dict_expr hty hs]; simp only [ul_dict]
        have hk := ul_keptL (F := F) (news := dictOf n) ih (valOk_dictOf hn)
        split
        · rw [ulD_weave, filterMap_id_map]
          · exact hk
          · intro q hq
            rw [allIns_dictInserts] at hq
            obtain ⟨kv, hkv, _, rfl⟩ := mem_newEntries hq
            exact ul_canon _ (valOk_dictOf hn _ hkv)
        · exact hk
    · rw [assign_dict_mismatch hty]; exact leafOut_ul hn

/-! ### managed siblings of unmanaged nodes -/

def isUnm : Expr → Bool
  | .unm _ _ => true
  | _ => false

/-- position-wise relation between the result expressions, the merged values and the new values -/
inductive Pos3 (P : Expr → Val → Val → Prop) : List Expr → List Val → List Val → Prop
  | nil : Pos3 P [] [] []
  | cons {e m n es ms ns} : P e m n → Pos3 P es ms ns → Pos3 P (e :: es) (m :: ms) (n :: ns)

theorem Pos3.spec {P : Expr → Val → Val → Prop} {es ms ns} (h : Pos3 P es ms ns) :
    es.length = ns.length ∧ ms.length = ns.length ∧
    ∀ j (h1 : j < es.length) (h2 : j < ms.length) (h3 : j < ns.length), P es[j] ms[j] ns[j] := by
  induction h with
  | nil => simp
  | cons hp _ ih =>
    refine ⟨by simp [ih.1], by simp [ih.2.1], ?_⟩
    intro j h1 h2 h3
    cases j with
    | zero => exact hp
    | succ j => exact ih.2.2 j (by simpa using h1) (by simpa using h2) (by simpa using h3)

theorem Pos3.mono {P Q : Expr → Val → Val → Prop} (h : ∀ e m n, P e m n → Q e m n) {es ms ns}
    (hp : Pos3 P es ms ns) : Pos3 Q es ms ns := by
  induction hp with
  | nil => exact Pos3.nil
  | cons hp _ ih => exact Pos3.cons (h _ _ _ hp) ih

theorem seq_siblings {F : Flags} (hF : F.fix = true) {sc es ns} (hw : Walk sc es ns)
    (hes : ∀ e ∈ es, isUnm e = true ∨ ge e = true) (hn : ∀ n ∈ ns, gv n = true) :
    Pos3 (fun e' m n => (isUnm e' = true ∧ e' ∈ es) ∨
        (pyEq (eval e') n = true ∧ pyEq m n = true))
      (assignSeq F sc es ns).2.2 (assignSeq F sc es ns).2.1 ns := by
  induction hw with
  | nil => simp only [assignSeq_nil]; exact Pos3.nil
  | @m sc e es n ns _ ih2 =>
    rw [assignSeq_m]
    have h2 := ih2 (fun e he => hes e (by simp [he])) (fun n h => hn n (by simp [h]))
    refine Pos3.cons ?_ (h2.mono ?_)
    · rcases hes e (by simp) with h | h
      · left; cases e <;> simp_all [isUnm]
      · right
        exact ⟨fix_repairs_gen F hF e h n (hn n (by simp)), merged_eq_gen F e h n (hn n (by simp))⟩
    · rintro e' m' n' (⟨h1, h2⟩ | h)
      · exact Or.inl ⟨h1, by simp [h2]⟩
      · exact Or.inr h
  | @x sc e es n ns _ ih2 =>
    rw [assignSeq_x]
    have h2 := ih2 (fun e he => hes e (by simp [he])) (fun n h => hn n (by simp [h]))
    refine Pos3.cons ?_ (h2.mono ?_)
    · rcases hes e (by simp) with h | h
      · left; cases e <;> simp_all [isUnm]
      · right
        exact ⟨fix_repairs_gen F hF e h n (hn n (by simp)), merged_eq_gen F e h n (hn n (by simp))⟩
    · rintro e' m' n' (⟨h1, h2⟩ | h)
      · exact Or.inl ⟨h1, by simp [h2]⟩
      · exact Or.inr h
  | @i sc es n ns _ ih2 =>
    rw [assignSeq_i]
    simp only [hF, ↓reduceIte]
    have h2 := ih2 hes (fun n h => hn n (by simp [h]))
    refine Pos3.cons (Or.inr ?_) h2
    rw [eval_canon_any]
    exact ⟨pyEq_refl n (hn n (by simp)), pyEq_refl n (hn n (by simp))⟩
  | @d sc e es ns _ ih2 =>
    rw [assignSeq_d]
    simp only [hF, ↓reduceIte]
    have h2 := ih2 (fun e he => hes e (by simp [he])) hn
    refine h2.mono ?_
    rintro e' m' n' (⟨h1, h2⟩ | h)
    · exact Or.inl ⟨h1, by simp [h2]⟩
    · exact Or.inr h

end ISnap.Assign


/-! ## part: AssignMain8 -/
/-
  What is reported after a run: exactly the categories that were reported before and not approved.
-/
namespace ISnap.Assign
open ISnap ISnap.Align List

theorem leafOut_pending {F F' : Flags} {e : Expr} {v n : Val} {c : Bool} (hn : gv n = true)
    (h : ∀ F, assign F e n = leafOut F e v n c) :
    (assign F' (leafOut F e v n c).expr n).cats.fix = ((leafOut F' e v n c).cats.fix && !F.fix) ∧
    (assign F' (leafOut F e v n c).expr n).cats.update =
      ((leafOut F' e v n c).cats.update && !F.update) := by
  have h2 := h F'
  simp only [leafOut] at h2 ⊢
  cases hA : pyEq v n <;> cases hB : (c && same v n) <;> cases hf : F.fix <;> cases hu : F.update <;>
    simp only [hA, hB, Bool.not_true, Bool.not_false, Bool.false_eq_true, ↓reduceIte] at h2 ⊢ <;>
    first
      | (rw [canon_cats _ _ hn]; exact ⟨rfl, rfl⟩)
      | (rw [h2]; exact ⟨rfl, rfl⟩)

theorem any_and_right {α : Type} (l : List α) (g : α → Bool) (b : Bool) :
    l.any (fun p => g p && b) = (l.any g && b) := by
  induction l with
  | nil => simp
  | cons a l ih => simp only [any_cons, ih]; cases g a <;> cases b <;> simp

theorem any_congr_mem {α : Type} {l : List α} {f g : α → Bool} (h : ∀ a ∈ l, f a = g a) :
    l.any f = l.any g := by
  induction l with
  | nil => rfl
  | cons a l ih => simp only [any_cons, h a (by simp), ih (fun b hb => h b (by simp [hb]))]

theorem seq_pending_nofix {F F' : Flags} (hF : F.fix = false) {sc es ns} (hw : Walk sc es ns)
    (ih : ∀ e ∈ es, ∀ n, gv n = true →
      (assign F' (assign F e n).expr n).cats.fix = ((assign F' e n).cats.fix && !F.fix) ∧
      (assign F' (assign F e n).expr n).cats.update = ((assign F' e n).cats.update && !F.update))
    (hn : ∀ n ∈ ns, gv n = true) :
    (assignSeq F' sc (assignSeq F sc es ns).2.2 ns).1.fix = (assignSeq F' sc es ns).1.fix ∧
    (assignSeq F' sc (assignSeq F sc es ns).2.2 ns).1.update =
      ((assignSeq F' sc es ns).1.update && !F.update) := by
  induction hw with
  | nil => simp
  | @m sc e es n ns _ ih2 =>
    have h1 := ih e (by simp) n (hn n (by simp))
    have h2 := ih2 (fun e he => ih e (by simp [he])) (fun n h => hn n (by simp [h]))
    simp only [assignSeq_m, unionCats_fix, unionCats_update, h1.1, h1.2, h2.1, h2.2, hF, Bool.not_false,
      Bool.and_true, Bool.and_or_distrib_right, and_self]
  | @x sc e es n ns _ ih2 =>
    have h1 := ih e (by simp) n (hn n (by simp))
    have h2 := ih2 (fun e he => ih e (by simp [he])) (fun n h => hn n (by simp [h]))
    simp only [assignSeq_x, unionCats_fix, unionCats_update, h1.1, h1.2, h2.1, h2.2, hF, Bool.not_false,
      Bool.and_true, Bool.and_or_distrib_right, and_self]
  | @i sc es n ns _ ih2 =>
    have h2 := ih2 ih (fun n h => hn n (by simp [h]))
    simp only [assignSeq_i, hF, Bool.false_eq_true, ↓reduceIte, unionCats_fix, unionCats_update,
      single_fix_fix, single_fix_update, Bool.true_or, Bool.false_or, h2.2, and_self]
  | @d sc e es ns _ ih2 =>
    have h2 := ih2 (fun e he => ih e (by simp [he])) hn
    simp only [assignSeq_d, hF, Bool.false_eq_true, ↓reduceIte, unionCats_fix, unionCats_update,
      single_fix_fix, single_fix_update, Bool.true_or, Bool.false_or, h2.2, and_self]

theorem seq_pending_fix {F F' : Flags} (hF : F.fix = true) {sc es ns} (hw : Walk sc es ns)
    (ih : ∀ e ∈ es, ∀ n, gv n = true →
      (assign F' (assign F e n).expr n).cats.update = ((assign F' e n).cats.update && !F.update))
    (hn : ∀ n ∈ ns, gv n = true) :
    (assignSeq F' (replicate (assignSeq F sc es ns).2.2.length Dir.m)
      (assignSeq F sc es ns).2.2 ns).1.update = ((assignSeq F' sc es ns).1.update && !F.update) := by
  induction hw with
  | nil => simp
  | @m sc e es n ns _ ih2 =>
    have h1 := ih e (by simp) n (hn n (by simp))
    have h2 := ih2 (fun e he => ih e (by simp [he])) (fun n h => hn n (by simp [h]))
    simp only [assignSeq_m, length_cons, replicate_succ, unionCats_update, h1, h2,
      Bool.and_or_distrib_right]
  | @x sc e es n ns _ ih2 =>
    have h1 := ih e (by simp) n (hn n (by simp))
    have h2 := ih2 (fun e he => ih e (by simp [he])) (fun n h => hn n (by simp [h]))
    simp only [assignSeq_x, assignSeq_m, length_cons, replicate_succ, unionCats_update, h1, h2,
      Bool.and_or_distrib_right]
  | @i sc es n ns _ ih2 =>
    have h2 := ih2 ih (fun n h => hn n (by simp [h]))
    simp only [assignSeq_i, hF, ↓reduceIte, length_cons, replicate_succ, assignSeq_m, unionCats_update,
      canon_cats _ _ (hn n (by simp)), empty_update, single_fix_update, Bool.false_or, h2]
  | @d sc e es ns _ ih2 =>
    have h2 := ih2 (fun e he => ih e (by simp [he])) hn
    simp only [assignSeq_d, hF, ↓reduceIte, unionCats_update, single_fix_update, Bool.false_or, h2]

theorem pending_gen (F F' : Flags) : ∀ e, ge e = true → ∀ n, gv n = true →
    (assign F' (assign F e n).expr n).cats.fix = ((assign F' e n).cats.fix && !F.fix) ∧
    (assign F' (assign F e n).expr n).cats.update = ((assign F' e n).cats.update && !F.update) := by
  intro e
  induction e using Expr.ind with
  | leaf t c v =>
    intro h n hn
    have hv : gv v = true := by simpa using h
    rw [assign_leaf hv, assign_leaf hv]
    exact leafOut_pending hn (fun F => assign_leaf hv)
  | unm t v => simp
  | fstr t v => simp
  | star e _ => simp
  | seq tup es ih =>
    intro h n hn
    have hge0 := ge_run_gen F _ h n hn
    have hge := hge0
    have hfixed : F.fix = true → (assign F' (assign F (.seq tup es) n).expr n).cats.fix = false :=
      fun hF => nofix_of_eq F' _ hge0 n hn (fix_repairs_gen F hF _ h n hn)
    simp only [ge_seq, geL_iff] at h
    by_cases hty : (eval (.seq tup es)).ty = n.ty
    · have hs := any_isStar_false h
      rw [assign_seq_of hty hs] at hge hfixed ⊢
      rw [assign_seq_of hty hs]
      simp only [ge_seq, geL_iff] at hge
      have hs' := any_isStar_false hge
      have hty' : (eval (.seq tup
          (assignSeq F (script (eval.evalL es) (listOf n)) es (listOf n)).2.2)).ty = n.ty :=
        (seq_ty _ _).trans ((seq_ty _ _).symm.trans hty)
      rw [assign_seq_of hty' hs'] at hfixed ⊢
      simp only at hfixed ⊢
      have hw := walk_script hs (listOf n)
      have hgl := gv_listOf hn
      have ihe := fun e he n hn => ih e he (h e he) n hn
      rw [evalL_ge hge] at hfixed ⊢
      generalize hsc : script (eval.evalL es) (listOf n) = sc at hw hge hfixed
      cases hF : F.fix with
      | false =>
        have hk := seq_keep hF hw (fun e he => ⟨h e he, keep_gen F hF e (h e he)⟩) hgl
        rw [eqL_iff] at hk
        have : script (map eval (assignSeq F sc es (listOf n)).2.2) (listOf n) = sc := by
          have e1 := script_congr (news := listOf n) hk.1 (by
            intro i h1 h2
            refine ⟨?_, ?_, hk.2 i h1 h2⟩
            · simp only [getElem_map]; exact gv_eval _ (h _ (getElem_mem _))
            · simp only [getElem_map]; exact gv_eval _ (hge _ (getElem_mem _)))
          rw [← e1, ← evalL_ge h]; exact hsc
        rw [this]
        have := seq_pending_nofix (F' := F') hF hw ihe hgl
        simpa using this
      | true =>
        refine ⟨by rw [hfixed hF]; simp, ?_⟩
        have hk := seq_fix hF hw (fun e he n hn => fix_repairs_gen F hF e (h e he) n hn) hgl
        rw [script_of_eqL hk, length_map]
        exact seq_pending_fix hF hw (fun e he n hn => (ihe e he n hn).2) hgl
    · rw [assign_seq_mismatch hty, assign_seq_mismatch hty]
      exact leafOut_pending hn (fun F => assign_seq_mismatch hty)
  | dict es ih =>
    intro h n hn
    have hge0 := ge_run_gen F _ h n hn
    have hge := hge0
    have hfixed : F.fix = true → (assign F' (assign F (.dict es) n).expr n).cats.fix = false :=
      fun hF => nofix_of_eq F' _ hge0 n hn (fix_repairs_gen F hF _ h n hn)
    simp only [ge_dict, Bool.and_eq_true, geD_iff] at h
    by_cases hty : (eval (.dict es)).ty = n.ty
    · have hs := any_isStarD_false h.2
      rw [assign_dict_expr hty hs] at hge hfixed ⊢
      rw [dict_cats_fix hty hs, dict_cats_update hty hs]
      obtain ⟨hdk, hgvn⟩ := gv_dictOf hn
      have ihe : ∀ p ∈ es, ∀ n', lookupA p.1 (dictOf n) = some n' →
          (assign F' (assign F p.2 n').expr n').cats.fix = ((assign F' p.2 n').cats.fix && !F.fix) ∧
          (assign F' (assign F p.2 n').expr n').cats.update =
            ((assign F' p.2 n').cats.update && !F.update) := by
        intro p hp n' hl
        obtain ⟨k', hm, _⟩ := lookupA_mem hl
        exact ih p hp (h.2 p hp) n' (hgvn _ hm)
      cases hF : F.fix with
      | false =>
        simp only [hF, Bool.false_eq_true, ↓reduceIte, Bool.not_false, Bool.and_true] at hge ⊢
        rw [keptL_eq_map (Or.inl hF)] at hge ⊢
        have hty' : (eval (.dict (map (updE F (dictOf n)) es))).ty = n.ty := hty
        simp only [ge_dict, Bool.and_eq_true, geD_iff] at hge
        rw [dict_cats_fix hty' (any_isStarD_false hge.2),
          dict_cats_update hty' (any_isStarD_false hge.2)]
        have hkey : ∀ k, hasKey k (map (updE F (dictOf n)) es) = hasKey k es :=
          fun k => hasKey_map k es _ (fun p => updE_fst F _ p)
        simp only [hkey, any_map]
        have hfix : ∀ p ∈ es, (oldCats F' (dictOf n) (updE F (dictOf n) p)).fix =
            (oldCats F' (dictOf n) p).fix := by
          intro p hp
          unfold oldCats
          rw [updE_fst]
          cases hl : lookupA p.1 (dictOf n) with
          | none => rfl
          | some n' => simp [updE, hl, (ihe p hp n' hl).1, hF]
        have hupd : ∀ p ∈ es, (oldCats F' (dictOf n) (updE F (dictOf n) p)).update =
            ((oldCats F' (dictOf n) p).update && !F.update) := by
          intro p hp
          unfold oldCats
          rw [updE_fst]
          cases hl : lookupA p.1 (dictOf n) with
          | none => rfl
          | some n' => simp [updE, hl, (ihe p hp n' hl).2]
        constructor
        · congr 1
          exact any_congr_mem hfix
        · rw [← any_and_right]
          exact any_congr_mem hupd
      | true =>
        have hfx := hfixed hF
        simp only [hF, ↓reduceIte] at hfx hge ⊢
        refine ⟨by rw [hfx]; simp, ?_⟩
        have hp := entries_perm F es (dictOf n) hdk
        generalize weave (map (keptE F (dictOf n)) es)
          (dictInserts (map (·.1) es) (dictOf n) 0 []) 0 = E at hp hge
        have hty' : (eval (.dict E)).ty = n.ty := hty
        simp only [ge_dict, Bool.and_eq_true, geD_iff] at hge
        rw [dict_cats_update hty' (any_isStarD_false hge.2), hp.any_eq, any_append]
        have hnew : (newEntries es (dictOf n)).any (fun p => (oldCats F' (dictOf n) p).update) = false := by
          rw [any_eq_false]
          intro q hq
          obtain ⟨kv, hkv, _, rfl⟩ := mem_newEntries hq
          simp only [oldCats, lookupA_self hdk hkv, canon_cats _ _ (hgvn _ hkv)]
          simp
        rw [hnew, Bool.or_false, keptL, any_filterMap, ← any_and_right]
        apply any_congr_mem
        intro p hp'
        simp only [keptE, hF, ↓reduceIte]
        cases hl : lookupA p.1 (dictOf n) with
        | none => simp [oldCats, hl]
        | some n' => simp [oldCats, hl, (ihe p hp' n' hl).2]
    · rw [assign_dict_mismatch hty, assign_dict_mismatch hty]
      exact leafOut_pending hn (fun F => assign_dict_mismatch hty)

end ISnap.Assign

/-! ### the reported categories and the returned value do not depend on the approved categories -/

namespace ISnap.Assign
open ISnap ISnap.Align List

theorem leafOut_indep (F F' : Flags) (e v n c) :
    (leafOut F e v n c).cats = (leafOut F' e v n c).cats ∧
    (leafOut F e v n c).merged = (leafOut F' e v n c).merged := by
  unfold leafOut
  split
  · exact ⟨rfl, rfl⟩
  · split <;> exact ⟨rfl, rfl⟩

theorem seq_indep {F F' : Flags} {sc es ns} (hw : Walk sc es ns)
    (ih : ∀ e ∈ es, ∀ n, (assign F e n).cats = (assign F' e n).cats ∧
      (assign F e n).merged = (assign F' e n).merged) :
    (assignSeq F sc es ns).1 = (assignSeq F' sc es ns).1 ∧
    (assignSeq F sc es ns).2.1 = (assignSeq F' sc es ns).2.1 := by
  induction hw with
  | nil => simp
  | @m sc e es n ns _ ih2 =>
    have h1 := ih e (by simp) n
    have h2 := ih2 (fun e he => ih e (by simp [he]))
    simp only [assignSeq_m, h1.1, h1.2, h2.1, h2.2, and_self]
  | @x sc e es n ns _ ih2 =>
    have h1 := ih e (by simp) n
    have h2 := ih2 (fun e he => ih e (by simp [he]))
    simp only [assignSeq_x, h1.1, h1.2, h2.1, h2.2, and_self]
  | @i sc es n ns _ ih2 =>
    have h2 := ih2 ih
    simp only [assignSeq_i, h2.1, h2.2, and_self]
  | @d sc e es ns _ ih2 =>
    have h2 := ih2 (fun e he => ih e (by simp [he]))
    simp only [assignSeq_d, h2.1, h2.2, and_self]

theorem foldr_cats_congr {α : Type} {l : List α} {g g' : α → Flags} (h : ∀ p ∈ l, g p = g' p) :
    l.foldr (fun p acc => unionCats (g p) acc) Flags.empty =
      l.foldr (fun p acc => unionCats (g' p) acc) Flags.empty := by
  induction l with
  | nil => rfl
  | cons a l ih => simp only [foldr_cons, h a (by simp), ih (fun b hb => h b (by simp [hb]))]

theorem assign_dict_merged {F : Flags} {es : List (Atom × Expr)} {n : Val}
    (hty : (eval (.dict es)).ty = n.ty) (hs : es.any (fun kv => isStar kv.2) = false) :
    (assign F (.dict es) n).merged =
      .dict (mergedKvs (es.map (oldEntry F (dictOf n))) (dictOf n)) := by
  rw [assign_dict]
  simp only [hty, ne_eq, not_true_eq_false, ↓reduceIte, hs, Bool.false_eq_true, assignDictOld_snd]

theorem indep_gen (F F' : Flags) : ∀ e n, (assign F e n).cats = (assign F' e n).cats ∧
    (assign F e n).merged = (assign F' e n).merged := by
  intro e
  induction e using Expr.ind with
  | leaf t c v =>
    intro n
    cases v with
    | unmIs i v => rw [assign, assign]; exact ⟨rfl, rfl⟩
    | unmAny i => rw [assign, assign]; exact ⟨rfl, rfl⟩
    | _ => rw [assign, assign] <;> first | exact leafOut_indep .. | simp
  | unm t v => intro n; simp
  | fstr t v => intro n; simp
  | star e _ => intro n; simp
  | seq tup es ih =>
    intro n
    by_cases hty : (eval (.seq tup es)).ty = n.ty
    · cases hs : es.any isStar with
      | true => rw [assign_seq_star hty hs, assign_seq_star hty hs]; exact ⟨rfl, rfl⟩
      | false =>
        rw [assign_seq_of hty hs, assign_seq_of hty hs]
        have := seq_indep (F := F) (F' := F') (walk_script hs (listOf n)) ih
        simp only [this.1, this.2, and_self]
    · rw [assign_seq_mismatch hty, assign_seq_mismatch hty]; exact leafOut_indep ..
  | dict es ih =>
    intro n
    by_cases hty : (eval (.dict es)).ty = n.ty
    · cases hs : es.any (fun kv => isStar kv.2) with
      | true => rw [assign_dict_star hty hs, assign_dict_star hty hs]; exact ⟨rfl, rfl⟩
      | false =>
        rw [assign_dict_cats hty hs, assign_dict_cats hty hs, assign_dict_merged hty hs,
          assign_dict_merged hty hs]
        have h1 : ∀ p ∈ es, oldCats F (dictOf n) p = oldCats F' (dictOf n) p := by
          intro p hp
          unfold oldCats
          split
          · rfl
          · exact (ih p hp _).1
        have h2 : ∀ p ∈ es, (fun x : Atom × Expr × Option Val => (x.1, x.2.2)) (oldEntry F (dictOf n) p) =
            (fun x : Atom × Expr × Option Val => (x.1, x.2.2)) (oldEntry F' (dictOf n) p) := by
          intro p hp
          unfold oldEntry
          split
          · rfl
          · simp only [(ih p hp _).2]
        constructor
        · rw [foldr_cats_congr h1]
        · simp only [mergedKvs, map_map]
          have : map ((fun x : Atom × Expr × Option Val => (x.1, x.2.2)) ∘ oldEntry F (dictOf n)) es =
              map ((fun x : Atom × Expr × Option Val => (x.1, x.2.2)) ∘ oldEntry F' (dictOf n)) es :=
            map_congr_left (fun p hp => h2 p hp)
          rw [this]
    · rw [assign_dict_mismatch hty, assign_dict_mismatch hty]; exact leafOut_indep ..

end ISnap.Assign


/-! ## concrete expressions used by the non-vacuity examples of the property files -/
namespace ISnap.Assign.Ex
open ISnap ISnap.Assign

/-- `[1, {"a": 2, 5: (None,)}, True]`, first element spelled non-canonically -/
def e0 : Expr := .seq false [ .leaf 1 false (.atom (.int 1)),
  .dict [(.str [97], .leaf 2 true (.atom (.int 2))), (.int 5, .seq true [.leaf 3 true (.atom .none)])],
  .leaf 4 true (.atom (.bool true)) ]
/-- `[1, {5: (None, 7), "b": 3}, 1]` -/
def n0 : Val := .list [ .atom (.int 1),
  .dict [(.int 5, .tuple [.atom .none, .atom (.int 7)]), (.str [98], .atom (.int 3))], .atom (.int 1) ]
/-- the value of `e0` itself, with `True` observed as `1` -/
def n1 : Val := .list [ .atom (.int 1),
  .dict [(.int 5, .tuple [.atom .none]), (.str [97], .atom (.int 2))], .atom (.int 1) ]
/-- a display with unmanaged parts: `[Is(x), 1, *xs, f"..."]` -/
def e2 : Expr := .seq false [ .unm 7 (.unmIs 0 (.atom (.int 3))), .leaf 1 true (.atom (.int 1)),
  .star (.leaf 8 true (.list [.atom (.int 9)])), .fstr 9 (.atom (.str [120])) ]
/-- `[Is(x), 1]` -/
def e3 : Expr := .seq false [ .unm 7 (.unmIs 0 (.atom (.int 3))), .leaf 1 true (.atom (.int 1)) ]
def fixOnly : Flags := { fix := true }
def updateOnly : Flags := { update := true }

end ISnap.Assign.Ex
