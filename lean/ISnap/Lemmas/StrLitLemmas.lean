import ISnap.Model.StrLit
/-
  Lemmas for C12 (string / bytes literals read back identically).
    * `readHex_hexN` : `%0nx` followed by any text is read back by `readHex n`;
    * one-step unfoldings of `evalBody` (`evalBody_plain`, `evalBody_simpleEsc`, `evalBody_x`, ...);
    * `Dec b q tq text v R` : `evalBody` reads `text` in front of any continuation `R`, pushes `v`
      and uses at most `text.length` fuel; `Dec.append`, `Dec.flatMap`, `Dec.finish`;
    * per-character decoding of `reprChar`, `bytesReprChar`, `unicodeEscape`, `escapeChar`;
    * `replaceSpNl` algebra, shape of `escapeChar`, `triple q <:+: _` (no `qqq` inside) lemmas;
    * `Dec.body` : the escaped, `" \n"`-rewritten text of `s` decodes to `s` in triple-quote mode;
    * `strLiteralHelper_spec`, `tripleQuote_eq`, `Dec.tqBody_plain`, `Dec.tqBody_final`,
      `evalLit_tripleQuote_aux`, `tripleQuote_isSome_of`, `tripleQuote_eq_none`.
-/
namespace ISnap.StrLit

theorem hexVal_hexDigit : ∀ d, d < 16 → hexVal? (hexDigit d) = some d := by decide

theorem readHex_snoc (n : Nat) : ∀ (acc : Nat) (L : Str) (v d dv : Nat) (R : Str),
    readHex n acc L = some (v, d :: R) → hexVal? d = some dv →
    readHex (n+1) acc L = some (v * 16 + dv, R) := by
  induction n with
  | zero =>
    intro acc L v d dv R h hd
    simp [readHex] at h
    obtain ⟨rfl, rfl⟩ := h
    simp [readHex, hd]
  | succ n ih =>
    intro acc L v d dv R h hd
    cases L with
    | nil => simp [readHex] at h
    | cons c L =>
      rw [readHex] at h ⊢
      cases hc : hexVal? c with
      | none => simp [hc] at h
      | some x =>
        simp only [hc] at h ⊢
        exact ih _ _ _ _ _ _ h hd

theorem readHex_hexN (n : Nat) : ∀ (acc c : Nat) (R : Str), c < 16 ^ n →
    readHex n acc (hexN n c ++ R) = some (acc * 16 ^ n + c, R) := by
  induction n with
  | zero => intro acc c R h; simp at h; subst h; simp [readHex, hexN]
  | succ n ih =>
    intro acc c R h
    have h1 : c / 16 < 16 ^ n := by
      rw [Nat.pow_succ] at h; omega
    have := ih acc (c / 16) (hexDigit (c % 16) :: R) h1
    have h2 := readHex_snoc n acc _ _ _ _ R this (hexVal_hexDigit (c % 16) (by omega))
    simp only [hexN, List.append_assoc, List.singleton_append]
    rw [h2, Nat.pow_succ, ← Nat.mul_assoc, Nat.add_mul]
    congr 2
    omega

theorem readHex2 (c : Nat) (R : Str) (h : c < 256) : readHex 2 0 (hexN 2 c ++ R) = some (c, R) := by
  have := readHex_hexN 2 0 c R (by simpa using h); simpa using this
theorem readHex4 (c : Nat) (R : Str) (h : c < 65536) : readHex 4 0 (hexN 4 c ++ R) = some (c, R) := by
  have := readHex_hexN 4 0 c R (by simpa using h); simpa using this
theorem readHex8 (c : Nat) (R : Str) (h : c < 4294967296) : readHex 8 0 (hexN 8 c ++ R) = some (c, R) := by
  have := readHex_hexN 8 0 c R (by simpa using h); simpa using this


theorem evalBody_plain (b : Bool) (q : Nat) (tq : Bool) (fuel : Nat) (acc : Str) (c : Nat) (rest : Str)
    (h1 : c ≠ q) (h2 : c ≠ BS) (h3 : c = NL → tq = true) :
    evalBody b q tq (fuel+1) acc (c :: rest) = evalBody b q tq fuel (c :: acc) rest := by
  rw [evalBody.eq_def]
  by_cases hn : c = NL
  · simp [h1, h2, h3 hn]
  · simp [h1, h2, hn]

theorem evalBody_q_triple (b : Bool) (q : Nat) (fuel : Nat) (acc : Str) (rest : Str)
    (h : ∀ r, rest ≠ q :: q :: r) :
    evalBody b q true (fuel+1) acc (q :: rest) = evalBody b q true fuel (q :: acc) rest := by
  rw [evalBody.eq_def]
  match rest, h with
  | [], _ => simp
  | [a], _ => simp
  | a :: b :: r, h =>
    have : ¬ (a = q ∧ b = q) := by
      rintro ⟨rfl, rfl⟩; exact h r rfl
    simp [this]

theorem evalBody_close_triple (b : Bool) (q : Nat) (fuel : Nat) (acc : Str) :
    evalBody b q true (fuel+1) acc [q, q, q] = some acc.reverse := by
  rw [evalBody.eq_def]; simp

theorem evalBody_close_single (b : Bool) (q : Nat) (fuel : Nat) (acc : Str) :
    evalBody b q false (fuel+1) acc [q] = some acc.reverse := by
  rw [evalBody.eq_def]; simp

/-- simple two-character escapes -/
def simpleEsc (e : Nat) : Option Nat :=
  if e = BS then some BS else if e = SQ then some SQ else if e = DQ then some DQ
  else if e = 110 then some NL else if e = 114 then some CR else if e = 116 then some TAB else none

theorem evalBody_simpleEsc (b : Bool) (q : Nat) (tq : Bool) (fuel : Nat) (acc : Str) (e v : Nat) (rest : Str)
    (hq : q = SQ ∨ q = DQ) (he : simpleEsc e = some v) :
    evalBody b q tq (fuel+1) acc (BS :: e :: rest) = evalBody b q tq fuel (v :: acc) rest := by
  have hq' : ¬ (92 : Nat) = q := by rcases hq with rfl | rfl <;> decide
  rw [evalBody.eq_def]
  unfold simpleEsc at he
  split at he
  · subst_vars; cases he; simp [hq', BS, NL]
  split at he
  · subst_vars; cases he; simp [hq', BS, NL, SQ]
  split at he
  · subst_vars; cases he; simp [hq', BS, NL, SQ, DQ]
  split at he
  · subst_vars; cases he; simp [hq', BS, NL, SQ, DQ]
  split at he
  · subst_vars; cases he; simp [hq', BS, NL, SQ, DQ]
  split at he
  · subst_vars; cases he; simp [hq', BS, NL, SQ, DQ]
  · cases he

theorem evalBody_cont (b : Bool) (q : Nat) (tq : Bool) (fuel : Nat) (acc : Str) (rest : Str)
    (hq : q = SQ ∨ q = DQ) :
    evalBody b q tq (fuel+1) acc (BS :: NL :: rest) = evalBody b q tq fuel acc rest := by
  have hq' : ¬ (92 : Nat) = q := by rcases hq with rfl | rfl <;> decide
  rw [evalBody.eq_def]
  simp [hq', BS, NL]

theorem evalBody_x (b : Bool) (q : Nat) (tq : Bool) (fuel : Nat) (acc : Str) (c : Nat) (rest : Str)
    (hq : q = SQ ∨ q = DQ) (hc : c < 256) :
    evalBody b q tq (fuel+1) acc (escX c ++ rest) = evalBody b q tq fuel (c :: acc) rest := by
  have hq' : ¬ (92 : Nat) = q := by rcases hq with rfl | rfl <;> decide
  have hr : readHex 2 0 (hexN 2 c ++ rest) = some (c, rest) := readHex2 c rest hc
  simp only [escX, List.cons_append, List.nil_append]
  rw [evalBody.eq_def]
  simp [hq', BS, NL, SQ, DQ, hr]

theorem evalBody_u4 (q : Nat) (tq : Bool) (fuel : Nat) (acc : Str) (c : Nat) (rest : Str)
    (hq : q = SQ ∨ q = DQ) (hc : c < 65536) :
    evalBody false q tq (fuel+1) acc (escU4 c ++ rest) = evalBody false q tq fuel (c :: acc) rest := by
  have hq' : ¬ (92 : Nat) = q := by rcases hq with rfl | rfl <;> decide
  have hr : readHex 4 0 (hexN 4 c ++ rest) = some (c, rest) := readHex4 c rest hc
  simp only [escU4, List.cons_append, List.nil_append]
  rw [evalBody.eq_def]
  simp [hq', BS, NL, SQ, DQ, hr]

theorem evalBody_u8 (q : Nat) (tq : Bool) (fuel : Nat) (acc : Str) (c : Nat) (rest : Str)
    (hq : q = SQ ∨ q = DQ) (hc : c < 0x110000) :
    evalBody false q tq (fuel+1) acc (escU8 c ++ rest) = evalBody false q tq fuel (c :: acc) rest := by
  have hq' : ¬ (92 : Nat) = q := by rcases hq with rfl | rfl <;> decide
  have hr : readHex 8 0 (hexN 8 c ++ rest) = some (c, rest) := readHex8 c rest (by omega)
  simp only [escU8, List.cons_append, List.nil_append]
  rw [evalBody.eq_def]
  simp [hq', BS, NL, SQ, DQ, hr, hc]


def WfStr (s : Str) : Prop := ∀ c ∈ s, c < 0x110000
def WfBytes (s : Str) : Prop := ∀ c ∈ s, c < 256

/-- `text`, read by `evalBody` in front of any continuation `R`, pushes the characters `v`
    and uses at most `text.length` units of fuel. -/
def Dec (b : Bool) (q : Nat) (tq : Bool) (text v R : Str) : Prop :=
  ∃ n, n ≤ text.length ∧ ∀ fuel acc,
    evalBody b q tq (fuel + n) acc (text ++ R) = evalBody b q tq fuel (v.reverse ++ acc) R

theorem Dec.nil (b q tq R) : Dec b q tq [] [] R := ⟨0, by simp, by intros; simp⟩

theorem Dec.append {b q tq t1 v1 t2 v2 R} (h1 : Dec b q tq t1 v1 (t2 ++ R)) (h2 : Dec b q tq t2 v2 R) :
    Dec b q tq (t1 ++ t2) (v1 ++ v2) R := by
  obtain ⟨n1, hn1, e1⟩ := h1
  obtain ⟨n2, hn2, e2⟩ := h2
  refine ⟨n2 + n1, by simp; omega, ?_⟩
  intro fuel acc
  rw [← Nat.add_assoc, List.append_assoc, e1, e2]
  simp

theorem Dec.one {b q tq text v R} (hne : text ≠ [])
    (h : ∀ fuel acc, evalBody b q tq (fuel + 1) acc (text ++ R) = evalBody b q tq fuel (v.reverse ++ acc) R) :
    Dec b q tq text v R := by
  refine ⟨1, ?_, h⟩
  cases text with
  | nil => exact absurd rfl hne
  | cons a t => simp

theorem Dec.finish {b q tq text v closing} (h : Dec b q tq text v closing)
    (hc : ∀ fuel acc, evalBody b q tq (fuel + 1) acc closing = some acc.reverse) :
    evalBody b q tq ((text ++ closing).length + 1) [] (text ++ closing) = some v := by
  obtain ⟨n, hn, e⟩ := h
  have : (text ++ closing).length + 1 = (text.length - n + closing.length + 1) + n := by
    simp; omega
  rw [this, e, hc]
  simp

theorem Dec.flatMap {b q tq} (enc : Nat → Str) (s : Str)
    (h : ∀ c ∈ s, ∀ R, Dec b q tq (enc c) [c] R) : ∀ R, Dec b q tq (s.flatMap enc) s R := by
  induction s with
  | nil => intro R; exact Dec.nil ..
  | cons c s ih =>
    intro R
    rw [List.flatMap_cons]
    have h1 := h c (by simp) (s.flatMap enc ++ R)
    have h2 := ih (fun c hc => h c (by simp [hc])) R
    exact Dec.append (v1 := [c]) h1 h2

theorem simpleEsc_q {q : Nat} (hq : q = SQ ∨ q = DQ) : simpleEsc q = some q := by
  rcases hq with rfl | rfl <;> decide

theorem Dec.reprChar (printable : Nat → Bool) {q : Nat} (hq : q = SQ ∨ q = DQ) (c : Nat) (hc : c < 0x110000)
    (R : Str) : Dec false q false (reprChar printable q c) [c] R := by
  unfold ISnap.StrLit.reprChar
  split
  · rename_i h
    apply Dec.one (by simp)
    intro fuel acc
    have : simpleEsc c = some c := by
      rcases h with rfl | rfl
      · exact simpleEsc_q hq
      · decide
    exact evalBody_simpleEsc _ _ _ _ _ _ _ _ hq this
  split
  · subst_vars; exact Dec.one (by simp) fun fuel acc => evalBody_simpleEsc _ _ _ _ _ _ _ _ hq (by decide)
  split
  · subst_vars; exact Dec.one (by simp) fun fuel acc => evalBody_simpleEsc _ _ _ _ _ _ _ _ hq (by decide)
  split
  · subst_vars; exact Dec.one (by simp) fun fuel acc => evalBody_simpleEsc _ _ _ _ _ _ _ _ hq (by decide)
  split
  · exact Dec.one (by simp [escX]) fun fuel acc => evalBody_x _ _ _ _ _ _ _ hq (by omega)
  rename_i h1 h2 h3 h4 h5
  have hp : ∀ fuel acc, evalBody false q false (fuel + 1) acc ([c] ++ R) = evalBody false q false fuel ([c].reverse ++ acc) R := by
    intro fuel acc
    refine evalBody_plain _ _ _ _ _ _ _ ?_ ?_ ?_
    · intro h; exact h1 (Or.inl h)
    · intro h; exact h1 (Or.inr h)
    · intro h; exact absurd h h3
  split
  · exact Dec.one (by simp) hp
  split
  · exact Dec.one (by simp) hp
  split
  · exact Dec.one (by simp [escX]) fun fuel acc => evalBody_x _ _ _ _ _ _ _ hq (by omega)
  split
  · exact Dec.one (by simp [escU4]) fun fuel acc => evalBody_u4 _ _ _ _ _ _ hq (by omega)
  · exact Dec.one (by simp [escU8]) fun fuel acc => evalBody_u8 _ _ _ _ _ _ hq hc

theorem Dec.bytesReprChar {q : Nat} (hq : q = SQ ∨ q = DQ) (c : Nat) (hc : c < 256)
    (R : Str) : Dec true q false (bytesReprChar q c) [c] R := by
  unfold ISnap.StrLit.bytesReprChar
  split
  · rename_i h
    apply Dec.one (by simp)
    intro fuel acc
    have : simpleEsc c = some c := by
      rcases h with rfl | rfl
      · exact simpleEsc_q hq
      · decide
    exact evalBody_simpleEsc _ _ _ _ _ _ _ _ hq this
  split
  · subst_vars; exact Dec.one (by simp) fun fuel acc => evalBody_simpleEsc _ _ _ _ _ _ _ _ hq (by decide)
  split
  · subst_vars; exact Dec.one (by simp) fun fuel acc => evalBody_simpleEsc _ _ _ _ _ _ _ _ hq (by decide)
  split
  · subst_vars; exact Dec.one (by simp) fun fuel acc => evalBody_simpleEsc _ _ _ _ _ _ _ _ hq (by decide)
  split
  · exact Dec.one (by simp [escX]) fun fuel acc => evalBody_x _ _ _ _ _ _ _ hq hc
  rename_i h1 h2 h3 h4 h5
  refine Dec.one (by simp) fun fuel acc => evalBody_plain _ _ _ _ _ _ _ ?_ ?_ ?_
  · intro h; exact h1 (Or.inl h)
  · intro h; exact h1 (Or.inr h)
  · intro h; exact absurd h h3

theorem reprQuote_cases (s : Str) : reprQuote s = SQ ∨ reprQuote s = DQ := by
  unfold reprQuote; split <;> simp

theorem evalLit_single {q : Nat} (hq : q = SQ ∨ q = DQ) (rest : Str) (h : ∀ r, rest ≠ q :: q :: r) :
    evalLit (q :: rest) = evalBody false q false (rest.length + 1) [] rest := by
  unfold evalLit
  simp only [hq, if_true]
  match rest, h with
  | [], _ => rfl
  | [a], _ => rfl
  | a :: b :: r, h =>
    have : ¬ (a = q ∧ b = q) := by rintro ⟨rfl, rfl⟩; exact h r rfl
    simp [this]

theorem evalBytesLit_single {q : Nat} (hq : q = SQ ∨ q = DQ) (rest : Str) (h : ∀ r, rest ≠ q :: q :: r) :
    evalBytesLit (98 :: q :: rest) = evalBody true q false (rest.length + 1) [] rest := by
  unfold evalBytesLit
  simp only [hq, if_true]
  match rest, h with
  | [], _ => rfl
  | [a], _ => rfl
  | a :: b :: r, h =>
    have : ¬ (a = q ∧ b = q) := by rintro ⟨rfl, rfl⟩; exact h r rfl
    simp [this]

theorem reprChar_head (printable : Nat → Bool) {q : Nat} (hq : q = SQ ∨ q = DQ) (c : Nat) :
    ∃ a t, reprChar printable q c = a :: t ∧ a ≠ q := by
  have hb : BS ≠ q := by rcases hq with rfl | rfl <;> decide
  unfold reprChar escX escU4 escU8
  split
  · exact ⟨_, _, rfl, hb⟩
  rename_i h1
  have hcq : c ≠ q := fun h => h1 (Or.inl h)
  repeat' split
  all_goals first | exact ⟨_, _, rfl, hb⟩ | exact ⟨_, _, rfl, hcq⟩

theorem bytesReprChar_head {q : Nat} (hq : q = SQ ∨ q = DQ) (c : Nat) :
    ∃ a t, bytesReprChar q c = a :: t ∧ a ≠ q := by
  have hb : BS ≠ q := by rcases hq with rfl | rfl <;> decide
  unfold bytesReprChar escX
  split
  · exact ⟨_, _, rfl, hb⟩
  rename_i h1
  have hcq : c ≠ q := fun h => h1 (Or.inl h)
  repeat' split
  all_goals first | exact ⟨_, _, rfl, hb⟩ | exact ⟨_, _, rfl, hcq⟩

theorem flatMap_snoc_ne {q : Nat} (enc : Nat → Str) (henc : ∀ c, ∃ a t, enc c = a :: t ∧ a ≠ q) (s : Str) :
    ∀ r, s.flatMap enc ++ [q] ≠ q :: q :: r := by
  intro r
  cases s with
  | nil => simp
  | cons c s =>
    obtain ⟨a, t, e, ha⟩ := henc c
    rw [List.flatMap_cons, e]
    intro h
    simp at h
    exact ha h.1


/-! ### replaceSpNl -/
theorem replaceSpNl_cons_ne (c : Nat) (X : Str) (h : c ≠ 32) : replaceSpNl (c :: X) = c :: replaceSpNl X := by
  rw [replaceSpNl.eq_def]
  split
  · rename_i heq; simp at heq; exact absurd heq.1 h
  · rename_i heq; simp at heq; obtain ⟨rfl, rfl⟩ := heq; rfl
  · rename_i heq; simp at heq

theorem replaceSpNl_sp_nl (X : Str) : replaceSpNl (32 :: 10 :: X) = [SP, BS, 110, BS, NL] ++ replaceSpNl X := by
  rw [replaceSpNl]

theorem replaceSpNl_sp (X : Str) (h : X.head? ≠ some 10) : replaceSpNl (32 :: X) = 32 :: replaceSpNl X := by
  rw [replaceSpNl.eq_def]
  split
  · rename_i heq; simp at heq; obtain ⟨rfl⟩ := heq; simp at h
  · rename_i heq; simp at heq; obtain ⟨rfl, rfl⟩ := heq; rfl
  · rename_i heq; simp at heq

theorem replaceSpNl_nil : replaceSpNl [] = [] := by rw [replaceSpNl]

theorem replaceSpNl_append_of_not_mem (t X : Str) (h : 32 ∉ t) : replaceSpNl (t ++ X) = t ++ replaceSpNl X := by
  induction t with
  | nil => rfl
  | cons a t ih =>
    simp at h
    rw [List.cons_append, replaceSpNl_cons_ne _ _ (by omega), ih h.2]
    rfl

theorem replaceSpNl_head (X : Str) : (replaceSpNl X).head? = X.head? := by
  cases X with
  | nil => rw [replaceSpNl_nil]
  | cons c X =>
    by_cases hc : c = 32
    · subst hc
      by_cases hX : X.head? = some 10
      · cases X with
        | nil => simp at hX
        | cons d X => simp at hX; subst hX; rw [replaceSpNl_sp_nl]; rfl
      · rw [replaceSpNl_sp _ hX]; rfl
    · rw [replaceSpNl_cons_ne _ _ hc]; rfl

/-- `replaceSpNl` distributes over `++` when the right part does not start with a newline -/
theorem replaceSpNl_append (A T : Str) (h : T.head? ≠ some 10) :
    replaceSpNl (A ++ T) = replaceSpNl A ++ replaceSpNl T := by
  induction A using replaceSpNl.induct with
  | case1 rest ih =>
    rw [List.cons_append, List.cons_append, replaceSpNl_sp_nl, replaceSpNl_sp_nl, ih, List.append_assoc]
  | case2 c rest hne ih =>
    by_cases hc : c = 32
    · subst hc
      have h1 : rest.head? ≠ some 10 := by
        cases rest with
        | nil => simp
        | cons d r => simp; intro hd; exact hne r rfl (by rw [hd])
      have h2 : (rest ++ T).head? ≠ some 10 := by
        cases rest with
        | nil => simpa using h
        | cons d r => simpa using h1
      rw [List.cons_append, replaceSpNl_sp _ h1, replaceSpNl_sp _ h2, ih]; rfl
    · rw [List.cons_append, replaceSpNl_cons_ne _ _ hc, replaceSpNl_cons_ne _ _ hc, ih]; rfl
  | case3 => simp [replaceSpNl_nil]

/-! ### shape of the escapes -/
theorem hexDigit_ge (d : Nat) : 48 ≤ hexDigit d := by unfold hexDigit; split <;> omega

theorem hexN_ge (n : Nat) : ∀ c, ∀ x ∈ hexN n c, 48 ≤ x := by
  induction n with
  | zero => intro c x hx; simp [hexN] at hx
  | succ n ih =>
    intro c x hx
    simp only [hexN, List.mem_append, List.mem_singleton] at hx
    rcases hx with hx | rfl
    · exact ih _ _ hx
    · exact hexDigit_ge _

theorem mem_cons_hexN_ge (a n c : Nat) (ha : 48 ≤ a) : ∀ x ∈ [a] ++ hexN n c, 48 ≤ x := by
  intro x hx
  simp only [List.cons_append, List.nil_append, List.mem_cons] at hx
  rcases hx with rfl | hx
  · exact ha
  · exact hexN_ge _ _ _ hx

theorem mem_single_ge (a : Nat) (ha : 48 ≤ a) : ∀ x ∈ [a], 48 ≤ x := by
  intro x hx; simp at hx; omega

theorem unicodeEscape_shape (c : Nat) :
    unicodeEscape c = [c] ∨ ∃ t, unicodeEscape c = BS :: t ∧ t ≠ [] ∧ ∀ x ∈ t, 48 ≤ x := by
  unfold unicodeEscape escX escU4 escU8
  split
  · exact Or.inr ⟨[BS], rfl, by simp, mem_single_ge _ (by decide)⟩
  split
  · exact Or.inr ⟨[116], rfl, by simp, mem_single_ge _ (by decide)⟩
  split
  · exact Or.inr ⟨[110], rfl, by simp, mem_single_ge _ (by decide)⟩
  split
  · exact Or.inr ⟨[114], rfl, by simp, mem_single_ge _ (by decide)⟩
  split
  · exact Or.inr ⟨[120] ++ hexN 2 c, rfl, by simp, mem_cons_hexN_ge _ _ _ (by decide)⟩
  split
  · exact Or.inl rfl
  split
  · exact Or.inr ⟨[117] ++ hexN 4 c, rfl, by simp, mem_cons_hexN_ge _ _ _ (by decide)⟩
  · exact Or.inr ⟨[85] ++ hexN 8 c, rfl, by simp, mem_cons_hexN_ge _ _ _ (by decide)⟩

theorem escapeChar_shape (printable : Nat → Bool) (extra : Option Nat) (c : Nat) :
    escapeChar printable extra c = [c] ∨ (escapeChar printable extra c = [BS, c] ∧ extra = some c) ∨
      ∃ t, escapeChar printable extra c = BS :: t ∧ t ≠ [] ∧ ∀ x ∈ t, 48 ≤ x := by
  unfold escapeChar
  split
  · exact Or.inl rfl
  split
  · rcases unicodeEscape_shape c with h | h
    · exact Or.inl h
    · exact Or.inr (Or.inr h)
  split
  · rename_i h; exact Or.inr (Or.inl ⟨rfl, h.symm⟩)
  · exact Or.inl rfl

theorem Dec.plainOrQ {q : Nat} (c : Nat) (R : Str) (hc : c ≠ BS) (hR : c = q → ∀ r, R ≠ q :: q :: r) :
    Dec false q true [c] [c] R := by
  apply Dec.one (by simp)
  intro fuel acc
  by_cases h : c = q
  · subst h; exact evalBody_q_triple _ _ _ _ _ (hR rfl)
  · exact evalBody_plain _ _ _ _ _ _ _ h hc (fun _ => rfl)

theorem Dec.ofUnicodeEscape {q : Nat} (hq : q = SQ ∨ q = DQ) (c : Nat) (hc : c < 0x110000) (R : Str)
    (hR : c = q → ∀ r, R ≠ q :: q :: r) : Dec false q true (unicodeEscape c) [c] R := by
  unfold ISnap.StrLit.unicodeEscape
  split
  · subst_vars; exact Dec.one (by simp) fun fuel acc => evalBody_simpleEsc _ _ _ _ _ _ _ _ hq (by decide)
  split
  · subst_vars; exact Dec.one (by simp) fun fuel acc => evalBody_simpleEsc _ _ _ _ _ _ _ _ hq (by decide)
  split
  · subst_vars; exact Dec.one (by simp) fun fuel acc => evalBody_simpleEsc _ _ _ _ _ _ _ _ hq (by decide)
  split
  · subst_vars; exact Dec.one (by simp) fun fuel acc => evalBody_simpleEsc _ _ _ _ _ _ _ _ hq (by decide)
  split
  · exact Dec.one (by simp [escX]) fun fuel acc => evalBody_x _ _ _ _ _ _ _ hq (by omega)
  split
  · rename_i h1 _ _ _ _ _; exact Dec.plainOrQ c R h1 hR
  split
  · exact Dec.one (by simp [escU4]) fun fuel acc => evalBody_u4 _ _ _ _ _ _ hq (by omega)
  · exact Dec.one (by simp [escU8]) fun fuel acc => evalBody_u8 _ _ _ _ _ _ hq hc

theorem Dec.ofEscapeChar (printable : Nat → Bool) (extra : Option Nat)
    (hextra : ∀ e, extra = some e → e = SQ ∨ e = DQ) {q : Nat} (hq : q = SQ ∨ q = DQ)
    (c : Nat) (hc : c < 0x110000) (R : Str)
    (hR : c = q → escapeChar printable extra c = [q] → ∀ r, R ≠ q :: q :: r) :
    Dec false q true (escapeChar printable extra c) [c] R := by
  have hR' : escapeChar printable extra c = [c] → c = q → ∀ r, R ≠ q :: q :: r := by
    intro h1 h2; exact hR h2 (h2 ▸ h1)
  revert hR'
  unfold ISnap.StrLit.escapeChar
  split
  · rename_i h
    intro _
    refine Dec.plainOrQ c R (by rcases h with rfl | rfl <;> decide) ?_
    intro hcq; subst hcq; rcases hq with rfl | rfl <;> rcases h with h | h <;> cases h
  split
  · rename_i h1 h2
    intro hR'
    refine Dec.ofUnicodeEscape hq c hc R ?_
    intro hcq
    refine hR' ?_ hcq
    subst hcq
    rcases hq with rfl | rfl <;> rfl
  split
  · rename_i h
    intro _
    have := hextra c h.symm
    exact Dec.one (by simp) fun fuel acc => evalBody_simpleEsc _ _ _ _ _ _ _ _ hq (simpleEsc_q this)
  · rename_i h1 h2 h3
    intro hR'
    exact Dec.plainOrQ c R (fun h => h2 (Or.inl h)) (hR' rfl)


section body
variable (printable : Nat → Bool) (extra : Option Nat)
  (hextra : ∀ e, extra = some e → e = SQ ∨ e = DQ)

theorem escapeChar_sp (hextra : ∀ e, extra = some e → e = SQ ∨ e = DQ) :
    escapeChar printable extra 32 = [32] := by
  unfold escapeChar
  split
  · rename_i h; rcases h with h | h <;> cases h
  split
  · rfl
  split
  · rename_i h; rcases hextra 32 h.symm with h | h <;> cases h
  · rfl

theorem escapeChar_nl : escapeChar printable extra 10 = [10] := by
  simp [escapeChar, NL]

theorem escapeChar_not_mem_sp (c : Nat) (hc : c ≠ 32) : 32 ∉ escapeChar printable extra c := by
  rcases escapeChar_shape printable extra c with h | ⟨h, _⟩ | ⟨t, h, _, ht⟩ <;> rw [h]
  · simp; omega
  · simp [BS]; omega
  · simp [BS]; intro hm; have := ht _ hm; omega

/-- the first character of an escape is the character itself (unescaped) or a backslash -/
theorem escapeChar_head (c x : Nat) (X : Str) (hx : x ≠ BS)
    (h : (escapeChar printable extra c ++ X).head? = some x) :
    escapeChar printable extra c = [c] ∧ c = x := by
  rcases escapeChar_shape printable extra c with h1 | ⟨h1, _⟩ | ⟨t, h1, _, ht⟩ <;> rw [h1] at h ⊢
  · simp at h; exact ⟨rfl, h⟩
  · simp at h; exact absurd h.symm hx
  · simp at h; exact absurd h.symm hx

theorem escapeChar_quote {q : Nat} (hq : q = SQ ∨ q = DQ) :
    escapeChar printable extra q = [q] ∨ escapeChar printable extra q = [BS, q] := by
  unfold escapeChar
  split
  · rename_i h; rcases hq with rfl | rfl <;> rcases h with h | h <;> cases h
  split
  · left; rcases hq with rfl | rfl <;> rfl
  split
  · right; rfl
  · left; rfl

theorem flatMap_escape_head_ne_nl (s : Str) (h : s.head? ≠ some 10) :
    (s.flatMap (escapeChar printable extra)).head? ≠ some 10 := by
  cases s with
  | nil => simp
  | cons c s =>
    rw [List.flatMap_cons]
    intro hh
    have := (escapeChar_head printable extra c 10 _ (by decide) hh).2
    simp [this] at h

variable {q : Nat} (hq : q = SQ ∨ q = DQ)

theorem head_flatMap_escape (hq : q = SQ ∨ q = DQ) (s Z : Str)
    (h : s.flatMap (escapeChar printable extra) = q :: Z) :
    ∃ s1, s = q :: s1 ∧ escapeChar printable extra q = [q] ∧ Z = s1.flatMap (escapeChar printable extra) := by
  have hqb : q ≠ BS := by rcases hq with rfl | rfl <;> decide
  cases s with
  | nil => simp at h
  | cons c s1 =>
    rw [List.flatMap_cons] at h
    obtain ⟨h1, rfl⟩ := escapeChar_head printable extra c q _ hqb (by rw [h]; rfl)
    rw [h1] at h
    simp at h
    exact ⟨s1, rfl, h1, h.symm⟩

theorem head_replaceSpNl_flatMap (hq : q = SQ ∨ q = DQ) (s Y Z : Str)
    (h : replaceSpNl (s.flatMap (escapeChar printable extra)) ++ Y = q :: Z) :
    (∃ s1, s = q :: s1 ∧ escapeChar printable extra q = [q] ∧
        Z = replaceSpNl (s1.flatMap (escapeChar printable extra)) ++ Y) ∨ (s = [] ∧ Y = q :: Z) := by
  have hqb : q ≠ BS := by rcases hq with rfl | rfl <;> decide
  have hq32 : q ≠ 32 := by rcases hq with rfl | rfl <;> decide
  cases s with
  | nil => right; simpa [replaceSpNl_nil] using h
  | cons c s1 =>
    left
    rw [List.flatMap_cons] at h
    have hne : escapeChar printable extra c ≠ [] := by
      rcases escapeChar_shape printable extra c with h1 | ⟨h1, _⟩ | ⟨t, h1, _, ht⟩ <;> rw [h1] <;> simp
    have hh : (escapeChar printable extra c ++ s1.flatMap (escapeChar printable extra)).head? = some q := by
      rw [← replaceSpNl_head]
      have := congrArg List.head? h
      rw [List.head?_append] at this
      cases hr : (replaceSpNl (escapeChar printable extra c ++ s1.flatMap (escapeChar printable extra))).head? with
      | none =>
        rw [replaceSpNl_head] at hr
        simp at hr
        exact absurd hr.1 hne
      | some a => rw [hr] at this; simpa using this
    obtain ⟨h1, rfl⟩ := escapeChar_head printable extra c q _ hqb hh
    rw [h1, List.singleton_append, replaceSpNl_cons_ne _ _ hq32] at h
    simp at h
    exact ⟨s1, rfl, h1, h.symm⟩

theorem cons_of_append_eq_cons {R' R'' r : Str} {a : Nat} (hl : 1 ≤ R'.length) (h : R' ++ R'' = a :: r) :
    ∃ t, R' = a :: t ∧ r = t ++ R'' := by
  cases R' with
  | nil => simp at hl
  | cons b t => simp at h; exact ⟨t, by rw [h.1], h.2.symm⟩

/-- the escaped text of `s` (after the `" \n"` rewriting) decodes to `s` in a triple-quoted literal. -/
theorem Dec.body (hextra : ∀ e, extra = some e → e = SQ ∨ e = DQ) (hq : q = SQ ∨ q = DQ) (n : Nat) :
    ∀ (s : Str), s.length ≤ n → WfStr s → ∀ R' R'' : Str, 2 ≤ R'.length →
    (escapeChar printable extra q = [BS, q] ∨ ¬ triple q <:+: s ++ R') →
    Dec false q true (replaceSpNl (s.flatMap (escapeChar printable extra))) s (R' ++ R'') := by
  have hq32 : (32 : Nat) ≠ q := by rcases hq with rfl | rfl <;> decide
  induction n with
  | zero =>
    intro s hs _ R' R'' _ _
    have : s = [] := by cases s <;> simp_all
    subst this
    simpa [replaceSpNl_nil] using Dec.nil false q true (R' ++ R'')
  | succ n ih =>
    intro s hs hwf R' R'' hR' hcl
    cases s with
    | nil => simpa [replaceSpNl_nil] using Dec.nil false q true (R' ++ R'')
    | cons c s' =>
      have hwf' : WfStr s' := fun x hx => hwf x (by simp [hx])
      have hcl' : escapeChar printable extra q = [BS, q] ∨ ¬ triple q <:+: s' ++ R' := by
        rcases hcl with h | h
        · exact Or.inl h
        · exact Or.inr fun hi => h (by rw [List.cons_append]; exact List.infix_cons hi)
      have hs' : s'.length ≤ n := by simp at hs; omega
      rw [List.flatMap_cons]
      by_cases hc : c = 32
      · subst hc
        rw [escapeChar_sp printable extra hextra]
        by_cases hnl : s'.head? = some 10
        · cases s' with
          | nil => simp at hnl
          | cons d s'' =>
            simp at hnl; subst hnl
            have hwf'' : WfStr s'' := fun x hx => hwf' x (by simp [hx])
            have hcl'' : escapeChar printable extra q = [BS, q] ∨ ¬ triple q <:+: s'' ++ R' := by
              rcases hcl' with h | h
              · exact Or.inl h
              · exact Or.inr fun hi => h (by rw [List.cons_append]; exact List.infix_cons hi)
            have IH := ih s'' (by simp at hs'; omega) hwf'' R' R'' hR' hcl''
            rw [List.flatMap_cons, escapeChar_nl, List.singleton_append, List.singleton_append,
              replaceSpNl_sp_nl]
            have e1 : ([SP, BS, 110, BS, NL] ++ replaceSpNl (s''.flatMap (escapeChar printable extra)))
                = [32] ++ ([BS, 110] ++ ([BS, NL] ++ replaceSpNl (s''.flatMap (escapeChar printable extra)))) := rfl
            have e2 : (32 :: 10 :: s'') = [32] ++ ([10] ++ ([] ++ s'')) := rfl
            rw [e1, e2]
            refine Dec.append (Dec.plainOrQ 32 _ (by decide) (fun h => absurd h hq32)) ?_
            refine Dec.append (Dec.one (by simp) fun fuel acc =>
              evalBody_simpleEsc _ _ _ _ _ _ _ _ hq (by decide)) ?_
            exact Dec.append (Dec.one (by simp) fun fuel acc => evalBody_cont _ _ _ _ _ _ hq) IH
        · have IH := ih s' hs' hwf' R' R'' hR' hcl'
          rw [List.singleton_append, replaceSpNl_sp _ (flatMap_escape_head_ne_nl printable extra s' hnl)]
          have e2 : (32 :: s') = [32] ++ s' := rfl
          rw [e2, ← List.singleton_append]
          exact Dec.append (Dec.plainOrQ 32 _ (by decide) (fun h => absurd h hq32)) IH
      · have IH := ih s' hs' hwf' R' R'' hR' hcl'
        rw [replaceSpNl_append_of_not_mem _ _ (escapeChar_not_mem_sp printable extra c hc)]
        have e2 : (c :: s') = [c] ++ s' := rfl
        rw [e2]
        refine Dec.append (Dec.ofEscapeChar printable extra hextra hq c (hwf c (by simp)) _ ?_) IH
        intro hcq henc r heq
        subst hcq
        rcases hcl with h | hno
        · rw [henc] at h; simp at h
        · apply hno
          rcases head_replaceSpNl_flatMap printable extra hq s' _ _ heq with ⟨s1, rfl, _, h2⟩ | ⟨rfl, h2⟩
          · rcases head_replaceSpNl_flatMap printable extra hq s1 _ _ h2.symm with ⟨s2, rfl, _, _⟩ | ⟨rfl, h3⟩
            · exact ⟨[], s2 ++ R', by simp [triple]⟩
            · obtain ⟨t, rfl, _⟩ := cons_of_append_eq_cons (by omega) h3
              exact ⟨[], t, by simp [triple]⟩
          · obtain ⟨t, rfl, ht⟩ := cons_of_append_eq_cons (by omega) h2
            obtain ⟨t', rfl, _⟩ := cons_of_append_eq_cons (by simp at hR'; omega) ht.symm
            exact ⟨[], t', by simp [triple]⟩

end body

theorem isInfix_iff (p X : Str) : isInfix p X = true ↔ p <:+: X := by
  induction X with
  | nil => simp [isInfix]
  | cons c cs ih =>
    rw [isInfix, Bool.or_eq_true, ih, List.infix_cons_iff, List.isPrefixOf_iff_prefix]

theorem triple_prefix_cons {q c : Nat} {Y : Str} (h : triple q <+: c :: Y) : c = q ∧ ∃ Z, Y = q :: q :: Z := by
  obtain ⟨Z, hZ⟩ := h
  simp [triple] at hZ
  exact ⟨hZ.1.symm, Z, hZ.2.symm⟩

theorem triple_infix_intro (q : Nat) (A Z : Str) : triple q <:+: A ++ q :: q :: q :: Z :=
  ⟨A, Z, by simp [triple]⟩

theorem triple_infix_append_of_not_mem {q : Nat} (t X : Str) (ht : q ∉ t) (h : triple q <:+: t ++ X) :
    triple q <:+: X := by
  induction t with
  | nil => exact h
  | cons a t ih =>
    simp at ht
    rw [List.cons_append, List.infix_cons_iff] at h
    rcases h with h | h
    · exact absurd (triple_prefix_cons h).1.symm ht.1
    · exact ih ht.2 h

theorem triple_infix_snoc2_ne {q a b : Nat} (ha : a ≠ q) (X : Str) (h : triple q <:+: X ++ [a, b]) :
    triple q <:+: X := by
  induction X with
  | nil => have := h.length_le; simp [triple] at this
  | cons c X ih =>
    rw [List.cons_append, List.infix_cons_iff] at h
    rcases h with h | h
    · obtain ⟨rfl, Z, hZ⟩ := triple_prefix_cons h
      match X, hZ with
      | [], hZ => simp at hZ; exact absurd hZ.1 ha
      | [d], hZ => simp at hZ; exact absurd hZ.2.1 ha
      | d :: e :: X'', hZ =>
        simp at hZ
        obtain ⟨rfl, rfl, _⟩ := hZ
        exact triple_infix_intro _ [] X''
    · exact List.infix_cons (ih h)

theorem triple_infix_snoc_qq {q : Nat} (X : Str) (hl : X.getLast? ≠ some q) (h : triple q <:+: X ++ [q, q]) :
    triple q <:+: X := by
  induction X with
  | nil => have := h.length_le; simp [triple] at this
  | cons c X ih =>
    rw [List.cons_append, List.infix_cons_iff] at h
    rcases h with h | h
    · obtain ⟨rfl, Z, hZ⟩ := triple_prefix_cons h
      match X, hZ, hl with
      | [], hZ, hl => simp at hl
      | [d], hZ, hl => simp at hZ; simp at hl; exact absurd hZ.1 hl
      | d :: e :: X'', hZ, _ =>
        simp at hZ
        obtain ⟨rfl, rfl, _⟩ := hZ
        exact triple_infix_intro _ [] X''
    · refine List.infix_cons (ih ?_ h)
      cases X with
      | nil => simp
      | cons d X => simpa [List.getLast?_cons_cons] using hl

section
variable (printable : Nat → Bool) (extra : Option Nat) {q : Nat}

theorem triple_infix_flatMap (henc : escapeChar printable extra q = [q]) (s : Str)
    (h : triple q <:+: s) : triple q <:+: s.flatMap (escapeChar printable extra) := by
  obtain ⟨A, B, rfl⟩ := h
  simp only [List.flatMap_append, triple, List.flatMap_cons, List.flatMap_nil, henc]
  exact ⟨_, _, rfl⟩

theorem triple_infix_of_flatMap (hq : q = SQ ∨ q = DQ) (s : Str)
    (h : triple q <:+: s.flatMap (escapeChar printable extra)) :
    escapeChar printable extra q = [q] ∧ triple q <:+: s := by
  have hqb : q ≠ BS := by rcases hq with rfl | rfl <;> decide
  induction s with
  | nil => have := h.length_le; simp [triple] at this
  | cons c s ih =>
    have ih' : triple q <:+: s.flatMap (escapeChar printable extra) →
        escapeChar printable extra q = [q] ∧ triple q <:+: c :: s :=
      fun h => ⟨(ih h).1, List.infix_cons (ih h).2⟩
    rw [List.flatMap_cons] at h
    rcases escapeChar_shape printable extra c with h1 | ⟨h1, _⟩ | ⟨t, h1, _, ht⟩
    · rw [h1, List.singleton_append, List.infix_cons_iff] at h
      rcases h with h | h
      · obtain ⟨rfl, Z, hZ⟩ := triple_prefix_cons h
        obtain ⟨s1, rfl, _, hZ1⟩ := head_flatMap_escape printable extra hq s _ hZ
        obtain ⟨s2, rfl, _, _⟩ := head_flatMap_escape printable extra hq s1 _ hZ1.symm
        exact ⟨h1, triple_infix_intro _ [] s2⟩
      · exact ih' h
    · rw [h1] at h
      have h : triple q <:+: c :: s.flatMap (escapeChar printable extra) :=
        triple_infix_append_of_not_mem [BS] _ (by simp; exact hqb) h
      rw [List.infix_cons_iff] at h
      rcases h with h | h
      · obtain ⟨rfl, Z, hZ⟩ := triple_prefix_cons h
        obtain ⟨s1, rfl, h2, _⟩ := head_flatMap_escape printable extra hq s _ hZ
        rw [h1] at h2; simp at h2
      · exact ih' h
    · rw [h1] at h
      refine ih' (triple_infix_append_of_not_mem (BS :: t) _ ?_ h)
      simp only [List.mem_cons, not_or]
      refine ⟨hqb, fun hm => ?_⟩
      have := ht _ hm
      rcases hq with rfl | rfl <;> simp [SQ, DQ] at this
end


/-- the `extra` quote character of `_str_literal_helper` -/
def extraOf (s : Str) : Option Nat :=
  if isInfix (triple SQ) s ∧ isInfix (triple DQ) s then
    some (if s.count SQ ≥ s.count DQ then DQ else SQ)
  else none

theorem extraOf_quote (s : Str) : ∀ e, extraOf s = some e → e = SQ ∨ e = DQ := by
  intro e h
  unfold extraOf at h
  split at h
  · simp at h; subst h; split <;> simp
  · cases h

theorem extraOf_both (s : Str) (e : Nat) (h : extraOf s = some e) : triple SQ <:+: s ∧ triple DQ <:+: s := by
  unfold extraOf at h
  split at h
  · rename_i h'; exact ⟨(isInfix_iff _ _).1 h'.1, (isInfix_iff _ _).1 h'.2⟩
  · cases h

/-- body of the triple-quoted literal built from the escaped text `E` -/
def tqBody (E : Str) : Str :=
  if ([BS, NL] ++ replaceSpNl E).getLast? = some NL then [BS, NL] ++ replaceSpNl E
  else [BS, NL] ++ replaceSpNl E ++ [BS, NL]

theorem tripleQuote_eq (printable : Nat → Bool) (s : Str) :
    tripleQuote printable s =
      match strLiteralHelper printable s with
      | (_, []) => none
      | (E, q :: _) => some (triple q ++ tqBody E ++ triple q) := by
  unfold tripleQuote tqBody
  generalize strLiteralHelper printable s = p
  obtain ⟨E, poss⟩ := p
  cases poss <;> rfl

def escOf (printable : Nat → Bool) (s : Str) : Str := s.flatMap (escapeChar printable (extraOf s))

def possOf (printable : Nat → Bool) (s : Str) : List Nat :=
  [DQ, SQ].filter (fun q => !isInfix (triple q) (escOf printable s))

theorem mem_possOf {printable : Nat → Bool} {s : Str} {q : Nat} :
    q ∈ possOf printable s ↔ (q = SQ ∨ q = DQ) ∧ ¬ triple q <:+: escOf printable s := by
  unfold possOf
  rw [List.mem_filter, ← isInfix_iff]
  simp
  intro _; exact Or.comm

theorem strLiteralHelper_spec (printable : Nat → Bool) (s E : Str) (q : Nat) (rest : List Nat)
    (h : strLiteralHelper printable s = (E, q :: rest)) :
    q ∈ possOf printable s ∧ (E = escOf printable s ∨
      (E = (escOf printable s).dropLast ++ [BS, q] ∧ (escOf printable s).getLast? = some q ∧
        s.getLast? ≠ extraOf s)) := by
  have e1 : extraOf s = (if isInfix (triple SQ) s ∧ isInfix (triple DQ) s then
    some (if s.count SQ ≥ s.count DQ then DQ else SQ) else none) := rfl
  have e2 : escOf printable s = s.flatMap (escapeChar printable (extraOf s)) := rfl
  have e3 : possOf printable s = [DQ, SQ].filter (fun q => !isInfix (triple q) (escOf printable s)) := rfl
  unfold strLiteralHelper at h
  simp only [] at h
  simp only [← e1] at h
  simp only [← e2] at h
  simp only [← e3] at h
  clear e1 e2 e3
  split at h
  · simp only [Prod.mk.injEq] at h
    obtain ⟨rfl, h2⟩ := h
    refine ⟨?_, Or.inl rfl⟩
    rw [h2]; simp
  · rename_i last hlast
    have hmem : ∀ x, x ∈ (possOf printable s).filter (· ≠ last) ++ (possOf printable s).filter (· = last) →
        x ∈ possOf printable s := by
      intro x hx
      rw [List.mem_append, List.mem_filter, List.mem_filter] at hx
      rcases hx with hx | hx <;> exact hx.1
    split at h
    · rename_i q0 tl hp
      have hq0 : q0 ∈ possOf printable s := hmem q0 (by rw [hp]; simp)
      split at h
      · rename_i hc
        simp only [Prod.mk.injEq] at h
        obtain ⟨rfl, h2⟩ := h
        rw [hp] at h2
        simp at h2
        obtain ⟨rfl, _⟩ := h2
        obtain ⟨rfl, hc2⟩ := hc
        exact ⟨hq0, Or.inr ⟨rfl, hlast, hc2⟩⟩
      · simp only [Prod.mk.injEq] at h
        obtain ⟨rfl, h2⟩ := h
        rw [hp] at h2
        simp at h2
        obtain ⟨rfl, _⟩ := h2
        exact ⟨hq0, Or.inl rfl⟩
    · rename_i hp
      simp only [Prod.mk.injEq] at h
      rw [hp] at h
      simp at h


theorem evalLit_triple_of_dec {q : Nat} (hq : q = SQ ∨ q = DQ) (body v : Str)
    (h : Dec false q true body v (triple q)) : evalLit (triple q ++ body ++ triple q) = some v := by
  have e : triple q ++ body ++ triple q = q :: q :: q :: (body ++ triple q) := by simp [triple]
  rw [e]
  unfold evalLit
  simp only [hq, if_true, and_self]
  exact Dec.finish h (fun fuel acc => evalBody_close_triple _ _ _ _)

theorem replaceSpNl_bs_q {q : Nat} (hq : q = SQ ∨ q = DQ) : replaceSpNl [BS, q] = [BS, q] := by
  rcases hq with rfl | rfl <;> rfl

theorem Dec.cont {q : Nat} (hq : q = SQ ∨ q = DQ) (R : Str) : Dec false q true [BS, NL] [] R :=
  Dec.one (by simp) fun fuel acc => evalBody_cont _ _ _ _ _ _ hq

section
variable (printable : Nat → Bool) (extra : Option Nat)
  (hextra : ∀ e, extra = some e → e = SQ ∨ e = DQ) {q : Nat} (hq : q = SQ ∨ q = DQ)

/-- no final-quote escape: the escaped text is the plain `flatMap` -/
theorem Dec.tqBody_plain (hextra : ∀ e, extra = some e → e = SQ ∨ e = DQ) (hq : q = SQ ∨ q = DQ)
    (s : Str) (hwf : WfStr s)
    (hcl : escapeChar printable extra q = [BS, q] ∨
      (escapeChar printable extra q = [q] ∧ ¬ triple q <:+: s)) :
    Dec false q true (tqBody (s.flatMap (escapeChar printable extra))) s (triple q) := by
  have hqb : BS ≠ q := by rcases hq with rfl | rfl <;> decide
  have hqn : q ≠ NL := by rcases hq with rfl | rfl <;> decide
  unfold tqBody
  split
  · rename_i hlast
    have hcl' : escapeChar printable extra q = [BS, q] ∨ ¬ triple q <:+: s ++ [q, q] := by
      rcases hcl with h | ⟨henc, hno⟩
      · exact Or.inl h
      · refine Or.inr fun hi => hno (triple_infix_snoc_qq s ?_ hi)
        intro hl
        obtain ⟨s0, rfl⟩ := List.getLast?_eq_some_iff.1 hl
        rw [List.flatMap_append, List.flatMap_singleton, henc,
          replaceSpNl_append _ _ (by simp; rcases hq with rfl | rfl <;> decide),
          replaceSpNl_cons_ne _ _ (by rcases hq with rfl | rfl <;> decide), replaceSpNl_nil,
          ← List.append_assoc, List.getLast?_concat] at hlast
        exact hqn (Option.some.inj hlast)
    have hb := Dec.body printable extra hextra hq s.length s (Nat.le_refl _) hwf [q, q] [q] (by simp) hcl'
    have := Dec.append (Dec.cont hq _) hb
    simpa [triple] using this
  · have hcl' : escapeChar printable extra q = [BS, q] ∨ ¬ triple q <:+: s ++ [BS, NL] := by
      rcases hcl with h | ⟨_, hno⟩
      · exact Or.inl h
      · exact Or.inr fun hi => hno (triple_infix_snoc2_ne hqb s hi)
    have hb := Dec.body printable extra hextra hq s.length s (Nat.le_refl _) hwf [BS, NL] (triple q) (by simp) hcl'
    have h2 : Dec false q true (replaceSpNl (s.flatMap (escapeChar printable extra)) ++ [BS, NL]) (s ++ []) (triple q) :=
      Dec.append (by simpa using hb) (Dec.cont hq _)
    have := Dec.append (Dec.cont hq _) h2
    simpa using this

/-- final quote escaped -/
theorem Dec.tqBody_final (hextra : ∀ e, extra = some e → e = SQ ∨ e = DQ) (hq : q = SQ ∨ q = DQ)
    (s0 : Str) (hwf : WfStr s0) (hno : ¬ triple q <:+: s0) :
    Dec false q true (tqBody (s0.flatMap (escapeChar printable extra) ++ [BS, q])) (s0 ++ [q]) (triple q) := by
  have hqb : BS ≠ q := by rcases hq with rfl | rfl <;> decide
  have hqn : q ≠ NL := by rcases hq with rfl | rfl <;> decide
  unfold tqBody
  rw [replaceSpNl_append _ _ (by simp [BS]), replaceSpNl_bs_q hq]
  split
  · rename_i hlast
    have e : ∀ X : Str, [BS, NL] ++ (X ++ [BS, q]) = ([BS, NL] ++ X ++ [BS]) ++ [q] := by intro X; simp
    rw [e, List.getLast?_concat] at hlast
    exact absurd (Option.some.inj hlast) hqn
  · have hcl' : escapeChar printable extra q = [BS, q] ∨ ¬ triple q <:+: s0 ++ [BS, q] :=
      Or.inr fun hi => hno (triple_infix_snoc2_ne hqb s0 hi)
    have hb := Dec.body printable extra hextra hq s0.length s0 (Nat.le_refl _) hwf [BS, q]
      ([BS, NL] ++ triple q) (by simp) hcl'
    have h1 : Dec false q true [BS, q] [q] ([BS, NL] ++ triple q) :=
      Dec.one (by simp) fun fuel acc => evalBody_simpleEsc _ _ _ _ _ _ _ _ hq (simpleEsc_q hq)
    have h2 : Dec false q true ([BS, q] ++ [BS, NL]) ([q] ++ []) (triple q) :=
      Dec.append h1 (Dec.cont hq _)
    have h3 := Dec.append (by simpa using hb) h2
    have := Dec.append (Dec.cont hq _) h3
    simpa using this
end


theorem strLiteralHelper_poss_ne (printable : Nat → Bool) (s : Str) (hne : possOf printable s ≠ []) :
    (strLiteralHelper printable s).2 ≠ [] := by
  have e1 : extraOf s = (if isInfix (triple SQ) s ∧ isInfix (triple DQ) s then
    some (if s.count SQ ≥ s.count DQ then DQ else SQ) else none) := rfl
  have e2 : escOf printable s = s.flatMap (escapeChar printable (extraOf s)) := rfl
  have e3 : possOf printable s = [DQ, SQ].filter (fun q => !isInfix (triple q) (escOf printable s)) := rfl
  unfold strLiteralHelper
  simp only []
  simp only [← e1]
  simp only [← e2]
  simp only [← e3]
  clear e1 e2 e3
  split
  · exact hne
  · rename_i last hlast
    split
    · rename_i q0 tl hp
      split <;> (show _ ++ _ ≠ []; rw [hp]; exact List.cons_ne_nil _ _)
    · rename_i hp
      exfalso
      apply hne
      rw [List.append_eq_nil_iff, List.filter_eq_nil_iff, List.filter_eq_nil_iff] at hp
      apply List.eq_nil_iff_forall_not_mem.2
      intro x hx
      have h1 := hp.1 x hx
      have h2 := hp.2 x hx
      simp at h1 h2
      exact h2 h1

theorem escapeChar_extra (printable : Nat → Bool) {e : Nat} (he : e = SQ ∨ e = DQ) (hp : printable e = true) :
    escapeChar printable (some e) e = [BS, e] := by
  unfold escapeChar
  split
  · rename_i h; rcases he with rfl | rfl <;> rcases h with h | h <;> cases h
  split
  · rename_i h; rcases h with h | h
    · rcases he with rfl | rfl <;> cases h
    · exact absurd hp h
  · simp

theorem possOf_ne_nil (printable : Nat → Bool) (s : Str)
    (hp : ∀ e, extraOf s = some e → printable e = true) : possOf printable s ≠ [] := by
  suffices h : ∃ q, q ∈ possOf printable s by
    obtain ⟨q, hq⟩ := h; intro h0; rw [h0] at hq; cases hq
  cases hx : extraOf s with
  | some e =>
    have he := extraOf_quote s e hx
    refine ⟨e, mem_possOf.2 ⟨he, fun hi => ?_⟩⟩
    unfold escOf at hi
    rw [hx] at hi
    have := (triple_infix_of_flatMap printable (some e) he s hi).1
    rw [escapeChar_extra printable he (hp e hx)] at this
    simp at this
  | none =>
    have hnb : ¬ (triple SQ <:+: s ∧ triple DQ <:+: s) := by
      intro hb
      unfold extraOf at hx
      rw [if_pos ⟨(isInfix_iff _ _).2 hb.1, (isInfix_iff _ _).2 hb.2⟩] at hx
      cases hx
    by_cases h1 : triple SQ <:+: s
    · refine ⟨DQ, mem_possOf.2 ⟨Or.inr rfl, fun hi => hnb ⟨h1, ?_⟩⟩⟩
      exact (triple_infix_of_flatMap printable _ (Or.inr rfl) s hi).2
    · refine ⟨SQ, mem_possOf.2 ⟨Or.inl rfl, fun hi => h1 ?_⟩⟩
      exact (triple_infix_of_flatMap printable _ (Or.inl rfl) s hi).2

theorem tripleQuote_isSome_of (printable : Nat → Bool) (s : Str)
    (hp : ∀ e, extraOf s = some e → printable e = true) : (tripleQuote printable s).isSome := by
  have h := strLiteralHelper_poss_ne printable s (possOf_ne_nil printable s hp)
  rw [tripleQuote_eq]
  generalize strLiteralHelper printable s = p at h
  obtain ⟨E, poss⟩ := p
  cases poss with
  | nil => exact absurd rfl h
  | cons q r => rfl

/-- the round trip at the level of `Dec`: whatever quote and escaped text the helper returns -/
theorem evalLit_tripleQuote_aux (printable : Nat → Bool) (s : Str) (h : WfStr s) (t : Str)
    (ht : tripleQuote printable s = some t) : evalLit t = some s := by
  rw [tripleQuote_eq] at ht
  generalize hp : strLiteralHelper printable s = p at ht
  obtain ⟨E, poss⟩ := p
  cases poss with
  | nil => cases ht
  | cons q rest =>
    simp only [Option.some.injEq] at ht
    subst ht
    obtain ⟨hmem, hE⟩ := strLiteralHelper_spec printable s E q rest hp
    obtain ⟨hq, hno⟩ := mem_possOf.1 hmem
    have hqb : q ≠ BS := by rcases hq with rfl | rfl <;> decide
    apply evalLit_triple_of_dec hq
    rcases hE with rfl | ⟨rfl, hlast, hne⟩
    · apply Dec.tqBody_plain printable (extraOf s) (extraOf_quote s) hq s h
      rcases escapeChar_quote printable (extraOf s) hq with h1 | h1
      · right; exact ⟨h1, fun hi => hno (triple_infix_flatMap printable _ h1 s hi)⟩
      · left; exact h1
    · cases hs : s.getLast? with
      | none =>
        rw [List.getLast?_eq_none_iff] at hs
        subst hs
        simp [escOf] at hlast
      | some c =>
        obtain ⟨s0, hs0⟩ := List.getLast?_eq_some_iff.1 hs
        have hesc : escOf printable s = s0.flatMap (escapeChar printable (extraOf s)) ++
            escapeChar printable (extraOf s) c := by
          unfold escOf; rw [hs0, List.flatMap_append, List.flatMap_singleton, ← hs0]
        rw [hesc] at hlast hno ⊢
        rcases escapeChar_shape printable (extraOf s) c with h1 | ⟨h1, hx⟩ | ⟨t, h1, htne, ht⟩
        · rw [h1, List.getLast?_concat] at hlast
          have hcq : c = q := Option.some.inj hlast
          subst hcq
          rw [h1, List.dropLast_concat]
          have hd := Dec.tqBody_final printable (extraOf s) (extraOf_quote s) hq s0
            (fun x hx => h x (by rw [hs0]; simp [hx])) (by
              intro hi
              apply hno
              have h2 : triple c <:+: s0 ++ [c] := hi.trans (List.prefix_append s0 [c]).isInfix
              rw [← hs0] at h2
              have h3 := triple_infix_flatMap printable _ h1 s h2
              rw [← hesc]; exact h3)
          rw [← hs0] at hd
          exact hd
        · exact absurd (hs.trans hx.symm) hne
        · exfalso
          rw [h1] at hlast
          have e : s0.flatMap (escapeChar printable (extraOf s)) ++ BS :: t =
              (s0.flatMap (escapeChar printable (extraOf s)) ++ BS :: t.dropLast) ++ [t.getLast htne] := by
            rw [List.append_assoc, List.cons_append, List.dropLast_concat_getLast]
          rw [e, List.getLast?_concat] at hlast
          have hm : q ∈ t := by
            rw [← Option.some.inj hlast]; exact List.getLast_mem htne
          have := ht _ hm
          rcases hq with rfl | rfl <;> simp [SQ, DQ] at this


theorem reprChar_no_nl (printable : Nat → Bool) {q : Nat} (hq : q = SQ ∨ q = DQ) (c : Nat) :
    NL ∉ reprChar printable q c := by
  have hqn : ¬ NL = q := by rcases hq with rfl | rfl <;> decide
  have hx : ∀ n c, NL ∉ hexN n c := fun n c hm => by have := hexN_ge n c _ hm; simp [NL] at this
  unfold reprChar escX escU4 escU8
  split
  · rename_i h
    rcases h with rfl | rfl
    · simp [BS, NL]; exact hqn
    · simp [BS, NL]
  repeat' split
  all_goals first
    | (simp [BS, NL]; done)
    | (simp only [List.cons_append, List.nil_append, List.mem_cons, not_or]
       exact ⟨by decide, by decide, hx _ _⟩)
    | (rename_i h3 _ _ _ ; simp [NL] at h3 ⊢; omega)
    | (rename_i h3 _ _ _ _ ; simp [NL] at h3 ⊢; omega)

theorem pyRepr_no_nl (printable : Nat → Bool) (s : Str) : NL ∉ pyRepr printable s := by
  have hq := reprQuote_cases s
  have hqn : ¬ NL = reprQuote s := by rcases hq with h | h <;> rw [h] <;> decide
  unfold pyRepr
  simp only [List.mem_append, List.mem_singleton, List.mem_flatMap, not_or, not_exists, not_and]
  exact ⟨⟨hqn, fun c _ => reprChar_no_nl printable hq c⟩, hqn⟩

/-- when the `extra` quote is not printable, no quote type is left: `triple_quote` fails -/
theorem tripleQuote_eq_none (printable : Nat → Bool) (s : Str) (e : Nat)
    (he : extraOf s = some e) (hp : printable e = false) : tripleQuote printable s = none := by
  have heq := extraOf_quote s e he
  have hboth := extraOf_both s e he
  rw [tripleQuote_eq]
  generalize hh : strLiteralHelper printable s = p
  obtain ⟨E, poss⟩ := p
  cases poss with
  | nil => rfl
  | cons q rest =>
    exfalso
    obtain ⟨hmem, _⟩ := strLiteralHelper_spec printable s E q rest hh
    obtain ⟨hq, hno⟩ := mem_possOf.1 hmem
    apply hno
    have hqs : triple q <:+: s := by rcases hq with rfl | rfl; exact hboth.1; exact hboth.2
    refine triple_infix_flatMap printable _ ?_ s hqs
    rw [he]
    by_cases hqe : q = e
    · subst hqe
      unfold escapeChar
      rw [if_neg (by rcases hq with rfl | rfl <;> decide), if_pos (Or.inr (by simp [hp]))]
      rcases hq with rfl | rfl <;> rfl
    · rcases escapeChar_shape printable (some e) q with h1 | ⟨_, h1⟩ | ⟨t, h1, _, ht⟩
      · exact h1
      · exact absurd (Option.some.inj h1).symm hqe
      · rcases escapeChar_quote printable (some e) hq with h2 | h2
        · exact h2
        · rw [h2] at h1
          simp at h1
          have := ht q (by rw [← h1]; simp)
          rcases hq with rfl | rfl <;> simp [SQ, DQ] at this

end ISnap.StrLit
