import ISnap.Model.Align
/-
  Helper lemmas for C11 (`_align.py`): the executable matrix is the tabulation of `cell`, the
  backtracking loop follows an optimal valid path, prefix/suffix stripping, `add_x`.
-/
namespace ISnap.Align

/-! ### specification notions -/

/-- `s` is an alignment of the first `i` old and first `j` new elements: `m` consumes one of each and
    needs `E`, `i` consumes a new one, `d` an old one -/
inductive Valid (E : Nat → Nat → Bool) : Nat → Nat → List Dir → Prop
  | nil : Valid E 0 0 []
  | m {i j s} : Valid E i j s → E i j = true → Valid E (i+1) (j+1) (s ++ [.m])
  | i {i j s} : Valid E i j s → Valid E i (j+1) (s ++ [.i])
  | d {i j s} : Valid E i j s → Valid E (i+1) j (s ++ [.d])

/-- same, where `x` consumes one old and one new element without requiring `E` (a replacement) -/
inductive ValidX (E : Nat → Nat → Bool) : Nat → Nat → List Dir → Prop
  | nil : ValidX E 0 0 []
  | m {i j s} : ValidX E i j s → E i j = true → ValidX E (i+1) (j+1) (s ++ [.m])
  | i {i j s} : ValidX E i j s → ValidX E i (j+1) (s ++ [.i])
  | d {i j s} : ValidX E i j s → ValidX E (i+1) j (s ++ [.d])
  | x {i j s} : ValidX E i j s → ValidX E (i+1) (j+1) (s ++ [.x])

/-- number of matched pairs of a script -/
def «matches» (s : List Dir) : Nat := s.count .m

/-- the score stored in the specification matrix -/
def score (E : Nat → Nat → Bool) (i j : Nat) : Nat := (cell E i j).1

/-! ### `pick` and `cell` -/

theorem pick_fst (eq : Bool) (la lc lb : Nat) :
    (pick eq la lc lb).1 = max (max la lb) (if eq then lc + 1 else 0) := by
  unfold pick
  cases eq <;> simp <;> (repeat' split) <;> simp_all <;> omega

theorem pick_dir_m {eq la lc lb} (h : (pick eq la lc lb).2 = .m) :
    eq = true ∧ (pick eq la lc lb).1 = lc + 1 := by
  unfold pick at h ⊢
  split at h
  · rename_i hc; simp at hc; simp [hc]
  · split at h <;> simp at h

theorem pick_dir_i {eq la lc lb} (h : (pick eq la lc lb).2 = .i) :
    (pick eq la lc lb).1 = la := by
  unfold pick at h ⊢
  by_cases c : (eq && decide (lc + 1 ≥ la) && decide (lc + 1 ≥ lb)) = true
  · rw [if_pos c] at h; simp at h
  · rw [if_neg c] at h ⊢
    split at h
    · rename_i h2; rw [if_pos h2]; try simp at h
    · rename_i h2; rw [if_neg h2]; try simp at h

theorem pick_dir_d {eq la lc lb} (h : (pick eq la lc lb).2 = .d) :
    (pick eq la lc lb).1 = lb := by
  unfold pick at h ⊢
  by_cases c : (eq && decide (lc + 1 ≥ la) && decide (lc + 1 ≥ lb)) = true
  · rw [if_pos c] at h; simp at h
  · rw [if_neg c] at h ⊢
    split at h
    · rename_i h2; rw [if_pos h2]; try simp at h
    · rename_i h2; rw [if_neg h2]; try simp at h

theorem pick_dir_ne_e {eq la lc lb} : (pick eq la lc lb).2 ≠ .e := by
  unfold pick
  split
  · simp
  · split <;> simp

theorem pick_dir_ne_x {eq la lc lb} : (pick eq la lc lb).2 ≠ .x := by
  unfold pick
  split
  · simp
  · split <;> simp

@[simp] theorem cell_zero_zero (E) : cell E 0 0 = (0, .e) := by simp [cell]
@[simp] theorem cell_zero_succ (E) (j : Nat) : cell E 0 (j+1) = (0, .i) := by simp [cell]
@[simp] theorem cell_succ_zero (E) (i : Nat) : cell E (i+1) 0 = (0, .d) := by simp [cell]
theorem cell_succ_succ (E) (i j : Nat) :
    cell E (i+1) (j+1) = pick (E i j) (cell E (i+1) j).1 (cell E i j).1 (cell E i (j+1)).1 := by
  rw [cell]

@[simp] theorem score_zero_left (E) (j : Nat) : score E 0 j = 0 := by
  cases j <;> simp [score]
@[simp] theorem score_zero_right (E) (i : Nat) : score E i 0 = 0 := by
  cases i <;> simp [score]
theorem score_succ_succ (E) (i j : Nat) :
    score E (i+1) (j+1) =
      max (max (score E (i+1) j) (score E i (j+1))) (if E i j then score E i j + 1 else 0) := by
  simp only [score, cell_succ_succ, pick_fst]

/-- what the direction letter of a cell says about the cell -/
theorem cell_dir (E : Nat → Nat → Bool) (i j : Nat) :
    match (cell E i j).2 with
    | .e => i = 0 ∧ j = 0
    | .m => ∃ i' j', i = i'+1 ∧ j = j'+1 ∧ E i' j' = true ∧ score E i j = score E i' j' + 1
    | .i => ∃ j', j = j'+1 ∧ score E i j = score E i j'
    | .d => ∃ i', i = i'+1 ∧ score E i j = score E i' j
    | .x => False := by
  match i, j with
  | 0, 0 => simp
  | 0, j+1 => simp
  | i+1, 0 => simp
  | i+1, j+1 =>
    simp only [score]
    rw [cell_succ_succ]
    generalize hp : pick (E i j) (cell E (i+1) j).1 (cell E i j).1 (cell E i (j+1)).1 = p
    rcases p with ⟨sc, dir⟩
    cases dir with
    | e => exact absurd (by rw [hp]) (pick_dir_ne_e (eq := E i j) (la := (cell E (i+1) j).1)
              (lc := (cell E i j).1) (lb := (cell E i (j+1)).1))
    | x => exact absurd (by rw [hp]) (pick_dir_ne_x (eq := E i j) (la := (cell E (i+1) j).1)
              (lc := (cell E i j).1) (lb := (cell E i (j+1)).1))
    | m =>
      have := pick_dir_m (eq := E i j) (la := (cell E (i+1) j).1)
              (lc := (cell E i j).1) (lb := (cell E i (j+1)).1) (by rw [hp])
      rw [hp] at this
      exact ⟨i, j, rfl, rfl, this.1, this.2⟩
    | i =>
      have := pick_dir_i (eq := E i j) (la := (cell E (i+1) j).1)
              (lc := (cell E i j).1) (lb := (cell E i (j+1)).1) (by rw [hp])
      rw [hp] at this
      exact ⟨j, rfl, this⟩
    | d =>
      have := pick_dir_d (eq := E i j) (la := (cell E (i+1) j).1)
              (lc := (cell E i j).1) (lb := (cell E i (j+1)).1) (by rw [hp])
      rw [hp] at this
      exact ⟨i, rfl, this⟩

/-! ### the score: monotone, 1-Lipschitz at both ends -/

theorem score_mono_right (E) (i j : Nat) : score E i j ≤ score E i (j+1) := by
  cases i with
  | zero => simp
  | succ i => rw [score_succ_succ]; omega

theorem score_mono_left (E) (i j : Nat) : score E i j ≤ score E (i+1) j := by
  cases j with
  | zero => simp
  | succ j => rw [score_succ_succ]; omega

theorem score_diag (E) (i j : Nat) (h : E i j = true) : score E i j + 1 ≤ score E (i+1) (j+1) := by
  rw [score_succ_succ, if_pos h]; omega

theorem score_lip_left (E) (i j : Nat) : score E (i+1) j ≤ score E i j + 1 := by
  induction j with
  | zero => simp
  | succ j ih =>
    rw [score_succ_succ]
    have := score_mono_right E i j
    split <;> omega

theorem score_lip_right (E) (i j : Nat) : score E i (j+1) ≤ score E i j + 1 := by
  induction i with
  | zero => simp
  | succ i ih =>
    rw [score_succ_succ]
    have := score_mono_left E i j
    split <;> omega

/-- dropping the last pair loses at most one match (whatever `E` says about that pair) -/
theorem score_lip_diag (E) (i j : Nat) : score E (i+1) (j+1) ≤ score E i j + 1 := by
  rw [score_succ_succ]
  have := score_lip_left E i j
  have := score_lip_right E i j
  split <;> omega

theorem score_strip_suffix (E) (i j e : Nat) : score E (i+e) (j+e) ≤ score E i j + e := by
  induction e with
  | zero => simp
  | succ e ih =>
    have := score_lip_diag E (i+e) (j+e)
    simp only [← Nat.add_assoc]; omega

/-- dropping the first pair loses at most one match (whatever `E` says about that pair) -/
theorem score_lip_front (E : Nat → Nat → Bool) (i j : Nat) :
    score E (i+1) (j+1) ≤ score (fun a b => E (a+1) (b+1)) i j + 1 := by
  induction i generalizing j with
  | zero =>
    have := score_lip_left E 0 (j+1)
    simp at this ⊢; exact this
  | succ i ihi =>
    induction j with
    | zero =>
      have := score_lip_right E (i+1+1) 0
      simp at this ⊢; exact this
    | succ j ihj =>
      rw [score_succ_succ E, score_succ_succ (fun a b => E (a+1) (b+1))]
      have h1 := ihi (j+1)
      have h2 := ihi j
      split <;> omega

theorem score_strip_prefix (E : Nat → Nat → Bool) (p i j : Nat) :
    score E (p+i) (p+j) ≤ p + score (fun a b => E (p+a) (p+b)) i j := by
  induction p generalizing E with
  | zero => simp
  | succ p ih =>
    have h1 := ih (fun a b => E (a+1) (b+1))
    have h2 := score_lip_front E (p+i) (p+j)
    have e : (fun a b => E (p+1+a) (p+1+b)) = (fun a b => E (p+a+1) (p+b+1)) := by
      funext a b; congr 1 <;> omega
    rw [e]
    have e1 : p + 1 + i = p + i + 1 := by omega
    have e2 : p + 1 + j = p + j + 1 := by omega
    rw [e1, e2]; omega

theorem score_le_left (E) (i j : Nat) : score E i j ≤ i := by
  induction i with
  | zero => simp
  | succ i ih => have := score_lip_left E i j; omega

/-! ### `Valid`: counting, the score is an upper bound -/

@[simp] theorem matches_nil : «matches» [] = 0 := rfl
@[simp] theorem matches_append (s t : List Dir) : «matches» (s ++ t) = «matches» s + «matches» t := by
  simp [«matches»]
@[simp] theorem matches_cons_m (s : List Dir) : «matches» (.m :: s) = «matches» s + 1 := by
  simp [«matches»]
@[simp] theorem matches_replicate_m (k : Nat) : «matches» (List.replicate k .m) = k := by
  simp [«matches»]
theorem matches_replicate_ne {c : Dir} (h : c ≠ .m) (k : Nat) :
    «matches» (List.replicate k c) = 0 := by
  simp only [«matches», List.count_replicate]
  have : (c == Dir.m) = false := by simp [h]
  simp [this]

/-- no valid alignment has more matches than the matrix entry -/
theorem Valid.matches_le {E i j s} (h : Valid E i j s) : «matches» s ≤ score E i j := by
  induction h with
  | nil => simp
  | m _ hE ih => have := score_diag E _ _ hE; simp [«matches»] at ih ⊢; omega
  | i _ ih => rename_i i j s _; have := score_mono_right E i j; simp [«matches»] at ih ⊢; omega
  | d _ ih => rename_i i j s _; have := score_mono_left E i j; simp [«matches»] at ih ⊢; omega

/-! ### the executable matrix is the tabulation of `cell` -/

/-- row `k` of the specification matrix, columns `0 … m` -/
def rowSpec (E : Nat → Nat → Bool) (m k : Nat) : List Cell := (List.range (m+1)).map (cell E k)

theorem nextRowAux_spec (E : Nat → Nat → Bool) (i d j : Nat) :
    nextRowAux (E i) j (cell E (i+1) j) ((List.range' j (d+1)).map (cell E i)) =
      (List.range' (j+1) d).map (cell E (i+1)) := by
  induction d generalizing j with
  | zero => simp [List.range', nextRowAux]
  | succ d ih =>
    have := ih (j+1)
    simp only [List.range'_succ, List.map_cons] at this ⊢
    rw [nextRowAux]
    simp only [← cell_succ_succ]
    rw [this]

theorem firstRow_spec (E) (m : Nat) : firstRow m = rowSpec E m 0 := by
  unfold firstRow rowSpec
  rw [List.range_eq_range', List.range'_succ]
  simp only [List.map_cons, cell_zero_zero, Nat.zero_add]
  congr 1
  apply List.ext_getElem
  · simp
  · intro k h1 h2
    simp [Nat.add_comm 1 k]

theorem nextRow_spec (E) (m i : Nat) : nextRow (E i) (rowSpec E m i) = rowSpec E m (i+1) := by
  unfold nextRow rowSpec
  rw [List.range_eq_range']
  have := nextRowAux_spec E i m 0
  simp only [cell_succ_zero] at this
  rw [this, List.range'_succ]
  simp

theorem rowsRev_spec (E) (m i : Nat) :
    rowsRev E m i = ((List.range (i+1)).map (rowSpec E m)).reverse := by
  induction i with
  | zero => simp [rowsRev, firstRow_spec E]
  | succ i ih =>
    rw [rowsRev, ih, List.range_succ (n := i+1)]
    simp only [List.map_append, List.reverse_append, List.map_cons, List.map_nil,
      List.reverse_cons, List.reverse_nil, List.nil_append, List.cons_append]
    rw [List.range_succ]
    simp only [List.map_append, List.reverse_append, List.map_cons, List.map_nil,
      List.reverse_cons, List.reverse_nil, List.nil_append, List.cons_append, nextRow_spec]

theorem matrix_spec (E) (n m : Nat) : matrix E n m = (List.range (n+1)).map (rowSpec E m) := by
  simp [matrix, rowsRev_spec]

/-- the executable row-by-row matrix is the tabulation of the specification -/
theorem getCell_matrix (E) (n m i j : Nat) (hi : i ≤ n) (hj : j ≤ m) :
    getCell (matrix E n m) i j = cell E i j := by
  have h1 : i < n + 1 := by omega
  have h2 : j < m + 1 := by omega
  simp [getCell, matrix_spec, rowSpec, List.getD_eq_getElem?_getD, h1, h2]

/-! ### backtracking -/

/-- the loop, started at an in-range cell with enough fuel, prepends a valid alignment of `(i, j)`
    whose number of matches is the score of the cell -/
theorem backM_spec (E) (n m : Nat) :
    ∀ fuel i j acc, i ≤ n → j ≤ m → i + j + 1 ≤ fuel →
      ∃ s, backM (matrix E n m) fuel i j acc = s ++ acc ∧ Valid E i j s ∧
        «matches» s = score E i j := by
  intro fuel
  induction fuel with
  | zero => intro i j acc _ _ h; omega
  | succ fuel ih =>
    intro i j acc hi hj h
    have hd := cell_dir E i j
    unfold backM
    rw [getCell_matrix E n m i j hi hj]
    generalize hc : (cell E i j).2 = dir at hd
    cases dir with
    | e =>
      obtain ⟨rfl, rfl⟩ := hd
      exact ⟨[], by simp, Valid.nil, by simp⟩
    | x => exact hd.elim
    | m =>
      obtain ⟨i', j', rfl, rfl, hE, hs⟩ := hd
      obtain ⟨s, hs', hv, hm⟩ := ih i' j' (.m :: acc) (by omega) (by omega) (by omega)
      refine ⟨s ++ [.m], ?_, Valid.m hv hE, ?_⟩
      · simpa using hs'
      · simp [hm, hs]
    | i =>
      obtain ⟨j', rfl, hs⟩ := hd
      obtain ⟨s, hs', hv, hm⟩ := ih i j' (.i :: acc) (by omega) (by omega) (by omega)
      refine ⟨s ++ [.i], ?_, Valid.i hv, ?_⟩
      · simpa using hs'
      · rw [hs, ← hm]; simp [«matches»]
    | d =>
      obtain ⟨i', rfl, hs⟩ := hd
      obtain ⟨s, hs', hv, hm⟩ := ih i' j (.d :: acc) (by omega) (by omega) (by omega)
      refine ⟨s ++ [.d], ?_, Valid.d hv, ?_⟩
      · simpa using hs'
      · rw [hs, ← hm]; simp [«matches»]

/-- any two sufficient amounts of fuel give the same result: the loop stops at the `e` cell -/
theorem backM_fuel_irrel (E) (n m : Nat) :
    ∀ fuel fuel' i j acc, i ≤ n → j ≤ m → i + j + 1 ≤ fuel → i + j + 1 ≤ fuel' →
      backM (matrix E n m) fuel i j acc = backM (matrix E n m) fuel' i j acc := by
  intro fuel
  induction fuel with
  | zero => intro fuel' i j acc _ _ h; omega
  | succ fuel ih =>
    intro fuel' i j acc hi hj h h'
    cases fuel' with
    | zero => omega
    | succ fuel' =>
      have hd := cell_dir E i j
      unfold backM
      rw [getCell_matrix E n m i j hi hj]
      generalize hc : (cell E i j).2 = dir at hd
      cases dir with
      | e => rfl
      | x => rfl
      | m =>
        obtain ⟨i', j', rfl, rfl, -, -⟩ := hd
        exact ih fuel' i' j' _ (by omega) (by omega) (by omega) (by omega)
      | i =>
        obtain ⟨j', rfl, -⟩ := hd
        exact ih fuel' i j' _ (by omega) (by omega) (by omega) (by omega)
      | d =>
        obtain ⟨i', rfl, -⟩ := hd
        exact ih fuel' i' j _ (by omega) (by omega) (by omega) (by omega)

theorem nwAlign_spec (E) (n m : Nat) :
    Valid E n m (nwAlign E n m) ∧ «matches» (nwAlign E n m) = score E n m := by
  obtain ⟨s, hs, hv, hm⟩ := backM_spec E n m (n + m + 1) n m [] (Nat.le_refl _) (Nat.le_refl _)
    (Nat.le_refl _)
  simp only [List.append_nil] at hs
  rw [nwAlign, hs]; exact ⟨hv, hm⟩

/-! ### common prefix / suffix -/

theorem prefixLen_spec (E : Nat → Nat → Bool) (fuel k : Nat) :
    k ≤ prefixLen E fuel k ∧ prefixLen E fuel k ≤ k + fuel ∧
    (∀ x, k ≤ x → x < prefixLen E fuel k → E x x = true) ∧
    (prefixLen E fuel k < k + fuel → E (prefixLen E fuel k) (prefixLen E fuel k) = false) := by
  induction fuel generalizing k with
  | zero => simp [prefixLen]; intro x h1 h2; omega
  | succ fuel ih =>
    rw [prefixLen]
    by_cases h : E k k = true
    · rw [if_pos h]
      obtain ⟨h1, h2, h3, h4⟩ := ih (k+1)
      refine ⟨by omega, by omega, ?_, fun hlt => h4 (by omega)⟩
      intro x hx1 hx2
      by_cases hxk : x = k
      · rw [hxk]; exact h
      · exact h3 x (by omega) hx2
    · rw [if_neg h]
      refine ⟨Nat.le_refl _, by omega, fun x h1 h2 => by omega, fun _ => by simpa using h⟩

theorem suffixLen_spec (E : Nat → Nat → Bool) (n m fuel k : Nat) :
    k ≤ suffixLen E n m fuel k ∧ suffixLen E n m fuel k ≤ k + fuel ∧
    (∀ x, k ≤ x → x < suffixLen E n m fuel k → E (n-1-x) (m-1-x) = true) ∧
    (suffixLen E n m fuel k < k + fuel →
      E (n-1-suffixLen E n m fuel k) (m-1-suffixLen E n m fuel k) = false) := by
  induction fuel generalizing k with
  | zero => simp [suffixLen]; intro x h1 h2; omega
  | succ fuel ih =>
    rw [suffixLen]
    by_cases h : E (n-1-k) (m-1-k) = true
    · rw [if_pos h]
      obtain ⟨h1, h2, h3, h4⟩ := ih (k+1)
      refine ⟨by omega, by omega, ?_, fun hlt => h4 (by omega)⟩
      intro x hx1 hx2
      by_cases hxk : x = k
      · rw [hxk]; exact h
      · exact h3 x (by omega) hx2
    · rw [if_neg h]
      refine ⟨Nat.le_refl _, by omega, fun x h1 h2 => by omega, fun _ => by simpa using h⟩

theorem Valid.replicate_m {E : Nat → Nat → Bool} (p : Nat) (hp : ∀ k, k < p → E k k = true) :
    Valid E p p (List.replicate p .m) := by
  induction p with
  | zero => exact Valid.nil
  | succ p ih =>
    rw [List.replicate_succ']
    exact Valid.m (ih (fun k hk => hp k (by omega))) (hp p (by omega))

/-- put `p` equal leading pairs in front of an alignment of the rest -/
theorem Valid.prepend_m {E : Nat → Nat → Bool} {p i j t} (hp : ∀ k, k < p → E k k = true)
    (h : Valid (fun a b => E (p+a) (p+b)) i j t) :
    Valid E (p+i) (p+j) (List.replicate p .m ++ t) := by
  induction h with
  | nil => simpa using Valid.replicate_m p hp
  | m _ hE ih => rw [← List.append_assoc]; exact Valid.m ih hE
  | i _ ih => rw [← List.append_assoc]; exact Valid.i ih
  | d _ ih => rw [← List.append_assoc]; exact Valid.d ih

/-- put `e` equal trailing pairs behind an alignment -/
theorem Valid.append_m {E : Nat → Nat → Bool} {i j t} (h : Valid E i j t) (e : Nat)
    (he : ∀ k, k < e → E (i+k) (j+k) = true) :
    Valid E (i+e) (j+e) (t ++ List.replicate e .m) := by
  induction e with
  | zero => simpa using h
  | succ e ih =>
    rw [List.replicate_succ', ← List.append_assoc]
    exact Valid.m (ih (fun k hk => he k (by omega))) (he e (by omega))

/-- `align`, with the two stripped lengths named -/
theorem align_eq (E : Nat → Nat → Bool) (n m s e : Nat) (hs : s = prefixLen E (min n m) 0)
    (he : e = suffixLen E n m (min (n - s) (m - s)) 0) :
    align E n m =
      if s = n ∧ s = m then List.replicate s .m
      else List.replicate s .m ++ nwAlign (fun i j => E (s + i) (s + j)) (n - s - e) (m - s - e)
        ++ List.replicate e .m := by
  subst hs; subst he; rfl

theorem valid_align (E : Nat → Nat → Bool) (n m : Nat) : Valid E n m (align E n m) := by
  rw [align_eq E n m _ _ rfl rfl]
  obtain ⟨-, p2, p3, -⟩ := prefixLen_spec E (min n m) 0
  generalize prefixLen E (min n m) 0 = s at *
  split
  · rename_i h
    obtain ⟨h1, h2⟩ := h
    have := Valid.replicate_m (E := E) s (fun k hk => p3 k (by omega) hk)
    subst h1; subst h2; exact this
  · obtain ⟨-, s2, s3, -⟩ := suffixLen_spec E n m (min (n - s) (m - s)) 0
    generalize suffixLen E n m (min (n - s) (m - s)) 0 = e at *
    have hv := (nwAlign_spec (fun i j => E (s + i) (s + j)) (n - s - e) (m - s - e)).1
    have hv := Valid.prepend_m (fun k hk => p3 k (by omega) hk) hv
    have hv := Valid.append_m hv e (by
      intro k hk
      have := s3 (e - 1 - k) (by omega) (by omega)
      have e1 : n - 1 - (e - 1 - k) = s + (n - s - e) + k := by omega
      have e2 : m - 1 - (e - 1 - k) = s + (m - s - e) + k := by omega
      rw [e1, e2] at this; exact this)
    have e1 : s + (n - s - e) + e = n := by omega
    have e2 : s + (m - s - e) + e = m := by omega
    rw [e1, e2] at hv; exact hv

/-- `align` loses nothing against the full matrix -/
theorem score_le_matches_align (E : Nat → Nat → Bool) (n m : Nat) :
    score E n m ≤ «matches» (align E n m) := by
  rw [align_eq E n m _ _ rfl rfl]
  obtain ⟨-, p2, -, -⟩ := prefixLen_spec E (min n m) 0
  generalize prefixLen E (min n m) 0 = s at *
  split
  · rename_i h
    obtain ⟨h1, h2⟩ := h
    have := score_le_left E n m
    simp; omega
  · obtain ⟨-, s2, -, -⟩ := suffixLen_spec E n m (min (n - s) (m - s)) 0
    generalize suffixLen E n m (min (n - s) (m - s)) 0 = e at *
    have hm := (nwAlign_spec (fun i j => E (s + i) (s + j)) (n - s - e) (m - s - e)).2
    simp only [matches_append, matches_replicate_m, hm]
    have h1 := score_strip_suffix E (s + (n - s - e)) (s + (m - s - e)) e
    have h2 := score_strip_prefix E s (n - s - e) (m - s - e)
    have e1 : s + (n - s - e) + e = n := by omega
    have e2 : s + (m - s - e) + e = m := by omega
    rw [e1, e2] at h1; omega

/-! ### `add_x` -/

/-- head-first version of `ValidX`: `s` leads from position `(p, q)` to position `(i, j)` -/
inductive SegX (E : Nat → Nat → Bool) : Nat → Nat → Nat → Nat → List Dir → Prop
  | nil {p q} : SegX E p q p q []
  | m {p q i j s} : E p q = true → SegX E (p+1) (q+1) i j s → SegX E p q i j (.m :: s)
  | i {p q i j s} : SegX E p (q+1) i j s → SegX E p q i j (.i :: s)
  | d {p q i j s} : SegX E (p+1) q i j s → SegX E p q i j (.d :: s)
  | x {p q i j s} : SegX E (p+1) (q+1) i j s → SegX E p q i j (.x :: s)

theorem SegX.append {E p q i j k l s t} (h1 : SegX E p q i j s) (h2 : SegX E i j k l t) :
    SegX E p q k l (s ++ t) := by
  induction h1 with
  | nil => simpa using h2
  | m hE _ ih => exact SegX.m hE (ih h2)
  | i _ ih => exact SegX.i (ih h2)
  | d _ ih => exact SegX.d (ih h2)
  | x _ ih => exact SegX.x (ih h2)

theorem ValidX.toSegX {E i j s} (h : ValidX E i j s) : SegX E 0 0 i j s := by
  induction h with
  | nil => exact SegX.nil
  | m _ hE ih => exact ih.append (SegX.m hE SegX.nil)
  | i _ ih => exact ih.append (SegX.i SegX.nil)
  | d _ ih => exact ih.append (SegX.d SegX.nil)
  | x _ ih => exact ih.append (SegX.x SegX.nil)

theorem SegX.toValidX_aux {E p q i j s} (h : SegX E p q i j s) :
    ∀ t, ValidX E p q t → ValidX E i j (t ++ s) := by
  induction h with
  | nil => intro t ht; simpa using ht
  | m hE _ ih =>
    intro t ht
    have := ih _ (ValidX.m ht hE)
    simpa using this
  | i _ ih =>
    intro t ht
    have := ih _ (ValidX.i ht)
    simpa using this
  | d _ ih =>
    intro t ht
    have := ih _ (ValidX.d ht)
    simpa using this
  | x _ ih =>
    intro t ht
    have := ih _ (ValidX.x ht)
    simpa using this

theorem SegX.toValidX {E i j s} (h : SegX E 0 0 i j s) : ValidX E i j s := by
  simpa using h.toValidX_aux [] ValidX.nil

theorem validX_iff_segX {E i j s} : ValidX E i j s ↔ SegX E 0 0 i j s :=
  ⟨ValidX.toSegX, SegX.toValidX⟩

theorem Valid.toValidX {E i j s} (h : Valid E i j s) : ValidX E i j s := by
  induction h with
  | nil => exact ValidX.nil
  | m _ hE ih => exact ValidX.m ih hE
  | i _ ih => exact ValidX.i ih
  | d _ ih => exact ValidX.d ih

/-- the groups written out again -/
def expand : List (Dir × Nat) → List Dir
  | [] => []
  | g :: rest => List.replicate g.2 g.1 ++ expand rest

theorem expand_rle (t : List Dir) : expand (rle t) = t := by
  induction t with
  | nil => rfl
  | cons c cs ih =>
    rw [rle]
    split
    · rename_i c' k rest h
      rw [h] at ih
      split
      · rename_i hc
        subst hc
        simp only [expand, List.replicate_succ, List.cons_append] at ih ⊢
        rw [ih]
      · simp only [expand, List.replicate_succ, List.replicate_zero, List.cons_append,
          List.nil_append] at ih ⊢
        rw [ih]
    · rename_i h
      rw [h] at ih
      simp only [expand] at ih
      simp [expand, ← ih]

theorem SegX.replicate_d_iff {E p q i j r} (k : Nat) :
    SegX E p q i j (List.replicate k .d ++ r) ↔ SegX E (p+k) q i j r := by
  induction k generalizing p with
  | zero => simp
  | succ k ih =>
    rw [List.replicate_succ, List.cons_append]
    constructor
    · intro h; cases h with
      | d h => have := ih.1 h; rwa [Nat.add_right_comm, Nat.add_assoc] at this
    · intro h
      refine SegX.d (ih.2 ?_)
      rwa [Nat.add_right_comm, Nat.add_assoc]

theorem SegX.replicate_i_iff {E p q i j r} (k : Nat) :
    SegX E p q i j (List.replicate k .i ++ r) ↔ SegX E p (q+k) i j r := by
  induction k generalizing q with
  | zero => simp
  | succ k ih =>
    rw [List.replicate_succ, List.cons_append]
    constructor
    · intro h; cases h with
      | i h => have := ih.1 h; rwa [Nat.add_right_comm, Nat.add_assoc] at this
    · intro h
      refine SegX.i (ih.2 ?_)
      rwa [Nat.add_right_comm, Nat.add_assoc]

theorem SegX.replicate_x_iff {E p q i j r} (k : Nat) :
    SegX E p q i j (List.replicate k .x ++ r) ↔ SegX E (p+k) (q+k) i j r := by
  induction k generalizing p q with
  | zero => simp
  | succ k ih =>
    rw [List.replicate_succ, List.cons_append]
    constructor
    · intro h; cases h with
      | x h =>
        have := ih.1 h
        rwa [Nat.add_right_comm p, Nat.add_assoc p, Nat.add_right_comm q, Nat.add_assoc q] at this
    · intro h
      refine SegX.x (ih.2 ?_)
      rwa [Nat.add_right_comm p, Nat.add_assoc p, Nat.add_right_comm q, Nat.add_assoc q]

/-- a run can be kept while the rest is rewritten -/
theorem SegX.replicate_congr {E i j r r'} (c : Dir) (k : Nat)
    (hr : ∀ p q, SegX E p q i j r → SegX E p q i j r') :
    ∀ p q, SegX E p q i j (List.replicate k c ++ r) → SegX E p q i j (List.replicate k c ++ r') := by
  induction k with
  | zero => simpa using hr
  | succ k ih =>
    intro p q h
    rw [List.replicate_succ, List.cons_append] at h ⊢
    cases h with
    | m hE h => exact SegX.m hE (ih _ _ h)
    | i h => exact SegX.i (ih _ _ h)
    | d h => exact SegX.d (ih _ _ h)
    | x h => exact SegX.x (ih _ _ h)

theorem addXGroups_segX {E i j} (g : List (Dir × Nat)) :
    ∀ p q, SegX E p q i j (expand g) → SegX E p q i j (addXGroups g) := by
  fun_induction addXGroups g with
  | case1 => intro p q h; exact h
  | case2 g => intro p q h; simpa [expand] using h
  | case3 g ng rest hc ih =>
    intro p q h
    obtain ⟨h1, h2, h3⟩ := hc
    simp only [expand, h1, h2, ← h3] at h
    rw [SegX.replicate_d_iff, SegX.replicate_i_iff] at h
    rw [SegX.replicate_x_iff]
    exact ih _ _ h
  | case4 g ng rest hc ih =>
    intro p q h
    exact SegX.replicate_congr g.1 g.2 ih p q h

theorem addX_segX {E p q i j t} (h : SegX E p q i j t) : SegX E p q i j (addX t) := by
  apply addXGroups_segX
  rw [expand_rle]; exact h

theorem addXGroups_matches (g : List (Dir × Nat)) :
    «matches» (addXGroups g) = «matches» (expand g) := by
  fun_induction addXGroups g with
  | case1 => rfl
  | case2 g => simp [expand]
  | case3 g ng rest hc ih =>
    obtain ⟨h1, h2, h3⟩ := hc
    simp only [expand, h1, h2, matches_append, ih]
    rw [matches_replicate_ne (by decide), matches_replicate_ne (by decide),
      matches_replicate_ne (by decide)]
    simp
  | case4 g ng rest hc ih =>
    simp only [expand, matches_append, ih]

end ISnap.Align
