import ISnap.Model.External
/-
  Lemmas about the external storage model (`ISnap.Model.External`): membership characterisations of
  `save / outsource / prune / persist / persistAll / finish`, and the four store invariants
  `Hashed H` (name = hash of content), `Uniq` (no two files with one name), `NoShadow` (never `<h>-new.<sfx>`
  next to `<h>.<sfx>`), each in inductive form (`Inv s → Inv (step s ev)`) and lifted to `run`.
-/
namespace ISnap.External

/-! ### names -/

theorem sameName_iff (a b : Entry) :
    sameName a b = true ↔ a.hash = b.hash ∧ a.isNew = b.isNew ∧ a.suffix = b.suffix := by
  simp [sameName, and_assoc]

theorem sameName_refl (a : Entry) : sameName a a = true := by simp [sameName]

theorem sameName_comm (a b : Entry) : sameName a b = sameName b a := by
  rw [Bool.eq_iff_iff, sameName_iff, sameName_iff]
  constructor <;> (rintro ⟨h1, h2, h3⟩; exact ⟨h1.symm, h2.symm, h3.symm⟩)

theorem sameName_false_of_isNew_ne {a b : Entry} (h : a.isNew ≠ b.isNew) : sameName a b = false := by
  cases hs : sameName a b
  · rfl
  · exact absurd ((sameName_iff a b).1 hs).2.1 h

theorem persistMatch_congr (r : Ref) {a b : Entry} (hh : a.hash = b.hash) (hs : a.suffix = b.suffix) :
    persistMatch r a = persistMatch r b := by
  simp [persistMatch, hh, hs]

/-! ### the invariants -/

/-- I1: the file name is the hash of the content -/
def Hashed (H : Nat → Hash) (s : Store) : Prop := ∀ e ∈ s, e.hash = H e.data

def WellHashedEv (H : Nat → Hash) : Ev → Prop
  | .outsource h _ d => h = H d
  | _ => True

/-- every `outsource h sfx d` of the history has `h = H d` -/
def WellHashed (H : Nat → Hash) (evs : List Ev) : Prop := ∀ ev ∈ evs, WellHashedEv H ev

/-- never two files with the same name -/
def Uniq (s : Store) : Prop := s.Pairwise (fun a b => sameName a b = false)

/-- never `<h>-new.<sfx>` next to `<h>.<sfx>` -/
def NoShadow (s : Store) : Prop :=
  ∀ a ∈ s, ∀ b ∈ s, a.hash = b.hash → a.suffix = b.suffix → a.isNew = b.isNew

/-- exactly one entry of `s` (namely `e`) is matched by the pattern `persist` builds from `r` -/
def PrefixUnique (s : Store) (r : Ref) (e : Entry) : Prop :=
  e ∈ s ∧ persistMatch r e = true ∧ ∀ x ∈ s, persistMatch r x = true → x = e

def IsStart : Ev → Prop
  | .start => True
  | _ => False

/-! ### run -/

@[simp] theorem run_nil (s : Store) : run s [] = s := rfl
@[simp] theorem run_cons (s : Store) (ev : Ev) (evs : List Ev) : run s (ev :: evs) = run (step s ev) evs := rfl
theorem run_append (s : Store) (a b : List Ev) : run s (a ++ b) = run (run s a) b := by
  simp [run, List.foldl_append]
theorem run_snoc (s : Store) (a : List Ev) (ev : Ev) : run s (a ++ [ev]) = step (run s a) ev := by
  simp [run_append]

/-- lifting an inductive invariant to histories -/
theorem run_inv {Inv : Store → Prop} {P : Ev → Prop}
    (hstep : ∀ s ev, P ev → Inv s → Inv (step s ev)) :
    ∀ (evs : List Ev) (s : Store), (∀ ev ∈ evs, P ev) → Inv s → Inv (run s evs) := by
  intro evs
  induction evs with
  | nil => intro s _ h; exact h
  | cons ev evs ih =>
    intro s hp h
    exact ih _ (fun x hx => hp x (List.mem_cons_of_mem _ hx)) (hstep s ev (hp ev List.mem_cons_self) h)

/-! ### membership -/

theorem mem_save {s : Store} {e x : Entry} :
    x ∈ save s e ↔ (x ∈ s ∧ sameName x e = false) ∨ x = e := by
  simp [save, List.mem_filter]

theorem mem_prune {s : Store} {x : Entry} : x ∈ prune s ↔ x ∈ s ∧ x.isNew = false := by
  simp [prune, List.mem_filter]

theorem outsource_cases (s : Store) (h : Hash) (sfx d : Nat) :
    outsource s h sfx d = s ∨
      ((∀ x ∈ s, x.hash = h → x.suffix = sfx → x.isNew = true) ∧
        outsource s h sfx d = save s { hash := h, isNew := true, suffix := sfx, data := d }) := by
  unfold outsource
  split
  · exact Or.inl rfl
  · rename_i hn
    refine Or.inr ⟨?_, rfl⟩
    intro x hx hh hs
    cases hnew : x.isNew
    · exact absurd (List.any_eq_true.2 ⟨x, hx, by simp [hh, hs, hnew]⟩) hn
    · rfl

theorem mem_outsource {s : Store} {h : Hash} {sfx d : Nat} {x : Entry}
    (hx : x ∈ outsource s h sfx d) :
    x ∈ s ∨ x = { hash := h, isNew := true, suffix := sfx, data := d } := by
  rcases outsource_cases s h sfx d with h1 | ⟨_, h1⟩
  · rw [h1] at hx; exact Or.inl hx
  · rw [h1, mem_save] at hx
    rcases hx with hx | hx
    · exact Or.inl hx.1
    · exact Or.inr hx

/-- the two behaviours of `persist`: nothing, or the unique match `e` is a `-new` file that loses its infix -/
theorem persist_cases (s : Store) (r : Ref) :
    persist s r = s ∨
      ∃ e, s.filter (persistMatch r) = [e] ∧ e.isNew = true ∧
        persist s r =
          s.filter (fun x => !sameName x e && !sameName x { e with isNew := false })
            ++ [{ e with isNew := false }] := by
  unfold persist
  split
  · rename_i e he
    by_cases hn : e.isNew = true
    · exact Or.inr ⟨e, he, hn, by simp [hn]⟩
    · exact Or.inl (by simp [hn])
  · exact Or.inl rfl

theorem filter_singleton_mem {p : Entry → Bool} {s : Store} {e : Entry} (h : s.filter p = [e]) :
    e ∈ s ∧ p e = true := by
  have : e ∈ s.filter p := by rw [h]; exact List.mem_singleton_self e
  exact List.mem_filter.1 this

theorem filter_singleton_eq {p : Entry → Bool} {s : Store} {e x : Entry} (h : s.filter p = [e])
    (hx : x ∈ s) (hp : p x = true) : x = e := by
  have : x ∈ s.filter p := List.mem_filter.2 ⟨hx, hp⟩
  rw [h] at this
  exact List.mem_singleton.1 this

theorem mem_persist {s : Store} {r : Ref} {x : Entry} (hx : x ∈ persist s r) :
    x ∈ s ∨ (x.isNew = false ∧ { x with isNew := true } ∈ s ∧ persistMatch r x = true) := by
  rcases persist_cases s r with h | ⟨e, he, hn, h⟩
  · rw [h] at hx; exact Or.inl hx
  · rw [h, List.mem_append, List.mem_filter, List.mem_singleton] at hx
    rcases hx with hx | hx
    · exact Or.inl hx.1
    · obtain ⟨hes, hpe⟩ := filter_singleton_mem he
      refine Or.inr ⟨by rw [hx], ?_, ?_⟩
      · have : ({ x with isNew := true } : Entry) = e := by
          subst hx; cases e; simp_all
        rw [this]; exact hes
      · rw [hx]; exact (persistMatch_congr r rfl rfl).trans hpe

/-- a persisted file is never removed by `persist` (the rename-onto-existing case is unreachable: the
    existing `<h>.<sfx>` matches the pattern as well, so the match is not unique) -/
theorem persist_keeps_persisted {s : Store} {r : Ref} {x : Entry} (hx : x ∈ s) (hn : x.isNew = false) :
    x ∈ persist s r := by
  rcases persist_cases s r with h | ⟨e, he, hen, h⟩
  · rw [h]; exact hx
  · rw [h, List.mem_append, List.mem_filter]
    refine Or.inl ⟨hx, ?_⟩
    have h1 : sameName x e = false := sameName_false_of_isNew_ne (by rw [hn, hen]; decide)
    have h2 : sameName x { e with isNew := false } = false := by
      cases hs : sameName x { e with isNew := false }
      · rfl
      · exfalso
        obtain ⟨hh, _, hsf⟩ := (sameName_iff _ _).1 hs
        obtain ⟨_, hpe⟩ := filter_singleton_mem he
        have hpx : persistMatch r x = true := (persistMatch_congr r hh hsf).trans hpe
        have := filter_singleton_eq he hx hpx
        rw [this, hen] at hn
        exact absurd hn (by decide)
    simp [h1, h2]

/-- `persist` creates no `-new` file -/
theorem mem_persist_new {s : Store} {r : Ref} {x : Entry} (hx : x ∈ persist s r) (hn : x.isNew = true) :
    x ∈ s := by
  rcases mem_persist hx with h | ⟨h, _⟩
  · exact h
  · rw [hn] at h; exact absurd h (by decide)

theorem mem_persistAll_new {rs : List Ref} {s : Store} {x : Entry} (hx : x ∈ persistAll s rs)
    (hn : x.isNew = true) : x ∈ s := by
  induction rs generalizing s with
  | nil => exact hx
  | cons r rs ih => exact mem_persist_new (ih hx) hn

theorem mem_persistAll {rs : List Ref} {s : Store} {x : Entry} (hx : x ∈ persistAll s rs) :
    x ∈ s ∨ (x.isNew = false ∧ { x with isNew := true } ∈ s ∧ ∃ r ∈ rs, persistMatch r x = true) := by
  induction rs generalizing s with
  | nil => exact Or.inl hx
  | cons r rs ih =>
    rcases ih hx with h | ⟨h1, h2, r', hr', h3⟩
    · rcases mem_persist h with h | ⟨h1, h2, h3⟩
      · exact Or.inl h
      · exact Or.inr ⟨h1, h2, r, List.mem_cons_self, h3⟩
    · exact Or.inr ⟨h1, mem_persist_new h2 rfl, r', List.mem_cons_of_mem _ hr', h3⟩

theorem persistAll_keeps_persisted {rs : List Ref} {s : Store} {x : Entry} (hx : x ∈ s)
    (hn : x.isNew = false) : x ∈ persistAll s rs := by
  induction rs generalizing s with
  | nil => exact hx
  | cons r rs ih => exact ih (persist_keeps_persisted hx hn)

theorem mem_finish {s : Store} {w a : List Ref} {t : Bool} {x : Entry} (hx : x ∈ finish s w a t) :
    x ∈ persistAll s w := by
  unfold finish at hx
  cases t
  · simpa using hx
  · simp only [if_true] at hx; exact (List.mem_filter.1 hx).1

/-! ### I1 : `Hashed` -/

theorem Hashed.filter {H : Nat → Hash} {s : Store} (h : Hashed H s) (p : Entry → Bool) :
    Hashed H (s.filter p) := fun e he => h e (List.mem_filter.1 he).1

theorem Hashed.persist {H : Nat → Hash} {s : Store} (h : Hashed H s) (r : Ref) :
    Hashed H (persist s r) := by
  intro x hx
  rcases mem_persist hx with hx | ⟨_, hx, _⟩
  · exact h x hx
  · exact h { x with isNew := true } hx

theorem Hashed.persistAll {H : Nat → Hash} {rs : List Ref} {s : Store} (h : Hashed H s) :
    Hashed H (persistAll s rs) := by
  induction rs generalizing s with
  | nil => exact h
  | cons r rs ih => exact ih (h.persist r)

theorem Hashed.step {H : Nat → Hash} (s : Store) (ev : Ev) (hev : WellHashedEv H ev) (h : Hashed H s) :
    Hashed H (step s ev) := by
  cases ev with
  | start => exact h.filter _
  | outsource hh sfx d =>
    intro x hx
    rcases mem_outsource hx with hx | hx
    · exact h x hx
    · subst hx; exact hev
  | finish w a t => exact fun x hx => h.persistAll x (mem_finish hx)

theorem Hashed.run {H : Nat → Hash} {s : Store} {evs : List Ev} (hw : WellHashed H evs) (h : Hashed H s) :
    Hashed H (run s evs) :=
  run_inv (Inv := Hashed H) (P := WellHashedEv H) Hashed.step evs s hw h

/-! ### `Uniq` -/

theorem Uniq.filter {s : Store} (h : Uniq s) (p : Entry → Bool) : Uniq (s.filter p) :=
  List.Pairwise.filter p h

theorem Uniq.snoc_filter {s : Store} (h : Uniq s) (e : Entry) (p : Entry → Bool)
    (hp : ∀ x, p x = true → sameName x e = false) : Uniq (s.filter p ++ [e]) := by
  unfold Uniq
  rw [List.pairwise_append]
  refine ⟨h.filter p, List.pairwise_singleton _ _, ?_⟩
  intro a ha b hb
  rw [List.mem_singleton.1 hb]
  exact hp a (List.mem_filter.1 ha).2

theorem Uniq.save {s : Store} (h : Uniq s) (e : Entry) : Uniq (save s e) :=
  h.snoc_filter e _ (by intro x hx; simpa using hx)

theorem Uniq.outsource {s : Store} (h : Uniq s) (hh : Hash) (sfx d : Nat) : Uniq (outsource s hh sfx d) := by
  rcases outsource_cases s hh sfx d with h1 | ⟨_, h1⟩ <;> rw [h1]
  · exact h
  · exact h.save _

theorem Uniq.persist {s : Store} (h : Uniq s) (r : Ref) : Uniq (persist s r) := by
  rcases persist_cases s r with h1 | ⟨e, _, _, h1⟩ <;> rw [h1]
  · exact h
  · exact h.snoc_filter _ _ (by intro x hx; simp at hx; exact hx.2)

theorem Uniq.persistAll {rs : List Ref} {s : Store} (h : Uniq s) : Uniq (persistAll s rs) := by
  induction rs generalizing s with
  | nil => exact h
  | cons r rs ih => exact ih (h.persist r)

theorem Uniq.step (s : Store) (ev : Ev) (h : Uniq s) : Uniq (step s ev) := by
  cases ev with
  | start => exact h.filter _
  | outsource hh sfx d => exact h.outsource hh sfx d
  | finish w a t =>
    show Uniq (finish s w a t)
    unfold finish
    cases t
    · simpa using h.persistAll
    · simpa using h.persistAll.filter _

theorem Uniq.run {s : Store} (evs : List Ev) (h : Uniq s) : Uniq (run s evs) :=
  run_inv (Inv := Uniq) (P := fun _ => True) (fun s ev _ h => Uniq.step s ev h) evs s (fun _ _ => trivial) h

theorem Uniq.nodup {s : Store} (h : Uniq s) : s.Nodup := by
  unfold Uniq at h
  refine List.Pairwise.imp ?_ h
  intro a b hab heq
  rw [heq, sameName_refl] at hab
  exact absurd hab (by decide)

/-- with unique names, two entries with the same name are the same entry -/
theorem Uniq.eq_of_sameName {s : Store} (h : Uniq s) {a b : Entry} (ha : a ∈ s) (hb : b ∈ s)
    (hab : sameName a b = true) : a = b := by
  unfold Uniq at h
  induction s with
  | nil => cases ha
  | cons c s ih =>
    rw [List.pairwise_cons] at h
    rcases List.mem_cons.1 ha with ha' | ha' <;> rcases List.mem_cons.1 hb with hb' | hb'
    · rw [ha', hb']
    · rw [ha', h.1 b hb'] at hab; exact absurd hab (by decide)
    · rw [hb', sameName_comm, h.1 a ha'] at hab; exact absurd hab (by decide)
    · exact ih h.2 ha' hb'

/-! ### `NoShadow` -/

theorem NoShadow.filter {s : Store} (h : NoShadow s) (p : Entry → Bool) : NoShadow (s.filter p) :=
  fun a ha b hb => h a (List.mem_filter.1 ha).1 b (List.mem_filter.1 hb).1

theorem NoShadow.outsource {s : Store} (h : NoShadow s) (hh : Hash) (sfx d : Nat) :
    NoShadow (outsource s hh sfx d) := by
  rcases outsource_cases s hh sfx d with h1 | ⟨hnone, h1⟩ <;> rw [h1]
  · exact h
  · intro a ha b hb hab hsab
    rw [mem_save] at ha hb
    rcases ha with ha | ha <;> rcases hb with hb | hb
    · exact h a ha.1 b hb.1 hab hsab
    · subst hb; exact hnone a ha.1 hab hsab
    · subst ha; exact (hnone b hb.1 hab.symm hsab.symm).symm
    · rw [ha, hb]

theorem NoShadow.persist {s : Store} (h : NoShadow s) (r : Ref) : NoShadow (persist s r) := by
  rcases persist_cases s r with h1 | ⟨e, he, hen, h1⟩
  · rw [h1]; exact h
  · obtain ⟨hes, _⟩ := filter_singleton_mem he
    -- every entry of the new store with the hash and suffix of `e` is persisted
    have key : ∀ a ∈ External.persist s r, a.hash = e.hash → a.suffix = e.suffix → a.isNew = false := by
      intro a ha hah has
      rw [h1, List.mem_append, List.mem_filter, List.mem_singleton] at ha
      rcases ha with ⟨has', hf⟩ | ha
      · cases hna : a.isNew
        · rfl
        · exfalso
          have : sameName a e = true := (sameName_iff a e).2 ⟨hah, by rw [hna, hen], has⟩
          simp [this] at hf
      · rw [ha]
    intro a ha b hb hab hsab
    by_cases hc : a.hash = e.hash ∧ a.suffix = e.suffix
    · rw [key a ha hc.1 hc.2, key b hb (hab ▸ hc.1) (hsab ▸ hc.2)]
    · have hc' : ¬ (b.hash = e.hash ∧ b.suffix = e.suffix) := by rw [← hab, ← hsab]; exact hc
      have old : ∀ x ∈ External.persist s r, ¬ (x.hash = e.hash ∧ x.suffix = e.suffix) → x ∈ s := by
        intro x hx hxc
        rcases mem_persist hx with hx | ⟨_, _, _⟩
        · exact hx
        · rw [h1, List.mem_append, List.mem_filter, List.mem_singleton] at hx
          rcases hx with hx | hx
          · exact hx.1
          · exact absurd (by rw [hx]; exact ⟨rfl, rfl⟩) hxc
      exact h a (old a ha hc) b (old b hb hc') hab hsab

theorem NoShadow.persistAll {rs : List Ref} {s : Store} (h : NoShadow s) : NoShadow (persistAll s rs) := by
  induction rs generalizing s with
  | nil => exact h
  | cons r rs ih => exact ih (h.persist r)

theorem NoShadow.step (s : Store) (ev : Ev) (h : NoShadow s) : NoShadow (step s ev) := by
  cases ev with
  | start => exact h.filter _
  | outsource hh sfx d => exact h.outsource hh sfx d
  | finish w a t =>
    show NoShadow (finish s w a t)
    unfold finish
    cases t
    · simpa using h.persistAll
    · simpa using h.persistAll.filter _

theorem NoShadow.run {s : Store} (evs : List Ev) (h : NoShadow s) : NoShadow (run s evs) :=
  run_inv (Inv := NoShadow) (P := fun _ => True) (fun s ev _ h => NoShadow.step s ev h) evs s
    (fun _ _ => trivial) h

/-! ### step-level facts about `-new` and persisted entries -/

/-- a `-new` entry after a step was there before, or the step outsourced it -/
theorem new_step {s : Store} {ev : Ev} {e : Entry} (he : e ∈ step s ev) (hn : e.isNew = true) :
    (e ∈ s ∧ ¬ IsStart ev) ∨ ev = .outsource e.hash e.suffix e.data := by
  cases ev with
  | start =>
    have := (mem_prune.1 he).2
    rw [hn] at this; exact absurd this (by decide)
  | outsource hh sfx d =>
    rcases mem_outsource he with h | h
    · exact Or.inl ⟨h, id⟩
    · subst h; exact Or.inr rfl
  | finish w a t => exact Or.inl ⟨mem_persistAll_new (mem_finish he) hn, id⟩

/-- every entry after a step was there before, was outsourced by the step, or is the persisted form of a
    `-new` entry that a reference of `written` matched -/
theorem mem_step {s : Store} {ev : Ev} {e : Entry} (he : e ∈ step s ev) :
    e ∈ s ∨ (e.isNew = true ∧ ev = .outsource e.hash e.suffix e.data) ∨
      (e.isNew = false ∧ { e with isNew := true } ∈ s ∧
        ∃ w a t, ev = .finish w a t ∧ ∃ r ∈ w, persistMatch r e = true) := by
  cases ev with
  | start => exact Or.inl (mem_prune.1 he).1
  | outsource hh sfx d =>
    rcases mem_outsource he with h | h
    · exact Or.inl h
    · subst h; exact Or.inr (Or.inl ⟨rfl, rfl⟩)
  | finish w a t =>
    rcases mem_persistAll (mem_finish he) with h | ⟨h1, h2, h3⟩
    · exact Or.inl h
    · exact Or.inr (Or.inr ⟨h1, h2, w, a, t, rfl, h3⟩)

/-! ### filters with exactly one match -/

theorem filter_eq_singleton_of_unique {p : Entry → Bool} {s : Store} {e : Entry} (hnd : s.Nodup)
    (he : e ∈ s) (hp : p e = true) (hu : ∀ x ∈ s, p x = true → x = e) : s.filter p = [e] := by
  induction s with
  | nil => cases he
  | cons c s ih =>
    rw [List.nodup_cons] at hnd
    by_cases hc : c = e
    · subst hc
      have : s.filter p = [] := by
        rw [List.filter_eq_nil_iff]
        intro x hx hpx
        have := hu x (List.mem_cons_of_mem _ hx) hpx
        subst this; exact hnd.1 hx
      rw [List.filter_cons_of_pos hp, this]
    · have hes : e ∈ s := by
        rcases List.mem_cons.1 he with h | h
        · exact absurd h.symm hc
        · exact h
      have hpc : ¬ p c = true := fun hpc => hc (hu c List.mem_cons_self hpc)
      rw [List.filter_cons_of_neg hpc]
      exact ih hnd.2 hes (fun x hx => hu x (List.mem_cons_of_mem _ hx))

/-! ### explicit forms of `persist` and `outsource` -/

theorem persist_of_filter {s : Store} {r : Ref} {e : Entry} (hf : s.filter (persistMatch r) = [e]) :
    persist s r =
      if e.isNew then
        s.filter (fun x => !sameName x e && !sameName x { e with isNew := false })
          ++ [{ e with isNew := false }]
      else s := by
  unfold persist; rw [hf]

theorem persist_of_not_singleton {s : Store} {r : Ref} (hf : (s.filter (persistMatch r)).length ≠ 1) :
    persist s r = s := by
  unfold persist
  split
  · rename_i e he; rw [he] at hf; exact absurd rfl hf
  · rfl

theorem outsource_of_none {s : Store} {h : Hash} {sfx : Nat} (d : Nat)
    (hnone : ∀ x ∈ s, x.hash = h → x.suffix = sfx → x.isNew = true) :
    outsource s h sfx d = save s { hash := h, isNew := true, suffix := sfx, data := d } := by
  unfold outsource
  rw [if_neg]
  intro hany
  obtain ⟨x, hx, hc⟩ := List.any_eq_true.1 hany
  simp only [Bool.and_eq_true, beq_iff_eq, Bool.not_eq_true'] at hc
  have := hnone x hx hc.1.1 hc.2
  rw [hc.1.2] at this
  exact absurd this (by decide)

theorem save_idempotent (s : Store) (e : Entry) : save (save s e) e = save s e := by
  simp [save, List.filter_append, List.filter_filter, sameName_refl]

/-! ### histories -/

theorem isStart_iff (ev : Ev) : IsStart ev ↔ ev = .start := by
  cases ev <;> simp [IsStart]

/-- a `-new` entry after a history without `start` was in the start store or was outsourced in the history -/
theorem new_run {post : List Ev} {s : Store} {e : Entry} (he : e ∈ run s post) (hn : e.isNew = true)
    (hns : Ev.start ∉ post) : e ∈ s ∨ .outsource e.hash e.suffix e.data ∈ post := by
  induction post generalizing s with
  | nil => exact Or.inl he
  | cons ev post ih =>
    rw [run_cons] at he
    rcases ih he (fun h => hns (List.mem_cons_of_mem _ h)) with h | h
    · rcases new_step h hn with ⟨h, _⟩ | h
      · exact Or.inl h
      · exact Or.inr (h ▸ List.mem_cons_self)
    · exact Or.inr (List.mem_cons_of_mem _ h)

/-- a persisted entry after a history was in the start store as such, or some `finish` of the history
    persisted it: its `-new` form was in the store right before that `finish` and a written reference
    matched it -/
theorem persisted_run {evs : List Ev} {s : Store} {e : Entry} (he : e ∈ run s evs) (hn : e.isNew = false) :
    e ∈ s ∨ ∃ pre w a t post, evs = pre ++ .finish w a t :: post ∧
      { e with isNew := true } ∈ run s pre ∧ ∃ r ∈ w, persistMatch r e = true := by
  induction evs generalizing s with
  | nil => exact Or.inl he
  | cons ev evs ih =>
    rw [run_cons] at he
    rcases ih he with h | ⟨pre, w, a, t, post, h1, h2, h3⟩
    · rcases mem_step h with h | ⟨h, _⟩ | ⟨_, h2, w, a, t, h3, h4⟩
      · exact Or.inl h
      · rw [hn] at h; exact absurd h (by decide)
      · exact Or.inr ⟨[], w, a, t, evs, by rw [h3]; rfl, h2, h4⟩
    · exact Or.inr ⟨ev :: pre, w, a, t, post, by rw [h1]; rfl, h2, h3⟩

/-- every entry after a history stems from the start store or from an `outsource` of the history -/
theorem outsourced_run {evs : List Ev} {s : Store} {e : Entry} (he : e ∈ run s evs) :
    (∃ e0 ∈ s, e0.hash = e.hash ∧ e0.suffix = e.suffix ∧ e0.data = e.data) ∨
      .outsource e.hash e.suffix e.data ∈ evs := by
  induction evs generalizing s e with
  | nil => exact Or.inl ⟨e, he, rfl, rfl, rfl⟩
  | cons ev evs ih =>
    rw [run_cons] at he
    rcases ih he with ⟨e0, h0, hh, hs, hd⟩ | h
    · rcases mem_step h0 with h | ⟨_, h⟩ | ⟨_, h, _⟩
      · exact Or.inl ⟨e0, h, hh, hs, hd⟩
      · rw [hh, hs, hd] at h; exact Or.inr (h ▸ List.mem_cons_self)
      · exact Or.inl ⟨_, h, hh, hs, hd⟩
    · exact Or.inr (List.mem_cons_of_mem _ h)

end ISnap.External
