import ISnap.Model.Table
import ISnap.Props.C06
/-
  Helper lemmas: what a sequence of comparisons of one kind leaves in a site
  (`Leaf.runOps`, defined in Props/C06.lean): the running extreme for `<=` / `>=`,
  the de-duplicated union for `in`.
-/
namespace ISnap
variable {V : Type}

/-- `<=` as the code needs it for bounds (scope of C05/C06: totally ordered values) -/
structure TotalLe (o : Ops V) : Prop where
  refl  : ∀ a, o.le a a = true
  trans : ∀ a b c, o.le a b = true → o.le b c = true → o.le a c = true
  total : ∀ a b, o.le a b = true ∨ o.le b a = true

theorem cmpK_refl {o : Ops V} (h : TotalLe o) (k : Kind) (a : V) : cmpK o k a a = true := by
  cases k <;> simp [cmpK, h.refl]

theorem cmpK_trans {o : Ops V} (h : TotalLe o) (k : Kind) (a b c : V)
    (h1 : cmpK o k a b = true) (h2 : cmpK o k b c = true) : cmpK o k a c = true := by
  cases k <;> simp [cmpK] at * <;> first | exact h.trans _ _ _ h1 h2 | exact h.trans _ _ _ h2 h1

theorem cmpK_total {o : Ops V} (h : TotalLe o) (k : Kind) (a b : V) :
    cmpK o k a b = true ∨ cmpK o k b a = true := by
  cases k <;> simp [cmpK] <;> first | exact h.total a b | exact h.total b a

def isMM (op : Op) : Prop := op = .ge ∨ op = .le

/-- the running extreme kept by Min/Max -/
def mmNext (o : Ops V) (k : Kind) (n : Option V) (x : V) : V :=
  match n with
  | none => x
  | some m => if cmpK o k m x then m else x

/-- state after one `<=` / `>=` comparison (copyable value, argument is one expression or missing) -/
theorem step_mm_state (o : Ops V) (f : Flags) (s : Leaf V) (op : Op) (x : V) (hop : isMM op)
    (hk : s.kind = .undecided ∨ s.kind = op.kind)
    (hold : s.old = none ∨ ∃ v c, s.old = some (.leaf v c)) :
    (s.step o f op x true).st = { s with kind := op.kind, new := some (mmNext o op.kind s.new x) } := by
  rcases hop with rfl | rfl <;> rcases hold with ho | ⟨v, c, ho⟩ <;> rcases hk with h | h <;>
    cases hn : s.new <;> simp [Leaf.step, h, ho, hn, Op.kind, mmNext, ret]

theorem runOps_mm (o : Ops V) (tot : TotalLe o) (f : Flags) (op : Op) (hop : isMM op) (xs : List V)
    (s : Leaf V) (hk : s.kind = .undecided ∨ s.kind = op.kind)
    (hold : s.old = none ∨ ∃ v c, s.old = some (.leaf v c)) (hne : xs ≠ [] ∨ s.new.isSome) :
    ∃ n, (s.runOps o f op xs).1.new = some n ∧
      (s.runOps o f op xs).1.old = s.old ∧
      ((s.runOps o f op xs).1.kind = op.kind ∨ xs = []) ∧
      (∀ x ∈ xs, cmpK o op.kind n x = true) ∧
      (∀ m, s.new = some m → cmpK o op.kind n m = true) ∧
      (n ∈ xs ∨ s.new = some n) := by
  induction xs generalizing s with
  | nil =>
    rcases hne with h | h
    · exact absurd rfl h
    · obtain ⟨n, hn⟩ := Option.isSome_iff_exists.mp h
      exact ⟨n, by simp [Leaf.runOps, hn], by simp [Leaf.runOps], Or.inr rfl, by simp,
        fun m hm => by rw [hn] at hm; cases hm; exact cmpK_refl tot _ _, Or.inr hn⟩
  | cons x xs ih =>
    have hst := step_mm_state o f s op x hop hk hold
    have := ih (s.step o f op x true).st (by rw [hst]; exact Or.inr rfl)
      (by rw [hst]; exact hold) (Or.inr (by rw [hst]; rfl))
    obtain ⟨n, h1, h2, _h3, h4, h5, h6⟩ := this
    have hnx : cmpK o op.kind n (mmNext o op.kind s.new x) = true := h5 _ (by rw [hst])
    have hxx : cmpK o op.kind (mmNext o op.kind s.new x) x = true := by
      unfold mmNext
      cases hsn : s.new with
      | none => exact cmpK_refl tot _ _
      | some m =>
        by_cases hc : cmpK o op.kind m x = true
        · simp [hc]
        · simp [hc]; exact cmpK_refl tot _ _
    refine ⟨n, by simpa [Leaf.runOps] using h1, ?_, Or.inl ?_, ?_, ?_, ?_⟩
    · simp only [Leaf.runOps]; rw [h2, hst]
    · simp only [Leaf.runOps]
      rcases _h3 with h | h
      · exact h
      · subst h; simp [Leaf.runOps, hst]
    · intro y hy
      rcases List.mem_cons.mp hy with rfl | hy
      · exact cmpK_trans tot _ _ _ _ hnx hxx
      · exact h4 y hy
    · intro m hm
      have hmm : cmpK o op.kind (mmNext o op.kind s.new x) m = true := by
        unfold mmNext; rw [hm]
        by_cases hc : cmpK o op.kind m x = true
        · simp [hc]; exact cmpK_refl tot _ _
        · simp [hc]
          rcases cmpK_total tot op.kind m x with h | h
          · exact absurd h hc
          · exact h
      exact cmpK_trans tot _ _ _ _ hnx hmm
    · rcases h6 with h | h
      · exact Or.inl (List.mem_cons_of_mem _ h)
      · rw [hst] at h
        simp only [Option.some.injEq] at h
        unfold mmNext at h
        cases hsn : s.new with
        | none => rw [hsn] at h; simp at h; exact Or.inl (by simp [h])
        | some m =>
          rw [hsn] at h
          by_cases hc : cmpK o op.kind m x = true
          · simp [hc] at h; exact Or.inr (by rw [h])
          · simp [hc] at h; exact Or.inl (by simp [h])

end ISnap

namespace ISnap
variable {V : Type}

/-- `==` as the code needs it for membership tests -/
structure EqvLaws (o : Ops V) : Prop where
  refl  : ∀ a, o.eqv a a = true
  symm  : ∀ a b, o.eqv a b = true → o.eqv b a = true
  trans : ∀ a b c, o.eqv a b = true → o.eqv b c = true → o.eqv a c = true

def collNext (o : Ops V) (l : Option (List V)) (x : V) : List V :=
  match l with
  | none => [x]
  | some l => if memBy o.eqv x l then l else l ++ [x]

theorem memBy_append (eqv : V → V → Bool) (y : V) (a b : List V) :
    memBy eqv y (a ++ b) = (memBy eqv y a || memBy eqv y b) := by
  simp [memBy, List.any_append]

theorem memBy_congr {o : Ops V} (h : EqvLaws o) (x y : V) (l : List V) (hxy : o.eqv x y = true) :
    memBy o.eqv x l = memBy o.eqv y l := by
  induction l with
  | nil => rfl
  | cons a l ih =>
    simp only [memBy, List.any_cons] at ih ⊢
    rw [ih]
    congr 1
    cases hxa : o.eqv x a <;> cases hya : o.eqv y a <;> try rfl
    · have := h.trans x y a hxy hya; simp [hxa] at this
    · have := h.trans y x a (h.symm _ _ hxy) hxa; simp [hya] at this

theorem mem_collNext {o : Ops V} (h : EqvLaws o) (l : Option (List V)) (x y : V) :
    memBy o.eqv y (collNext o l x) = (memBy o.eqv y (l.getD []) || o.eqv y x) := by
  cases l with
  | none => simp [collNext, memBy]
  | some l =>
    simp only [collNext, Option.getD_some]
    by_cases hm : memBy o.eqv x l = true
    · simp only [hm, if_true]
      cases hyx : o.eqv y x with
      | false => simp
      | true => rw [memBy_congr h y x l hyx, hm]; rfl
    · simp only [hm]
      simp [memBy_append, memBy]

theorem step_coll_state (o : Ops V) (f : Flags) (s : Leaf V) (x : V)
    (hk : s.kind = .undecided ∨ s.kind = .coll)
    (hold : s.old = none ∨ ∃ es, s.old = some (.coll es)) :
    (s.step o f .isin x true).st = { s with kind := .coll, newC := some (collNext o s.newC x) } := by
  rcases hold with ho | ⟨es, ho⟩ <;> rcases hk with h | h <;>
    cases hn : s.newC <;> simp [Leaf.step, h, ho, hn, Op.kind, collNext, ret]

theorem runOps_coll (o : Ops V) (eqv : EqvLaws o) (f : Flags) (xs : List V)
    (s : Leaf V) (hk : s.kind = .undecided ∨ s.kind = .coll)
    (hold : s.old = none ∨ ∃ es, s.old = some (.coll es)) (hne : xs ≠ [] ∨ s.newC.isSome) :
    ∃ l, (s.runOps o f .isin xs).1.newC = some l ∧
      (s.runOps o f .isin xs).1.old = s.old ∧
      ((s.runOps o f .isin xs).1.kind = .coll ∨ xs = []) ∧
      (∀ y, memBy o.eqv y l = (memBy o.eqv y (s.newC.getD []) || memBy o.eqv y xs)) := by
  induction xs generalizing s with
  | nil =>
    rcases hne with h | h
    · exact absurd rfl h
    · obtain ⟨l, hl⟩ := Option.isSome_iff_exists.mp h
      exact ⟨l, by simp [Leaf.runOps, hl], by simp [Leaf.runOps], Or.inr rfl, by simp [hl, memBy]⟩
  | cons x xs ih =>
    have hst := step_coll_state o f s x hk hold
    obtain ⟨l, h1, h2, h3, h4⟩ := ih (s.step o f .isin x true).st (by rw [hst]; exact Or.inr rfl)
      (by rw [hst]; exact hold) (Or.inr (by rw [hst]; rfl))
    refine ⟨l, by simpa [Leaf.runOps] using h1, ?_, Or.inl ?_, ?_⟩
    · simp only [Leaf.runOps]; rw [h2, hst]
    · simp only [Leaf.runOps]
      rcases h3 with h | h
      · exact h
      · subst h; simp [Leaf.runOps, hst]
    · intro y
      rw [h4 y, hst]
      simp only [Option.getD_some]
      rw [mem_collNext eqv]
      simp [memBy, Bool.or_assoc]

def mmFlags (o : Ops V) (k : Kind) (v : V) (c : Bool) (n : V) : Flags :=
  match minMaxFlag o k v c n with | some g => Flags.single g | none => Flags.empty

theorem mmFlags_fix (o : Ops V) (k v c n) : (mmFlags o k v c n).fix = !cmpK o k v n := by
  unfold mmFlags minMaxFlag
  cases cmpK o k v n <;> cases cmpK o k n v <;> cases c <;> cases o.same v n <;> rfl

theorem mmFlags_trim (o : Ops V) (k v c n) :
    (mmFlags o k v c n).trim = (cmpK o k v n && !cmpK o k n v) := by
  unfold mmFlags minMaxFlag
  cases cmpK o k v n <;> cases cmpK o k n v <;> cases c <;> cases o.same v n <;> rfl

theorem minMaxFlag_fix_iff (o : Ops V) (k v c n) :
    minMaxFlag o k v c n = some .fix ↔ cmpK o k v n = false := by
  unfold minMaxFlag
  cases cmpK o k v n <;> cases cmpK o k n v <;> cases c <;> cases o.same v n <;> simp

theorem minMaxFlag_trim_iff (o : Ops V) (k v c n) :
    minMaxFlag o k v c n = some .trim ↔ (cmpK o k v n = true ∧ cmpK o k n v = false) := by
  unfold minMaxFlag
  cases cmpK o k v n <;> cases cmpK o k n v <;> cases c <;> cases o.same v n <;> simp

theorem minMaxFlag_update_imp (o : Ops V) (k v c n) (h : minMaxFlag o k v c n = some .update) :
    cmpK o k v n = true ∧ cmpK o k n v = true := by
  unfold minMaxFlag at h
  cases h1 : cmpK o k v n <;> cases h2 : cmpK o k n v <;> simp [h1, h2] at h ⊢

theorem minMaxFlag_ne_create (o : Ops V) (k : Kind) (v : V) (c : Bool) (n : V) :
    minMaxFlag o k v c n ≠ some .create := by
  unfold minMaxFlag; split <;> (try split) <;> (try split) <;> simp

end ISnap
