import ISnap.Model.Nest
/-
  Lemmas behind Props/C18b.lean: the text ranges edited for the surviving changes are pairwise disjoint.

  Layout of the file
    * paths: two paths are comparable (one is a prefix of the other) or diverge at some index
    * geometry of `kidStart` / `locate`: a descendant lies inside its ancestor, diverging paths have disjoint
      intervals ordered by the diverging indices
    * `stretches`: they lie between the braces of the container, avoid every kept child and are pairwise disjoint
    * the filter: nothing that survives lies inside a node removed by any change of the input
    * the case analysis (replace/replace, replace/container, container/container) and the final assembly
-/
namespace ISnap.Nest

/-! ### paths -/

theorem path_cases (p q : Path) :
    (∃ r, q = p ++ r) ∨ (∃ i r, p = q ++ i :: r) ∨
    (∃ c i j r r', i ≠ j ∧ p = c ++ i :: r ∧ q = c ++ j :: r') := by
  induction p generalizing q with
  | nil => exact .inl ⟨q, rfl⟩
  | cons a p ih =>
    cases q with
    | nil => exact .inr (.inl ⟨a, p, rfl⟩)
    | cons b q =>
      by_cases hab : a = b
      · subst hab
        rcases ih q with ⟨r, h⟩ | ⟨i, r, h⟩ | ⟨c, i, j, r, r', hij, h1, h2⟩
        · exact .inl ⟨r, by simp [h]⟩
        · exact .inr (.inl ⟨i, r, by simp [h]⟩)
        · exact .inr (.inr ⟨a :: c, i, j, r, r', hij, by simp [h1], by simp [h2]⟩)
      · exact .inr (.inr ⟨[], a, b, p, q, hab, rfl, rfl⟩)

theorem isPrefixOf_append (p r : Path) : p.isPrefixOf (p ++ r) = true :=
  List.isPrefixOf_iff_prefix.2 (List.prefix_append _ _)

/-! ### geometry -/

theorem disjoint_comm (a b : Nat × Nat) : disjoint a b = disjoint b a := by
  simp [disjoint, Bool.or_comm]

theorem disjoint_iff {a b : Nat × Nat} : disjoint a b = true ↔ a.2 ≤ b.1 ∨ b.2 ≤ a.1 := by
  simp [disjoint]

theorem kidStart_get {ks : List Tree} {o i : Nat} {a : Tree} (h : ks[i]? = some a) :
    o ≤ kidStart ks o i ∧ kidStart ks o i + a.width + 1 ≤ o + widthL ks := by
  induction ks generalizing o i with
  | nil => simp at h
  | cons k ks ih =>
    cases i with
    | zero =>
      simp at h; subst h
      simp only [kidStart, widthL]; omega
    | succ i =>
      simp at h
      have := ih (o := o + k.width + 1) h
      simp only [kidStart, widthL]; omega

theorem kidStart_lt {ks : List Tree} {o i j : Nat} {a b : Tree}
    (hi : ks[i]? = some a) (hj : ks[j]? = some b) (hij : i < j) :
    kidStart ks o i + a.width + 1 ≤ kidStart ks o j := by
  induction ks generalizing o i j with
  | nil => simp at hi
  | cons k ks ih =>
    cases j with
    | zero => omega
    | succ j =>
      cases i with
      | zero =>
        simp at hi hj; subst hi
        have := (kidStart_get (o := o + k.width + 1) hj).1
        simp only [kidStart]; omega
      | succ i =>
        simp at hi hj
        simp only [kidStart]
        exact ih hi hj (by omega)

theorem locate_cons {t : Tree} {o i : Nat} {r : Path} {x : Tree × Nat}
    (h : locate t o (i :: r) = some x) :
    ∃ ks k, t = .node ks ∧ ks[i]? = some k ∧ locate k (kidStart ks (o + 2) i) r = some x := by
  cases t with
  | leaf => simp [locate, Tree.kids] at h
  | node ks =>
    simp only [locate, Tree.kids] at h
    split at h
    · next k hk => exact ⟨ks, k, rfl, hk, h⟩
    · simp at h

theorem locate_append (t : Tree) (o : Nat) (p q : Path) :
    locate t o (p ++ q) = (locate t o p).bind (fun x => locate x.1 x.2 q) := by
  induction p generalizing t o with
  | nil => simp [locate]
  | cons i p ih =>
    simp only [List.cons_append, locate]
    split
    · exact ih ..
    · rfl

/-- a located prefix of a located path -/
theorem locate_split {t : Tree} {o : Nat} {p q : Path} {x : Tree × Nat}
    (h : locate t o (p ++ q) = some x) :
    ∃ s o', locate t o p = some (s, o') ∧ locate s o' q = some x := by
  rw [locate_append] at h
  cases hp : locate t o p with
  | none => simp [hp] at h
  | some y => exact ⟨y.1, y.2, rfl, by simpa [hp] using h⟩

/-- a descendant lies inside its ancestor -/
theorem locate_bounds {t : Tree} {o : Nat} {p : Path} {s : Tree} {o' : Nat}
    (h : locate t o p = some (s, o')) : o ≤ o' ∧ o' + s.width ≤ o + t.width := by
  induction p generalizing t o with
  | nil =>
    simp [locate] at h
    obtain ⟨rfl, rfl⟩ := h
    omega
  | cons i p ih =>
    obtain ⟨ks, k, rfl, hk, hl⟩ := locate_cons h
    have := ih hl
    have := kidStart_get (o := o + 2) hk
    simp only [Tree.width]; omega

/-- diverging paths have disjoint intervals -/
theorem locate_diverge {t : Tree} {o : Nat} {c : Path} {i j : Nat} {r r' : Path} {s1 s2 : Tree}
    {o1 o2 : Nat} (h1 : locate t o (c ++ i :: r) = some (s1, o1))
    (h2 : locate t o (c ++ j :: r') = some (s2, o2)) (hij : i ≠ j) :
    o1 + s1.width ≤ o2 ∨ o2 + s2.width ≤ o1 := by
  obtain ⟨tc, oc, hc, h1⟩ := locate_split h1
  obtain ⟨tc', oc', hc', h2⟩ := locate_split h2
  rw [hc] at hc'
  cases hc'
  obtain ⟨ks, k1, rfl, hk1, hl1⟩ := locate_cons h1
  obtain ⟨ks', k2, heq, hk2, hl2⟩ := locate_cons h2
  cases heq
  have b1 := locate_bounds hl1
  have b2 := locate_bounds hl2
  rcases Nat.lt_or_gt_of_ne hij with hlt | hgt
  · have := kidStart_lt (o := oc + 2) hk1 hk2 hlt; omega
  · have := kidStart_lt (o := oc + 2) hk2 hk1 hgt; omega

/-! ### stretches -/

theorem stretches_spec (del : List Nat) (ks : List Tree) (i o last : Nat) (hl : last ≤ o) :
    ∀ x ∈ stretches del ks i o last, last ≤ x.1 ∧ x.2 ≤ o + widthL ks ∧
      ∀ j k, ks[j]? = some k → del.contains (i + j) = false →
        (x.2 ≤ kidStart ks o j ∨ kidStart ks o j + k.width ≤ x.1) := by
  induction ks generalizing i o last with
  | nil =>
    intro x hx
    simp only [stretches, List.mem_singleton] at hx
    subst hx
    simp [widthL]
  | cons k ks ih =>
    intro x hx
    simp only [stretches] at hx
    split at hx
    · next hdel =>
      obtain ⟨h1, h2, h3⟩ := ih (i + 1) (o + k.width + 1) last (by omega) x hx
      refine ⟨h1, by simp only [widthL]; omega, ?_⟩
      intro j k' hj hnd
      cases j with
      | zero =>
        rw [Nat.add_zero, hdel] at hnd
        cases hnd
      | succ j =>
        simp at hj
        simp only [kidStart]
        exact h3 j k' hj (by rw [← hnd]; congr 1; omega)
    · next hdel =>
      rcases List.mem_cons.1 hx with rfl | hx
      · refine ⟨Nat.le_refl _, by simp, ?_⟩
        intro j k' hj _
        left
        exact (kidStart_get hj).1
      · obtain ⟨h1, h2, h3⟩ := ih (i + 1) (o + k.width + 1) (o + k.width) (by omega) x hx
        refine ⟨by omega, by simp only [widthL]; omega, ?_⟩
        intro j k' hj hnd
        cases j with
        | zero =>
          simp at hj; subst hj
          right
          simp only [kidStart]; omega
        | succ j =>
          simp at hj
          simp only [kidStart]
          exact h3 j k' hj (by rw [← hnd]; congr 1; omega)

theorem stretches_pairwise (del : List Nat) (ks : List Tree) (i o last : Nat) (hl : last ≤ o) :
    (stretches del ks i o last).Pairwise (fun a b => disjoint a b = true) := by
  induction ks generalizing i o last with
  | nil => simp [stretches]
  | cons k ks ih =>
    simp only [stretches]
    split
    · exact ih _ _ _ (by omega)
    · refine List.pairwise_cons.2 ⟨?_, ih _ _ _ (by omega)⟩
      intro x hx
      have := (stretches_spec del ks (i + 1) (o + k.width + 1) (o + k.width) (by omega) x hx).1
      rw [disjoint_iff]
      left
      show o ≤ x.1
      omega

/-- the stretches of a container lie between its braces -/
theorem stretches_in_container {t : Tree} {o : Nat} {c : Path} {ks : List Tree} {oc : Nat}
    {del : List Nat} {x : Nat × Nat} (_hc : locate t o c = some (.node ks, oc))
    (hx : x ∈ stretches del ks 0 (oc + 2) (oc + 1)) :
    oc ≤ x.1 ∧ x.2 ≤ oc + (Tree.node ks).width := by
  obtain ⟨h1, h2, _⟩ := stretches_spec del ks 0 (oc + 2) (oc + 1) (by omega) x hx
  simp only [Tree.width]; omega

/-- the stretches of a container avoid everything at or below a kept child -/
theorem stretches_avoid_kept {t : Tree} {o : Nat} {c : Path} {ks : List Tree} {oc : Nat}
    {del : List Nat} {x : Nat × Nat} {i : Nat} {r : Path} {s : Tree} {os : Nat}
    (hc : locate t o c = some (.node ks, oc))
    (hx : x ∈ stretches del ks 0 (oc + 2) (oc + 1))
    (hp : locate t o (c ++ i :: r) = some (s, os)) (hi : del.contains i = false) :
    x.2 ≤ os ∨ os + s.width ≤ x.1 := by
  obtain ⟨tc, oc', hc', hp⟩ := locate_split hp
  rw [hc] at hc'
  cases hc'
  obtain ⟨ks', k, heq, hk, hl⟩ := locate_cons hp
  cases heq
  have b := locate_bounds hl
  obtain ⟨_, _, h3⟩ := stretches_spec del ks 0 (oc + 2) (oc + 1) (by omega) x hx
  have := h3 i k hk (by simpa using hi)
  omega

/-! ### the filter -/

theorem mem_survivors {all : List Edit} {e : Edit} :
    e ∈ survivors all ↔ e ∈ all ∧ insideRemoved all e = false := by
  simp [survivors]

theorem survivors_subset {all : List Edit} {e : Edit} (h : e ∈ survivors all) : e ∈ all :=
  (mem_survivors.1 h).1

/-- nothing that survives lies inside a node removed by any change of the input -/
theorem survivor_not_inside_all {all : List Edit} {e r : Edit} (he : e ∈ survivors all)
    (hr : r ∈ all) {q s : Path} (hq : r.removes = some q) (hs : e.walkStart = some s) :
    q.isPrefixOf s = false := by
  have h := (mem_survivors.1 he).2
  simp only [insideRemoved, hs] at h
  cases hqs : q.isPrefixOf s with
  | false => rfl
  | true =>
    have h' := List.any_eq_false.1 h r hr
    simp [hq, hqs] at h'

theorem survivor_not_inside_aux (all : List Edit) (e r : Edit) (he : e ∈ survivors all)
    (hr : r ∈ survivors all) (q s : Path) (hq : r.removes = some q) (hs : e.walkStart = some s) :
    q.isPrefixOf s = false :=
  survivor_not_inside_all he (survivors_subset hr) hq hs

theorem no_inside {all : List Edit} {e r : Edit} {q x : Path} (he : e ∈ survivors all)
    (hr : r ∈ all) (hq : r.removes = some q) (hs : e.walkStart = some (q ++ x)) : False := by
  have := survivor_not_inside_all he hr hq hs
  rw [isPrefixOf_append] at this
  cases this

theorem walkStart_replace {p : Path} (h : p ≠ []) : (Edit.replace p).walkStart = some p.dropLast := by
  cases p with
  | nil => exact absurd rfl h
  | cons a p => rfl

theorem touched_walk {s : List Edit} {c : Path} (h : c ∈ touched s) :
    ∃ e ∈ s, e.walkStart = some c := by
  simp only [touched, List.mem_eraseDups, List.mem_filterMap] at h
  obtain ⟨e, he, hc⟩ := h
  refine ⟨e, he, ?_⟩
  cases e with
  | replace p => simp at hc
  | delete p =>
    cases p with
    | nil => simp at hc
    | cons a p =>
      simp only [Option.some.injEq] at hc
      simp [Edit.walkStart, hc]
  | insert p =>
    simp only [Option.some.injEq] at hc
    simp [Edit.walkStart, hc]

theorem deletedIn_mem {s : List Edit} {c : Path} {i : Nat}
    (h : (deletedIn s c).contains i = true) : Edit.delete (c ++ [i]) ∈ s := by
  rw [List.contains_iff_mem] at h
  simp only [deletedIn, List.mem_filterMap] at h
  obtain ⟨e, he, hi⟩ := h
  cases e with
  | replace p => simp at hi
  | insert p => simp at hi
  | delete p =>
    simp only at hi
    split at hi
    · next hp =>
      obtain ⟨ys, hys⟩ := List.getLast?_eq_some_iff.1 hi
      subst hys
      have := hp.2
      rw [List.dropLast_concat] at this
      subst this
      exact he
    · simp at hi

theorem interval_some {t : Tree} {p : Path} {a : Nat × Nat} (h : interval t p = some a) :
    ∃ s o, locate t 0 p = some (s, o) ∧ a = (o, o + s.width) := by
  simp only [interval] at h
  split at h
  · next s o hl => exact ⟨s, o, hl, by simpa using h.symm⟩
  · simp at h

/-! ### the three kinds of pairs -/

/-- a surviving replacement does not lie strictly below a replaced node -/
theorem replace_below {all : List Edit} {p : Path} {i : Nat} {r : Path}
    (hp : Edit.replace p ∈ all) (hp' : Edit.replace (p ++ i :: r) ∈ survivors all) : False := by
  refine no_inside (q := p) (x := (i :: r).dropLast) hp' hp rfl ?_
  rw [walkStart_replace (by simp), List.dropLast_append_cons]

theorem replace_replace {t : Tree} {all : List Edit} {p p' : Path} {a b : Nat × Nat}
    (hp : Edit.replace p ∈ survivors all) (hp' : Edit.replace p' ∈ survivors all) (hne : p ≠ p')
    (ha : interval t p = some a) (hb : interval t p' = some b) : disjoint a b = true := by
  obtain ⟨s1, o1, h1, rfl⟩ := interval_some ha
  obtain ⟨s2, o2, h2, rfl⟩ := interval_some hb
  rcases path_cases p p' with ⟨r, h⟩ | ⟨i, r, h⟩ | ⟨c, i, j, r, r', hij, hpe, hpe'⟩
  · cases r with
    | nil => simp at h; exact absurd h.symm hne
    | cons i r => subst h; exact (replace_below (survivors_subset hp) hp').elim
  · subst h; exact (replace_below (survivors_subset hp') hp).elim
  · subst hpe hpe'
    exact disjoint_iff.2 (locate_diverge h1 h2 hij)

/-- a surviving replacement versus the stretches of a touched container -/
theorem replace_container {t : Tree} {all : List Edit} {p c : Path} {a x : Nat × Nat}
    {ks : List Tree} {oc : Nat}
    (hnd : Edit.delete p ∉ all)
    (hp : Edit.replace p ∈ survivors all) (hc : c ∈ touched (survivors all))
    (ha : interval t p = some a) (hl : locate t 0 c = some (.node ks, oc))
    (hx : x ∈ stretches (deletedIn (survivors all) c) ks 0 (oc + 2) (oc + 1)) :
    disjoint a x = true := by
  obtain ⟨s1, o1, h1, rfl⟩ := interval_some ha
  obtain ⟨e, he, hew⟩ := touched_walk hc
  rcases path_cases p c with ⟨r, h⟩ | ⟨i, r, h⟩ | ⟨d, i, j, r, r', hij, hpe, hce⟩
  · subst h
    exact (no_inside he (survivors_subset hp) rfl hew).elim
  · subst h
    cases hdel : (deletedIn (survivors all) c).contains i with
    | true =>
      have hd := deletedIn_mem hdel
      cases r with
      | nil => exact absurd (survivors_subset hd) hnd
      | cons j r =>
        refine (no_inside (q := c ++ [i]) (x := (j :: r).dropLast) hp (survivors_subset hd) rfl ?_).elim
        rw [walkStart_replace (by simp), List.dropLast_append_cons]
        simp
    | false =>
      have := stretches_avoid_kept hl hx h1 hdel
      rw [disjoint_comm]
      exact disjoint_iff.2 this
  · subst hpe hce
    have hd := locate_diverge h1 hl hij
    have hin := stretches_in_container hl hx
    rw [disjoint_iff]
    show o1 + s1.width ≤ x.1 ∨ x.2 ≤ o1
    omega

/-- the stretches of a touched container versus those of a touched container strictly below it -/
theorem container_below {t : Tree} {all : List Edit} {c : Path} {i : Nat} {r : Path}
    {x y : Nat × Nat} {ks ks' : List Tree} {oc oc' : Nat}
    (hc' : (c ++ i :: r) ∈ touched (survivors all))
    (hl : locate t 0 c = some (.node ks, oc)) (hl' : locate t 0 (c ++ i :: r) = some (.node ks', oc'))
    (hx : x ∈ stretches (deletedIn (survivors all) c) ks 0 (oc + 2) (oc + 1))
    (hy : y ∈ stretches (deletedIn (survivors all) (c ++ i :: r)) ks' 0 (oc' + 2) (oc' + 1)) :
    disjoint x y = true := by
  obtain ⟨e, he, hew⟩ := touched_walk hc'
  cases hdel : (deletedIn (survivors all) c).contains i with
  | true =>
    have hd := deletedIn_mem hdel
    refine (no_inside (q := c ++ [i]) (x := r) he (survivors_subset hd) rfl ?_).elim
    rw [hew]; simp
  | false =>
    have h1 := stretches_avoid_kept hl hx hl' hdel
    have h2 := stretches_in_container hl' hy
    rw [disjoint_iff]
    omega

theorem container_container {t : Tree} {all : List Edit} {c c' : Path}
    {x y : Nat × Nat} {ks ks' : List Tree} {oc oc' : Nat}
    (hc : c ∈ touched (survivors all)) (hc' : c' ∈ touched (survivors all)) (hne : c ≠ c')
    (hl : locate t 0 c = some (.node ks, oc)) (hl' : locate t 0 c' = some (.node ks', oc'))
    (hx : x ∈ stretches (deletedIn (survivors all) c) ks 0 (oc + 2) (oc + 1))
    (hy : y ∈ stretches (deletedIn (survivors all) c') ks' 0 (oc' + 2) (oc' + 1)) :
    disjoint x y = true := by
  rcases path_cases c c' with ⟨r, h⟩ | ⟨i, r, h⟩ | ⟨d, i, j, r, r', hij, hce, hce'⟩
  · cases r with
    | nil => simp at h; exact absurd h.symm hne
    | cons i r => subst h; exact container_below hc' hl hl' hx hy
  · subst h
    rw [disjoint_comm]
    exact container_below hc hl' hl hy hx
  · subst hce hce'
    have hd := locate_diverge hl hl' hij
    have h1 := stretches_in_container hl hx
    have h2 := stretches_in_container hl' hy
    rw [disjoint_iff]
    omega

/-! ### assembly -/

theorem nodup_eraseDups {α : Type} [BEq α] [LawfulBEq α] (l : List α) : l.eraseDups.Nodup := by
  generalize hn : l.length = n
  induction n using Nat.strongRecOn generalizing l with
  | _ n ih =>
    cases l with
    | nil => simp
    | cons a as =>
      rw [List.eraseDups_cons, List.nodup_cons]
      refine ⟨?_, ih _ ?_ _ rfl⟩
      · simp [List.mem_eraseDups]
      · have := List.length_filter_le (fun b => !b == a) as
        simp at hn
        omega

theorem ranges_pairwise_disjoint (t : Tree) (all : List Edit) (hwf : wellFormed t all = true) :
    (ranges t (survivors all)).Pairwise (fun a b => disjoint a b = true) := by
  simp only [wellFormed, Bool.and_eq_true, decide_eq_true_eq] at hwf
  obtain ⟨⟨_, hrd⟩, hnd⟩ := hwf
  have hrd' : ∀ p, Edit.replace p ∈ all → Edit.delete p ∉ all := by
    intro p hp
    have := List.all_eq_true.1 hrd _ hp
    simpa using this
  unfold ranges
  rw [List.pairwise_append]
  refine ⟨?_, ?_, ?_⟩
  · rw [List.pairwise_filterMap]
    rw [List.nodup_iff_pairwise_ne, List.pairwise_filter] at hnd
    have hs := hnd.sublist (List.filter_sublist : (survivors all).Sublist all)
    refine hs.imp_of_mem ?_
    intro e e' he he' hR a ha b hb
    cases e with
    | replace p =>
      cases e' with
      | replace p' =>
        simp only at ha hb
        have hne : p ≠ p' := by
          intro h
          exact hR rfl rfl (by rw [h])
        exact replace_replace he he' hne ha hb
      | delete _ => simp at hb
      | insert _ => simp at hb
    | delete _ => simp at ha
    | insert _ => simp at ha
  · rw [List.pairwise_flatMap]
    refine ⟨?_, ?_⟩
    · intro c _
      split
      · exact stretches_pairwise _ _ _ _ _ (by omega)
      · exact List.Pairwise.nil
    · have hn := nodup_eraseDups ((survivors all).filterMap (fun e => match e with
        | .delete (a :: p) => some ((a :: p).dropLast)
        | .insert p => some p
        | _ => none))
      rw [List.nodup_iff_pairwise_ne] at hn
      refine List.Pairwise.imp_of_mem ?_ hn
      intro c c' hc hc' hne x hx y hy
      split at hx
      · next ks oc hl =>
        split at hy
        · next ks' oc' hl' => exact container_container hc hc' hne hl hl' hx hy
        · simp at hy
      · simp at hx
  · intro a ha x hx
    obtain ⟨e, he, hea⟩ := List.mem_filterMap.1 ha
    obtain ⟨c, hc, hxc⟩ := List.mem_flatMap.1 hx
    cases e with
    | replace p =>
      simp only at hea
      split at hxc
      · next ks oc hl =>
        exact replace_container (hrd' p (survivors_subset he)) he hc hea hl hxc
      · simp at hxc
    | delete _ => simp at hea
    | insert _ => simp at hea

end ISnap.Nest
