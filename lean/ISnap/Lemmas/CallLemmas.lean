import ISnap.Model.CallAssign
import ISnap.Lemmas.AssignLemmas
/-
  Helper lemmas about `ISnap.CallAssign` (keyword-argument constructor calls), used by `ISnap.Props.C11c`.

    * `lookupF` / `lookupK` against membership;
    * `oldKeywords` as a `map` (`oldOne`), its categories;
    * `inserts`: the concatenation of all groups is `pending ++ newFields`;
    * `weave` is a permutation of "kept old keywords ++ inserted keywords" (`weave_perm`), and the old
      keywords keep their relative order (`weave_noins`, `ulKw_weave`).
-/
namespace ISnap.CallAssign
open ISnap ISnap.Assign List

/-! ### lookups -/

theorem lookupF_mem {name : Nat} {fields : List Field} {v : Val} {d : Bool}
    (h : lookupF name fields = some (v, d)) : (name, v, d) ∈ fields := by
  induction fields with
  | nil => simp [lookupF] at h
  | cons f rest ih =>
    obtain ⟨n, w, b⟩ := f
    simp only [lookupF] at h
    split at h
    · next hn =>
      simp only [Option.some.injEq, Prod.mk.injEq] at h
      simp [hn, h.1, h.2]
    · exact mem_cons_of_mem _ (ih h)

theorem lookupF_of_mem {name : Nat} {fields : List Field} {v : Val} {d : Bool}
    (hn : (fields.map (·.1)).Nodup) (h : (name, v, d) ∈ fields) :
    lookupF name fields = some (v, d) := by
  induction fields with
  | nil => simp at h
  | cons f rest ih =>
    obtain ⟨n, w, b⟩ := f
    simp only [map_cons, nodup_cons] at hn
    simp only [lookupF]
    rcases mem_cons.1 h with h | h
    · simp only [Prod.mk.injEq] at h
      simp [h.1, h.2.1, h.2.2]
    · have : n ≠ name := by
        intro hh
        apply hn.1
        rw [hh]
        exact mem_map.2 ⟨_, h, rfl⟩
      simp only [this, ↓reduceIte]
      exact ih hn.2 h

theorem lookupF_none {name : Nat} {fields : List Field} (h : lookupF name fields = none) :
    name ∉ fields.map (·.1) := by
  induction fields with
  | nil => simp
  | cons f rest ih =>
    obtain ⟨n, w, b⟩ := f
    simp only [lookupF] at h
    split at h
    · simp at h
    · next hn =>
      simp only [map_cons, mem_cons, not_or]
      exact ⟨fun hh => hn hh.symm, ih h⟩

theorem pair_unique {α β : Type} {l : List (α × β)} (hn : (l.map (·.1)).Nodup) {a : α} {x y : β}
    (hx : (a, x) ∈ l) (hy : (a, y) ∈ l) : x = y := by
  induction l with
  | nil => simp at hx
  | cons p rest ih =>
    simp only [map_cons, nodup_cons] at hn
    rcases mem_cons.1 hx with hx1 | hx1 <;> rcases mem_cons.1 hy with hy1 | hy1
    · have := hx1.trans hy1.symm
      simp only [Prod.mk.injEq] at this
      exact this.2
    · subst hx1
      exact absurd (show (a, x).1 ∈ map (fun x => x.1) rest from mem_map.2 ⟨(a, y), hy1, rfl⟩) hn.1
    · subst hy1
      exact absurd (show (a, y).1 ∈ map (fun x => x.1) rest from mem_map.2 ⟨(a, x), hx1, rfl⟩) hn.1
    · exact ih hn.2 hx1 hy1

/-! ### the old keywords -/

/-- what becomes of one old keyword (`none` = deleted) -/
def oldOne (F : Flags) (fields : List Field) (p : Nat × Expr) : Option (Nat × Expr) :=
  match lookupF p.1 fields with
  | some (v, false) => some (p.1, (assign F p.2 v).expr)
  | some (v, true) =>
    if F.has (if pyEq (eval p.2) v then Cat.update else Cat.fix) then none else some p
  | none => if F.fix then none else some p

/-- the categories reported for one old keyword -/
def oldOneCats (F : Flags) (fields : List Field) (p : Nat × Expr) : Flags :=
  match lookupF p.1 fields with
  | some (v, false) => (assign F p.2 v).cats
  | some (v, true) => Flags.single (if pyEq (eval p.2) v then Cat.update else Cat.fix)
  | none => Flags.single .fix

theorem oldKeywords_snd (F : Flags) (kw : List (Nat × Expr)) (fields : List Field) :
    (oldKeywords F kw fields).2 = kw.map (oldOne F fields) := by
  induction kw with
  | nil => simp [oldKeywords]
  | cons p rest ih =>
    obtain ⟨name, e⟩ := p
    rcases h : lookupF name fields with _ | ⟨v, _ | _⟩ <;>
      simp [oldKeywords, oldOne, h, ih]

theorem oldKeywords_fst (F : Flags) (kw : List (Nat × Expr)) (fields : List Field) :
    (oldKeywords F kw fields).1 =
      kw.foldr (fun p acc => (oldOneCats F fields p).union acc) Flags.empty := by
  induction kw with
  | nil => simp [oldKeywords]
  | cons p rest ih =>
    obtain ⟨name, e⟩ := p
    rcases h : lookupF name fields with _ | ⟨v, _ | _⟩ <;>
      simp [oldKeywords, oldOneCats, h, ih]

/-- the keywords that survive, in call order -/
def keptKw (F : Flags) (kw : List (Nat × Expr)) (fields : List Field) : List (Nat × Expr) :=
  (kw.map (oldOne F fields)).filterMap id

theorem ite_none_some {α : Type} {c : Prop} [Decidable c] {p q : α}
    (h : (if c then none else some p) = some q) : ¬c ∧ p = q := by
  split at h <;> simp_all

theorem oldOne_name {F : Flags} {fields : List Field} {p q : Nat × Expr}
    (h : oldOne F fields p = some q) : q.1 = p.1 := by
  unfold oldOne at h
  split at h
  · simp only [Option.some.injEq] at h; rw [← h]
  · rw [(ite_none_some h).2]
  · rw [(ite_none_some h).2]

theorem mem_keptKw {F : Flags} {kw : List (Nat × Expr)} {fields : List Field} {q : Nat × Expr} :
    q ∈ keptKw F kw fields ↔ ∃ p ∈ kw, oldOne F fields p = some q := by
  simp [keptKw, mem_filterMap]

theorem keptKw_names_sublist (F : Flags) (kw : List (Nat × Expr)) (fields : List Field) :
    ((keptKw F kw fields).map (·.1)).Sublist (kw.map (·.1)) := by
  induction kw with
  | nil => simp [keptKw]
  | cons p rest ih =>
    simp only [keptKw, map_cons, filterMap_cons, id_eq] at ih ⊢
    cases h : oldOne F fields p with
    | none => exact Sublist.cons _ ih
    | some q =>
      simp only [map_cons]
      rw [oldOne_name h]
      exact Sublist.cons_cons _ ih

/-! ### the inserted keywords -/

/-- new non-default fields without keyword, in field order -/
def newFields (oldNames : List Nat) (fields : List Field) : List (Nat × Val) :=
  (fields.filter (fun f => !f.2.2 && !oldNames.contains f.1)).map (fun f => (f.1, f.2.1))

theorem inserts_flat (oldNames : List Nat) : ∀ (fields : List Field) (pos : Nat)
    (pending : List (Nat × Val)),
    (inserts oldNames fields pos pending).flatMap (·.2) = pending ++ newFields oldNames fields := by
  intro fields
  induction fields with
  | nil => intro pos pending; simp [inserts, newFields]
  | cons f rest ih =>
    intro pos pending
    obtain ⟨name, v, d⟩ := f
    cases d with
    | true =>
      simp only [inserts, ↓reduceIte, ih]
      simp [newFields]
    | false =>
      cases hc : oldNames.contains name with
      | true =>
        simp only [inserts, Bool.false_eq_true, ↓reduceIte, hc, flatMap_cons, ih]
        simp only [contains_eq_mem, decide_eq_true_eq] at hc
        simp [newFields, hc]
      | false =>
        simp only [inserts, Bool.false_eq_true, ↓reduceIte, hc, ih]
        simp only [contains_eq_mem, decide_eq_false_iff_not] at hc
        simp [newFields, hc]

def insG (p : Nat × List (Nat × Val)) : List (Nat × Expr) := p.2.map (fun kv => (kv.1, canon kv.2))

/-- the keywords written for the new fields, in field order -/
def newKw (kw : List (Nat × Expr)) (fields : List Field) : List (Nat × Expr) :=
  (newFields (kw.map (·.1)) fields).map (fun kv => (kv.1, canon kv.2))

theorem allIns_eq (kw : List (Nat × Expr)) (fields : List Field) :
    (inserts (kw.map (·.1)) fields 0 []).flatMap insG = newKw kw fields := by
  have := inserts_flat (kw.map (·.1)) fields 0 []
  simp only [nil_append] at this
  rw [newKw, ← this, map_flatMap]
  rfl

theorem mem_ins_group {oldNames : List Nat} {fields : List Field} {p : Nat × List (Nat × Val)}
    {kv : Nat × Val} (hp : p ∈ inserts oldNames fields 0 []) (hkv : kv ∈ p.2) :
    kv ∈ newFields oldNames fields := by
  have := inserts_flat oldNames fields 0 []
  simp only [nil_append] at this
  rw [← this]
  exact mem_flatMap.2 ⟨p, hp, hkv⟩

theorem mem_newFields {oldNames : List Nat} {fields : List Field} {kv : Nat × Val} :
    kv ∈ newFields oldNames fields ↔
      (kv.1, kv.2, false) ∈ fields ∧ oldNames.contains kv.1 = false := by
  simp only [newFields, mem_map, mem_filter, Bool.and_eq_true, Bool.not_eq_eq_eq_not, Bool.not_true]
  constructor
  · rintro ⟨⟨n, v, d⟩, ⟨hm, hd, hc⟩, rfl⟩
    simp only at hd hc ⊢
    subst hd
    exact ⟨hm, hc⟩
  · rintro ⟨hm, hc⟩
    exact ⟨_, ⟨hm, rfl, hc⟩, rfl⟩

theorem mem_newKw {kw : List (Nat × Expr)} {fields : List Field} {q : Nat × Expr} :
    q ∈ newKw kw fields ↔
      ∃ v, q.2 = canon v ∧ (q.1, v, false) ∈ fields ∧ (kw.map (·.1)).contains q.1 = false := by
  simp only [newKw, mem_map]
  constructor
  · rintro ⟨kv, h, rfl⟩
    exact ⟨kv.2, rfl, mem_newFields.1 h⟩
  · rintro ⟨v, h1, h2⟩
    refine ⟨(q.1, v), mem_newFields.2 h2, ?_⟩
    simp [← h1]

theorem newKw_names_sublist (kw : List (Nat × Expr)) (fields : List Field) :
    ((newKw kw fields).map (·.1)).Sublist (fields.map (·.1)) := by
  simp only [newKw, newFields, map_map]
  exact (filter_sublist (l := fields)).map _

/-! ### weaving -/

theorem insAt_eq (ins : List (Nat × List (Nat × Val))) (i : Nat) :
    insAt ins i = (ins.filter (fun p => p.1 == i)).flatMap insG := rfl

def tailIns (ins : List (Nat × List (Nat × Val))) (i : Nat) : List (Nat × Expr) :=
  (ins.filter (fun p => decide (p.1 ≥ i))).flatMap insG

theorem weave_nil (ins : List (Nat × List (Nat × Val))) (i : Nat) :
    weave [] ins i = tailIns ins i := rfl

def optL (o : Option (Nat × Expr)) : List (Nat × Expr) :=
  match o with | some kv => [kv] | none => []

theorem weave_cons (o : Option (Nat × Expr)) (rest : List (Option (Nat × Expr)))
    (ins : List (Nat × List (Nat × Val))) (i : Nat) :
    weave (o :: rest) ins i = insAt ins i ++ optL o ++ weave rest ins (i + 1) := by
  cases o <;> rfl

theorem filterMap_id_cons (o : Option (Nat × Expr)) (rest : List (Option (Nat × Expr))) :
    (o :: rest).filterMap id = optL o ++ rest.filterMap id := by
  cases o <;> simp [optL]

theorem tailIns_perm (ins : List (Nat × List (Nat × Val))) (i : Nat) :
    (tailIns ins i).Perm (insAt ins i ++ tailIns ins (i + 1)) := by
  induction ins with
  | nil => simp [tailIns, insAt_eq]
  | cons p rest ih =>
    simp only [tailIns, insAt_eq, filter_cons] at ih ⊢
    rcases Nat.lt_trichotomy p.1 i with h | h | h
    · have h1 : ¬ p.1 ≥ i := by omega
      have h2 : (p.1 == i) = false := by simp; omega
      have h3 : ¬ p.1 ≥ i + 1 := by omega
      simp only [h1, h2, h3, decide_false, Bool.false_eq_true, ↓reduceIte]
      exact ih
    · have h1 : p.1 ≥ i := by omega
      have h2 : (p.1 == i) = true := by simp; omega
      have h3 : ¬ p.1 ≥ i + 1 := by omega
      simp only [h1, h2, h3, decide_true, decide_false, Bool.false_eq_true, ↓reduceIte, flatMap_cons,
        append_assoc]
      exact ih.append_left _
    · have h1 : p.1 ≥ i := by omega
      have h2 : (p.1 == i) = false := by simp; omega
      have h3 : p.1 ≥ i + 1 := by omega
      simp only [h1, h2, h3, decide_true, Bool.false_eq_true, ↓reduceIte, flatMap_cons]
      exact (ih.append_left _).trans (perm_append_comm_assoc _ _ _)

/-- the result of weaving is a rearrangement of the kept old keywords and all insertions at or after `i` -/
theorem weave_perm (ins : List (Nat × List (Nat × Val))) : ∀ (os : List (Option (Nat × Expr)))
    (i : Nat), (weave os ins i).Perm (os.filterMap id ++ tailIns ins i) := by
  intro os
  induction os with
  | nil => intro i; simp [weave_nil]
  | cons o rest ih =>
    intro i
    rw [weave_cons, filterMap_id_cons]
    -- A ++ O ++ W  ~  O ++ R ++ T i
    have h1 := (ih (i + 1)).append_left (insAt ins i ++ optL o)
    have h2 := (tailIns_perm ins i).append_left (optL o ++ filterMap id rest)
    refine h1.trans (Perm.trans ?_ h2.symm)
    -- (A ++ O) ++ (R ++ T') ~ (O ++ R) ++ (A ++ T')
    have h3 : ((insAt ins i ++ optL o) ++ filterMap id rest).Perm
        ((optL o ++ filterMap id rest) ++ insAt ins i) := by
      rw [append_assoc]; exact perm_append_comm
    have := h3.append_right (tailIns ins (i + 1))
    simpa only [append_assoc] using this

theorem tailIns_zero (ins : List (Nat × List (Nat × Val))) : tailIns ins 0 = ins.flatMap insG := by
  rw [tailIns, filter_eq_self.2 (by simp)]

theorem flatMap_insG_nil {L : List (Nat × List (Nat × Val))} (h : ∀ p ∈ L, p.2 = []) :
    L.flatMap insG = [] := by
  rw [flatMap_eq_nil_iff]
  intro p hp
  simp [insG, h p hp]

/-- without insertions weaving only drops the deleted keywords -/
theorem weave_noins {ins : List (Nat × List (Nat × Val))} (h : ∀ p ∈ ins, p.2 = []) :
    ∀ (os : List (Option (Nat × Expr))) (i : Nat), weave os ins i = os.filterMap id := by
  intro os
  induction os with
  | nil =>
    intro i
    rw [weave_nil, tailIns]
    exact flatMap_insG_nil (fun p hp => h p (mem_filter.1 hp).1)
  | cons o rest ih =>
    intro i
    rw [weave_cons, filterMap_id_cons, ih, insAt_eq,
      flatMap_insG_nil (fun p hp => h p (mem_filter.1 hp).1), nil_append]

/-! ### unmanaged leaves of a keyword list -/

def unmLeavesKw (l : List (Nat × Expr)) : List Expr := l.flatMap (fun p => unmLeaves p.2)

theorem ulKw_append (a b : List (Nat × Expr)) :
    unmLeavesKw (a ++ b) = unmLeavesKw a ++ unmLeavesKw b := by simp [unmLeavesKw]

theorem ulKw_nil_of {l : List (Nat × Expr)} (h : ∀ q ∈ l, unmLeaves q.2 = []) :
    unmLeavesKw l = [] := by
  rw [unmLeavesKw, flatMap_eq_nil_iff]; exact h

theorem ulKw_ins {L : List (Nat × List (Nat × Val))}
    (h : ∀ p ∈ L, ∀ kv ∈ p.2, valOk kv.2 = true) : unmLeavesKw (L.flatMap insG) = [] := by
  apply ulKw_nil_of
  intro q hq
  obtain ⟨p, hp, hq⟩ := mem_flatMap.1 hq
  obtain ⟨kv, hkv, rfl⟩ := mem_map.1 hq
  exact ul_canon _ (h p hp kv hkv)

/-- insertions of unmanaged-free values contribute no unmanaged leaves, and the old keywords keep
    their order -/
theorem ulKw_weave {ins : List (Nat × List (Nat × Val))}
    (h : ∀ p ∈ ins, ∀ kv ∈ p.2, valOk kv.2 = true) :
    ∀ (os : List (Option (Nat × Expr))) (i : Nat),
      unmLeavesKw (weave os ins i) = unmLeavesKw (os.filterMap id) := by
  intro os
  induction os with
  | nil =>
    intro i
    rw [weave_nil, tailIns, ulKw_ins (fun p hp => h p (mem_filter.1 hp).1)]
    rfl
  | cons o rest ih =>
    intro i
    rw [weave_cons, filterMap_id_cons, ulKw_append, ulKw_append, ulKw_append, ih, insAt_eq,
      ulKw_ins (fun p hp => h p (mem_filter.1 hp).1), nil_append]

end ISnap.CallAssign
