/-
  Which changes survive in `apply_all` (src/inline_snapshot/_change.py) and where their text edits lie.

  The argument of a `snapshot()` call is a tree of displays / calls (`Tree`); a node is addressed by the path of
  child indices from the root of the argument.  The changes collected for one file are
    * `replace p`  — `Replace(node = p)`: the text of node `p` is replaced
    * `delete p`   — `Delete(node = p)`: child `p` is removed from its container `p.dropLast`
    * `insert p`   — `ListInsert` / `DictInsert` / `CallArg` with `node = p`: code is inserted into container `p`
  `apply_all` first drops every change that lies inside a node which another change replaces or deletes
  (`inside_replaced`: for `Replace` / `Delete` the walk starts at the parent of the node, for the others at
  the node itself), applies the `Replace`s directly and hands the deletions and insertions of each container
  to `generic_sequence_update`, which rewrites the stretches between kept children.

  Text layout (unit = one token): a leaf is one token; a container is
      open  gap  (child gap)*  close
  so every node occupies a contiguous interval, children lie strictly inside their parent, and consecutive
  children are separated by a gap.
-/
namespace ISnap.Nest

inductive Tree where
  | leaf
  | node (kids : List Tree)
  deriving Repr, Inhabited

abbrev Path := List Nat

mutual
def Tree.width : Tree → Nat
  | .leaf => 1
  | .node ks => 3 + widthL ks
def widthL : List Tree → Nat
  | [] => 0
  | k :: ks => k.width + 1 + widthL ks
end

def Tree.kids : Tree → List Tree
  | .leaf => []
  | .node ks => ks

/-- start offset of child `i` when the first child starts at `o` -/
def kidStart (ks : List Tree) (o : Nat) : Nat → Nat
  | 0 => o
  | i + 1 =>
    match ks with
    | [] => o
    | k :: rest => kidStart rest (o + k.width + 1) i

/-- `(subtree, start offset)` of the node at a path, for a tree that starts at offset `o` -/
def locate : Tree → Nat → Path → Option (Tree × Nat)
  | t, o, [] => some (t, o)
  | t, o, i :: p =>
    match t.kids[i]? with
    | some k => locate k (kidStart t.kids (o + 2) i) p
    | none => none

/-- half-open token interval of the node at a path -/
def interval (t : Tree) (p : Path) : Option (Nat × Nat) :=
  match locate t 0 p with
  | some (s, o) => some (o, o + s.width)
  | none => none

inductive Edit where
  | replace (p : Path)
  | delete (p : Path)
  | insert (p : Path)
  deriving DecidableEq, Repr, Inhabited

/-- the node a change removes from the text -/
def Edit.removes : Edit → Option Path
  | .replace p => some p
  | .delete p => some p
  | .insert _ => none

/-- where the walk over the ancestors starts (`none`: the root of the argument has no ancestor inside it) -/
def Edit.walkStart : Edit → Option Path
  | .replace [] => none
  | .replace p => some p.dropLast
  | .delete [] => none
  | .delete p => some p.dropLast
  | .insert p => some p

/-- `inside_replaced(change)` -/
def insideRemoved (all : List Edit) (e : Edit) : Bool :=
  match e.walkStart with
  | none => false
  | some s => all.any (fun r => match r.removes with
      | some q => q.isPrefixOf s
      | none => false)

/-- the changes `apply_all` goes on with -/
def survivors (all : List Edit) : List Edit := all.filter (fun e => !insideRemoved all e)

/-- containers that `generic_sequence_update` is called for -/
def touched (s : List Edit) : List Path :=
  (s.filterMap (fun e => match e with
    | .delete (a :: p) => some ((a :: p).dropLast)
    | .insert p => some p
    | _ => none)).eraseDups

/-- indices of the children of container `c` that are deleted -/
def deletedIn (s : List Edit) (c : Path) : List Nat :=
  s.filterMap (fun e => match e with
    | .delete p => if p ≠ [] ∧ p.dropLast = c then p.getLast? else none
    | _ => none)

/-- the stretches between kept children: `last` = end of the last kept token, children start at `o`;
    a superset of the ranges `generic_sequence_update` replaces (it skips untouched stretches) -/
def stretches (del : List Nat) : List Tree → (i : Nat) → (o last : Nat) → List (Nat × Nat)
  | [], _, o, last => [(last, o)]                       -- up to the closing brace (`o` is its position)
  | k :: ks, i, o, last =>
    if del.contains i then stretches del ks (i + 1) (o + k.width + 1) last
    else (last, o) :: stretches del ks (i + 1) (o + k.width + 1) (o + k.width)

/-- all text ranges edited for the surviving changes -/
def ranges (t : Tree) (s : List Edit) : List (Nat × Nat) :=
  (s.filterMap (fun e => match e with
    | .replace p => interval t p
    | _ => none))
  ++ (touched s).flatMap (fun c =>
    match locate t 0 c with
    | some (.node ks, o) => stretches (deletedIn s c) ks 0 (o + 2) (o + 1)
    | _ => [])

def disjoint (a b : Nat × Nat) : Bool := a.2 ≤ b.1 || b.2 ≤ a.1

/-- what the adapters guarantee about the changes they emit for one snapshot argument: every path exists,
    deletions concern children of containers, insertions concern containers, no node is both replaced and
    deleted, no change is listed twice -/
def wellFormed (t : Tree) (all : List Edit) : Bool :=
  all.all (fun e => match e with
    | .replace p => (locate t 0 p).isSome
    | .delete p => p ≠ [] && (locate t 0 p).isSome
    | .insert p => match locate t 0 p with
      | some (.node _, _) => true
      | _ => false)
  && all.all (fun e => match e with
    | .replace p => !all.contains (.delete p)
    | _ => true)
  && (all.filter (fun e => match e with | .replace _ => true | .delete _ => true | _ => false)).Nodup

end ISnap.Nest
