import ISnap.Model.Site
/-
  The session-wide table of call sites (`state().snapshots`, keyed by `(id(code), f_lasti)`),
  the two counters, the per-test reset / check of the `snapshot_check` fixture, and the
  disabled path of `snapshot()`.  Transcribes `_inline_snapshot.snapshot`, `_global_state.State`
  and the non-xfail branch of `pytest_plugin.snapshot_check`.
-/
namespace ISnap

variable {V : Type}

/-- what a test program does, as far as inline-snapshot can observe it -/
inductive Event (V : Type) where
  | begin                                                    -- fixture setup: counters := 0
  | snap (site : Nat) (old : Option (OldArg V))              -- evaluation of a `snapshot(...)` call
  | op (site : Nat) (key : Option V) (op : Op) (x : V) (cloneOk : Bool)
  | touch (site : Nat) (key : V)                             -- `s[key]` without using the result
  /-- one statement of a test: the `snapshot(...)` calls it evaluates, then (if none of them
      raised) the operation; yields exactly one result -/
  | stmt (pre : List (Nat × Option (OldArg V))) (body : Event V)
  deriving Repr

structure Table (V : Type) where
  sites     : List (Nat × Site V) := []
  missing   : Nat := 0
  incorrect : Nat := 0
  deriving Repr

def Table.lookup (t : Table V) (k : Nat) : Option (Site V) :=
  (t.sites.find? (fun p => p.1 == k)).map (·.2)

def setSite (k : Nat) (s : Site V) : List (Nat × Site V) → List (Nat × Site V)
  | [] => [(k, s)]
  | (k', s') :: rest => if k' == k then (k', s) :: rest else (k', s') :: setSite k s rest

def Table.set (t : Table V) (k : Nat) (s : Site V) : Table V :=
  { t with sites := setSite k s t.sites }

/-- `GenericValue._re_eval` on the argument of a later evaluation of the same call:
    managed values must be equal, shapes must agree (the code asserts). -/
def reEvalOk (o : Ops V) : Option (OldArg V) → Option (OldArg V) → Res
  | none, none => .val true
  | some (.leaf v _), some (.leaf w _) => if o.eqv v w then .val true else .usageError
  | some (.coll es), some (.coll fs) =>
    if es.length ≠ fs.length then .unsupported
    else if (es.zip fs).all (fun p => o.eqv p.1.1 p.2.1) then .val true else .usageError
  | some (.dict es), some (.dict fs) =>
    if es.length ≠ fs.length then .unsupported
    else if (es.zip fs).all (fun p => o.eqv p.1.2.1 p.2.2.1) then .val true else .usageError
  | _, _ => .unsupported

/-- evaluation of one `snapshot(old)` call at site `k`: `none` = fine -/
def Table.snap (o : Ops V) (t : Table V) (k : Nat) (old : Option (OldArg V)) : Table V × Option Res :=
  match t.lookup k with
  | none => (t.set k (Site.ofOld old), none)
  | some s =>
    match reEvalOk o s.top.old old with
    | .val _ => (t, none)
    | e => (t, some e)

def Table.snaps (o : Ops V) (t : Table V) : List (Nat × Option (OldArg V)) → Table V × Option Res
  | [] => (t, none)
  | (k, old) :: rest =>
    match t.snap o k old with
    | (t1, none) => Table.snaps o t1 rest
    | (t1, some e) => (t1, some e)

/-- one event; returns the result the test sees (`none` for events without a result) -/
def Table.step (o : Ops V) (f : Flags) (t : Table V) : Event V → Table V × Option Res
  | .begin => ({ t with missing := 0, incorrect := 0 }, none)
  | .snap k old => t.snap o k old
  | .stmt pre body =>
    match t.snaps o pre with
    | (t1, some e) => (t1, some e)
    | (t1, none) => Table.step o f t1 body
  | .op k key op x cloneOk =>
    match t.lookup k with
    | none => (t, some .unsupported)
    | some s =>
      let r := s.step o f key op x cloneOk
      ({ (t.set k r.st) with missing := t.missing + r.dm, incorrect := t.incorrect + r.di },
       some r.res)
  | .touch k key =>
    match t.lookup k with
    | none => (t, some .unsupported)
    | some s =>
      let r := s.touch o key
      ({ (t.set k r.st) with missing := t.missing + r.dm, incorrect := t.incorrect + r.di },
       some r.res)

def Table.run (o : Ops V) (f : Flags) (t : Table V) : List (Event V) → Table V × List Res
  | [] => (t, [])
  | e :: es =>
    let (t1, r) := t.step o f e
    let (t2, rs) := Table.run o f t1 es
    (t2, match r with | some x => x :: rs | none => rs)

/-- The plain comparison a test performs when `snapshot(v)` returned `v` itself. -/
def plainOp (o : Ops V) (old : OldArg V) (op : Op) (x : V) : Res :=
  match old, op with
  | .leaf v _, .eq => .val (o.eqv v x)
  | .leaf v _, .ge => .val (o.le x v)
  | .leaf v _, .le => .val (o.le v x)
  | .coll es, .isin => .val (memBy o.eqv x (es.map (·.1)))
  | _, _ => .unsupported

/-- Outcome of the `snapshot_check` fixture for a (non-xfail) test whose body did not fail itself. -/
def fixtureFails (t : Table V) : Bool := t.missing != 0 || t.incorrect != 0

end ISnap
