/-
  `generic_sequence_update` (src/inline_snapshot/_change.py): the text-level edit that deletes and inserts
  elements of a list / tuple / dict display or of the argument list of a call.

  The text between the two braces of the display is

        gap₀ e₀ gap₁ e₁ … e₍ₙ₋₁₎ gapₙ

  where `eᵢ` is the token range of element `i` (for dicts `key: value`, for calls `name=value`; with the
  parentheses that belong to it) and a gap is everything between two such ranges: blanks, line breaks,
  comments and commas.  The function walks over the elements, remembers the code that still has to be
  inserted and whether something was deleted since the last kept element, and replaces the stretch between
  the last kept token and the next kept element by freshly generated separators when necessary.

  Tokens: an element (identified by a key: the old elements and the inserted pieces of code are opaque),
  a comma, or a piece of trivia (blanks / comments, identified by a key; `ws 0` is the single blank the
  generated `", "` contains).
-/
namespace ISnap.SeqEdit

inductive Tok where
  | elem (k : Nat)
  | comma
  | ws (k : Nat)
  deriving DecidableEq, Repr, Inhabited

/-- the generated separator `", "` -/
def sep : List Tok := [.comma, .ws 0]

/-- `", ".join(new_code)` -/
def joinCode : List Nat → List Tok
  | [] => []
  | [a] => [.elem a]
  | a :: b :: rest => .elem a :: sep ++ joinCode (b :: rest)

/-- one old element: its key, `false` if it is deleted (`entry is None`), the gap that follows it -/
structure Entry where
  key : Nat
  keep : Bool
  gapAfter : List Tok
  deriving Repr, Inhabited

structure St where
  newCode : List Nat      -- `new_code`
  deleted : Bool          -- `deleted`
  isStart : Bool          -- `is_start`
  elements : Nat          -- `elements`
  orig : List Tok         -- the original text between the last kept token and the current position
  out : List Tok          -- the rewritten text so far
  deriving Repr, Inhabited

def St.init (gap0 : List Tok) : St :=
  { newCode := [], deleted := false, isStart := true, elements := 0, orig := gap0, out := [] }

/-- the body of `for index, entry in enumerate(parent_elements)` -/
def step (ins : List (List Nat)) (i : Nat) (e : Entry) (s : St) : St :=
  let nc := s.newCode ++ ins.getD i []
  if !e.keep then
    { s with newCode := nc, deleted := true, orig := s.orig ++ [.elem e.key] ++ e.gapAfter }
  else
    let seg :=
      if s.deleted || !nc.isEmpty then
        (if s.isStart then [] else sep) ++ (if nc.isEmpty then [] else joinCode nc ++ sep)
      else s.orig
    { newCode := [], deleted := false, isStart := false, elements := s.elements + nc.length + 1,
      orig := e.gapAfter, out := s.out ++ seg ++ [.elem e.key] }

def loop (ins : List (List Nat)) : Nat → List Entry → St → St
  | _, [], s => s
  | i, e :: rest, s => loop ins (i + 1) rest (step ins i e s)

/-- the part after the loop; `n = len(parent_elements)` -/
def finish (isTuple : Bool) (ins : List (List Nat)) (n : Nat) (s : St) : List Tok :=
  let tail := ins.getD n []
  let nc := s.newCode ++ tail
  -- `elements` only counts the pending code when something is inserted at the very end
  let elements := if tail.isEmpty then s.elements else s.elements + nc.length
  if !nc.isEmpty || s.deleted || elements == 1 || n ≤ 1 then
    let code := joinCode nc
    let code := if !s.isStart && !code.isEmpty then sep ++ code else code
    let code := if elements == 1 && isTuple then code ++ [.comma] else code
    s.out ++ code
  else s.out ++ s.orig

/-- the text between the braces after `generic_sequence_update` -/
def seqUpdate (isTuple : Bool) (gap0 : List Tok) (es : List Entry) (ins : List (List Nat)) : List Tok :=
  finish isTuple ins es.length (loop ins 0 es (St.init gap0))

/-- the text between the braces before -/
def original (gap0 : List Tok) : List Entry → List Tok
  | [] => gap0
  | e :: rest => gap0 ++ [.elem e.key] ++ original e.gapAfter rest

/-! ### what a display is: `elem (ws* , ws* elem)* [,]` with trivia anywhere -/

inductive PState where
  | start        -- nothing yet: an element or the end
  | afterElem    -- a comma or the end
  | afterComma   -- an element or the end (trailing comma)
  deriving DecidableEq, Repr

/-- elements of a display text and whether it ends with a trailing comma; `none` = not a display -/
def parseFrom : PState → List Tok → Option (List Nat × Bool)
  | st, [] => some ([], st == .afterComma)
  | st, .ws _ :: rest => parseFrom st rest
  | .afterElem, .comma :: rest => parseFrom .afterComma rest
  | _, .comma :: _ => none
  | .afterElem, .elem _ :: _ => none
  | _, .elem k :: rest =>
    match parseFrom .afterElem rest with
    | some (ks, tc) => some (k :: ks, tc)
    | none => none

def parse (ts : List Tok) : Option (List Nat × Bool) := parseFrom .start ts

/-- the elements the display must hold afterwards: the code inserted at `i`, then element `i` if kept -/
def expectedFrom (ins : List (List Nat)) : Nat → List Entry → List Nat
  | i, [] => ins.getD i []
  | i, e :: rest => ins.getD i [] ++ (if e.keep then [e.key] else []) ++ expectedFrom ins (i + 1) rest

def expected (es : List Entry) (ins : List (List Nat)) : List Nat := expectedFrom ins 0 es

/-- trivia only -/
def isBlank (g : List Tok) : Bool := g.all (fun t => match t with | .ws _ => true | _ => false)

/-- exactly one comma, otherwise trivia -/
def isSep (g : List Tok) : Bool :=
  g.all (fun t => match t with | .elem _ => false | _ => true) && g.count .comma == 1

/-- at most one comma, otherwise trivia -/
def isTail (g : List Tok) : Bool :=
  g.all (fun t => match t with | .elem _ => false | _ => true) && g.count .comma ≤ 1

/-- the gaps of a syntactically valid display: blank, separators, optional trailing comma (none if empty) -/
def wfGaps (gap0 : List Tok) : List Entry → Bool
  | [] => isBlank gap0
  | [e] => isBlank gap0 && isTail e.gapAfter
  | e :: e' :: rest => isBlank gap0 && isSep e.gapAfter && wfGapsTail (e' :: rest)
where
  wfGapsTail : List Entry → Bool
    | [] => true
    | [e] => isTail e.gapAfter
    | e :: e' :: rest => isSep e.gapAfter && wfGapsTail (e' :: rest)

/-- code is only pending at the end of the loop if it is inserted at the very end: every insert position
    `i < n` has a kept element at or after it.  (`SequenceAdapter` / `DictAdapter` produce positions with
    this property: inside an edit block the deletions come first.) -/
def insertsAnchored (ins : List (List Nat)) : Nat → List Entry → Bool
  | _, [] => true
  | i, e :: rest =>
    ((ins.getD i []).isEmpty || (e :: rest).any (·.keep)) && insertsAnchored ins (i + 1) rest

/-- the text up to and including element `k-1` (without the gap that follows it) -/
def prefixText (gap0 : List Tok) : List Entry → List Tok
  | [] => []
  | [e] => gap0 ++ [.elem e.key]
  | e :: e' :: rest => gap0 ++ [.elem e.key] ++ prefixText e.gapAfter (e' :: rest)

end ISnap.SeqEdit
