/-
  String and bytes literals.
    * `pyRepr` / `bytesRepr`   — CPython's `repr(str)` / `repr(bytes)` (quote choice, escapes),
    * `unicodeEscape`, `strLiteralHelper`, `tripleQuote` — `_utils._str_literal_helper`, `triple_quote`,
    * `useTriple`, `valueToLiteral`  — the `map_string` decision of `value_to_token`,
    * `evalLit` / `evalBytesLit` — a lexer-level evaluator of (non-raw, non-f) Python string / bytes
      literals: prefix, single or triple quotes, all escape forms CPython accepts.
  Strings are lists of code points (`Nat`, every element < 0x110000, lone surrogates allowed);
  `printable` is `str.isprintable` on one code point and stays a parameter.
-/
namespace ISnap.StrLit

abbrev Str := List Nat

def SQ : Nat := 39      -- '
def DQ : Nat := 34      -- "
def BS : Nat := 92      -- \
def NL : Nat := 10
def CR : Nat := 13
def TAB : Nat := 9
def SP : Nat := 32

def hexDigit (d : Nat) : Nat := if d < 10 then 48 + d else 87 + d     -- '0'..'9','a'..'f'

/-- `"%0<width>x" % c` -/
def hexN : Nat → Nat → Str
  | 0, _ => []
  | w+1, c => hexN w (c / 16) ++ [hexDigit (c % 16)]

def escX (c : Nat) : Str := [BS, 120] ++ hexN 2 c          -- \xhh
def escU4 (c : Nat) : Str := [BS, 117] ++ hexN 4 c         -- \uhhhh
def escU8 (c : Nat) : Str := [BS, 85] ++ hexN 8 c          -- \Uhhhhhhhh

/-- one character of `repr(str)` with the chosen quote `q` -/
def reprChar (printable : Nat → Bool) (q c : Nat) : Str :=
  if c = q ∨ c = BS then [BS, c]
  else if c = TAB then [BS, 116]
  else if c = NL then [BS, 110]
  else if c = CR then [BS, 114]
  else if c < 32 ∨ c = 0x7f then escX c
  else if c < 0x7f then [c]
  else if printable c then [c]
  else if c ≤ 0xff then escX c
  else if c ≤ 0xffff then escU4 c
  else escU8 c

/-- quote used by `repr`: `"` iff the text has a `'` and no `"` -/
def reprQuote (s : Str) : Nat := if s.contains SQ ∧ ¬ s.contains DQ then DQ else SQ

def pyRepr (printable : Nat → Bool) (s : Str) : Str :=
  let q := reprQuote s
  [q] ++ (s.flatMap (reprChar printable q)) ++ [q]

def bytesReprChar (q c : Nat) : Str :=
  if c = q ∨ c = BS then [BS, c]
  else if c = TAB then [BS, 116]
  else if c = NL then [BS, 110]
  else if c = CR then [BS, 114]
  else if c < 32 ∨ c ≥ 0x7f then escX c
  else [c]

/-- `repr(bytes)`; elements are byte values `< 256` -/
def bytesRepr (s : Str) : Str :=
  let q := reprQuote s
  [98, q] ++ (s.flatMap (bytesReprChar q)) ++ [q]

/-- `c.encode("unicode_escape").decode("ascii")` -/
def unicodeEscape (c : Nat) : Str :=
  if c = BS then [BS, BS]
  else if c = TAB then [BS, 116]
  else if c = NL then [BS, 110]
  else if c = CR then [BS, 114]
  else if c < 32 ∨ (0x7f ≤ c ∧ c ≤ 0xff) then escX c
  else if c < 0x7f then [c]
  else if c ≤ 0xffff then escU4 c
  else escU8 c

def isInfix (p : Str) : Str → Bool
  | [] => p.isEmpty
  | c :: cs => p.isPrefixOf (c :: cs) || isInfix p cs

def triple (q : Nat) : Str := [q, q, q]

/-- `escape_char` of `_str_literal_helper` -/
def escapeChar (printable : Nat → Bool) (extra : Option Nat) (c : Nat) : Str :=
  if c = NL ∨ c = TAB then [c]
  else if c = BS ∨ ¬ printable c then unicodeEscape c
  else if some c = extra then [BS, c]
  else [c]

/-- `_str_literal_helper(string, quote_types=['"""', "'''"])`: escaped text, possible quotes in order -/
def strLiteralHelper (printable : Nat → Bool) (s : Str) : Str × List Nat :=
  let extra : Option Nat :=
    if isInfix (triple SQ) s ∧ isInfix (triple DQ) s then
      some (if s.count SQ ≥ s.count DQ then DQ else SQ)
    else none
  let esc := s.flatMap (escapeChar printable extra)
  let poss := [DQ, SQ].filter (fun q => !isInfix (triple q) esc)
  match esc.getLast? with
  | none => (esc, poss)
  | some last =>
    -- stable sort by `q[0] == escaped_string[-1]` (False first)
    let poss' := poss.filter (· ≠ last) ++ poss.filter (· = last)
    match poss' with
    | q0 :: _ =>
      -- a final quote is escaped unless it already is (it is the `extra` character)
      if q0 = last ∧ s.getLast? ≠ extra then (esc.dropLast ++ [BS, last], poss') else (esc, poss')
    | [] => (esc, poss')

/-- `string.replace(" \n", " \\n\\\n")` -/
def replaceSpNl : Str → Str
  | 32 :: 10 :: rest => [SP, BS, 110, BS, NL] ++ replaceSpNl rest
  | c :: rest => c :: replaceSpNl rest
  | [] => []

/-- `triple_quote(string)`; `none` when no quote type is possible (the Python code raises IndexError) -/
def tripleQuote (printable : Nat → Bool) (s : Str) : Option Str :=
  let (esc, poss) := strLiteralHelper printable s
  match poss with
  | [] => none
  | q :: _ =>
    let e1 := replaceSpNl esc
    let e2 := [BS, NL] ++ e1
    let e3 := if e2.getLast? = some NL then e2 else e2 ++ [BS, NL]
    some (triple q ++ e3 ++ triple q)

/-- the `map_string` test: `("\n" in s and s[-1] != "\n") or s.count("\n") > 1` -/
def useTriple (s : Str) : Bool :=
  (s.contains NL && s.getLast? != some NL) || decide (s.count NL > 1)

/-- the token text `value_to_token` produces for a str value -/
def valueToLiteral (printable : Nat → Bool) (s : Str) : Option Str :=
  if useTriple s then tripleQuote printable s else some (pyRepr printable s)

/-! ### evaluating literals (what CPython's lexer and `ast.literal_eval` do) -/

def hexVal? (c : Nat) : Option Nat :=
  if 48 ≤ c ∧ c ≤ 57 then some (c - 48)
  else if 97 ≤ c ∧ c ≤ 102 then some (c - 87)
  else if 65 ≤ c ∧ c ≤ 70 then some (c - 55)
  else none

def octVal? (c : Nat) : Option Nat := if 48 ≤ c ∧ c ≤ 55 then some (c - 48) else none

/-- read exactly `n` hex digits -/
def readHex : Nat → Nat → Str → Option (Nat × Str)
  | 0, acc, rest => some (acc, rest)
  | n+1, acc, c :: rest => match hexVal? c with
    | some d => readHex n (acc * 16 + d) rest
    | none => none
  | _+1, _, [] => none

/-- body of a non-raw literal up to the closing quote `q` (single: one `q`; triple: three).
    `isBytes`: `\u`, `\U`, `\N` are not escapes in bytes literals.  Fuel = length of the input. -/
def evalBody (isBytes : Bool) (q : Nat) (tripleQ : Bool) : Nat → Str → Str → Option Str
  | 0, _, _ => none
  | fuel+1, acc, input =>
    match input with
    | [] => none
    | c :: rest =>
      if c = q then
        if tripleQ then
          match rest with
          | c2 :: c3 :: rest' =>
            if c2 = q ∧ c3 = q then (if rest' = [] then some acc.reverse else none)
            else evalBody isBytes q tripleQ fuel (c :: acc) rest
          | _ => evalBody isBytes q tripleQ fuel (c :: acc) rest
        else (if rest = [] then some acc.reverse else none)
      else if c = NL ∧ ¬ tripleQ then none
      else if c = BS then
        match rest with
        | [] => none
        | e :: rest' =>
          if e = NL then evalBody isBytes q tripleQ fuel acc rest'            -- line continuation
          else if e = BS then evalBody isBytes q tripleQ fuel (BS :: acc) rest'
          else if e = SQ then evalBody isBytes q tripleQ fuel (SQ :: acc) rest'
          else if e = DQ then evalBody isBytes q tripleQ fuel (DQ :: acc) rest'
          else if e = 97 then evalBody isBytes q tripleQ fuel (7 :: acc) rest'     -- \a
          else if e = 98 then evalBody isBytes q tripleQ fuel (8 :: acc) rest'     -- \b
          else if e = 102 then evalBody isBytes q tripleQ fuel (12 :: acc) rest'   -- \f
          else if e = 110 then evalBody isBytes q tripleQ fuel (NL :: acc) rest'   -- \n
          else if e = 114 then evalBody isBytes q tripleQ fuel (CR :: acc) rest'   -- \r
          else if e = 116 then evalBody isBytes q tripleQ fuel (TAB :: acc) rest'  -- \t
          else if e = 118 then evalBody isBytes q tripleQ fuel (11 :: acc) rest'   -- \v
          else if e = 120 then                                                       -- \xhh
            match readHex 2 0 rest' with
            | some (v, r) => evalBody isBytes q tripleQ fuel (v :: acc) r
            | none => none
          else if e = 117 ∧ ¬ isBytes then                                           -- \uhhhh
            match readHex 4 0 rest' with
            | some (v, r) => evalBody isBytes q tripleQ fuel (v :: acc) r
            | none => none
          else if e = 85 ∧ ¬ isBytes then                                            -- \Uhhhhhhhh
            match readHex 8 0 rest' with
            | some (v, r) => if v < 0x110000 then evalBody isBytes q tripleQ fuel (v :: acc) r else none
            | none => none
          else match octVal? e with
            | some d1 =>                                                             -- \o, \oo, \ooo
              match rest' with
              | c2 :: r2 =>
                match octVal? c2 with
                | some d2 =>
                  match r2 with
                  | c3 :: r3 =>
                    match octVal? c3 with
                    | some d3 =>
                      -- a bytes literal keeps the low eight bits of `\400` … `\777` (CPython warns and truncates)
                      let v := d1 * 64 + d2 * 8 + d3
                      evalBody isBytes q tripleQ fuel ((if isBytes then v % 256 else v) :: acc) r3
                    | none => evalBody isBytes q tripleQ fuel ((d1 * 8 + d2) :: acc) r2
                  | [] => evalBody isBytes q tripleQ fuel ((d1 * 8 + d2) :: acc) r2
                | none => evalBody isBytes q tripleQ fuel (d1 :: acc) rest'
              | [] => evalBody isBytes q tripleQ fuel (d1 :: acc) rest'
            | none =>
              if e = 78 ∧ ¬ isBytes then none                                        -- \N{…}: not modelled
              else evalBody isBytes q tripleQ fuel (e :: BS :: acc) rest'            -- unknown escape: kept
      else evalBody isBytes q tripleQ fuel (c :: acc) rest

/-- evaluate a `str` literal without prefix (or with `u`) -/
def evalLit (lit : Str) : Option Str :=
  match lit with
  | q :: rest =>
    if q = SQ ∨ q = DQ then
      match rest with
      | c2 :: c3 :: rest' =>
        if c2 = q ∧ c3 = q then evalBody false q true (rest'.length + 1) [] rest'
        else evalBody false q false (rest.length + 1) [] rest
      | _ => evalBody false q false (rest.length + 1) [] rest
    else none
  | [] => none

/-- evaluate a `bytes` literal `b'…'` -/
def evalBytesLit (lit : Str) : Option Str :=
  match lit with
  | 98 :: q :: rest =>
    if q = SQ ∨ q = DQ then
      match rest with
      | c2 :: c3 :: rest' =>
        if c2 = q ∧ c3 = q then evalBody true q true (rest'.length + 1) [] rest'
        else evalBody true q false (rest.length + 1) [] rest
      | _ => evalBody true q false (rest.length + 1) [] rest
    else none
  | _ => none

end ISnap.StrLit
