/-
  `_align.py`: `align` (greedy equal prefix, then equal suffix of the rest, Needleman-Wunsch on the
  middle), `nw_align` (row-by-row score matrix, `max` over `(score, letter)` tuples, backtracking),
  `add_x`.  The sequences enter only through the relation `E i j` = "old[i] == new[j]"
  (any relation: Python `==` of user values need not be transitive), and the two lengths.
-/
namespace ISnap.Align

inductive Dir where
  | e | i | d | m | x
  deriving DecidableEq, Repr, Inhabited

abbrev Cell := Nat × Dir

/-- `max([(la,'i'), (lb,'d')] + ([(lc+1,'m')] if a == b else []))`: tuples compare by score, then by
    letter, and `'m' > 'i' > 'd'`. -/
def pick (eq : Bool) (la lc lb : Nat) : Cell :=
  if eq && decide (lc + 1 ≥ la) && decide (lc + 1 ≥ lb) then (lc + 1, .m)
  else if la ≥ lb then (la, .i) else (lb, .d)

/-- specification of the matrix entry `matrix[i][j]` -/
def cell (E : Nat → Nat → Bool) : Nat → Nat → Cell
  | 0, 0 => (0, .e)
  | 0, _+1 => (0, .i)
  | _+1, 0 => (0, .d)
  | i+1, j+1 => pick (E i j) (cell E (i+1) j).1 (cell E i j).1 (cell E i (j+1)).1
termination_by i j => (i, j)

/-! executable matrix, built row by row exactly like the Python loop -/

/-- rest of a new row: `left` = the cell just appended (`new_line[-1]`), `prev` = the remaining part of
    the previous row starting at column `j` (so `prev = last[j], last[j+1], …`) -/
def nextRowAux (Ei : Nat → Bool) : Nat → Cell → List Cell → List Cell
  | j, left, pc :: pb :: rest =>
    let c := pick (Ei j) left.1 pc.1 pb.1
    c :: nextRowAux Ei (j + 1) c (pb :: rest)
  | _, _, _ => []

def nextRow (Ei : Nat → Bool) (prev : List Cell) : List Cell :=
  (0, .d) :: nextRowAux Ei 0 (0, .d) prev

def firstRow (m : Nat) : List Cell := (0, .e) :: List.replicate m (0, .i)

/-- rows `0 … n` of the matrix for sequences of lengths `n`, `m` (most recent row first) -/
def rowsRev (E : Nat → Nat → Bool) (m : Nat) : Nat → List (List Cell)
  | 0 => [firstRow m]
  | i+1 =>
    match rowsRev E m i with
    | [] => []
    | last :: older => nextRow (E i) last :: last :: older

def matrix (E : Nat → Nat → Bool) (n m : Nat) : List (List Cell) := (rowsRev E m n).reverse

def getCell (M : List (List Cell)) (i j : Nat) : Cell := (M.getD i []).getD j (0, .e)

/-- the `while d != "e"` loop; `fuel` bounds the number of iterations (`n + m + 1` suffices) -/
def backM (M : List (List Cell)) : Nat → Nat → Nat → List Dir → List Dir
  | 0, _, _, acc => acc
  | fuel+1, ai, bi, acc =>
    match (getCell M ai bi).2 with
    | .m => backM M fuel (ai-1) (bi-1) (.m :: acc)
    | .i => backM M fuel ai (bi-1) (.i :: acc)
    | .d => backM M fuel (ai-1) bi (.d :: acc)
    | _ => acc

def nwAlign (E : Nat → Nat → Bool) (n m : Nat) : List Dir :=
  backM (matrix E n m) (n + m + 1) n m []

/-- number of leading positions `k < bound` with `E k k`, stopping at the first failure -/
def prefixLen (E : Nat → Nat → Bool) : Nat → Nat → Nat
  | 0, k => k
  | fuel+1, k => if E k k then prefixLen E fuel (k+1) else k

/-- the same from the back: positions `(n-1-k, m-1-k)` -/
def suffixLen (E : Nat → Nat → Bool) (n m : Nat) : Nat → Nat → Nat
  | 0, k => k
  | fuel+1, k => if E (n-1-k) (m-1-k) then suffixLen E n m fuel (k+1) else k

def align (E : Nat → Nat → Bool) (n m : Nat) : List Dir :=
  let s := prefixLen E (min n m) 0
  if s = n ∧ s = m then List.replicate s .m
  else
    let e := suffixLen E n m (min (n - s) (m - s)) 0
    List.replicate s .m ++ nwAlign (fun i j => E (s + i) (s + j)) (n - s - e) (m - s - e)
      ++ List.replicate e .m

/-! `add_x` -/

def rle : List Dir → List (Dir × Nat)
  | [] => []
  | c :: cs =>
    match rle cs with
    | (c', k) :: rest => if c = c' then (c', k + 1) :: rest else (c, 1) :: (c', k) :: rest
    | [] => [(c, 1)]

def addXGroups : List (Dir × Nat) → List Dir
  | [] => []
  | [g] => List.replicate g.2 g.1
  | g :: ng :: rest =>
    if g.1 = .d ∧ ng.1 = .i ∧ g.2 = ng.2 then List.replicate g.2 .x ++ addXGroups rest
    else List.replicate g.2 g.1 ++ addXGroups (ng :: rest)

def addX (t : List Dir) : List Dir := addXGroups (rle t)

def Dir.letter : Dir → String
  | .e => "e" | .i => "i" | .d => "d" | .m => "m" | .x => "x"

end ISnap.Align
