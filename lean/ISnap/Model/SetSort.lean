import ISnap.Model.Value
/-
  `_code_repr.sort_set_values`: the elements of a set / frozenset are written in sorted order when
  `sorted()` works, otherwise their texts are sorted.
      try: set_values = sorted(set_values); is_sorted = True
      except TypeError: pass
      set_values = list(map(repr, set_values))
      if not is_sorted: set_values = sorted(set_values)
  `xs` is the iteration order of the set — which depends on PYTHONHASHSEED and construction order.
-/
namespace ISnap.SetSort

abbrev Str := List Nat

def strLe : Str → Str → Bool
  | [], _ => true
  | _ :: _, [] => false
  | a :: as, b :: bs => a < b || (a == b && strLe as bs)

/-- `cmpOk` = `sorted(values)` did not raise; `le` = the order it used; `repr` = text of one element -/
def sortSetValues {α : Type} (cmpOk : Bool) (le : α → α → Bool) (repr : α → Str) (xs : List α) : List Str :=
  if cmpOk then (xs.mergeSort le).map repr else (xs.map repr).mergeSort strLe

/-- for flat values: `sorted` works iff all are numbers or all are strings -/
def atomsComparable (xs : List Atom) : Bool :=
  xs.all (fun a => a.num?.isSome) || xs.all (fun a => match a with | .str _ => true | _ => false)

def sortAtoms (repr : Atom → Str) (xs : List Atom) : List Str :=
  sortSetValues (atomsComparable xs) Atom.pyLe repr xs

end ISnap.SetSort
