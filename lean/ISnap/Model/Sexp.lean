/-
  S-expressions: the line protocol between the Python harness and the Lean driver.
  One expression per line.  Atoms are runs of characters other than blanks and parentheses.
  Only the driver uses this file; no theorem depends on the parser (it is part of the trusted
  base of the correspondence check, see DESIGN.md §7).
-/
namespace ISnap

inductive Sexp where
  | atom (s : String)
  | list (xs : List Sexp)
  deriving Repr, Inhabited, BEq

namespace Sexp

partial def toStr : Sexp → String
  | atom s => s
  | list xs => "(" ++ " ".intercalate (xs.map toStr) ++ ")"

instance : ToString Sexp := ⟨toStr⟩

/-- tokens: "(" ")" or atom text -/
def tokenize (s : String) : List String := Id.run do
  let mut toks : Array String := #[]
  let mut cur : String := ""
  for c in s.toList do
    if c == '(' || c == ')' then
      if cur != "" then toks := toks.push cur; cur := ""
      toks := toks.push (String.singleton c)
    else if c == ' ' || c == '\t' || c == '\n' || c == '\r' then
      if cur != "" then toks := toks.push cur; cur := ""
    else
      cur := cur.push c
  if cur != "" then toks := toks.push cur
  return toks.toList

/-- parse one expression from a token list; returns the rest -/
partial def parseToks : List String → Option (Sexp × List String)
  | [] => none
  | "(" :: rest =>
    let rec go (acc : Array Sexp) (ts : List String) : Option (Sexp × List String) :=
      match ts with
      | [] => none
      | ")" :: r => some (list acc.toList, r)
      | _ => match parseToks ts with
        | none => none
        | some (e, r) => go (acc.push e) r
    go #[] rest
  | ")" :: _ => none
  | t :: rest => some (atom t, rest)

def parse (s : String) : Option Sexp :=
  match parseToks (tokenize s) with
  | some (e, []) => some e
  | _ => none

def nat? : Sexp → Option Nat
  | atom s => s.toNat?
  | _ => none

def int? : Sexp → Option Int
  | atom s => s.toInt?
  | _ => none

def ofNat (n : Nat) : Sexp := atom (toString n)
def ofInt (n : Int) : Sexp := atom (toString n)
def ofBool (b : Bool) : Sexp := atom (if b then "1" else "0")

def bool? : Sexp → Option Bool
  | atom "1" => some true
  | atom "0" => some false
  | _ => none

end Sexp
end ISnap
