import ISnap.Model.External
/-
  The write phase of `pytest_sessionfinish` (from "used_changes computed" to "files written"), as a list of
  atomic steps over a disk state, so that faults and crash points can be quantified over:

      cr = ChangeRecorder(); apply_all(used_changes, cr)
      for test_file in cr.files():
          tree = ast.parse(test_file.new_code())         -- compute f      (may raise: nothing was written yet)
          ensure_import(...)
          for name in used_externals(tree): storage.persist(name)   -- persist r
      cr.fix_all()                                        -- for every file: new_code(); open(f, "bw"); write
                                                          --   = truncate f ; put f

  A formatter failure is not a step failure: `format_code` catches it, records a problem and returns the
  unformatted text (`fmtDegrades`).
-/
namespace ISnap.Finish
open ISnap.External

inductive Content where
  | old | new | empty
  deriving DecidableEq, Repr, Inhabited

inductive Step where
  | compute (f : Nat)
  | persist (r : Ref)
  | truncate (f : Nat)
  | put (f : Nat)
  deriving DecidableEq, Repr, Inhabited

structure Disk where
  files : List (Nat × Content)
  store : Store
  deriving Repr

/-- one rewritten file: its id and the externals its new content refers to -/
abbrev Job := Nat × List Ref

def plan (jobs : List Job) : List Step :=
  jobs.flatMap (fun j => Step.compute j.1 :: j.2.map Step.persist) ++
  jobs.flatMap (fun j => [Step.truncate j.1, Step.put j.1])

def setFile (f : Nat) (c : Content) : List (Nat × Content) → List (Nat × Content)
  | [] => []
  | (g, c') :: rest => if g = f then (g, c) :: rest else (g, c') :: setFile f c rest

def exec (d : Disk) : Step → Disk
  | .compute _ => d
  | .persist r => { d with store := External.persist d.store r }
  | .truncate f => { d with files := setFile f .empty d.files }
  | .put f => { d with files := setFile f .new d.files }

/-- the disk after the first `k` steps ran and the process stopped (crash, or step `k` raised before
    having any effect) -/
def crashAt (d : Disk) (steps : List Step) (k : Nat) : Disk := (steps.take k).foldl exec d

def contentOf (d : Disk) (f : Nat) : Option Content := (d.files.find? (fun p => p.1 == f)).map (·.2)

/-- the formatter's contribution to the new content: on failure the unformatted text is used -/
def fmtDegrades (fmtResult : Option (List Nat)) (unformatted : List Nat) : List Nat × Bool :=
  match fmtResult with
  | some t => (t, false)
  | none => (unformatted, true)       -- (text, a problem was recorded)

end ISnap.Finish
