import ISnap.Model.Basic
/-
  The session gate of `pytest_plugin.py`: flag resolution in `pytest_configure`
  (command line > INLINE_SNAPSHOT_DEFAULT_FLAGS > pyproject default-flags[-tui]), the usage errors,
  activation, `update_flags`, and the category loop of `pytest_sessionfinish` (short-report early
  return, report / review, review answers, skip-snapshot-updates-for-now) — plus the filter of
  `Example.run_inline`.  Decision logic only; what is pending comes in as parameters.
-/
namespace ISnap.Session
open ISnap

inductive Flag where
  | cat (c : Cat)
  | disable | review | report | shortReport
  | unknown (id : Nat)          -- anything else, including the empty item of `"".split(",")`
  deriving DecidableEq, Repr, Inhabited

structure Cfg where
  /-- `--inline-snapshot=…` (or a shortcut option), split on "," with empty items removed; `none` = absent -/
  cli : Option (List Flag)
  /-- INLINE_SNAPSHOT_DEFAULT_FLAGS split on "," (empty items kept as `unknown`) -/
  env : Option (List Flag)
  tty : Bool
  /-- `default-flags` / `default-flags-tui` after reading pyproject.toml (built-in defaults otherwise) -/
  defaultFlags : List Flag
  defaultFlagsTui : List Flag
  /-- this process runs under pytest-xdist (controller with `-n N`, N ≠ 0, or a worker) -/
  xdist : Bool
  ci : Bool
  cpython : Bool := true
  skipUpdates : Bool := false
  /-- answers to the review prompts -/
  answers : Cat → Bool
  deriving Inhabited

def Cfg.flags (c : Cfg) : List Flag :=
  match c.cli with
  | some l => l
  | none =>
    match c.env with
    | some e => e
    | none => if c.tty then c.defaultFlagsTui else c.defaultFlags

def isUnknown : Flag → Bool
  | .unknown _ => true
  | _ => false

def catFlags (fl : List Flag) : Flags :=
  { create := fl.contains (.cat .create), fix := fl.contains (.cat .fix),
    trim := fl.contains (.cat .trim), update := fl.contains (.cat .update) }

inductive Setup where
  | usageError
  | ok (flags : List Flag) (active : Bool) (update : Flags)
  deriving Repr

/-- `pytest_configure` -/
def configure (c : Cfg) : Setup :=
  let fl := c.flags
  if c.cli.isSome && c.xdist && fl.any (· ≠ .disable) then .usageError
  else if fl.any isUnknown then .usageError
  else if fl.contains .disable && fl.any (· ≠ .disable) then .usageError
  else if c.xdist || !c.cpython || c.ci then .ok fl false Flags.empty
  else if fl.contains .review then .ok fl true Flags.all
  else .ok fl (!fl.contains .disable) (catFlags fl)

/-- what the collected changes look like at session end -/
structure Pending where
  /-- some snapshot reported a change of this category -/
  has : Cat → Bool
  /-- applying them (on top of what is already used) yields a non-empty diff -/
  diff : Cat → Bool

/-- category `k` counts as approved in this session -/
def approved (c : Cfg) (fl : List Flag) (k : Cat) : Bool :=
  fl.contains (.cat k) || (fl.contains .review && c.answers k)

/-- one round of the `for flag in Flags.all()` loop: is category `k` added to `used_changes`? -/
def useCat (c : Cfg) (fl : List Flag) (p : Pending) (k : Cat) : Bool :=
  p.has k &&
  (fl.contains .review || fl.contains .report || fl.contains (.cat k)) &&
  !(k == .update && c.skipUpdates && !fl.contains (.cat .update)) &&
  p.diff k && approved c fl k

/-- `pytest_sessionfinish`: the set of categories whose changes are written -/
def applied (c : Cfg) (p : Pending) : Flags :=
  match configure c with
  | .usageError => Flags.empty
  | .ok fl active _ =>
    if c.xdist || c.ci || !c.cpython || !active then Flags.empty
    else if fl.contains .shortReport then Flags.empty
    else { create := useCat c fl p .create, fix := useCat c fl p .fix,
           trim := useCat c fl p .trim, update := useCat c fl p .update }

/-- `Example.run_inline(["--inline-snapshot=…"])`: every change whose category is among the flags -/
def appliedInline (fl : List Flag) (p : Pending) : Flags :=
  { create := p.has .create && fl.contains (.cat .create), fix := p.has .fix && fl.contains (.cat .fix),
    trim := p.has .trim && fl.contains (.cat .trim), update := p.has .update && fl.contains (.cat .update) }

/-- the snapshot_check fixture runs an xfail-marked test in a private inactive state -/
def testActive (sessionActive xfail : Bool) : Bool := sessionActive && !xfail

end ISnap.Session
