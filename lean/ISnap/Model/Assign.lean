import ISnap.Model.Basic
import ISnap.Model.Value
import ISnap.Model.Align
/-
  `x == snapshot(<display>)`: what `EqValue.__eq__` computes through the adapters
  (`Adapter.get_adapter`, `ValueAdapter.assign`, `SequenceAdapter.assign`, `DictAdapter.assign`) and what
  `apply_all` makes of the resulting changes — at the level of the syntax tree of the argument.

    * `eval e`        the value the argument expression evaluates to (`_old_value`, unmanaged parts wrapped)
    * `cats e n`      the categories of the changes reported when the value `n` is compared
    * `merged e n`    the value `assign` returns (`_new_value`): what the comparison is answered with
    * `run F e n`     the argument expression after the changes whose category is in `F` were applied
    * `canon v`       the expression `code_repr` writes for a value

  Scope: list / tuple / dict displays at any nesting depth, leaves (any other expression, with its
  value and whether its tokens are the regenerated ones), unmanaged leaves (`Is(x)`, dirty-equals, inner
  `snapshot()`, f-strings), star-expressions.  Constructor calls (`GenericCallAdapter`) are not in this
  model yet.  Dict keys are atoms.
-/
namespace ISnap.Assign
open ISnap

inductive Val where
  | atom (a : Atom)
  | list (xs : List Val)
  | tuple (xs : List Val)
  | dict (kvs : List (Atom × Val))
  | unmIs (id : Nat) (v : Val)      -- `Unmanaged(Is(v))`: `==` forwards to `v`
  | unmAny (id : Nat)               -- `Unmanaged(<dirty-equals>)`: equal to everything
  deriving Repr, Inhabited

inductive Expr where
  | leaf (tok : Nat) (canon : Bool) (v : Val)     -- any non-display expression: identity of its source text,
                                                  --   "tokens = regenerated tokens of v", its value
  | unm (tok : Nat) (v : Val)                     -- unmanaged leaf; `v` is `unmIs` / `unmAny`
  | fstr (tok : Nat) (v : Val)                    -- f-string (ast.JoinedStr): never rewritten
  | seq (isTuple : Bool) (es : List Expr)
  | dict (es : List (Atom × Expr))                -- keys are literal atoms
  | star (e : Expr)                               -- `*xs` inside a display / `**d` inside a dict display
  deriving Repr, Inhabited

/-- kinds of Python types, for `type(old_value) is not type(new_value)` -/
inductive Ty where
  | none | bool | int | str | list | tuple | dict | unm
  deriving DecidableEq, Repr

def Val.ty : Val → Ty
  | .atom .none => .none
  | .atom (.bool _) => .bool
  | .atom (.int _) => .int
  | .atom (.str _) => .str
  | .list _ => .list
  | .tuple _ => .tuple
  | .dict _ => .dict
  | .unmIs _ _ => .unm
  | .unmAny _ => .unm

def lookupA (k : Atom) : List (Atom × α) → Option α
  | [] => none
  | (k', v) :: rest => if Atom.pyEq k k' then some v else lookupA k rest

/-- Python `a == b` with `a` the stored (old) side, which may contain unmanaged values -/
def pyEq : Val → Val → Bool
  | .atom a, .atom b => Atom.pyEq a b
  | .list xs, .list ys => eqL xs ys
  | .tuple xs, .tuple ys => eqL xs ys
  | .dict kvs, .dict kws => kvs.length == kws.length && eqD kvs kws
  | .unmIs _ v, w => pyEq v w
  | .unmAny _, _ => true
  | _, _ => false
where
  eqL : List Val → List Val → Bool
    | [], [] => true
    | x :: xs, y :: ys => pyEq x y && eqL xs ys
    | _, _ => false
  eqD : List (Atom × Val) → List (Atom × Val) → Bool
    | [], _ => true
    | (k, v) :: rest, kws =>
      (match lookupA k kws with
       | some w => pyEq v w
       | none => false) && eqD rest kws

/-- "is written as the same literal" (`value_to_token` equal): structural identity of unmanaged-free values -/
def same : Val → Val → Bool
  | .atom a, .atom b => a == b
  | .list xs, .list ys => sameL xs ys
  | .tuple xs, .tuple ys => sameL xs ys
  | .dict kvs, .dict kws => sameD kvs kws
  | _, _ => false
where
  sameL : List Val → List Val → Bool
    | [], [] => true
    | x :: xs, y :: ys => same x y && sameL xs ys
    | _, _ => false
  sameD : List (Atom × Val) → List (Atom × Val) → Bool
    | [], [] => true
    | (k, v) :: rest, (k', w) :: rest' => k == k' && same v w && sameD rest rest'
    | _, _ => false

/-- value of an expression -/
def eval : Expr → Val
  | .leaf _ _ v => v
  | .unm _ v => v
  | .fstr _ v => v
  | .seq t es => if t then .tuple (evalL es) else .list (evalL es)
  | .dict es => .dict (evalD es)
  | .star e => eval e
where
  evalL : List Expr → List Val
    | [] => []
    | .star e :: es => (match eval e with | .list xs => xs | .tuple xs => xs | _ => []) ++ evalL es
    | e :: es => eval e :: evalL es
  evalD : List (Atom × Expr) → List (Atom × Val)
    | [] => []
    | (_, .star e) :: es => (match eval e with | .dict kvs => kvs | _ => []) ++ evalD es
    | (k, e) :: es => (k, eval e) :: evalD es

/-- `code_repr` as a tree: what gets written for a value -/
def canon : Val → Expr
  | .atom a => .leaf 0 true (.atom a)
  | .list xs => .seq false (canonL xs)
  | .tuple xs => .seq true (canonL xs)
  | .dict kvs => .dict (canonD kvs)
  | .unmIs i v => .unm 0 (.unmIs i v)
  | .unmAny i => .unm 0 (.unmAny i)
where
  canonL : List Val → List Expr
    | [] => []
    | v :: vs => canon v :: canonL vs
  canonD : List (Atom × Val) → List (Atom × Expr)
    | [] => []
    | (k, v) :: kvs => (k, canon v) :: canonD kvs

def isStar : Expr → Bool
  | .star _ => true
  | _ => false

/-- relation fed to `align`: old element `i` against new element `j` -/
def relE (olds : List Val) (news : List Val) : Nat → Nat → Bool :=
  fun i j => match olds[i]?, news[j]? with
    | some a, some b => pyEq a b
    | _, _ => false

def script (olds news : List Val) : List Align.Dir :=
  Align.addX (Align.align (relE olds news) olds.length news.length)

/-- result of comparing one expression with a new value -/
structure Out where
  cats   : Flags      -- categories of the changes yielded
  merged : Val        -- value returned by `assign`
  expr   : Expr       -- expression after applying the approved categories

def leafOut (F : Flags) (e : Expr) (v n : Val) (canonTok : Bool) : Out :=
  if !pyEq v n then
    { cats := Flags.single .fix, merged := n, expr := if F.fix then canon n else e }
  else if !(canonTok && same v n) then
    { cats := Flags.single .update, merged := n, expr := if F.update then canon n else e }
  else { cats := Flags.empty, merged := v, expr := e }

def unionCats (a b : Flags) : Flags := a.union b

/-- `to_insert` / `insert_pos` of `DictAdapter.assign`: new keys grouped under the number of
    already-present keys seen before them (in the order of the new value); the rest goes to `len(old)` -/
def dictInserts (oldKeys : List Atom) : List (Atom × Val) → Nat → List (Atom × Val) → List (Nat × List (Atom × Val))
  | [], _, pending => [(oldKeys.length, pending)]
  | (k, n) :: news, pos, pending =>
    if oldKeys.any (fun k' => Atom.pyEq k k') then
      (pos, pending) :: dictInserts oldKeys news (pos + 1) []
    else dictInserts oldKeys news pos (pending ++ [(k, n)])

def insAt (ins : List (Nat × List (Atom × Val))) (i : Nat) : List (Atom × Expr) :=
  (ins.filter (fun p => p.1 == i)).flatMap (fun p => p.2.map (fun kv => (kv.1, canon kv.2)))

/-- `generic_sequence_update` at tree level: before old entry `i` come the entries inserted at `i` -/
def weave : List (Option (Atom × Expr)) → List (Nat × List (Atom × Val)) → Nat → List (Atom × Expr)
  | [], ins, i => insAt ins i
  | o :: rest, ins, i =>
    insAt ins i ++ (match o with | some kv => [kv] | none => []) ++ weave rest ins (i + 1)

mutual
/-- `Adapter.get_adapter(old, new).assign(old, node, new)` followed by `apply_all` of the approved changes -/
def assign (F : Flags) : Expr → Val → Out
  | .unm t v, _ => { cats := Flags.empty, merged := v, expr := .unm t v }
  | .fstr t v, _ => { cats := Flags.empty, merged := v, expr := .fstr t v }
  | .star e, _ => { cats := Flags.empty, merged := eval e, expr := .star e }
  | .leaf t c v, n =>
    match v with
    | .unmIs _ _ | .unmAny _ => { cats := Flags.empty, merged := v, expr := .leaf t c v }
    | _ => leafOut F (.leaf t c v) v n c
  | .seq tup es, n =>
    let old := eval (.seq tup es)
    if old.ty ≠ n.ty then leafOut F (.seq tup es) old n false     -- other type: ValueAdapter on the whole node
    else if es.any isStar then { cats := Flags.empty, merged := old, expr := .seq tup es }
    else
      let news := match n with | .list xs => xs | .tuple xs => xs | _ => []
      let r := assignSeq F (script (eval.evalL es) news) es news
      { cats := r.1, merged := if tup then .tuple r.2.1 else .list r.2.1, expr := .seq tup r.2.2 }
  | .dict es, n =>
    let old := eval (.dict es)
    if old.ty ≠ n.ty then leafOut F (.dict es) old n false
    else if es.any (fun kv => isStar kv.2) then { cats := Flags.empty, merged := old, expr := .dict es }
    else
      let news := match n with | .dict kvs => kvs | _ => []
      -- entries of the old display in display order: (key, expression afterwards, merged value | none = key gone)
      let r := assignDictOld F es news
      let ins := dictInserts (es.map (·.1)) news 0 []
      let anyIns := ins.any (fun p => !p.2.isEmpty)
      let cats := unionCats r.1 (if anyIns then Flags.single .fix else Flags.empty)
      let keptOpt : List (Option (Atom × Expr)) := r.2.map (fun x =>
        match x.2.2 with
        | some _ => some (x.1, x.2.1)
        | none => if F.fix then none else some (x.1, x.2.1))
      let entries := if F.fix then weave keptOpt ins 0 else keptOpt.filterMap id
      let mergedKvs := news.map (fun kn =>
        match lookupA kn.1 (r.2.map (fun x => (x.1, x.2.2))) with
        | some (some m) => (kn.1, m)
        | _ => (kn.1, kn.2))
      { cats := cats, merged := .dict mergedKvs, expr := .dict entries }
termination_by e => (sizeOf e, 0)

/-- walk the alignment script (`m x i d`) over the old elements and the new values -/
def assignSeq (F : Flags) : List Align.Dir → List Expr → List Val → Flags × List Val × List Expr
  | .m :: sc, e :: es, n :: ns =>
    let r := assign F e n
    let rest := assignSeq F sc es ns
    (unionCats r.cats rest.1, r.merged :: rest.2.1, r.expr :: rest.2.2)
  | .x :: sc, e :: es, n :: ns =>
    let r := assign F e n
    let rest := assignSeq F sc es ns
    (unionCats r.cats rest.1, r.merged :: rest.2.1, r.expr :: rest.2.2)
  | .i :: sc, es, n :: ns =>
    let rest := assignSeq F sc es ns
    (unionCats (Flags.single .fix) rest.1, n :: rest.2.1, if F.fix then canon n :: rest.2.2 else rest.2.2)
  | .d :: sc, e :: es, ns =>
    let rest := assignSeq F sc es ns
    (unionCats (Flags.single .fix) rest.1, rest.2.1, if F.fix then rest.2.2 else e :: rest.2.2)
  | _, es, _ => (Flags.empty, [], es)
termination_by sc es => (sizeOf es, sc.length)

/-- old dict entries in display order: (key, expression afterwards, merged value) — `none` = key no longer present -/
def assignDictOld (F : Flags) : List (Atom × Expr) → List (Atom × Val) → Flags × List (Atom × Expr × Option Val)
  | [], _ => (Flags.empty, [])
  | (k, e) :: es, news =>
    let rest := assignDictOld F es news
    match lookupA k news with
    | none => (unionCats (Flags.single .fix) rest.1, (k, e, none) :: rest.2)
    | some n =>
      let r := assign F e n
      (unionCats r.cats rest.1, (k, r.expr, some r.merged) :: rest.2)
termination_by es => (sizeOf es, 0)
end

def cats (e : Expr) (n : Val) : Flags := (assign Flags.empty e n).cats
def merged (e : Expr) (n : Val) : Val := (assign Flags.empty e n).merged
def run (F : Flags) (e : Expr) (n : Val) : Expr := (assign F e n).expr

end ISnap.Assign
