/-
  Categories, flag sets, shared small definitions.
  Transcribes `_flags.py` (`Flags`, iteration order of `Flags.all()`).
-/
namespace ISnap

/-- The four change categories.  Constructor order = iteration order of `Flags.all()`
    (`Flags.__init__` sets `create, fix, trim, update` in this order and `__iter__` walks `__dict__`). -/
inductive Cat where
  | create | fix | trim | update
  deriving DecidableEq, Repr, Inhabited

def Cat.all : List Cat := [.create, .fix, .trim, .update]

def Cat.name : Cat → String
  | .create => "create" | .fix => "fix" | .trim => "trim" | .update => "update"

/-- A set of categories (`Flags` of the code; also used for "reported" / "approved" sets). -/
structure Flags where
  create : Bool := false
  fix    : Bool := false
  trim   : Bool := false
  update : Bool := false
  deriving DecidableEq, Repr, Inhabited

namespace Flags

def empty : Flags := {}
def all : Flags := ⟨true, true, true, true⟩

def has (f : Flags) : Cat → Bool
  | .create => f.create | .fix => f.fix | .trim => f.trim | .update => f.update

def single : Cat → Flags
  | .create => { create := true } | .fix => { fix := true }
  | .trim => { trim := true } | .update => { update := true }

def union (a b : Flags) : Flags :=
  ⟨a.create || b.create, a.fix || b.fix, a.trim || b.trim, a.update || b.update⟩

def inter (a b : Flags) : Flags :=
  ⟨a.create && b.create, a.fix && b.fix, a.trim && b.trim, a.update && b.update⟩

def isEmpty (f : Flags) : Bool := !(f.create || f.fix || f.trim || f.update)

def subset (a b : Flags) : Bool :=
  (!a.create || b.create) && (!a.fix || b.fix) && (!a.trim || b.trim) && (!a.update || b.update)

def toList (f : Flags) : List Cat := Cat.all.filter f.has

def ofList (cs : List Cat) : Flags := cs.foldl (fun f c => f.union (single c)) empty

/-- `ignore_old_value()` of `generic_value.py` -/
def ign (f : Flags) : Bool := f.fix || f.update

/-- the test `flags.fix or flags.create or flags.update` of `_return` / `_ignore_old` -/
def cfu (f : Flags) : Bool := f.fix || f.create || f.update

instance : Union Flags := ⟨union⟩

@[simp] theorem has_union (a b : Flags) (c : Cat) : (a.union b).has c = (a.has c || b.has c) := by
  cases c <;> rfl

@[simp] theorem has_empty (c : Cat) : empty.has c = false := by cases c <;> rfl
@[simp] theorem has_all (c : Cat) : all.has c = true := by cases c <;> rfl

theorem ext_has {a b : Flags} (h : ∀ c, a.has c = b.has c) : a = b := by
  cases a; cases b
  have h1 := h .create; have h2 := h .fix; have h3 := h .trim; have h4 := h .update
  simp [has] at h1 h2 h3 h4
  simp [h1, h2, h3, h4]

end Flags
end ISnap
