/-
  `_rewrite_code.py`: `Replacement`, `SourceFile._check`, `SourceFile.new_code`, together with the two
  asttokens helpers it uses: `LineNumbers.line_to_offset` and `asttokens.util.replace`.
  Text = list of code points (columns of `tokenize` are code points).  The formatter `fmt`
  (black / format-command / none) and `enforce` (= a format-command is configured) are parameters.
-/
namespace ISnap.Rewrite

abbrev Str := List Nat

/-- `LineNumbers.__init__`: offsets right after every line end `\r\n | \r | \n` -/
def lineEnds : Nat → Str → List Nat
  | _, [] => []
  | o, 13 :: 10 :: rest => (o + 2) :: lineEnds (o + 2) rest
  | o, 13 :: rest => (o + 1) :: lineEnds (o + 1) rest
  | o, 10 :: rest => (o + 1) :: lineEnds (o + 1) rest
  | o, _ :: rest => lineEnds (o + 1) rest

def lineOffsets (t : Str) : List Nat := 0 :: lineEnds 0 t

/-- `LineNumbers.line_to_offset(line, column)`; lines are 1-based, both arguments non-negative here -/
def lineToOffset (t : Str) (line col : Nat) : Nat :=
  if line = 0 then 0
  else match (lineOffsets t)[line - 1]? with
    | none => t.length
    | some o => min (o + col) t.length

/-- `LineNumbers.offset_to_line(offset)`: last line start `≤ offset` -/
def offsetToLine (t : Str) (offset : Nat) : Nat × Nat :=
  let offset := min offset t.length
  let starts := (lineOffsets t).takeWhile (· ≤ offset)
  (starts.length, offset - starts.getLastD 0)

/-- `Replacement(range=SourceRange(start, end), text, change_id)` -/
structure Repl where
  sl : Nat
  sc : Nat
  el : Nat
  ec : Nat
  text : Str
  id : Nat := 0
  deriving Repr, DecidableEq, Inhabited

def posLe (l1 c1 l2 c2 : Nat) : Bool := l1 < l2 || (l1 == l2 && c1 ≤ c2)

def strLe : Str → Str → Bool
  | [], _ => true
  | _ :: _, [] => false
  | a :: as, b :: bs => a < b || (a == b && strLe as bs)

/-- dataclass order: (range.start, range.end, text, change_id) lexicographically -/
def Repl.le (a b : Repl) : Bool :=
  if (a.sl, a.sc) ≠ (b.sl, b.sc) then posLe a.sl a.sc b.sl b.sc
  else if (a.el, a.ec) ≠ (b.el, b.ec) then posLe a.el a.ec b.el b.ec
  else if a.text ≠ b.text then strLe a.text b.text
  else a.id ≤ b.id

def sortRepls (rs : List Repl) : List Repl := rs.mergeSort Repl.le

/-- `SourceFile._check` on the sorted list: every range is ordered, neighbours do not overlap -/
def checkSorted : List Repl → Bool
  | [] => true
  | [r] => posLe r.sl r.sc r.el r.ec
  | r :: r' :: rest =>
    posLe r.sl r.sc r.el r.ec && posLe r.el r.ec r'.sl r'.sc && checkSorted (r' :: rest)

def tripleLe (a b : Nat × Nat × Str) : Bool :=
  if a.1 ≠ b.1 then a.1 < b.1
  else if a.2.1 ≠ b.2.1 then a.2.1 < b.2.1
  else strLe a.2.2 b.2.2

/-- `asttokens.util.replace` after its own `sorted(...)`: walks the text once -/
def replaceFrom (t : Str) : Nat → List (Nat × Nat × Str) → Str
  | p, [] => t.drop p
  | p, (s, e, x) :: rest => (t.take s).drop p ++ x ++ replaceFrom t e rest

def replaceText (t : Str) (rs : List (Nat × Nat × Str)) : Str :=
  replaceFrom t 0 (rs.mergeSort tripleLe)

def toOffsets (t : Str) (r : Repl) : Nat × Nat × Str :=
  (lineToOffset t r.sl r.sc, lineToOffset t r.el r.ec, r.text)

/-- `SourceFile.new_code()`: `none` = the non-overlap assertion fails -/
def newCode (fmt : Str → Str) (enforce : Bool) (t : Str) (rs : List Repl) : Option Str :=
  let rs := sortRepls rs
  if !checkSorted rs then none else
  let whole := enforce || (fmt t == t)
  let n := replaceText t (rs.map (toOffsets t))
  some (if whole then fmt n else n)

end ISnap.Rewrite
