import ISnap.Model.Assign
/-
  `GenericCallAdapter.assign` for a constructor call written with keyword arguments only
  (`DC(a=1, b=[…])` for dataclasses, attrs classes, pydantic models, namedtuples): keyword arguments are
  matched by name; a matched value is handed to the adapter of its type (`Assign.assign`, any nesting);
  a keyword whose field now holds its default value is deleted (category update if the value is unchanged,
  fix otherwise); fields that are not defaults and have no keyword yet are inserted (fix) in front of the
  next matched keyword — positions count the matched keywords in the order of the new value's fields and
  index the old keyword list, exactly like `DictAdapter`.
  `apply_all` for an `ast.Call` parent is the same weaving as for dicts.

  Star-arguments of the old call are outside this model (a call with `*args` / `**kw` is returned unchanged
  by the code).  Positional arguments: `assignCallPos` at the end of this file.
-/
namespace ISnap.CallAssign
open ISnap ISnap.Assign

/-- one field of the new value: name, value, `is_default` -/
abbrev Field := Nat × Val × Bool

def lookupF (name : Nat) : List Field → Option (Val × Bool)
  | [] => none
  | (n, v, d) :: rest => if n = name then some (v, d) else lookupF name rest

def lookupK (name : Nat) : List (Nat × Expr) → Option Expr
  | [] => none
  | (n, e) :: rest => if n = name then some e else lookupK name rest

structure CallOut where
  cats : Flags
  /-- keyword list after applying the approved categories -/
  kw : List (Nat × Expr)
  /-- `result_kwargs`: the values the new object is built from, in the order of the new fields -/
  merged : List (Nat × Val)

/-- old keywords in call order: `none` = deleted -/
def oldKeywords (F : Flags) : List (Nat × Expr) → List Field → Flags × List (Option (Nat × Expr))
  | [], _ => (Flags.empty, [])
  | (name, e) :: rest, fields =>
    let r := oldKeywords F rest fields
    match lookupF name fields with
    | some (v, false) =>
      let a := assign F e v
      (a.cats.union r.1, some (name, a.expr) :: r.2)
    | some (v, true) =>
      -- the field holds its default: the keyword is deleted; update if the value did not change
      let cat : Cat := if pyEq (eval e) v then .update else .fix
      ((Flags.single cat).union r.1, (if F.has cat then none else some (name, e)) :: r.2)
    | none =>
      -- no such (repr) field any more
      ((Flags.single .fix).union r.1, (if F.fix then none else some (name, e)) :: r.2)

/-- `to_insert` / `old_kwarg_pos`: new non-default fields without keyword are inserted in front of the next matched
    keyword (in field order), at that keyword's index in the old argument list (`off` = number of positional
    arguments in front); the rest goes to the end.  (Since fix e4b1c97; before, the position was the number of
    matched keywords seen so far, which made the result depend on the order in which categories were approved.) -/
def inserts (oldNames : List Nat) : List Field → Nat → List (Nat × Val) → List (Nat × List (Nat × Val))
  | [], off, pending => [(off + oldNames.length, pending)]
  | (name, v, d) :: rest, off, pending =>
    if d then inserts oldNames rest off pending
    else if oldNames.contains name then (off + oldNames.idxOf name, pending) :: inserts oldNames rest off []
    else inserts oldNames rest off (pending ++ [(name, v)])

def insAt (ins : List (Nat × List (Nat × Val))) (i : Nat) : List (Nat × Expr) :=
  (ins.filter (fun p => p.1 == i)).flatMap (fun p => p.2.map (fun kv => (kv.1, canon kv.2)))

def weave : List (Option (Nat × Expr)) → List (Nat × List (Nat × Val)) → Nat → List (Nat × Expr)
  | [], ins, i => (ins.filter (fun p => p.1 ≥ i)).flatMap (fun p => p.2.map (fun kv => (kv.1, canon kv.2)))
  | o :: rest, ins, i =>
    insAt ins i ++ (match o with | some kv => [kv] | none => []) ++ weave rest ins (i + 1)

def assignCall (F : Flags) (kw : List (Nat × Expr)) (fields : List Field) : CallOut :=
  let r := oldKeywords F kw fields
  let ins := inserts (kw.map (·.1)) fields 0 []
  let anyIns := ins.any (fun p => !p.2.isEmpty)
  let cats := r.1.union (if anyIns then Flags.single .fix else Flags.empty)
  let kw' := if F.fix then weave r.2 ins 0 else r.2.filterMap id
  let merged := (fields.filter (fun f => !f.2.2)).map (fun f =>
    match lookupK f.1 kw with
    | some e => (f.1, (assign F e f.2.1).merged)
    | none => (f.1, f.2.1))
  { cats := cats, kw := kw', merged := merged }

/-! ### positional arguments of the old call

  For the adapters whose `arguments()` returns keyword arguments only (dataclass, attrs, pydantic, namedtuple)
  every positional argument of a hand-written call `A(1, 2)` is deleted (category fix, whatever its value) and
  its field is inserted again as a keyword argument (fix) — unless it now holds its default.  Insert positions
  index the list `args + keywords` (`apply_all`): the index of the next matched keyword, shifted by the number of
  positional arguments.  Without `fix` nothing changes. -/

structure CallOutP where
  cats : Flags
  pos : List Expr
  kw : List (Nat × Expr)
  merged : List (Nat × Val)

def assignCallPos (F : Flags) (pos : List Expr) (kw : List (Nat × Expr)) (fields : List Field) : CallOutP :=
  let r := assignCall F kw fields
  let o := oldKeywords F kw fields
  let ins := inserts (kw.map (·.1)) fields pos.length []
  { cats := r.cats.union (if pos.isEmpty then Flags.empty else Flags.single .fix),
    pos := if F.fix then [] else pos,
    kw := if F.fix then weave (pos.map (fun _ => none) ++ o.2) ins 0 else r.kw,
    merged := r.merged }

end ISnap.CallAssign
