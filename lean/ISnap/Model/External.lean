/-
  `_external.py` / `_find_external.py`: the external storage directory.
  `DiscStorage.save / persist / prune_new_files / list / remove / _lookup_path / lookup_all`, `outsource`,
  `unused_externals`, and the storage part of `pytest_configure` (prune) and `pytest_sessionfinish`
  (persist what the rewritten files refer to, remove unused files when trim is approved).
  The hash function is arbitrary (`H`): a hash is a list of digits, a reference carries a prefix.
-/
namespace ISnap.External

abbrev Hash := List Nat

/-- one file of the storage directory: `<hash>.<suffix>` or `<hash>-new.<suffix>` -/
structure Entry where
  hash   : Hash
  isNew  : Bool
  suffix : Nat
  data   : Nat
  deriving DecidableEq, Repr, Inhabited

/-- the string inside `external("…")`: `<prefix>*.<suffix>`, or the full `<hash>.<suffix>` without star -/
structure Ref where
  pre    : Hash
  star   : Bool
  suffix : Nat
  deriving DecidableEq, Repr, Inhabited

abbrev Store := List Entry

def sameName (a b : Entry) : Bool := a.hash == b.hash && a.isNew == b.isNew && a.suffix == b.suffix

/-- `directory.glob(name)` for the names this program produces -/
def globMatch (r : Ref) (e : Entry) : Bool :=
  e.suffix == r.suffix &&
  (if r.star then r.pre.isPrefixOf e.hash else (r.pre == e.hash && !e.isNew))

/-- the pattern `persist` uses since the fix: a name without `*` gets one before the suffix -/
def persistMatch (r : Ref) (e : Entry) : Bool :=
  e.suffix == r.suffix && r.pre.isPrefixOf e.hash

def lookupAll (s : Store) (r : Ref) : List Entry := s.filter (globMatch r)

/-- `_lookup_path`: exactly one match, otherwise HashError -/
def lookup (s : Store) (r : Ref) : Option Entry :=
  match lookupAll s r with
  | [e] => some e
  | _ => none

/-- `DiscStorage.read` through `external._path` (always `<hash>*<suffix>`) -/
def read (s : Store) (r : Ref) : Option Nat :=
  (lookup s { r with star := true }).map (·.data)

/-- `DiscStorage.save(name, data)`: write (overwrite) one file -/
def save (s : Store) (e : Entry) : Store := s.filter (fun x => !sameName x e) ++ [e]

/-- `outsource(data, suffix)` with `h = H data`: nothing if `<h>.<suffix>` exists, else write `<h>-new.<suffix>` -/
def outsource (s : Store) (h : Hash) (suffix data : Nat) : Store :=
  if s.any (fun e => e.hash == h && !e.isNew && e.suffix == suffix) then s
  else save s { hash := h, isNew := true, suffix := suffix, data := data }

/-- `prune_new_files` -/
def prune (s : Store) : Store := s.filter (fun e => !e.isNew)

/-- `persist(name)`: unique match → drop the `-new` infix (rename replaces an existing target) -/
def persist (s : Store) (r : Ref) : Store :=
  match s.filter (persistMatch r) with
  | [e] =>
    if e.isNew then
      let e' := { e with isNew := false }
      (s.filter (fun x => !sameName x e && !sameName x e')) ++ [e']
    else s
  | _ => s

def persistAll (s : Store) : List Ref → Store
  | [] => s
  | r :: rs => persistAll (persist s r) rs

/-- `unused_externals()`: everything not matched by a reference of a participating test file -/
def unused (s : Store) (refs : List Ref) : List Entry :=
  s.filter (fun e => !refs.any (fun r => globMatch r e))

/-- the storage part of `pytest_sessionfinish`: `written` = references in the files that were rewritten
    (only when something was applied), `allRefs` = references in all participating test files afterwards -/
def finish (s : Store) (written allRefs : List Ref) (trim : Bool) : Store :=
  let s1 := persistAll s written
  if trim then s1.filter (fun e => allRefs.any (fun r => globMatch r e)) else s1

inductive Ev where
  | start                                              -- `pytest_configure`: prune
  | outsource (h : Hash) (suffix data : Nat)           -- a test calls `outsource(data)`; `h` must be `H data`
  | finish (written allRefs : List Ref) (trim : Bool)
  deriving Repr

def step (s : Store) : Ev → Store
  | .start => prune s
  | .outsource h sfx d => outsource s h sfx d
  | .finish w a t => finish s w a t

def run (s : Store) (evs : List Ev) : Store := evs.foldl step s

end ISnap.External
