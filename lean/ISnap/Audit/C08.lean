import ISnap.Props.C08
#print axioms ISnap.Assign.run_idem
#print axioms ISnap.Assign.run_all_nothing_pending
#print axioms ISnap.Assign.run_fix_update_nothing_pending
#print axioms ISnap.Assign.run_pending
#print axioms ISnap.Assign.only_fix_update
