import ISnap.Props.C12
#print axioms ISnap.StrLit.evalLit_pyRepr
#print axioms ISnap.StrLit.evalBytes_bytesRepr
#print axioms ISnap.StrLit.tripleQuote_isSome
#print axioms ISnap.StrLit.tripleQuote_isSome_iff
#print axioms ISnap.StrLit.tripleQuote_none_example
#print axioms ISnap.StrLit.evalLit_tripleQuote
#print axioms ISnap.StrLit.valueToLiteral_sound
#print axioms ISnap.StrLit.valueToLiteral_roundtrip
#print axioms ISnap.StrLit.valueToLiteral_roundtrip_repr
#print axioms ISnap.StrLit.pyRepr_no_newline
#print axioms ISnap.StrLit.readHex_two
#print axioms ISnap.StrLit.readHex_four
#print axioms ISnap.StrLit.readHex_eight
