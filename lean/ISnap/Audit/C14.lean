import ISnap.Props.C14
#print axioms ISnap.find_setSite_same
#print axioms ISnap.find_setSite_other
#print axioms ISnap.lookup_set_same
#print axioms ISnap.lookup_set_other
#print axioms ISnap.snap_fst
#print axioms ISnap.lookup_counters_irrelevant
#print axioms ISnap.step_lookup
#print axioms ISnap.run_lookup
#print axioms ISnap.runSite_filter
#print axioms ISnap.noninterference
#print axioms ISnap.aggregate_extreme
#print axioms ISnap.aggregate_union
#print axioms ISnap.reeval_changed_argument_raises
