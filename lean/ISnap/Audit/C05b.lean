import ISnap.Props.C05b
#print axioms ISnap.single_run_spec
#print axioms ISnap.single_cats
#print axioms ISnap.single_fix_iff
#print axioms ISnap.single_trim_only_if_holds
#print axioms ISnap.single_incomparable_is_fix
#print axioms ISnap.single_fails_exactly_fix
