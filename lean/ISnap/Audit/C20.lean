import ISnap.Props.C20
#print axioms ISnap.Rewrite.clean_stays_clean
#print axioms ISnap.Rewrite.clean_result
#print axioms ISnap.Rewrite.dirty_not_reformatted
#print axioms ISnap.Rewrite.dirty_outside_untouched
#print axioms ISnap.Rewrite.dirty_formatter_irrelevant
#print axioms ISnap.Rewrite.exStrip_idem
#print axioms ISnap.Rewrite.exStrip_clean
#print axioms ISnap.Rewrite.exNewCode'
#print axioms ISnap.Rewrite.exDirty_dirty
#print axioms ISnap.Rewrite.exNewCodeDirty
