import ISnap.Props.C03b
#print axioms ISnap.SeqEdit.original_is_display
#print axioms ISnap.SeqEdit.seqUpdate_is_display
#print axioms ISnap.SeqEdit.seqUpdate_tuple_comma
#print axioms ISnap.SeqEdit.tuple_comma_needs_anchor
#print axioms ISnap.SeqEdit.seqUpdate_nothing_to_do
#print axioms ISnap.SeqEdit.seqUpdate_prefix_kept
