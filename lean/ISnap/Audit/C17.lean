import ISnap.Props.C17
#print axioms ISnap.recorded_is_value_at_comparison_time
#print axioms ISnap.mutation_after_irrelevant
#print axioms ISnap.unequal_copy_rejected
#print axioms ISnap.unequal_copy_rejected_later
