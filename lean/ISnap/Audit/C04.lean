import ISnap.Props.C04
#print axioms ISnap.Session.configure_flags
#print axioms ISnap.Session.applied_subset_approved
#print axioms ISnap.Session.flags_resolution
#print axioms ISnap.Session.nothing_approved_nothing_written
#print axioms ISnap.Session.applied_exact
#print axioms ISnap.Session.illegal_combinations_error
#print axioms ISnap.Session.xfail_inactive
