import ISnap.Props.C11d
#print axioms ISnap.CallAssign.union_empty_right
#print axioms ISnap.CallAssign.pos_reports_fix
#print axioms ISnap.CallAssign.pos_cats
#print axioms ISnap.CallAssign.pos_without_fix
#print axioms ISnap.CallAssign.pos_with_fix
#print axioms ISnap.CallAssign.pos_nil
#print axioms ISnap.CallAssign.pos_merged
