import ISnap.Props.C19
#print axioms ISnap.Session.plain_configure
#print axioms ISnap.Session.inline_eq_plugin
#print axioms ISnap.Session.pending_same
