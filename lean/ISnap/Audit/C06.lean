import ISnap.Props.C06
#print axioms ISnap.transparent_step
#print axioms ISnap.transparent
#print axioms ISnap.mixed_ops_type_error
#print axioms ISnap.transparent_getitem
