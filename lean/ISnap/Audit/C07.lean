import ISnap.Props.C07
#print axioms ISnap.step_wrong_counts
#print axioms ISnap.step_holds_no_count
#print axioms ISnap.step_mono
#print axioms ISnap.never_green
#print axioms ISnap.no_false_failure
#print axioms ISnap.never_green_needed_the_fix
