import ISnap.Props.C06b
#print axioms ISnap.disabled_identity
#print axioms ISnap.disabled_missing_raises
#print axioms ISnap.begin_step
#print axioms ISnap.inactive_tests_touch_nothing
#print axioms ISnap.inactive_tests_no_results
#print axioms ISnap.inactive_session_empty
