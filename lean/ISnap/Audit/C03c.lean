import ISnap.Props.C03c
#print axioms ISnap.SeqEdit.align_no_insert_before_delete
#print axioms ISnap.SeqEdit.adapter_inserts_anchored
#print axioms ISnap.SeqEdit.tuple_edit_keeps_comma
