import ISnap.Props.C11b
#print axioms ISnap.Assign.equal_kept
#print axioms ISnap.Assign.nothing_reported_nothing_changed
#print axioms ISnap.Assign.nothing_approved_nothing_changed
#print axioms ISnap.Assign.equal_all_m
