import ISnap.Props.C10b
#print axioms ISnap.coll_update_needs_noncanon
#print axioms ISnap.unused_coll_update_needs_noncanon
#print axioms ISnap.coll_all_canon_no_update
