import ISnap.Props.C01
#print axioms ISnap.create_eq
#print axioms ISnap.create_bound
#print axioms ISnap.create_in
#print axioms ISnap.create_getitem
#print axioms ISnap.create_needs_approval
