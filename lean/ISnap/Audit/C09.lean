import ISnap.Props.C09
#print axioms ISnap.Assign.run_compose
#print axioms ISnap.Assign.order_independent
#print axioms ISnap.Assign.run_commute
