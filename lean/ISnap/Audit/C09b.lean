import ISnap.Props.C09b
#print axioms ISnap.CallAssign.oldOne_compose
#print axioms ISnap.CallAssign.inserts_eq_T
#print axioms ISnap.CallAssign.insertsT_congr
#print axioms ISnap.CallAssign.insertsT_tag
#print axioms ISnap.CallAssign.weave_tagged
#print axioms ISnap.CallAssign.call_kw_tagged
#print axioms ISnap.CallAssign.weave_filterMap
#print axioms ISnap.CallAssign.keptKw_compose
#print axioms ISnap.CallAssign.oldOne_inserted
#print axioms ISnap.CallAssign.runCall_compose_fix
#print axioms ISnap.CallAssign.runCall_compose_nofix_fix
#print axioms ISnap.CallAssign.runCall_compose
#print axioms ISnap.CallAssign.call_order_independent
#print axioms ISnap.CallAssign.runCall_commute
