import ISnap.Props.C02
#print axioms ISnap.Assign.eval_canon
#print axioms ISnap.Assign.merged_eq
#print axioms ISnap.Assign.merged_eq_flags
#print axioms ISnap.Assign.cats_merged_flags_indep
#print axioms ISnap.Assign.fix_repairs
#print axioms ISnap.Assign.no_fix_needed_iff
#print axioms ISnap.Assign.run_managed
#print axioms ISnap.Assign.update_keeps_value
#print axioms ISnap.Assign.update_keeps_verdict
