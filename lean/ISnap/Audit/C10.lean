import ISnap.Props.C10
#print axioms ISnap.Assign.unmanaged_untouched
#print axioms ISnap.Assign.star_freezes
#print axioms ISnap.Assign.star_freezes_dict
#print axioms ISnap.Assign.unmanaged_leaf_fixed_point
#print axioms ISnap.Assign.fstr_fixed_point
#print axioms ISnap.Assign.unmanaged_value_fixed_point
#print axioms ISnap.Assign.managed_siblings_fixed
#print axioms ISnap.Assign.managed_siblings_fixed_display
