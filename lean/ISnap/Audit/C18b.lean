import ISnap.Props.C18b
#print axioms ISnap.Nest.survivors_ranges_disjoint
#print axioms ISnap.Nest.survivor_not_inside
#print axioms ISnap.Nest.overlap_without_filter
