import ISnap.Model.Sexp
import ISnap.Model.Assign
import ISnap.Driver.SiteCmd
/-
  `(assign (flags …) EXPR VAL)` → `(out (cats …) (eq OLD_EQ NEW_EQ) MERGED EXPR')`
  VAL  ::= n | (b 0|1) | (i N) | (s CP…) | (l VAL…) | (t VAL…) | (d (ATOM VAL)…) | (uis ID VAL) | (uany ID)
  EXPR ::= (leaf TOK CANON VAL) | (unm TOK VAL) | (fstr TOK VAL) | (L EXPR…) | (T EXPR…) | (D (ATOM EXPR)…) | (star EXPR)
-/
namespace ISnap.AssignCmd
open ISnap Sexp Assign

partial def val? : Sexp → Option Val
  | .list (.atom "l" :: xs) => (xs.mapM val?).map .list
  | .list (.atom "t" :: xs) => (xs.mapM val?).map .tuple
  | .list (.atom "d" :: kvs) => do
    let kvs ← kvs.mapM (fun kv => match kv with
      | .list [k, v] => do some ((← SiteCmd.val? k), (← val? v))
      | _ => none)
    some (.dict kvs)
  | .list [.atom "uis", i, v] => do some (.unmIs (← nat? i) (← val? v))
  | .list [.atom "uany", i] => do some (.unmAny (← nat? i))
  | e => (SiteCmd.val? e).map .atom

partial def valS : Val → Sexp
  | .atom a => SiteCmd.valS a
  | .list xs => .list (.atom "l" :: xs.map valS)
  | .tuple xs => .list (.atom "t" :: xs.map valS)
  | .dict kvs => .list (.atom "d" :: kvs.map (fun kv => .list [SiteCmd.valS kv.1, valS kv.2]))
  | .unmIs i v => .list [.atom "uis", ofNat i, valS v]
  | .unmAny i => .list [.atom "uany", ofNat i]

partial def expr? : Sexp → Option Expr
  | .list [.atom "leaf", t, c, v] => do some (.leaf (← nat? t) (← bool? c) (← val? v))
  | .list [.atom "unm", t, v] => do some (.unm (← nat? t) (← val? v))
  | .list [.atom "fstr", t, v] => do some (.fstr (← nat? t) (← val? v))
  | .list (.atom "L" :: es) => (es.mapM expr?).map (.seq false)
  | .list (.atom "T" :: es) => (es.mapM expr?).map (.seq true)
  | .list (.atom "D" :: kvs) => do
    let kvs ← kvs.mapM (fun kv => match kv with
      | .list [k, e] => do some ((← SiteCmd.val? k), (← expr? e))
      | _ => none)
    some (.dict kvs)
  | .list [.atom "star", e] => do some (.star (← expr? e))
  | _ => none

partial def exprS : Expr → Sexp
  | .leaf t c v => .list [.atom "leaf", ofNat t, ofBool c, valS v]
  | .unm t v => .list [.atom "unm", ofNat t, valS v]
  | .fstr t v => .list [.atom "fstr", ofNat t, valS v]
  | .seq false es => .list (.atom "L" :: es.map exprS)
  | .seq true es => .list (.atom "T" :: es.map exprS)
  | .dict kvs => .list (.atom "D" :: kvs.map (fun kv => .list [SiteCmd.valS kv.1, exprS kv.2]))
  | .star e => .list [.atom "star", exprS e]

def run (args : List Sexp) : Option Sexp := do
  match args with
  | [.list (.atom "flags" :: fs), e, n] =>
    let F ← SiteCmd.cats? fs
    let e ← expr? e
    let n ← val? n
    let r := assign F e n
    some (.list [.atom "out", SiteCmd.catsS r.cats,
      .list [.atom "eq", ofBool (pyEq (eval e) n), ofBool (pyEq r.merged n)], valS r.merged, exprS r.expr])
  | _ => none

end ISnap.AssignCmd
