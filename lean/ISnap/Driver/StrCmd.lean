import ISnap.Model.Sexp
import ISnap.Model.StrLit
/-
  `(strlit (np CP…) (s CP…))`   → `(lit CP…)` | `(none)`      value_to_token text of a str value; np = the
                                                               non-printable code points among those of s
  `(pyrepr (np CP…) (s CP…))`   → `(lit CP…)`
  `(bytesrepr (s BYTE…))`       → `(lit CP…)`
  `(evallit (s CP…))`           → `(val CP…)` | `(none)`
  `(evalbytes (s CP…))`         → `(val BYTE…)` | `(none)`
-/
namespace ISnap.StrCmd
open ISnap Sexp StrLit

def cps? : Sexp → Option (List Nat)
  | .list (.atom _ :: cs) => cs.mapM nat?
  | _ => none

def out (tag : String) : Option Str → Sexp
  | some l => .list (.atom tag :: l.map ofNat)
  | none => .list [.atom "none"]

def run (cmd : String) (args : List Sexp) : Option Sexp := do
  match cmd, args with
  | "strlit", [np, s] =>
    let np ← cps? np
    let s ← cps? s
    some (out "lit" (valueToLiteral (fun c => !np.contains c) s))
  | "pyrepr", [np, s] =>
    let np ← cps? np
    let s ← cps? s
    some (out "lit" (some (pyRepr (fun c => !np.contains c) s)))
  | "bytesrepr", [s] => do some (out "lit" (some (bytesRepr (← cps? s))))
  | "evallit", [s] => do some (out "val" (evalLit (← cps? s)))
  | "evalbytes", [s] => do some (out "val" (evalBytesLit (← cps? s)))
  | _, _ => none

end ISnap.StrCmd
