import ISnap.Model.Sexp
import ISnap.Model.External
/-
  `(storage EV…)` → `(store ENTRY…)` in directory order of the model
  EV    ::= (start) | (out (h D…) SFX DATA) | (fin (REF…) (REF…) TRIM)
  REF   ::= ((h D…) STAR SFX)        ENTRY ::= ((h D…) NEW SFX DATA)
-/
namespace ISnap.ExternalCmd
open ISnap Sexp External

def hash? : Sexp → Option Hash
  | .list (.atom "h" :: ds) => ds.mapM nat?
  | _ => none

def ref? : Sexp → Option Ref
  | .list [h, st, sfx] => do some { pre := ← hash? h, star := ← bool? st, suffix := ← nat? sfx }
  | _ => none

def ev? : Sexp → Option Ev
  | .list [.atom "start"] => some .start
  | .list [.atom "out", h, sfx, d] => do some (.outsource (← hash? h) (← nat? sfx) (← nat? d))
  | .list [.atom "fin", .list w, .list a, t] => do some (.finish (← w.mapM ref?) (← a.mapM ref?) (← bool? t))
  | _ => none

def entryS (e : Entry) : Sexp :=
  .list [.list (.atom "h" :: e.hash.map ofNat), ofBool e.isNew, ofNat e.suffix, ofNat e.data]

def run (args : List Sexp) : Option Sexp := do
  let evs ← args.mapM ev?
  some (.list (.atom "store" :: (External.run [] evs).map entryS))

end ISnap.ExternalCmd
