import ISnap.Model.Sexp
import ISnap.Model.Session
import ISnap.Driver.SiteCmd
/-
  `(session (cli F…)|- (env F…)|- TTY (df F…) (dft F…) XDIST CI CPYTHON SKIP (answers B B B B) (has B B B B) (diff B B B B))`
     → `(usage-error)` | `(ok ACTIVE (update CAT…) (applied CAT…))`
  `(inline (flags F…) (has B B B B))` → `(applied CAT…)`
  `(tables)` → the constant tables of the model (category order, legal flag names)
-/
namespace ISnap.SessionCmd
open ISnap Sexp Session

def flag? : Sexp → Option Flag
  | .atom "create" => some (.cat .create) | .atom "fix" => some (.cat .fix)
  | .atom "trim" => some (.cat .trim) | .atom "update" => some (.cat .update)
  | .atom "disable" => some .disable | .atom "review" => some .review
  | .atom "report" => some .report | .atom "short-report" => some .shortReport
  | .atom _ => some (.unknown 0)
  | _ => none

def flagsOpt? : Sexp → Option (Option (List Flag))
  | .atom "-" => some none
  | .list (.atom _ :: fs) => (fs.mapM flag?).map some
  | _ => none

def bools4? : Sexp → Option (Cat → Bool)
  | .list [.atom _, a, b, c, d] => do
    let a ← bool? a; let b ← bool? b; let c ← bool? c; let d ← bool? d
    some (fun k => match k with | .create => a | .fix => b | .trim => c | .update => d)
  | _ => none

def run (cmd : String) (args : List Sexp) : Option Sexp := do
  match cmd, args with
  | "session", [cli, env, tty, df, dft, xd, ci, cpy, skip, ans, has, diff] =>
    let cfg : Cfg := {
      cli := ← flagsOpt? cli, env := ← flagsOpt? env, tty := ← bool? tty,
      defaultFlags := (← flagsOpt? df).getD [], defaultFlagsTui := (← flagsOpt? dft).getD [],
      xdist := ← bool? xd, ci := ← bool? ci, cpython := ← bool? cpy, skipUpdates := ← bool? skip,
      answers := ← bools4? ans }
    let p : Pending := { has := ← bools4? has, diff := ← bools4? diff }
    match configure cfg with
    | .usageError => some (.list [.atom "usage-error"])
    | .ok _ active upd =>
      some (.list [.atom "ok", ofBool active, .list (.atom "update" :: (SiteCmd.catsS upd |> fun | .list l => l | x => [x])),
        .list (.atom "applied" :: (SiteCmd.catsS (applied cfg p) |> fun | .list l => l | x => [x]))])
  | "inline", [.list (.atom "flags" :: fs), has] =>
    let fl ← fs.mapM flag?
    let p : Pending := { has := ← bools4? has, diff := fun _ => true }
    some (.list (.atom "applied" :: (SiteCmd.catsS (appliedInline fl p) |> fun | .list l => l | x => [x])))
  | "tables", [] =>
    some (.list [.atom "tables", .list (.atom "cats" :: Cat.all.map (fun c => .atom c.name)),
      .list [.atom "flags", .atom "create", .atom "fix", .atom "trim", .atom "update", .atom "disable",
             .atom "review", .atom "report", .atom "short-report"]])
  | _, _ => none

end ISnap.SessionCmd
