import ISnap.Model.Sexp
import ISnap.Model.Align
/-
  `(align N M (ROW…))` with ROW = (0|1 …): E i j = ROW_i[j] (false outside).
  answer: `(script ALIGN ADDX)` — the two strings over m/i/d/x.
-/
namespace ISnap.AlignCmd
open ISnap Sexp Align

def dirs (l : List Dir) : String := String.join (l.map Dir.letter)

def run (args : List Sexp) : Option Sexp := do
  match args with
  | [n, m, .list rows] =>
    let n ← nat? n
    let m ← nat? m
    let rows ← rows.mapM (fun r => match r with
      | .list bs => bs.mapM bool?
      | _ => none)
    let E : Nat → Nat → Bool := fun i j => (rows.getD i []).getD j false
    let a := align E n m
    let sa := dirs a
    let sx := dirs (addX a)
    some (.list [.atom "script", .atom (if sa == "" then "-" else sa), .atom (if sx == "" then "-" else sx)])
  | _ => none

end ISnap.AlignCmd
