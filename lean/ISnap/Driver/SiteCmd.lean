import ISnap.Model.Sexp
import ISnap.Model.Table
import ISnap.Model.Value
/-
  `(sites (flags …) (approved …) EVENT…)` — runs `Table.run` on the flat value universe.

  EVENT ::= (begin) | (stmt ((SITE OLD)…) EVENT) | (snap SITE OLD) | (op SITE KEY OP VAL CLONEOK) | (touch SITE VAL)
  OLD   ::= none | (leaf VAL CANON) | (coll (VAL CANON)…) | (dict (VAL VAL CANON)…)
  KEY   ::= - | VAL          OP ::= eq | ge | le | in
  VAL   ::= n | (b 0|1) | (i INT) | (s CP…) | (ps BITMASK)      (ps: a set of small naturals, ordered by inclusion)
  answer: (out (res R…) (counters MISSING INCORRECT) (site SITE CATS FINAL)…)
-/
namespace ISnap.SiteCmd
open ISnap Sexp

def val? : Sexp → Option Atom
  | .atom "n" => some .none
  | .list [.atom "b", b] => (bool? b).map .bool
  | .list [.atom "i", i] => (int? i).map .int
  | .list (.atom "s" :: cps) => (cps.mapM nat?).map .str
  | _ => none

def valS : Atom → Sexp
  | .none => .atom "n"
  | .bool b => .list [.atom "b", ofBool b]
  | .int i => .list [.atom "i", ofInt i]
  | .str cps => .list (.atom "s" :: cps.map ofNat)

def dval? : Sexp → Option DVal
  | .list [.atom "ps", b] => (nat? b).map .pset
  | e => (val? e).map .atom

def dvalS : DVal → Sexp
  | .atom a => valS a
  | .pset b => .list [.atom "ps", ofNat b]

def cats? (xs : List Sexp) : Option Flags :=
  xs.foldlM (fun f x => match x with
    | .atom "create" => some { f with create := true }
    | .atom "fix" => some { f with fix := true }
    | .atom "trim" => some { f with trim := true }
    | .atom "update" => some { f with update := true }
    | _ => none) Flags.empty

def catsS (f : Flags) : Sexp := .list (f.toList.map (fun c => .atom c.name))

def old? : Sexp → Option (Option (OldArg DVal))
  | .atom "none" => some none
  | .list [.atom "leaf", v, c] => do some (some (.leaf (← dval? v) (← bool? c)))
  | .list (.atom "coll" :: es) => do
    let es ← es.mapM (fun e => match e with
      | .list [v, c] => do some ((← dval? v), (← bool? c))
      | _ => none)
    some (some (.coll es))
  | .list (.atom "dict" :: es) => do
    let es ← es.mapM (fun e => match e with
      | .list [k, v, c] => do some ((← dval? k), (← dval? v), (← bool? c))
      | _ => none)
    some (some (.dict es))
  | _ => none

def op? : Sexp → Option Op
  | .atom "eq" => some .eq | .atom "ge" => some .ge | .atom "le" => some .le
  | .atom "in" => some .isin | _ => none

partial def event? : Sexp → Option (Event DVal)
  | .list [.atom "begin"] => some .begin
  | .list [.atom "stmt", .list pre, body] => do
    let pre ← pre.mapM (fun e => match e with
      | .list [k, o] => do some ((← nat? k), (← old? o))
      | _ => none)
    some (.stmt pre (← event? body))
  | .list [.atom "snap", k, o] => do some (.snap (← nat? k) (← old? o))
  | .list [.atom "op", k, key, op, x, c] => do
    let key ← (match key with | .atom "-" => some none | e => (dval? e).map some)
    some (.op (← nat? k) key (← op? op) (← dval? x) (← bool? c))
  | .list [.atom "touch", k, key] => do some (.touch (← nat? k) (← dval? key))
  | _ => none

def resS : Res → Sexp
  | .val b => .list [.atom "r", ofBool b]
  | .typeError => .atom "TypeError"
  | .usageError => .atom "UsageError"
  | .unsupported => .atom "unsupported"

partial def finalS : Final DVal → Sexp
  | .noArg => .atom "noarg"
  | .one v => dvalS v
  | .many vs => .list (.atom "l" :: vs.map dvalS)
  | .entries kvs => .list (.atom "d" :: kvs.map (fun kv => .list [dvalS kv.1, finalS kv.2]))

def run (args : List Sexp) : Option Sexp := do
  match args with
  | .list (.atom "flags" :: fs) :: .list (.atom "approved" :: aps) :: evs =>
    let f ← cats? fs
    let ap ← cats? aps
    let evs ← evs.mapM event?
    let (t, rs) := Table.run DVal.ops f {} evs
    let sites := t.sites.map (fun (k, s) =>
      Sexp.list [.atom "site", ofNat k,
        (match s.cats DVal.ops with | some c => catsS c | none => .atom "crash"),
        finalS (s.final DVal.ops ap)])
    some (.list ([.atom "out", .list (.atom "res" :: rs.map resS),
      .list [.atom "counters", ofNat t.missing, ofNat t.incorrect]] ++ sites))
  | _ => none

end ISnap.SiteCmd
