import ISnap.Model.Sexp
import ISnap.Model.SetSort
import ISnap.Driver.SiteCmd
/-  `(setsort (VAL (s CP…))…)` → `(order (s CP…)…)` : elements with their texts, in iteration order -/
namespace ISnap.SetCmd
open ISnap Sexp SetSort

def run (args : List Sexp) : Option Sexp := do
  let items ← args.mapM (fun a => match a with
    | .list [v, .list (.atom "s" :: cps)] => do some ((← SiteCmd.val? v), (← cps.mapM nat?))
    | _ => none)
  let table := items
  let repr : Atom → Str := fun a => ((table.find? (fun p => p.1 == a)).map (·.2)).getD []
  let out := sortAtoms repr (items.map (·.1))
  some (.list (.atom "order" :: out.map (fun s => .list (.atom "s" :: s.map ofNat))))

end ISnap.SetCmd
