import ISnap.Model.Sexp
import ISnap.Model.Nest
/-  `(nest (r P…) (d P…) (i P…) …)` → `(survivors (r P…) …)` ; P… = child indices from the root -/
namespace ISnap.NestCmd
open ISnap Sexp Nest

def edit? : Sexp → Option Edit
  | .list (.atom "r" :: p) => do some (.replace (← p.mapM nat?))
  | .list (.atom "d" :: p) => do some (.delete (← p.mapM nat?))
  | .list (.atom "i" :: p) => do some (.insert (← p.mapM nat?))
  | _ => none

def editSx : Edit → Sexp
  | .replace p => .list (.atom "r" :: p.map ofNat)
  | .delete p => .list (.atom "d" :: p.map ofNat)
  | .insert p => .list (.atom "i" :: p.map ofNat)

def run (args : List Sexp) : Option Sexp := do
  let all ← args.mapM edit?
  some (.list (.atom "survivors" :: (survivors all).map editSx))

end ISnap.NestCmd
