import ISnap.Model.Sexp
import ISnap.Model.Rewrite
/-
  `(newcode (text CP…) (repl SL SC EL EC ID (s CP…))…)` → `(code CP…)` | `(assert)`
      SourceFile.new_code with fmt = identity (the harness applies the formatter itself)
  `(linecol (text CP…) (LINE COL)…)` → `(offsets N…)`
-/
namespace ISnap.RewriteCmd
open ISnap Sexp Rewrite

def cps? : Sexp → Option (List Nat)
  | .list (.atom _ :: cs) => cs.mapM nat?
  | _ => none

def repl? : Sexp → Option Repl
  | .list [.atom "repl", sl, sc, el, ec, id, txt] => do
    some { sl := ← nat? sl, sc := ← nat? sc, el := ← nat? el, ec := ← nat? ec, id := ← nat? id, text := ← cps? txt }
  | _ => none

def run (cmd : String) (args : List Sexp) : Option Sexp := do
  match cmd, args with
  | "newcode", t :: rs =>
    let t ← cps? t
    let rs ← rs.mapM repl?
    match newCode id false t rs with
    | some c => some (.list (.atom "code" :: c.map ofNat))
    | none => some (.list [.atom "assert"])
  | "linecol", t :: ps =>
    let t ← cps? t
    let ps ← ps.mapM (fun p => match p with
      | .list [l, c] => do some ((← nat? l), (← nat? c))
      | _ => none)
    some (.list (.atom "offsets" :: ps.map (fun p => ofNat (lineToOffset t p.1 p.2))))
  | _, _ => none

end ISnap.RewriteCmd
