import ISnap.Model.Sexp
import ISnap.Model.Finish
import ISnap.Driver.ExternalCmd
/-
  `(finish K (jobs (F REF…)…) (store ENTRY…))` → `(disk (files (F CONTENT)…) (store ENTRY…))`
  the disk after the first K steps of `plan jobs`; every file starts as `old`.
  `(plan (jobs …))` → `(steps STEP…)`
-/
namespace ISnap.FinishCmd
open ISnap Sexp External Finish

def job? : Sexp → Option Job
  | .list (f :: refs) => do some ((← nat? f), (← refs.mapM ExternalCmd.ref?))
  | _ => none

def entry? : Sexp → Option Entry
  | .list [h, n, sfx, d] => do
    some { hash := ← ExternalCmd.hash? h, isNew := ← bool? n, suffix := ← nat? sfx, data := ← nat? d }
  | _ => none

def contentS : Content → Sexp
  | .old => .atom "old" | .new => .atom "new" | .empty => .atom "empty"

def stepS : Step → Sexp
  | .compute f => .list [.atom "compute", ofNat f]
  | .persist _ => .list [.atom "persist"]
  | .truncate f => .list [.atom "truncate", ofNat f]
  | .put f => .list [.atom "put", ofNat f]

def run (cmd : String) (args : List Sexp) : Option Sexp := do
  match cmd, args with
  | "finish", [k, .list (.atom "jobs" :: js), .list (.atom "store" :: es)] =>
    let k ← nat? k
    let jobs ← js.mapM job?
    let st ← es.mapM entry?
    let d0 : Disk := { files := jobs.map (fun j => (j.1, Content.old)), store := st }
    let d := crashAt d0 (plan jobs) k
    some (.list [.atom "disk", .list (.atom "files" :: d.files.map (fun p => .list [ofNat p.1, contentS p.2])),
      .list (.atom "store" :: d.store.map ExternalCmd.entryS)])
  | "plan", [.list (.atom "jobs" :: js)] =>
    let jobs ← js.mapM job?
    some (.list (.atom "steps" :: (plan jobs).map stepS))
  | _, _ => none

end ISnap.FinishCmd
