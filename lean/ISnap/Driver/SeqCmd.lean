import ISnap.Model.Sexp
import ISnap.Model.SeqEdit
/-  `(seqedit TUPLE (gap TOK…) (entries (KEY KEEP (TOK…))…) (ins (KEY…)…))`
    → `(out (TOK…) (parse none | (KEY…) TC) (expected KEY…) WF ANCHORED)`
    TOK = `c` | `(e KEY)` | `(w KEY)` -/
namespace ISnap.SeqCmd
open ISnap Sexp SeqEdit

def tok? : Sexp → Option Tok
  | .atom "c" => some .comma
  | .list [.atom "e", k] => do some (.elem (← nat? k))
  | .list [.atom "w", k] => do some (.ws (← nat? k))
  | _ => none

def tokSx : Tok → Sexp
  | .comma => .atom "c"
  | .elem k => .list [.atom "e", ofNat k]
  | .ws k => .list [.atom "w", ofNat k]

def run (args : List Sexp) : Option Sexp := do
  match args with
  | [t, .list (.atom "gap" :: g0), .list (.atom "entries" :: es), .list (.atom "ins" :: ins)] =>
    let isTuple ← bool? t
    let gap0 ← g0.mapM tok?
    let entries ← es.mapM (fun e => match e with
      | .list [k, keep, .list g] => do
        some ({ key := (← nat? k), keep := (← bool? keep), gapAfter := (← g.mapM tok?) } : Entry)
      | _ => none)
    let inss ← ins.mapM (fun l => match l with
      | .list ks => ks.mapM nat?
      | _ => none)
    let out := seqUpdate isTuple gap0 entries inss
    let p := match parse out with
      | none => Sexp.atom "none"
      | some (ks, tc) => .list [.list (ks.map ofNat), ofBool tc]
    some (.list [.atom "out", .list (out.map tokSx), .list [.atom "parse", p],
      .list (.atom "expected" :: (expected entries inss).map ofNat),
      ofBool (wfGaps gap0 entries), ofBool (insertsAnchored inss 0 entries)])
  | _ => none

end ISnap.SeqCmd
