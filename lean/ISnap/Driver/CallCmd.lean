import ISnap.Model.Sexp
import ISnap.Model.CallAssign
import ISnap.Driver.AssignCmd
/-
  `(callassign (flags …) (kw (NAME EXPR)…) (fields (NAME VAL DFLT)…))`
      → `(out (cats …) (kw (NAME EXPR)…) (merged (NAME VAL)…))`
  `(callassign (flags …) (pos EXPR…) (kw …) (fields …))` → the same plus `(pos EXPR…)` (Model: `assignCallPos`)
-/
namespace ISnap.CallCmd
open ISnap Sexp Assign CallAssign

def run (args : List Sexp) : Option Sexp := do
  match args with
  | [.list (.atom "flags" :: fs), .list (.atom "kw" :: kws), .list (.atom "fields" :: fls)] =>
    let F ← SiteCmd.cats? fs
    let kw ← kws.mapM (fun k => match k with
      | .list [n, e] => do some ((← nat? n), (← AssignCmd.expr? e))
      | _ => none)
    let fields ← fls.mapM (fun f => match f with
      | .list [n, v, d] => do some ((← nat? n), (← AssignCmd.val? v), (← bool? d))
      | _ => none)
    let r := assignCall F kw fields
    some (.list [.atom "out", SiteCmd.catsS r.cats,
      .list (.atom "kw" :: r.kw.map (fun p => .list [ofNat p.1, AssignCmd.exprS p.2])),
      .list (.atom "merged" :: r.merged.map (fun p => .list [ofNat p.1, AssignCmd.valS p.2]))])
  | [.list (.atom "flags" :: fs), .list (.atom "pos" :: ps), .list (.atom "kw" :: kws), .list (.atom "fields" :: fls)] =>
    let F ← SiteCmd.cats? fs
    let pos ← ps.mapM AssignCmd.expr?
    let kw ← kws.mapM (fun k => match k with
      | .list [n, e] => do some ((← nat? n), (← AssignCmd.expr? e))
      | _ => none)
    let fields ← fls.mapM (fun f => match f with
      | .list [n, v, d] => do some ((← nat? n), (← AssignCmd.val? v), (← bool? d))
      | _ => none)
    let r := assignCallPos F pos kw fields
    some (.list [.atom "out", SiteCmd.catsS r.cats,
      .list (.atom "kw" :: r.kw.map (fun p => .list [ofNat p.1, AssignCmd.exprS p.2])),
      .list (.atom "merged" :: r.merged.map (fun p => .list [ofNat p.1, AssignCmd.valS p.2])),
      .list (.atom "pos" :: r.pos.map AssignCmd.exprS)])
  | _ => none

end ISnap.CallCmd
