import ISnap.Lemmas.StrLitLemmas
/-
  C12 — every string is written as a literal that reads back identically.

  Model: `ISnap/Model/StrLit.lean` (`pyRepr`, `bytesRepr`, `tripleQuote`, `valueToLiteral`,
  `evalLit`, `evalBytesLit`).  `printable` (Python's `str.isprintable` on one character) is an
  arbitrary predicate; strings are lists of code points.  `WfStr s` : every element `< 0x110000`,
  `WfBytes s` : every element `< 256` (both defined in `ISnap/Lemmas/StrLitLemmas.lean`).

  Proved for EVERY `printable`:
    * `evalLit_pyRepr`, `evalBytes_bytesRepr`      — `repr` of a str / bytes reads back,
    * `evalLit_tripleQuote`                        — whenever `triple_quote` returns a literal it reads back
      (quote choice when both `'''` and `\"\"\"` occur, final-quote escape, `" \n"` rewriting, the leading
      backslash-newline and the trailing continuation),
    * `valueToLiteral_sound`                       — whatever `value_to_token` writes for a str reads back,
    * `pyRepr_no_newline`, `readHex_two/four/eight`.

  `tripleQuote_isSome` and `valueToLiteral_roundtrip` as first stated (for every `printable`) are FALSE
  for the model: when the string contains both `'''` and `\"\"\"` and the chosen `extra` quote character is
  not printable, it is not backslash-escaped, both triple quotes survive in the escaped text and
  `possible_quotes` is empty (`IndexError` in Python) — see `tripleQuote_none_example` and the exact
  characterisation `tripleQuote_isSome_iff`.  `"` and `'` are printable in every Python, so this is
  a limit of the abstraction, not a defect of the code; the two theorems are stated with the
  hypotheses `printable SQ = true`, `printable DQ = true`.
-/
namespace ISnap.StrLit

/-- 1. `repr(s)` lexes back to `s`. -/
theorem evalLit_pyRepr (printable : Nat → Bool) (s : Str) (h : WfStr s) :
    evalLit (pyRepr printable s) = some s := by
  have hq := reprQuote_cases s
  unfold pyRepr
  simp only [List.cons_append, List.nil_append]
  rw [evalLit_single hq _ (flatMap_snoc_ne _ (reprChar_head printable hq) s)]
  exact Dec.finish (Dec.flatMap _ s (fun c hc R => Dec.reprChar printable hq c (h c hc) R) _)
    (fun fuel acc => evalBody_close_single _ _ _ _)

/-- 2. `repr(b)` for bytes lexes back to `b`. -/
theorem evalBytes_bytesRepr (s : Str) (h : WfBytes s) : evalBytesLit (bytesRepr s) = some s := by
  have hq := reprQuote_cases s
  unfold bytesRepr
  simp only [List.cons_append, List.nil_append]
  rw [evalBytesLit_single hq _ (flatMap_snoc_ne _ (bytesReprChar_head hq) s)]
  exact Dec.finish (Dec.flatMap _ s (fun c hc R => Dec.bytesReprChar hq c (h c hc) R) _)
    (fun fuel acc => evalBody_close_single _ _ _ _)

/-- 3. a quote type is always available, provided the two quote characters are printable. -/
theorem tripleQuote_isSome (printable : Nat → Bool) (hSQ : printable SQ = true) (hDQ : printable DQ = true)
    (s : Str) : (tripleQuote printable s).isSome := by
  refine tripleQuote_isSome_of printable s fun e he => ?_
  rcases extraOf_quote s e he with rfl | rfl
  · exact hSQ
  · exact hDQ

/-- 3'. exact condition, for every `printable`: `triple_quote` succeeds iff the `extra` quote
    character (present only when both `'''` and `\"\"\"` occur in `s`) is printable. -/
theorem tripleQuote_isSome_iff (printable : Nat → Bool) (s : Str) :
    (tripleQuote printable s).isSome ↔ ∀ e, extraOf s = some e → printable e = true := by
  constructor
  · intro h e he
    cases hp : printable e with
    | true => rfl
    | false => rw [tripleQuote_eq_none printable s e he hp] at h; cases h
  · exact tripleQuote_isSome_of printable s

/-- 3''. the counterexample to the unconditional statement: nothing printable, `s = '''\"\"\"`. -/
theorem tripleQuote_none_example :
    tripleQuote (fun _ => false) [SQ, SQ, SQ, DQ, DQ, DQ] = none := by decide

/-- 4. whatever literal `triple_quote` returns lexes back to `s` (every `printable`). -/
theorem evalLit_tripleQuote (printable : Nat → Bool) (s : Str) (h : WfStr s) (t : Str)
    (ht : tripleQuote printable s = some t) : evalLit t = some s :=
  evalLit_tripleQuote_aux printable s h t ht

/-- 5a. whatever `value_to_token` writes for a str value lexes back to it (every `printable`). -/
theorem valueToLiteral_sound (printable : Nat → Bool) (s : Str) (h : WfStr s) (t : Str)
    (ht : valueToLiteral printable s = some t) : evalLit t = some s := by
  unfold valueToLiteral at ht
  split at ht
  · exact evalLit_tripleQuote printable s h t ht
  · cases ht; exact evalLit_pyRepr printable s h

/-- 5. `value_to_token` always writes a literal, and it lexes back to the value. -/
theorem valueToLiteral_roundtrip (printable : Nat → Bool) (hSQ : printable SQ = true)
    (hDQ : printable DQ = true) (s : Str) (h : WfStr s) :
    ∃ t, valueToLiteral printable s = some t ∧ evalLit t = some s := by
  cases ht : valueToLiteral printable s with
  | some t => exact ⟨t, rfl, valueToLiteral_sound printable s h t ht⟩
  | none =>
    exfalso
    unfold valueToLiteral at ht
    split at ht
    · have := tripleQuote_isSome printable hSQ hDQ s
      rw [ht] at this; cases this
    · cases ht

/-- 5b. the non-triple branch needs no assumption on `printable`. -/
theorem valueToLiteral_roundtrip_repr (printable : Nat → Bool) (s : Str) (h : WfStr s)
    (hu : useTriple s = false) :
    valueToLiteral printable s = some (pyRepr printable s) ∧
      evalLit (pyRepr printable s) = some s := by
  refine ⟨?_, evalLit_pyRepr printable s h⟩
  unfold valueToLiteral
  simp [hu]

/-- 6. the literal `repr` writes has no raw newline (it stays on one source line). -/
theorem pyRepr_no_newline (printable : Nat → Bool) (s : Str) : NL ∉ pyRepr printable s :=
  pyRepr_no_nl printable s

/-- 6. `%02x` / `%04x` / `%08x` read back, whatever text follows. -/
theorem readHex_two (c : Nat) (rest : Str) (h : c < 256) :
    readHex 2 0 (hexN 2 c ++ rest) = some (c, rest) := readHex2 c rest h
theorem readHex_four (c : Nat) (rest : Str) (h : c < 65536) :
    readHex 4 0 (hexN 4 c ++ rest) = some (c, rest) := readHex4 c rest h
theorem readHex_eight (c : Nat) (rest : Str) (h : c < 4294967296) :
    readHex 8 0 (hexN 8 c ++ rest) = some (c, rest) := readHex8 c rest h

/-! ### non-vacuity -/

/-- `a'\n😀\x80` with only ASCII printable: `"a'\n\U0001f600\x80"` -/
example : WfStr [97, 39, 10, 0x1F600, 0x80] := by unfold WfStr; decide
example : pyRepr (fun c => c < 128) [97, 39, 10, 0x1F600, 0x80] =
    [34, 97, 39, 92, 110, 92, 85, 48, 48, 48, 49, 102, 54, 48, 48, 92, 120, 56, 48, 34] := by decide
example : evalLit (pyRepr (fun c => c < 128) [97, 39, 10, 0x1F600, 0x80]) =
    some [97, 39, 10, 0x1F600, 0x80] := by decide

/-- `b'\x00\xff\'"'` -/
example : WfBytes [0, 255, 39, 34] := by unfold WfBytes; decide
example : bytesRepr [0, 255, 39, 34] = [98, 39, 92, 120, 48, 48, 92, 120, 102, 102, 92, 39, 34, 39] := by
  decide
example : evalBytesLit (bytesRepr [0, 255, 39, 34]) = some [0, 255, 39, 34] := by decide

/-- both triple quotes present: `'''\"\"\"` is written with `\"\"\"` and every `"` escaped -/
example : tripleQuote (fun _ => true) [39, 39, 39, 34, 34, 34] =
    some [34, 34, 34, 92, 10, 39, 39, 39, 92, 34, 92, 34, 92, 34, 92, 10, 34, 34, 34] := by decide
example : evalLit [34, 34, 34, 92, 10, 39, 39, 39, 92, 34, 92, 34, 92, 34, 92, 10, 34, 34, 34] =
    some [39, 39, 39, 34, 34, 34] := by decide

/-- `" \n"` rewriting and a final quote: `a \nb"` is written with `'''` -/
example : tripleQuote (fun _ => true) [97, 32, 10, 98, 34] =
    some [39, 39, 39, 92, 10, 97, 32, 92, 110, 92, 10, 98, 34, 92, 10, 39, 39, 39] := by decide

/-- final-quote escape: `"\na'` (contains `"`, ends with `'`) … -/
example : (tripleQuote (fun _ => true) [34, 34, 34, 10, 97, 39]).isSome = true := by decide

/-- `value_to_token` takes the triple-quoted branch for `a\nb` and the `repr` branch for `ab\n` -/
example : valueToLiteral (fun _ => true) [97, 10, 98] =
    some [34, 34, 34, 92, 10, 97, 10, 98, 92, 10, 34, 34, 34] := by decide
example : valueToLiteral (fun _ => true) [97, 98, 10] = some [39, 97, 98, 92, 110, 39] := by decide

end ISnap.StrLit
