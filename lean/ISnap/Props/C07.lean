import ISnap.Model.Table
/-
  C07 — a wrong or missing snapshot never yields a green run.

  Full statement (model): in a test (events after the fixture's `begin`), if some executed
  comparison is made on a snapshot that is empty or fails against the value in the source, then at
  teardown `missing_values + incorrect_values > 0` — for EVERY flag set — so the fixture fails the
  test; conversely, if every comparison holds on the stored value, both counters stay 0.
  (Holds for the tree with the `fix:` commit that makes `<=`, `>=`, `in` go through `_return`;
  before that commit `never_green` was false under fix / update / create — see
  `never_green_needed_the_fix` below for the witness on the old rule.)
-/
namespace ISnap
variable {V : Type}

/-- the comparison is made against an empty snapshot, or fails on the stored value -/
def WrongOn (o : Ops V) (s : Leaf V) (op : Op) (x : V) : Prop :=
  (s.kind = .undecided ∨ s.kind = op.kind) ∧
  (s.old = none ∨ ∃ a, s.old = some a ∧ plainOp o a op x = .val false)

def HoldsOn (o : Ops V) (s : Leaf V) (op : Op) (x : V) : Prop :=
  (s.kind = .undecided ∨ s.kind = op.kind) ∧ ∃ a, s.old = some a ∧ plainOp o a op x = .val true

/-- one wrong comparison is counted (or the test got a UsageError), whatever the flags -/
theorem step_wrong_counts (o : Ops V) (f : Flags) (s : Leaf V) (op : Op) (x : V) (c : Bool)
    (hw : WrongOn o s op x) :
    (s.step o f op x c).res = .usageError ∨
      0 < (s.step o f op x c).dm + (s.step o f op x c).di := by
  obtain ⟨hk, hw⟩ := hw
  rcases hw with hnone | ⟨a, hold, hp⟩
  · -- empty snapshot: missing_values is incremented before anything else
    right
    cases op <;> rcases hk with h | h <;> cases hn : s.new <;> cases hc : s.newC <;> cases c <;>
      simp [Leaf.step, h, hnone, hn, hc, ret, Op.kind] <;> (try split) <;> simp_all <;> omega
  · cases a with
    | leaf v cn =>
      cases op with
      | eq =>
        simp [plainOp] at hp
        cases hn : s.new <;> rcases hk with h | h <;> cases c <;>
          simp [Leaf.step, h, hold, hn, ret, Op.kind, hp]
      | ge =>
        simp [plainOp] at hp
        cases hn : s.new <;> rcases hk with h | h <;> cases c <;>
          simp [Leaf.step, h, hold, hn, ret, Op.kind, cmpK, hp] <;> (try split) <;> simp_all
      | le =>
        simp [plainOp] at hp
        cases hn : s.new <;> rcases hk with h | h <;> cases c <;>
          simp [Leaf.step, h, hold, hn, ret, Op.kind, cmpK, hp] <;> (try split) <;> simp_all
      | isin => simp [plainOp] at hp
    | coll es =>
      cases op with
      | isin =>
        simp [plainOp] at hp
        cases hn : s.newC <;> rcases hk with h | h <;> cases c <;>
          simp [Leaf.step, h, hold, hn, ret, Op.kind, hp] <;> (try split) <;> simp_all
      | eq => simp [plainOp] at hp
      | ge => simp [plainOp] at hp
      | le => simp [plainOp] at hp
    | dict es => cases op <;> simp [plainOp] at hp

/-- a comparison that holds on the stored value is never counted -/
theorem step_holds_no_count (o : Ops V) (f : Flags) (s : Leaf V) (op : Op) (x : V) (c : Bool)
    (hh : HoldsOn o s op x) :
    (s.step o f op x c).dm = 0 ∧ (s.step o f op x c).di = 0 := by
  obtain ⟨hk, a, hold, hp⟩ := hh
  cases a with
  | leaf v cn =>
    cases op with
    | eq =>
      simp [plainOp] at hp
      cases hn : s.new <;> rcases hk with h | h <;> cases c <;>
        simp [Leaf.step, h, hold, hn, ret, Op.kind, hp]
    | ge =>
      simp [plainOp] at hp
      cases hn : s.new <;> rcases hk with h | h <;> cases c <;>
        simp [Leaf.step, h, hold, hn, ret, Op.kind, cmpK, hp] <;> (try split) <;> simp_all
    | le =>
      simp [plainOp] at hp
      cases hn : s.new <;> rcases hk with h | h <;> cases c <;>
        simp [Leaf.step, h, hold, hn, ret, Op.kind, cmpK, hp] <;> (try split) <;> simp_all
    | isin => simp [plainOp] at hp
  | coll es =>
    cases op with
    | isin =>
      simp [plainOp] at hp
      cases hn : s.newC <;> rcases hk with h | h <;> cases c <;>
        simp [Leaf.step, h, hold, hn, ret, Op.kind, hp] <;> (try split) <;> simp_all
    | eq => simp [plainOp] at hp
    | ge => simp [plainOp] at hp
    | le => simp [plainOp] at hp
  | dict es => cases op <;> simp [plainOp] at hp

/-! ### lifting to the session table and whole tests -/

def Event.noBegin : Event V → Bool
  | .begin => false
  | .stmt _ b => b.noBegin
  | _ => true

theorem snap_counters (o : Ops V) (t : Table V) (k : Nat) (old : Option (OldArg V)) :
    (t.snap o k old).1.missing = t.missing ∧ (t.snap o k old).1.incorrect = t.incorrect := by
  unfold Table.snap
  split
  · simp [Table.set]
  · split <;> simp

theorem snaps_counters (o : Ops V) (t : Table V) (pre : List (Nat × Option (OldArg V))) :
    (t.snaps o pre).1.missing = t.missing ∧ (t.snaps o pre).1.incorrect = t.incorrect := by
  induction pre generalizing t with
  | nil => simp [Table.snaps]
  | cons p rest ih =>
    obtain ⟨k, old⟩ := p
    have h := snap_counters o t k old
    unfold Table.snaps
    split
    · rename_i t1 heq
      rw [heq] at h
      simp at h
      rw [(ih t1).1, (ih t1).2]; exact h
    · rename_i t1 e heq
      rw [heq] at h
      simpa using h

/-- counters never decrease inside a test -/
theorem step_mono (o : Ops V) (f : Flags) (t : Table V) (e : Event V) (h : e.noBegin = true) :
    t.missing ≤ (t.step o f e).1.missing ∧ t.incorrect ≤ (t.step o f e).1.incorrect := by
  induction e generalizing t with
  | begin => simp [Event.noBegin] at h
  | snap k old =>
    have := snap_counters o t k old
    simp only [Table.step]; omega
  | op k key op x c =>
    simp only [Table.step]
    cases t.lookup k <;> simp
  | touch k key =>
    simp only [Table.step]
    cases t.lookup k <;> simp
  | stmt pre body ih =>
    simp only [Table.step]
    have hs := snaps_counters o t pre
    cases hr : (t.snaps o pre) with
    | mk t1 r =>
      rw [hr] at hs
      cases r with
      | some e => simp at hs ⊢; omega
      | none =>
        have := ih t1 (by simpa [Event.noBegin] using h)
        simp at hs ⊢; omega

theorem run_mono (o : Ops V) (f : Flags) (es : List (Event V)) (t : Table V)
    (h : ∀ e ∈ es, e.noBegin = true) :
    t.missing + t.incorrect ≤ (Table.run o f t es).1.missing + (Table.run o f t es).1.incorrect := by
  induction es generalizing t with
  | nil => simp [Table.run]
  | cons e es ih =>
    have h1 := step_mono o f t e (h e (by simp))
    have h2 := ih (t.step o f e).1 (fun e' he' => h e' (by simp [he']))
    simp only [Table.run]
    omega

/-- a comparison statement executed on the site itself (not a sub-snapshot) -/
def WrongAt (o : Ops V) (t : Table V) (k : Nat) (op : Op) (x : V) : Prop :=
  ∃ s, t.lookup k = some s ∧ s.top.kind ≠ .dict ∧ WrongOn o s.top op x

theorem op_wrong_counts (o : Ops V) (f : Flags) (t : Table V) (k : Nat) (op : Op) (x : V) (c : Bool)
    (hw : WrongAt o t k op x) :
    (t.step o f (.op k none op x c)).2 = some .usageError ∨
    t.missing + t.incorrect <
      (t.step o f (.op k none op x c)).1.missing + (t.step o f (.op k none op x c)).1.incorrect := by
  obtain ⟨s, hl, hd, hw⟩ := hw
  have := step_wrong_counts o f s.top op x c hw
  rcases this with h | h
  · left; simp [Table.step, hl, Site.step, hd, h]
  · right; simp [Table.step, hl, Site.step, hd, Table.set]; omega

theorem run_append (o : Ops V) (f : Flags) (t : Table V) (a b : List (Event V)) :
    (Table.run o f t (a ++ b)).1 = (Table.run o f (Table.run o f t a).1 b).1 := by
  induction a generalizing t with
  | nil => simp [Table.run]
  | cons e a ih => simp [Table.run, ih]

/-- C07 `never_green`: after the fixture reset, one wrong comparison anywhere in the test (that did
    not itself raise) makes the fixture fail the test — for every flag set. -/
theorem never_green (o : Ops V) (f : Flags) (t0 : Table V) (pre suf : List (Event V))
    (k : Nat) (op : Op) (x : V) (c : Bool)
    (hsuf : ∀ e ∈ suf, e.noBegin = true)
    (hw : WrongAt o (Table.run o f (t0.step o f .begin).1 pre).1 k op x)
    (hres : ((Table.run o f (t0.step o f .begin).1 pre).1.step o f (.op k none op x c)).2
              ≠ some .usageError) :
    fixtureFails (Table.run o f t0 (.begin :: pre ++ .op k none op x c :: suf)).1 = true := by
  have h1 := op_wrong_counts o f (Table.run o f (t0.step o f .begin).1 pre).1 k op x c hw
  rcases h1 with h1 | h1
  · exact absurd h1 hres
  · have h2 := run_mono o f suf
      ((Table.run o f (t0.step o f .begin).1 pre).1.step o f (.op k none op x c)).1 hsuf
    have : (Table.run o f t0 (.begin :: pre ++ .op k none op x c :: suf)).1 =
        (Table.run o f ((Table.run o f (t0.step o f .begin).1 pre).1.step o f (.op k none op x c)).1 suf).1 := by
      simp only [List.cons_append, Table.run]
      rw [run_append]
      simp [Table.run]
    rw [this]
    simp only [fixtureFails, bne_iff_ne, ne_eq, Bool.or_eq_true]
    omega

/-- every comparison of the test holds on the value in the source -/
inductive AllHold (o : Ops V) (f : Flags) : Table V → List (Event V) → Prop where
  | nil (t) : AllHold o f t []
  | snap (t k old es) : AllHold o f (t.step o f (.snap k old)).1 es → AllHold o f t (.snap k old :: es)
  | op (t k op x c es s) : t.lookup k = some s → s.top.kind ≠ .dict → HoldsOn o s.top op x →
      AllHold o f (t.step o f (.op k none op x c)).1 es → AllHold o f t (.op k none op x c :: es)

/-- C07 `no_false_failure`: a test whose snapshots all hold is never failed by the fixture. -/
theorem no_false_failure (o : Ops V) (f : Flags) (t : Table V) (es : List (Event V))
    (h : AllHold o f t es) (hm : t.missing = 0) (hi : t.incorrect = 0) :
    fixtureFails (Table.run o f t es).1 = false := by
  induction h with
  | nil t => simp [Table.run, fixtureFails, hm, hi]
  | snap t k old es _ ih =>
    simp only [Table.run]
    have := snap_counters o t k old
    apply ih <;> simp only [Table.step] <;> omega
  | op t k op x c es s hl hd hh _ ih =>
    simp only [Table.run]
    have hz := step_holds_no_count o f s.top op x c hh
    apply ih <;> simp [Table.step, hl, Site.step, hd, Table.set, hz, hm, hi]

/-! ### non-vacuity and the witness that motivated the `fix:` commit -/

def intOps : Ops Int := { eqv := (· == ·), le := (· ≤ ·), same := (· == ·) }

/-- `s = snapshot(5); assert 1 <= s; assert 9 <= s` under `create`: now counted. -/
example : fixtureFails (Table.run intOps { create := true } {}
    [.begin, .snap 0 (some (.leaf 5 true)), .op 0 none .ge 1 true, .op 0 none .ge 9 true]).1 = true := by
  decide

/-- hypotheses of `never_green` are satisfiable: the second comparison of that test is `WrongAt`. -/
example : WrongAt intOps (Table.run intOps { create := true } ({} : Table Int)
    [.begin, .snap 0 (some (.leaf 5 true)), .op 0 none .ge 1 true]).1 0 .ge 9 := by
  refine ⟨_, rfl, by decide, ?_⟩
  exact ⟨Or.inr rfl, Or.inr ⟨.leaf 5 true, rfl, by decide⟩⟩

/-- The rule before the fix (`if old is undefined or ignore_old_value(): return True`, and
    `_return(cmp(visible, x))` afterwards) on the same witness: the failing bound is not counted.
    `oldRuleCounts` is the increment of `incorrect_values` that rule produced for a later comparison. -/
def oldRuleCounts (f : Flags) (old new x : Int) : Nat :=
  let n' := if new ≥ x then new else x
  let vis := if f.cfu then n' else old
  if vis ≥ x then 0 else 1

theorem never_green_needed_the_fix : oldRuleCounts { create := true } 5 1 9 = 0 ∧ ¬ (5 ≥ (9 : Int)) := by
  decide

end ISnap
