import ISnap.Props.C03
/-
  C20 — `_rewrite_code.py` / formatting: `new_code` keeps a formatter-clean file formatter-clean, and never
  reformats a file that was not clean (unless formatting is enforced by a configured format-command).

  `fmt : Str → Str` is the formatter (black / format-command / identity), `enforce` = a format-command is set.
  The only assumption ever made about `fmt` is idempotence (`clean_stays_clean`).
-/
namespace ISnap.Rewrite

/-! ### 7. a clean file stays clean -/

theorem clean_stays_clean (fmt : Str → Str) (enforce : Bool) (t : Str) (rs : List Repl) (r : Str)
    (hid : ∀ x, fmt (fmt x) = fmt x) (hc : enforce = true ∨ fmt t = t)
    (h : newCode fmt enforce t rs = some r) : fmt r = r := by
  rw [newcode_formatted fmt enforce t rs hc] at h
  split at h
  · rw [← Option.some.inj h, hid]
  · cases h

/-- and the result is the formatter applied to the plain replacement -/
theorem clean_result (fmt : Str → Str) (enforce : Bool) (t : Str) (rs : List Repl) (r : Str)
    (hc : enforce = true ∨ fmt t = t) (h : newCode fmt enforce t rs = some r) :
    r = fmt (replaceText t ((sortRepls rs).map (toOffsets t))) := by
  rw [newcode_formatted fmt enforce t rs hc] at h
  split at h
  · exact (Option.some.inj h).symm
  · cases h

/-! ### 8. a dirty file is not reformatted -/

theorem dirty_not_reformatted (fmt : Str → Str) (enforce : Bool) (t : Str) (rs : List Repl) (r : Str)
    (h1 : enforce = false) (h2 : fmt t ≠ t) (h : newCode fmt enforce t rs = some r) :
    r = replaceText t ((sortRepls rs).map (toOffsets t)) := by
  subst h1
  exact newcode_dirty_eq fmt t rs r h h2

/-- … so the text outside the edited window `[a, b]` is untouched (`a ≤ b` is forced, see C03 F1) -/
theorem dirty_outside_untouched (fmt : Str → Str) (enforce : Bool) (t : Str) (rs : List Repl) (r : Str)
    (a b : Nat) (h1 : enforce = false) (h2 : fmt t ≠ t) (h : newCode fmt enforce t rs = some r)
    (hab : a ≤ b)
    (hin : ∀ x ∈ rs, a ≤ lineToOffset t x.sl x.sc ∧ lineToOffset t x.el x.ec ≤ b) :
    ∃ mid, r = t.take a ++ mid ++ t.drop b := by
  subst h1
  exact newcode_outside_preserved fmt t rs r a b h h2 hab hin

/-- the result of a dirty file does not depend on the formatter at all -/
theorem dirty_formatter_irrelevant (fmt fmt' : Str → Str) (t : Str) (rs : List Repl)
    (h : fmt t ≠ t) (h' : fmt' t ≠ t) : newCode fmt false t rs = newCode fmt' false t rs := by
  rw [newcode_unformatted fmt false t rs rfl h, newcode_unformatted fmt' false t rs rfl h']

/-! ### non-vacuity -/

/-- an idempotent "formatter": delete all spaces -/
def exStrip : Str → Str := fun s => s.filter (· ≠ 32)

theorem exStrip_idem : ∀ x, exStrip (exStrip x) = exStrip x := by
  intro x; simp [exStrip, List.filter_filter]

/-- `exText` (C03) has no spaces: it is `exStrip`-clean -/
theorem exStrip_clean : exStrip exText = exText := by decide

/-- replace the `5` by `4 2` (with a space): the clean file gets the formatted result `42` -/
def exRepls' : List Repl := [⟨2, 4, 2, 5, [52, 32, 50], 0⟩]

theorem exNewCode' : newCode exStrip false exText exRepls' =
    some [97, 61, 49, 13, 10, 233, 61, 115, 40, 52, 50, 41, 13, 10, 122, 10] := by
  rw [newcode_formatted exStrip false exText exRepls' (Or.inr exStrip_clean)]
  have hs : sortRepls exRepls' = exRepls' := sortRepls_of_sorted (by decide)
  rw [hs, replaceText_sorted_chained _ _ (by decide)]
  decide

example : exStrip [97, 61, 49, 13, 10, 233, 61, 115, 40, 52, 50, 41, 13, 10, 122, 10] =
    [97, 61, 49, 13, 10, 233, 61, 115, 40, 52, 50, 41, 13, 10, 122, 10] :=
  clean_stays_clean exStrip false exText exRepls' _ exStrip_idem (Or.inr exStrip_clean) exNewCode'

/-- the same file with a space (`a =1…`) is dirty: the space of the file AND of the replacement survive -/
def exDirty : Str := [97, 32, 61, 49, 13, 10, 233, 61, 115, 40, 53, 41, 13, 10, 122, 10]

theorem exDirty_dirty : exStrip exDirty ≠ exDirty := by decide

theorem exNewCodeDirty : newCode exStrip false exDirty [⟨2, 4, 2, 5, [52, 32, 50], 0⟩] =
    some [97, 32, 61, 49, 13, 10, 233, 61, 115, 40, 52, 32, 50, 41, 13, 10, 122, 10] := by
  rw [newcode_unformatted exStrip false exDirty _ rfl exDirty_dirty]
  have hs : sortRepls [⟨2, 4, 2, 5, [52, 32, 50], 0⟩] = [⟨2, 4, 2, 5, [52, 32, 50], 0⟩] :=
    sortRepls_of_sorted (by decide)
  rw [hs, replaceText_sorted_chained _ _ (by decide)]
  decide

example : ∃ mid, [97, 32, 61, 49, 13, 10, 233, 61, 115, 40, 52, 32, 50, 41, 13, 10, 122, 10] =
    exDirty.take 10 ++ mid ++ exDirty.drop 11 :=
  dirty_outside_untouched exStrip false exDirty _ _ 10 11 rfl exDirty_dirty exNewCodeDirty
    (by decide) (by decide)

/-- with `enforce` the dirty file IS reformatted as a whole -/
example : newCode exStrip true exDirty [⟨2, 4, 2, 5, [52, 32, 50], 0⟩] =
    some [97, 61, 49, 13, 10, 233, 61, 115, 40, 52, 50, 41, 13, 10, 122, 10] := by
  rw [newcode_formatted exStrip true exDirty _ (Or.inl rfl)]
  have hs : sortRepls [⟨2, 4, 2, 5, [52, 32, 50], 0⟩] = [⟨2, 4, 2, 5, [52, 32, 50], 0⟩] :=
    sortRepls_of_sorted (by decide)
  rw [hs, replaceText_sorted_chained _ _ (by decide)]
  decide

end ISnap.Rewrite
