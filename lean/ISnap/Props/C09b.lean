import ISnap.Props.C11c
import ISnap.Lemmas.CallCompose
/-
  C09 for constructor calls — the order in which categories are approved does not matter: two runs in a
  row over a call `K(a=…, c=…)` (against the same observed object) leave the keyword list of one run with
  the union of the approved categories.

  The subtle part is the run `update` → `fix`: the first run deletes the keywords whose field holds its
  (unchanged) default, so the second run computes its insert positions from a shorter keyword list.  Since
  fix e4b1c97 a new keyword is put in front of the next *matched* keyword (a keyword of a non-default
  field, which no run deletes), at that keyword's own index — so the result is the same
  (`Lemmas.CallCompose.weave_tagged`: the woven list does not depend on indices).

  Hypotheses (all decidable; what the Python adapters produce for a call without star-arguments):
    * keyword names pairwise distinct (Python syntax), field names pairwise distinct;
    * keyword values `Managed`, `WfExpr`; field values `ValOk`, `WfVal` (as in `Assign.run_compose`).
-/
namespace ISnap.CallAssign
open ISnap ISnap.Assign List

/-- the keyword list of the call after a run that approves `F` -/
def runCall (F : Flags) (kw : List (Nat × Expr)) (fields : List Field) : List (Nat × Expr) :=
  (assignCall F kw fields).kw

theorem keptKw_eq (F : Flags) (kw : List (Nat × Expr)) (fields : List Field) :
    keptKw F kw fields = kw.filterMap (oldOne F fields) := by
  rw [keptKw, filterMap_map]; rfl

/-- two runs that only rewrite / delete old keywords -/
theorem keptKw_compose (F₁ F₂ : Flags) (kw : List (Nat × Expr)) (fields : List Field)
    (hkw : ∀ p ∈ kw, Managed p.2 ∧ WfExpr p.2) (hfv : ∀ f ∈ fields, ValOk f.2.1 ∧ WfVal f.2.1) :
    keptKw F₂ (keptKw F₁ kw fields) fields = keptKw (F₁.union F₂) kw fields := by
  rw [keptKw_eq, keptKw_eq, keptKw_eq, filterMap_filterMap]
  induction kw with
  | nil => rfl
  | cons p rest ih =>
    rw [filterMap_cons, filterMap_cons, oldOne_compose F₁ F₂ fields p (hkw p mem_cons_self) hfv,
      ih (fun q hq => hkw q (mem_cons_of_mem _ hq))]

/-- the inserted keywords are left alone by any later run -/
theorem oldOne_inserted (F : Flags) (kw : List (Nat × Expr)) (fields : List Field)
    (hfn : (fields.map (·.1)).Nodup) (hfv : ∀ f ∈ fields, ValOk f.2.1 ∧ WfVal f.2.1) :
    ∀ p ∈ inserts (kw.map (·.1)) fields 0 [], ∀ q ∈ insG p, oldOne F fields q = some q := by
  intro p hp q hq
  obtain ⟨kv, hkv, rfl⟩ := mem_map.1 hq
  have hm := (mem_newFields.1 (mem_ins_group hp hkv)).1
  have hl := lookupF_of_mem hfn hm
  have hv := hfv _ hm
  simp only [oldOne, hl, canon_run F kv.2 (gv_of hv.1 hv.2)]

/-- first run with `fix`: afterwards nothing is left to insert -/
theorem runCall_compose_fix (F₁ F₂ : Flags) (kw : List (Nat × Expr)) (fields : List Field)
    (hF : F₁.fix = true) (hfn : (fields.map (·.1)).Nodup)
    (hkw : ∀ p ∈ kw, Managed p.2 ∧ WfExpr p.2) (hfv : ∀ f ∈ fields, ValOk f.2.1 ∧ WfVal f.2.1) :
    runCall F₂ (runCall F₁ kw fields) fields = runCall (F₁.union F₂) kw fields := by
  have hU : (F₁.union F₂).fix = true := by rw [union_fix, hF]; rfl
  have hf : ∀ f ∈ fields, f.2.2 = false → f.1 ∈ (runCall F₁ kw fields).map (·.1) := by
    rintro ⟨name, v, d⟩ hm hd
    simp only at hd
    subst hd
    obtain ⟨e', he', _⟩ := call_fix_repairs_exists F₁ kw fields hF hfn hkw hfv name v hm
    exact mem_map.2 ⟨_, he', rfl⟩
  unfold runCall at hf ⊢
  rw [call_kw_noins F₂ _ fields hf, keptKw_eq, call_kw_fix F₁ kw fields hF,
    call_kw_fix _ kw fields hU,
    weave_filterMap _ _ (oldOne_inserted F₂ kw fields hfn hfv), map_map]
  congr 1
  apply map_congr_left
  intro p hp
  exact oldOne_compose F₁ F₂ fields p (hkw p hp) hfv

/-- first run without `fix`, second run with `fix`: the insert positions are computed from the keyword
    list the first run left, from which the keywords of unchanged default-valued fields may be gone -/
theorem runCall_compose_nofix_fix (F₁ F₂ : Flags) (kw : List (Nat × Expr)) (fields : List Field)
    (hF₁ : F₁.fix = false) (hF₂ : F₂.fix = true)
    (hkn : (kw.map (·.1)).Nodup) (hfn : (fields.map (·.1)).Nodup)
    (hkw : ∀ p ∈ kw, Managed p.2 ∧ WfExpr p.2) (hfv : ∀ f ∈ fields, ValOk f.2.1 ∧ WfVal f.2.1) :
    runCall F₂ (runCall F₁ kw fields) fields = runCall (F₁.union F₂) kw fields := by
  have hU : (F₁.union F₂).fix = true := by rw [union_fix, hF₂]; simp
  have hkn' : ((keptKw F₁ kw fields).map (·.1)).Nodup := (keptKw_names_sublist F₁ kw fields).nodup hkn
  unfold runCall
  rw [call_kw_nofix F₁ kw fields hF₁, call_kw_tagged F₂ _ fields hF₂ hkn',
    call_kw_tagged _ kw fields hU hkn]
  -- the tagged groups are the same: the keywords the first run deleted belong to default-valued fields
  have hT : insertsT (fun n => ((keptKw F₁ kw fields).map (·.1)).contains n) fields [] =
      insertsT (fun n => (kw.map (·.1)).contains n) fields [] := by
    apply insertsT_congr
    rintro ⟨name, v, d⟩ hm hd
    simp only at hd
    subst hd
    simp only [contains_eq_mem]
    rw [Bool.eq_iff_iff]
    simp only [decide_eq_true_eq]
    constructor
    · exact fun h => (keptKw_names_sublist F₁ kw fields).subset h
    · intro h
      obtain ⟨⟨n, e⟩, hp, rfl⟩ := mem_map.1 h
      have hl := lookupF_of_mem hfn hm
      exact mem_map.2 ⟨(n, (assign F₁ e v).expr),
        mem_keptKw.2 ⟨(n, e), hp, by simp [oldOne, hl]⟩, rfl⟩
  rw [hT, keptKw_eq]
  congr 1
  apply flatMap_filterMap'
  intro p hp
  have hc := oldOne_compose F₁ F₂ fields p (hkw p hp) hfv
  cases h1 : oldOne F₁ fields p with
  | some q =>
    rw [h1] at hc
    simp only [Option.bind_some] at hc
    simp only [oldOne_name h1, hc]
  | none =>
    rw [h1] at hc
    simp only [Option.bind_none] at hc
    rw [← hc]
    -- `p` was deleted without `fix`: its field holds the default, so no group is tagged with its name
    have hd : ∃ v, lookupF p.1 fields = some (v, true) := by
      unfold oldOne at h1
      split at h1
      · simp at h1
      · next v hl => exact ⟨v, hl⟩
      · simp [hF₁] at h1
    obtain ⟨v, hl⟩ := hd
    have : grpT (insertsT (fun n => (kw.map (·.1)).contains n) fields []) (some p.1) = [] := by
      apply grpT_nil
      rintro ⟨t, g⟩ hq rfl
      obtain ⟨_, w, hw⟩ := insertsT_tag fields [] p.1 g hq
      have := lookupF_of_mem hfn hw
      rw [hl] at this
      simp at this
    rw [this]; rfl

/-- **C09 for constructor calls.**  Approving `F₁`, running, then approving `F₂` and running again leaves
    the keyword list of a single run that approves both. -/
theorem runCall_compose (F₁ F₂ : Flags) (kw : List (Nat × Expr)) (fields : List Field)
    (hkn : (kw.map (·.1)).Nodup) (hfn : (fields.map (·.1)).Nodup)
    (hkw : ∀ p ∈ kw, Managed p.2 ∧ WfExpr p.2) (hfv : ∀ f ∈ fields, ValOk f.2.1 ∧ WfVal f.2.1) :
    runCall F₂ (runCall F₁ kw fields) fields = runCall (F₁.union F₂) kw fields := by
  cases hF₁ : F₁.fix with
  | true => exact runCall_compose_fix F₁ F₂ kw fields hF₁ hfn hkw hfv
  | false =>
    cases hF₂ : F₂.fix with
    | true => exact runCall_compose_nofix_fix F₁ F₂ kw fields hF₁ hF₂ hkn hfn hkw hfv
    | false =>
      have hU : (F₁.union F₂).fix = false := by rw [union_fix, hF₁, hF₂]; rfl
      unfold runCall
      rw [call_kw_nofix F₁ kw fields hF₁, call_kw_nofix F₂ _ fields hF₂,
        call_kw_nofix _ kw fields hU]
      exact keptKw_compose F₁ F₂ kw fields hkw hfv

/-- `fix` then `update`, `update` then `fix`, and both at once give the same keyword list -/
theorem call_order_independent (kw : List (Nat × Expr)) (fields : List Field)
    (hkn : (kw.map (·.1)).Nodup) (hfn : (fields.map (·.1)).Nodup)
    (hkw : ∀ p ∈ kw, Managed p.2 ∧ WfExpr p.2) (hfv : ∀ f ∈ fields, ValOk f.2.1 ∧ WfVal f.2.1) :
    runCall (Flags.single .update) (runCall (Flags.single .fix) kw fields) fields
      = runCall ((Flags.single .fix).union (Flags.single .update)) kw fields ∧
    runCall (Flags.single .fix) (runCall (Flags.single .update) kw fields) fields
      = runCall ((Flags.single .fix).union (Flags.single .update)) kw fields := by
  refine ⟨runCall_compose _ _ kw fields hkn hfn hkw hfv, ?_⟩
  rw [runCall_compose _ _ kw fields hkn hfn hkw hfv]; rfl

/-- any two orders of any two sets of categories agree -/
theorem runCall_commute (F₁ F₂ : Flags) (kw : List (Nat × Expr)) (fields : List Field)
    (hkn : (kw.map (·.1)).Nodup) (hfn : (fields.map (·.1)).Nodup)
    (hkw : ∀ p ∈ kw, Managed p.2 ∧ WfExpr p.2) (hfv : ∀ f ∈ fields, ValOk f.2.1 ∧ WfVal f.2.1) :
    runCall F₂ (runCall F₁ kw fields) fields = runCall F₁ (runCall F₂ kw fields) fields := by
  rw [runCall_compose _ _ kw fields hkn hfn hkw hfv, runCall_compose _ _ kw fields hkn hfn hkw hfv]
  congr 1
  cases F₁; cases F₂; simp [Flags.union, Bool.or_comm]

/-! ### non-vacuity -/

section examples
open Ex

/-- `K(d=7, b=1, c=[5])` (names as numbers: a=0, b=1, c=2, d=3) -/
def kwC : List (Nat × Expr) :=
  [ (3, .leaf 3 true (.atom (.int 7))), (1, .leaf 1 true (.atom (.int 1))),
    (2, .seq false [.leaf 2 false (.atom (.int 5))]) ]
/-- the new object: `a=4` (new, no keyword yet), `b=1` (equal), `c=[5, 6]` (changed; `5` is written
    differently), `d=7` (unchanged and now the default) -/
def fieldsC : List Field :=
  [ (0, .atom (.int 4), false), (1, .atom (.int 1), false),
    (2, .list [.atom (.int 5), .atom (.int 6)], false), (3, .atom (.int 7), true) ]

example : (kwC.map (·.1)).Nodup ∧ (fieldsC.map (·.1)).Nodup := by decide
example : (∀ p ∈ kwC, Managed p.2 ∧ WfExpr p.2) ∧ (∀ f ∈ fieldsC, ValOk f.2.1 ∧ WfVal f.2.1) := by
  decide

example : runCall updateOnly (runCall fixOnly kwC fieldsC) fieldsC
      = runCall (fixOnly.union updateOnly) kwC fieldsC ∧
    runCall fixOnly (runCall updateOnly kwC fieldsC) fieldsC
      = runCall (fixOnly.union updateOnly) kwC fieldsC :=
  call_order_independent kwC fieldsC (by decide) (by decide) (by decide) (by decide)

/-- a call computed completely: `K(d=7, b=1, c=0x5, e=0)` against `a=4` (new), `b=1` (equal), `c=5` (equal,
    written differently), `d=7` (unchanged, now the default), `e=9` (changed) -/
def kwD : List (Nat × Expr) :=
  [ (3, .leaf 3 true (.atom (.int 7))), (1, .leaf 1 true (.atom (.int 1))),
    (2, .leaf 2 false (.atom (.int 5))), (4, .leaf 4 true (.atom (.int 0))) ]
def fieldsD : List Field :=
  [ (0, .atom (.int 4), false), (1, .atom (.int 1), false),
    (2, .atom (.int 5), false), (3, .atom (.int 7), true), (4, .atom (.int 9), false) ]

example : (kwD.map (·.1)).Nodup ∧ (fieldsD.map (·.1)).Nodup := by decide
example : (∀ p ∈ kwD, Managed p.2 ∧ WfExpr p.2) ∧ (∀ f ∈ fieldsD, ValOk f.2.1 ∧ WfVal f.2.1) := by
  decide

/-- only `fix`: `a=4` is inserted in front of the kept keyword `b` (index 1 of the old list, behind `d`),
    `e` is fixed; `d` and the spelling of `c` stay -/
example : runCall fixOnly kwD fieldsD =
    [ (3, .leaf 3 true (.atom (.int 7))), (0, .leaf 0 true (.atom (.int 4))),
      (1, .leaf 1 true (.atom (.int 1))), (2, .leaf 2 false (.atom (.int 5))),
      (4, .leaf 0 true (.atom (.int 9))) ] := by
  simp [runCall, assignCall, oldKeywords, lookupF, kwD, fieldsD, inserts, weave, insAt, fixOnly, List.idxOf_cons,
    assign_leaf, leafOut, pyEq, Atom.pyEq, Atom.num?, canon, Flags.has, eval, same]
/-- only `update`: `d=7` is deleted (its field holds the unchanged default), `c` is rewritten -/
example : runCall updateOnly kwD fieldsD =
    [ (1, .leaf 1 true (.atom (.int 1))), (2, .leaf 0 true (.atom (.int 5))),
      (4, .leaf 4 true (.atom (.int 0))) ] := by
  simp [runCall, assignCall, oldKeywords, lookupF, kwD, fieldsD, updateOnly,
    assign_leaf, leafOut, pyEq, Atom.pyEq, Atom.num?, canon, Flags.has, eval, same]
/-- `update` then `fix`: now `b` is the first keyword and `a=4` is inserted at index 0 — the same list as … -/
example : runCall fixOnly (runCall updateOnly kwD fieldsD) fieldsD =
    [ (0, .leaf 0 true (.atom (.int 4))), (1, .leaf 1 true (.atom (.int 1))),
      (2, .leaf 0 true (.atom (.int 5))), (4, .leaf 0 true (.atom (.int 9))) ] := by
  simp [runCall, assignCall, oldKeywords, lookupF, kwD, fieldsD, inserts, weave, insAt, fixOnly, List.idxOf_cons,
    updateOnly, assign_leaf, leafOut, pyEq, Atom.pyEq, Atom.num?, canon, Flags.has, eval, same]
/-- … both at once (`a=4` at index 1 of the old list, in front of `b`, and `d` at index 0 deleted) -/
example : runCall (fixOnly.union updateOnly) kwD fieldsD =
    [ (0, .leaf 0 true (.atom (.int 4))), (1, .leaf 1 true (.atom (.int 1))),
      (2, .leaf 0 true (.atom (.int 5))), (4, .leaf 0 true (.atom (.int 9))) ] := by
  simp [runCall, assignCall, oldKeywords, lookupF, kwD, fieldsD, inserts, weave, insAt, fixOnly, List.idxOf_cons,
    updateOnly, Flags.union, assign_leaf, leafOut, pyEq, Atom.pyEq, Atom.num?, canon, Flags.has,
    eval, same]
example : runCall updateOnly (runCall fixOnly kwD fieldsD) fieldsD
    = runCall fixOnly (runCall updateOnly kwD fieldsD) fieldsD :=
  runCall_commute _ _ kwD fieldsD (by decide) (by decide) (by decide) (by decide)

end examples

end ISnap.CallAssign
