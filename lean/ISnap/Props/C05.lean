import ISnap.Lemmas.SiteRun
/-
  C05 — each category means what the documentation says (site level, arguments without
  user-controlled parts, handled as one expression; list display for `in`).

  For a call site that is used with ONE operation kind over an arbitrary observation sequence `xs`
  (loops, several tests), starting from the stored argument:
    * create is reported iff the argument is missing, and fills it; it is never reported for an
      existing argument;
    * fix is reported iff some observed comparison fails on the stored value; once applied every
      observed comparison holds;
    * trim is reported iff all hold but the bound is not attained / a member was never tested, and
      yields the tightest value (the attained extreme / exactly the tested members);
    * with neither fix nor trim nor create approved the value is unchanged (update never changes it).
  Bounds need a total order (scope of the property); membership needs `==` to be an equivalence.
-/
namespace ISnap
variable {V : Type}

/-! ### create -/

/-- create: reported exactly for a missing argument that was used; fills it with the recorded value -/
theorem create_only_fills_missing (o : Ops V) (s : Leaf V) (h : s.old = none) (ap : Flags) :
    s.cats o = some (if s.new.isSome || s.newC.isSome then Flags.single .create else Flags.empty) ∧
    s.final o ap = (if ap.create then s.newVal else .noArg) := by
  simp [Leaf.cats, Leaf.final, h]

theorem single_create_false (g : Cat) (h : g ≠ .create) : (Flags.single g).create = false := by
  cases g <;> simp [Flags.single] at h ⊢

/-- create is never reported for an existing argument -/
theorem create_keeps_existing (o : Ops V) (s : Leaf V) (a : OldArg V) (h : s.old = some a)
    (fl : Flags) (hc : s.cats o = some fl) : fl.create = false := by
  cases a <;> simp only [Leaf.cats, h] at hc
  all_goals (repeat' (split at hc))
  all_goals (first | (cases hc; done) | (cases hc; simp [Flags.single, Flags.empty]; done) | skip)
  all_goals (cases hc; rename_i g hg;
             exact single_create_false g (fun e => minMaxFlag_ne_create o _ _ _ _ (e ▸ hg)))

/-! ### bounds: `x <= snapshot(v)` (Max) and `x >= snapshot(v)` (Min) -/

section bounds
variable (o : Ops V) (tot : TotalLe o) (f : Flags) (op : Op) (hop : isMM op)
  (v : V) (c : Bool) (xs : List V) (hne : xs ≠ [])

/-- the site after the observations `xs`, started from `snapshot(v)` -/
abbrev afterObs (o : Ops V) (f : Flags) (old : Option (OldArg V)) (op : Op) (xs : List V) : Leaf V :=
  (({ old := old } : Leaf V).runOps o f op xs).1

include tot hop hne in
/-- what the run leaves: the attained extreme `n` of the observations -/
theorem bound_run_spec :
    ∃ n, (afterObs o f (some (.leaf v c)) op xs).new = some n ∧
      (afterObs o f (some (.leaf v c)) op xs).old = some (.leaf v c) ∧
      (afterObs o f (some (.leaf v c)) op xs).kind = op.kind ∧
      (∀ x ∈ xs, cmpK o op.kind n x = true) ∧ n ∈ xs := by
  obtain ⟨n, h1, h2, h3, h4, _h5, h6⟩ := runOps_mm o tot f op hop xs { old := some (.leaf v c) }
    (Or.inl rfl) (Or.inr ⟨v, c, rfl⟩) (Or.inl hne)
  refine ⟨n, h1, h2, ?_, h4, ?_⟩
  · rcases h3 with h | h
    · exact h
    · exact absurd h hne
  · rcases h6 with h | h
    · exact h
    · simp at h

theorem plain_bound (x : V) (hop' : isMM op) :
    plainOp o (.leaf v c) op x = .val (cmpK o op.kind v x) := by
  rcases hop' with rfl | rfl <;> simp [plainOp, cmpK, Op.kind]

theorem kind_mm (hop' : isMM op) : op.kind = .mn ∨ op.kind = .mx := by
  rcases hop' with rfl | rfl <;> simp [Op.kind]

include tot hop hne in
/-- categories and final value of a bound site in terms of the attained extreme -/
theorem bound_cats_final (ap : Flags) :
    ∃ n, (∀ x ∈ xs, cmpK o op.kind n x = true) ∧ n ∈ xs ∧
      (afterObs o f (some (.leaf v c)) op xs).cats o = some (mmFlags o op.kind v c n) ∧
      (afterObs o f (some (.leaf v c)) op xs).final o ap =
        (match minMaxFlag o op.kind v c n with
         | some g => if ap.has g then .one n else .one v
         | none => .one v) := by
  obtain ⟨n, hn, hold, hk, hall, hmem⟩ := bound_run_spec o tot f op hop v c xs hne
  refine ⟨n, hall, hmem, ?_, ?_⟩
  · rcases kind_mm op hop with hk' | hk' <;> simp [Leaf.cats, hold, hk, hk', hn, mmFlags] <;> rfl
  · rcases kind_mm op hop with hk' | hk' <;> simp [Leaf.final, hold, hk, hk', hn] <;> rfl

include tot hop hne in
/-- fix is reported exactly when some observed comparison fails on the stored value -/
theorem fix_reported_iff_bound :
    ∃ fl, (afterObs o f (some (.leaf v c)) op xs).cats o = some fl ∧
      (fl.fix = true ↔ ∃ x ∈ xs, plainOp o (.leaf v c) op x = .val false) := by
  obtain ⟨n, hall, hmem, hcats, _⟩ := bound_cats_final o tot f op hop v c xs hne {}
  refine ⟨_, hcats, ?_⟩
  simp only [plain_bound o op v c _ hop, mmFlags_fix, Bool.not_eq_true', Res.val.injEq]
  constructor
  · intro h; exact ⟨n, hmem, h⟩
  · rintro ⟨x, hx, hfalse⟩
    by_cases hc : cmpK o op.kind v n = true
    · have := cmpK_trans tot _ _ _ _ hc (hall x hx)
      rw [hfalse] at this; cases this
    · simpa using hc

include tot hop hne in
/-- trim is reported exactly when every comparison holds and the bound is attained by no observation -/
theorem trim_reported_iff_bound :
    ∃ fl, (afterObs o f (some (.leaf v c)) op xs).cats o = some fl ∧
      (fl.trim = true ↔ (∀ x ∈ xs, plainOp o (.leaf v c) op x = .val true) ∧
                          (∀ x ∈ xs, cmpK o op.kind x v = false)) := by
  obtain ⟨n, hall, hmem, hcats, _⟩ := bound_cats_final o tot f op hop v c xs hne {}
  refine ⟨_, hcats, ?_⟩
  simp only [plain_bound o op v c _ hop, mmFlags_trim, Bool.and_eq_true, Bool.not_eq_true', Res.val.injEq]
  constructor
  · rintro ⟨hvn, hnv⟩
    refine ⟨fun x hx => cmpK_trans tot _ _ _ _ hvn (hall x hx), fun x hx => ?_⟩
    by_cases hc : cmpK o op.kind x v = true
    · have := cmpK_trans tot _ _ _ _ (hall x hx) hc
      rw [hnv] at this; cases this
    · simpa using hc
  · rintro ⟨hh, hna⟩
    exact ⟨hh n hmem, hna n hmem⟩

include tot hop hne in
/-- once fix is applied, every observed comparison holds on the value in the source -/
theorem fix_applied_all_hold_bound (ap : Flags) (hap : ap.fix = true) :
    ∃ w, (afterObs o f (some (.leaf v c)) op xs).final o ap = .one w ∧
      ∀ x ∈ xs, cmpK o op.kind w x = true := by
  obtain ⟨n, hall, hmem, _, hfin⟩ := bound_cats_final o tot f op hop v c xs hne ap
  rw [hfin]
  by_cases hc : cmpK o op.kind v n = true
  · have hv : ∀ x ∈ xs, cmpK o op.kind v x = true := fun x hx => cmpK_trans tot _ _ _ _ hc (hall x hx)
    split
    · split
      · exact ⟨n, rfl, hall⟩
      · exact ⟨v, rfl, hv⟩
    · exact ⟨v, rfl, hv⟩
  · have hg : minMaxFlag o op.kind v c n = some .fix := (minMaxFlag_fix_iff ..).2 (by simpa using hc)
    exact ⟨n, by simp [hg, Flags.has, hap], hall⟩

include tot hop hne in
/-- trim yields the tightest value: it satisfies every observation and every value that does is
    beyond it -/
theorem trim_tightest_bound (ap : Flags) (hap : ap.trim = true)
    (fl : Flags) (hfl : (afterObs o f (some (.leaf v c)) op xs).cats o = some fl) (ht : fl.trim = true) :
    ∃ n, (afterObs o f (some (.leaf v c)) op xs).final o ap = .one n ∧
      (∀ x ∈ xs, cmpK o op.kind n x = true) ∧
      (∀ w, (∀ x ∈ xs, cmpK o op.kind w x = true) → cmpK o op.kind w n = true) := by
  obtain ⟨n, hall, hmem, hcats, hfin⟩ := bound_cats_final o tot f op hop v c xs hne ap
  rw [hcats] at hfl; cases hfl
  rw [mmFlags_trim] at ht
  have hg : minMaxFlag o op.kind v c n = some .trim :=
    (minMaxFlag_trim_iff ..).2 (by simpa using ht)
  exact ⟨n, by rw [hfin, hg]; simp [Flags.has, hap], hall, fun w hw => hw n hmem⟩

include tot hop hne in
/-- without fix and trim approved the value in the source is unchanged up to the order's equality
    (an update never changes the value) -/
theorem update_keeps_value_bound (ap : Flags) (h1 : ap.fix = false) (h2 : ap.trim = false) :
    ∃ w, (afterObs o f (some (.leaf v c)) op xs).final o ap = .one w ∧
      cmpK o op.kind v w = true ∧ cmpK o op.kind w v = true := by
  obtain ⟨n, hall, hmem, _, hfin⟩ := bound_cats_final o tot f op hop v c xs hne ap
  rw [hfin]
  have hvv : cmpK o op.kind v v = true := cmpK_refl tot _ _
  cases hm : minMaxFlag o op.kind v c n with
  | none => exact ⟨v, rfl, hvv, hvv⟩
  | some g =>
    cases g with
    | create => exact absurd hm (minMaxFlag_ne_create o op.kind v c n)
    | fix => exact ⟨v, by simp [Flags.has, h1], hvv, hvv⟩
    | trim => exact ⟨v, by simp [Flags.has, h2], hvv, hvv⟩
    | update =>
      have := minMaxFlag_update_imp o _ _ _ _ hm
      by_cases hu : ap.update = true
      · exact ⟨n, by simp [Flags.has, hu], this.1, this.2⟩
      · exact ⟨v, by simp [Flags.has, hu], hvv, hvv⟩

end bounds

/-! ### membership: `x in snapshot([...])` -/

section membership
variable (o : Ops V) (eqv : EqvLaws o) (f : Flags) (es : List (V × Bool)) (xs : List V) (hne : xs ≠ [])

include eqv hne in
theorem coll_run_spec :
    ∃ l, (afterObs o f (some (.coll es)) .isin xs).newC = some l ∧
      (afterObs o f (some (.coll es)) .isin xs).old = some (.coll es) ∧
      (afterObs o f (some (.coll es)) .isin xs).kind = .coll ∧
      (∀ y, memBy o.eqv y l = memBy o.eqv y xs) := by
  obtain ⟨l, h1, h2, h3, h4⟩ := runOps_coll o eqv f xs { old := some (.coll es) } (Or.inl rfl)
    (Or.inr ⟨es, rfl⟩) (Or.inl hne)
  refine ⟨l, h1, h2, ?_, fun y => by simpa [memBy] using h4 y⟩
  rcases h3 with h | h
  · exact h
  · exact absurd h hne

include eqv hne in
/-- fix is reported iff some tested value is not a member; trim iff some member was never tested -/
theorem fix_trim_reported_iff_coll :
    ∃ fl, (afterObs o f (some (.coll es)) .isin xs).cats o = some fl ∧
      (fl.fix = true ↔ ∃ x ∈ xs, plainOp o (.coll es) .isin x = .val false) ∧
      (fl.trim = true ↔ ∃ e ∈ es, memBy o.eqv e.1 xs = false) ∧
      fl.create = false := by
  obtain ⟨l, hl, hold, hk, hmem⟩ := coll_run_spec o eqv f es xs hne
  refine ⟨_, by simp [Leaf.cats, hold, hk, hl]; rfl, ?_, ?_, rfl⟩
  · simp only [plainOp, List.any_eq_true, Bool.not_eq_true', Res.val.injEq]
    constructor
    · rintro ⟨y, hy, hyo⟩
      -- y ∈ l, so y is eqv to some observed x, which then is not in olds either
      have hyl : memBy o.eqv y l = true := by
        simp only [memBy, List.any_eq_true]; exact ⟨y, hy, eqv.refl y⟩
      rw [hmem y] at hyl
      simp only [memBy, List.any_eq_true] at hyl
      obtain ⟨x, hx, hyx⟩ := hyl
      refine ⟨x, hx, ?_⟩
      rw [← memBy_congr eqv y x _ hyx]; exact hyo
    · rintro ⟨x, hx, hxo⟩
      have hxl : memBy o.eqv x l = true := by
        rw [hmem x]; simp only [memBy, List.any_eq_true]; exact ⟨x, hx, eqv.refl x⟩
      simp only [memBy, List.any_eq_true] at hxl
      obtain ⟨y, hy, hxy⟩ := hxl
      refine ⟨y, hy, ?_⟩
      rw [← memBy_congr eqv x y _ hxy]; exact hxo
  · simp only [List.any_eq_true, Bool.not_eq_true']
    constructor
    · rintro ⟨e, he, h⟩; exact ⟨e, he, by rw [← hmem]; exact h⟩
    · rintro ⟨e, he, h⟩; exact ⟨e, he, by rw [hmem]; exact h⟩

theorem memBy_iff (eq : V → V → Bool) (x : V) (l : List V) :
    memBy eq x l = true ↔ ∃ y ∈ l, eq x y = true := by
  simp [memBy]

include eqv hne in
/-- after fix every tested value is a member; after trim (nothing to fix) exactly the tested
    members remain — the tightest list; with neither approved the list is unchanged -/
theorem coll_final (ap : Flags) :
    ∃ vs, (afterObs o f (some (.coll es)) .isin xs).final o ap = .many vs ∧
      (ap.fix = true → ∀ x ∈ xs, memBy o.eqv x vs = true) ∧
      (ap.trim = true → ∀ y ∈ vs, memBy o.eqv y xs = true) ∧
      (ap.fix = false → ap.trim = false → vs = es.map (·.1)) := by
  obtain ⟨l, hl, hold, hk, hmem⟩ := coll_run_spec o eqv f es xs hne
  refine ⟨_, by simp only [Leaf.final, hold, hk, hl]; rfl, ?_, ?_, ?_⟩
  · intro hfix x hx
    have hxl : memBy o.eqv x l = true := by
      rw [hmem x]; exact (memBy_iff _ _ _).2 ⟨x, hx, eqv.refl x⟩
    obtain ⟨y, hy, hxy⟩ := (memBy_iff _ _ _).1 hxl
    rw [memBy_append, Bool.or_eq_true]
    by_cases hyo : memBy o.eqv y (es.map (·.1)) = true
    · left
      obtain ⟨z, hz, hyz⟩ := (memBy_iff _ _ _).1 hyo
      have hzl : memBy o.eqv z l = true := (memBy_iff _ _ _).2 ⟨y, hy, eqv.symm _ _ hyz⟩
      exact (memBy_iff _ _ _).2 ⟨z, List.mem_filter.2 ⟨hz, by simp [hzl]⟩, eqv.trans _ _ _ hxy hyz⟩
    · right
      simp only [hfix, if_true]
      exact (memBy_iff _ _ _).2 ⟨y, List.mem_filter.2 ⟨hy, by simpa using hyo⟩, hxy⟩
  · intro htrim y hy
    rcases List.mem_append.1 hy with h | h
    · have := (List.mem_filter.1 h).2
      simp only [htrim, Bool.true_and, Bool.not_not] at this
      rw [← hmem]; exact this
    · split at h
      · have hyl := (List.mem_filter.1 h).1
        rw [← hmem]; exact (memBy_iff _ _ _).2 ⟨y, hyl, eqv.refl y⟩
      · cases h
  · intro h1 h2
    simp [h1, h2]

end membership

/-! ### equality on one expression -/

/-- `x == snapshot(v)`: fix iff the (first) compared value differs; afterwards it is that value;
    without fix the value stays equal to `v` (copyable values are equal to themselves) -/
theorem eq_categories (o : Ops V) (hrefl : ∀ a, o.eqv a a = true) (f : Flags) (v : V) (c : Bool) (x : V)
    (ap : Flags) :
    let s := afterObs o f (some (.leaf v c)) .eq [x]
    ∃ fl, s.cats o = some fl ∧ (fl.fix = true ↔ o.eqv v x = false) ∧ fl.create = false ∧ fl.trim = false ∧
      (o.eqv v x = false → ap.fix = true → s.final o ap = .one x) ∧
      (ap.fix = false → ∃ w, s.final o ap = .one w ∧ (w = v ∨ o.eqv v w = true)) := by
  simp only [afterObs, Leaf.runOps, Leaf.step, Op.kind, ret]
  cases h1 : o.eqv v x <;> cases h2 : o.same v x <;> cases c <;> cases hf : ap.fix <;>
    cases hu : ap.update <;>
    simp [Leaf.cats, Leaf.final, h1, h2, hf, hu, hrefl, Flags.single, Flags.empty] <;>
    (try split) <;> simp

/-! ### non-vacuity -/

def intOps5 : Ops Int := { eqv := (· == ·), le := (· ≤ ·), same := (· == ·) }

theorem intOps5_total : TotalLe intOps5 :=
  ⟨by intro a; simp [intOps5], by intro a b c; simp [intOps5]; omega, by intro a b; simp [intOps5]; omega⟩

theorem intOps5_eqv : EqvLaws intOps5 :=
  ⟨by intro a; simp [intOps5], by intro a b; simp [intOps5]; omega, by intro a b c; simp [intOps5]; omega⟩

/-- `snapshot(7)` observed with `3 <= s`, `5 <= s`: trim pending, tightest value 5 -/
example : (afterObs intOps5 {} (some (.leaf 7 true)) .ge [3, 5]).cats intOps5 = some { trim := true } := by
  decide

example : ∃ w, (afterObs intOps5 {} (some (.leaf 7 true)) .ge [3, 5]).final intOps5 { trim := true } = .one w
    ∧ w = 5 := ⟨5, by rfl, rfl⟩

end ISnap
