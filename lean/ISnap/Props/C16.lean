import ISnap.Model.SetSort
/-
  C16 — the text written for a set does not depend on the iteration order of the set
  (`_code_repr.sort_set_values`).

  * the text-sorted fallback is always independent of the iteration order            (`sortSet_perm_invariant_text`)
  * the value-sorted branch is independent when the order used by `sorted` is a total order
                                                                                      (`sortSet_perm_invariant_total`)
  * for a non-total order (sets of frozensets: `<=` is the subset relation, `sorted` does not raise) the output
    DOES depend on the iteration order                                                (`partial_order_depends_on_iteration`)
  * for the flat universe (None / bool / int / str) it is independent                (`sortAtoms_perm_invariant`)
-/
namespace ISnap.SetSort
open List

/-! ## 1. the string order is a total order -/

theorem strLe_refl : ∀ a : Str, strLe a a = true
  | [] => rfl
  | x :: xs => by simp [strLe, strLe_refl xs]

theorem strLe_total : ∀ a b : Str, (strLe a b || strLe b a) = true
  | [], _ => by simp [strLe]
  | _ :: _, [] => by simp [strLe]
  | x :: xs, y :: ys => by
    have ih := strLe_total xs ys
    simp only [strLe, Bool.or_eq_true, Bool.and_eq_true, decide_eq_true_eq, beq_iff_eq] at ih ⊢
    rcases Nat.lt_trichotomy x y with h | h | h
    · exact Or.inl (Or.inl h)
    · subst h
      rcases ih with ih | ih
      · exact Or.inl (Or.inr ⟨rfl, ih⟩)
      · exact Or.inr (Or.inr ⟨rfl, ih⟩)
    · exact Or.inr (Or.inl h)

theorem strLe_trans : ∀ a b c : Str, strLe a b = true → strLe b c = true → strLe a c = true
  | [], _, _, _, _ => by simp [strLe]
  | _ :: _, [], _, h, _ => by simp [strLe] at h
  | _ :: _, _ :: _, [], _, h => by simp [strLe] at h
  | x :: xs, y :: ys, z :: zs, h1, h2 => by
    have ih := strLe_trans xs ys zs
    simp only [strLe, Bool.or_eq_true, Bool.and_eq_true, decide_eq_true_eq, beq_iff_eq] at h1 h2 ih ⊢
    rcases h1 with h1 | ⟨rfl, h1⟩
    · rcases h2 with h2 | ⟨rfl, _⟩
      · exact Or.inl (Nat.lt_trans h1 h2)
      · exact Or.inl h1
    · rcases h2 with h2 | ⟨rfl, h2⟩
      · exact Or.inl h2
      · exact Or.inr ⟨rfl, ih h1 h2⟩

theorem strLe_antisymm : ∀ a b : Str, strLe a b = true → strLe b a = true → a = b
  | [], [], _, _ => rfl
  | [], _ :: _, _, h => by simp [strLe] at h
  | _ :: _, [], h, _ => by simp [strLe] at h
  | x :: xs, y :: ys, h1, h2 => by
    have ih := strLe_antisymm xs ys
    simp only [strLe, Bool.or_eq_true, Bool.and_eq_true, decide_eq_true_eq, beq_iff_eq] at h1 h2 ih
    rcases h1 with h1 | ⟨rfl, h1⟩
    · rcases h2 with h2 | ⟨rfl, _⟩
      · exact absurd h1 (Nat.lt_asymm h2)
      · exact absurd h1 (Nat.lt_irrefl _)
    · rcases h2 with h2 | ⟨_, h2⟩
      · exact absurd h2 (Nat.lt_irrefl _)
      · rw [ih h1 h2]

/-! ## 2./3. sorting with a total order forgets the input order -/

/-- a sorted permutation is unique: `mergeSort` by a total order only depends on the multiset -/
theorem mergeSort_perm_invariant {α : Type} (le : α → α → Bool) (xs ys : List α)
    (htot : ∀ a b, le a b || le b a) (htrans : ∀ a b c, le a b → le b c → le a c)
    (hanti : ∀ a b, a ∈ ys → b ∈ ys → le a b → le b a → a = b) (h : xs.Perm ys) :
    xs.mergeSort le = ys.mergeSort le := by
  have hx := pairwise_mergeSort htrans htot xs
  have hy := pairwise_mergeSort htrans htot ys
  have hp : (xs.mergeSort le).Perm (ys.mergeSort le) :=
    (mergeSort_perm xs le).trans (h.trans (mergeSort_perm ys le).symm)
  refine Perm.eq_of_pairwise (le := fun a b => le a b = true) ?_ hx hy hp
  intro a b ha hb hab hba
  have ha' : a ∈ ys := (mergeSort_perm ys le).subset (hp.subset ha)
  have hb' : b ∈ ys := (mergeSort_perm ys le).subset hb
  exact hanti a b ha' hb' hab hba

theorem sortSet_perm_invariant_text {α : Type} (le : α → α → Bool) (repr : α → Str) (xs ys : List α)
    (h : xs.Perm ys) : sortSetValues false le repr xs = sortSetValues false le repr ys := by
  simp only [sortSetValues, Bool.false_eq_true, if_false]
  exact mergeSort_perm_invariant strLe _ _ strLe_total strLe_trans
    (fun a b _ _ => strLe_antisymm a b) (h.map repr)

theorem sortSet_perm_invariant_total {α : Type} (le : α → α → Bool) (repr : α → Str) (xs ys : List α)
    (htot : ∀ a b, le a b || le b a) (htrans : ∀ a b c, le a b → le b c → le a c)
    (hanti : ∀ a b, le a b → le b a → a = b) (h : xs.Perm ys) :
    sortSetValues true le repr xs = sortSetValues true le repr ys := by
  simp only [sortSetValues, if_true]
  rw [mergeSort_perm_invariant le xs ys htot htrans (fun a b _ _ => hanti a b) h]

/-! ## 4. a partial order: the output depends on the iteration order -/

/-- frozensets as duplicate-free lists; `<=` is the subset relation -/
def subsetLe (a b : List Nat) : Bool := a.all (fun x => b.contains x)

/-- `sorted({frozenset({1}), frozenset({2}), frozenset()})` does not raise, and its result depends on the
    iteration order of the outer set: `{1} <= {2}` and `{2} <= {1}` are both false. -/
theorem partial_order_depends_on_iteration :
    ([[1], [2], []] : List (List Nat)).Perm [[2], [1], []] ∧
    sortSetValues true subsetLe id [[1], [2], []] ≠ sortSetValues true subsetLe id [[2], [1], []] := by
  refine ⟨Perm.swap _ _ _, ?_⟩
  simp [sortSetValues, mergeSort, MergeSort.Internal.splitInTwo, subsetLe]

/-! ## 5. the flat universe -/

theorem lexLe_eq_strLe : ∀ a b : List Nat, Atom.lexLe a b = strLe a b
  | [], _ => by simp [Atom.lexLe, strLe]
  | _ :: _, [] => by simp [Atom.lexLe, strLe]
  | x :: xs, y :: ys => by
    simp only [Atom.lexLe, strLe, lexLe_eq_strLe xs ys]
    by_cases h1 : x < y
    · simp [h1]
    · by_cases h2 : y < x
      · have : ¬ x = y := by omega
        simp [h2, this]
      · have : x = y := by omega
        simp [this]

def isNum (a : Atom) : Bool := a.num?.isSome
def isStr (a : Atom) : Bool := match a with | .str _ => true | _ => false

theorem atomsComparable_eq (xs : List Atom) : atomsComparable xs = (xs.all isNum || xs.all isStr) := rfl

theorem all_perm {α : Type} (p : α → Bool) {xs ys : List α} (h : xs.Perm ys) : xs.all p = ys.all p := by
  rw [Bool.eq_iff_iff, List.all_eq_true, List.all_eq_true]
  exact ⟨fun hx a ha => hx a (h.symm.subset ha), fun hy a ha => hy a (h.subset ha)⟩

theorem atomsComparable_perm {xs ys : List Atom} (h : xs.Perm ys) :
    atomsComparable xs = atomsComparable ys := by
  rw [atomsComparable_eq, atomsComparable_eq, all_perm isNum h, all_perm isStr h]

/-- a total preorder on all atoms that coincides with `pyLe` on numbers -/
def numLe (a b : Atom) : Bool := decide (a.num?.getD 0 ≤ b.num?.getD 0)
/-- a total preorder on all atoms that coincides with `pyLe` on strings -/
def strKey : Atom → List Nat
  | .str s => s
  | _ => []
def strAtomLe (a b : Atom) : Bool := strLe (strKey a) (strKey b)

theorem pyLe_eq_numLe {a b : Atom} (ha : isNum a = true) (hb : isNum b = true) :
    Atom.pyLe a b = numLe a b := by
  unfold isNum at ha hb
  obtain ⟨x, hx⟩ := Option.isSome_iff_exists.1 ha
  obtain ⟨y, hy⟩ := Option.isSome_iff_exists.1 hb
  simp [Atom.pyLe, numLe, hx, hy]

theorem pyLe_eq_strAtomLe {a b : Atom} (ha : isStr a = true) (hb : isStr b = true) :
    Atom.pyLe a b = strAtomLe a b := by
  cases a <;> cases b <;> simp_all [isStr, Atom.pyLe, strAtomLe, strKey, Atom.num?, lexLe_eq_strLe]

theorem mergeSort_congr {α : Type} {r s : α → α → Bool} {l : List α}
    (hl : ∀ a ∈ l, ∀ b ∈ l, r a b = s a b) : l.mergeSort r = l.mergeSort s := by
  have := map_mergeSort (r := r) (s := s) (f := id) (l := l) hl
  simpa using this

/-- in a list of pairwise different elements (for a symmetric notion of "different"), two members are equal or
    different -/
theorem eq_or_rel_of_pairwise {α : Type} {R : α → α → Prop} (hs : ∀ a b, R a b → R b a) {l : List α}
    (h : l.Pairwise R) {a b : α} (ha : a ∈ l) (hb : b ∈ l) : a = b ∨ R a b := by
  induction h with
  | nil => cases ha
  | cons hhead _ ih =>
    rcases List.mem_cons.1 ha with ha1 | ha1
    · rcases List.mem_cons.1 hb with hb1 | hb1
      · exact Or.inl (ha1.trans hb1.symm)
      · exact Or.inr (ha1 ▸ hhead _ hb1)
    · rcases List.mem_cons.1 hb with hb1 | hb1
      · exact Or.inr (hs _ _ (hb1 ▸ hhead _ ha1))
      · exact ih ha1 hb1

theorem pyEq_comm (a b : Atom) : Atom.pyEq a b = Atom.pyEq b a := by
  unfold Atom.pyEq
  cases ha : a.num? <;> cases hb : b.num? <;> simp only [] <;> rw [Bool.eq_iff_iff] <;>
    simp only [beq_iff_eq] <;> exact eq_comm

theorem pyEq_of_numLe_antisymm {a b : Atom} (ha : isNum a = true) (hb : isNum b = true)
    (h1 : numLe a b = true) (h2 : numLe b a = true) : Atom.pyEq a b = true := by
  unfold isNum at ha hb
  obtain ⟨x, hx⟩ := Option.isSome_iff_exists.1 ha
  obtain ⟨y, hy⟩ := Option.isSome_iff_exists.1 hb
  simp only [numLe, hx, hy, Option.getD_some, decide_eq_true_eq] at h1 h2
  simp only [Atom.pyEq, hx, hy, beq_iff_eq]
  omega

theorem eq_of_strAtomLe_antisymm {a b : Atom} (ha : isStr a = true) (hb : isStr b = true)
    (h1 : strAtomLe a b = true) (h2 : strAtomLe b a = true) : a = b := by
  cases a <;> cases b <;> simp_all [isStr, strAtomLe, strKey]
  exact strLe_antisymm _ _ h1 h2

/-- The elements of a set are pairwise unequal (`hd`); then what is written for a flat set does not depend on
    its iteration order. (`pyLe` is antisymmetric only up to `pyEq` — `True <= 1 <= True` — which is exactly
    what `hd` excludes.) -/
theorem sortAtoms_perm_invariant (repr : Atom → Str) (xs ys : List Atom) (h : xs.Perm ys)
    (hd : ys.Pairwise (fun a b => Atom.pyEq a b = false)) : sortAtoms repr xs = sortAtoms repr ys := by
  unfold sortAtoms
  rw [atomsComparable_perm h]
  cases hc : atomsComparable ys
  · exact sortSet_perm_invariant_text _ _ _ _ h
  · simp only [sortSetValues, if_true]
    rw [atomsComparable_eq, Bool.or_eq_true] at hc
    have hdiff : ∀ a b, a ∈ ys → b ∈ ys → Atom.pyEq a b = true → a = b := by
      intro a b ha hb he
      rcases eq_or_rel_of_pairwise (R := fun a b => Atom.pyEq a b = false)
        (fun a b hab => by rw [pyEq_comm]; exact hab) hd ha hb with h | h
      · exact h
      · rw [he] at h; cases h
    rcases hc with hc | hc
    · have hy : ∀ a ∈ ys, isNum a = true := List.all_eq_true.1 hc
      have hx : ∀ a ∈ xs, isNum a = true := fun a ha => hy a (h.subset ha)
      rw [mergeSort_congr (s := numLe) (fun a ha b hb => pyLe_eq_numLe (hx a ha) (hx b hb)),
        mergeSort_congr (l := ys) (s := numLe) (fun a ha b hb => pyLe_eq_numLe (hy a ha) (hy b hb))]
      rw [mergeSort_perm_invariant numLe xs ys ?_ ?_ ?_ h]
      · intro a b; simp only [numLe, Bool.or_eq_true, decide_eq_true_eq]; omega
      · intro a b c; simp only [numLe, decide_eq_true_eq]; omega
      · intro a b ha hb h1 h2
        exact hdiff a b ha hb (pyEq_of_numLe_antisymm (hy a ha) (hy b hb) h1 h2)
    · have hy : ∀ a ∈ ys, isStr a = true := List.all_eq_true.1 hc
      have hx : ∀ a ∈ xs, isStr a = true := fun a ha => hy a (h.subset ha)
      rw [mergeSort_congr (s := strAtomLe) (fun a ha b hb => pyLe_eq_strAtomLe (hx a ha) (hx b hb)),
        mergeSort_congr (l := ys) (s := strAtomLe) (fun a ha b hb => pyLe_eq_strAtomLe (hy a ha) (hy b hb))]
      rw [mergeSort_perm_invariant strAtomLe xs ys ?_ ?_ ?_ h]
      · intro a b; exact strLe_total _ _
      · intro a b c; exact strLe_trans _ _ _
      · intro a b ha hb h1 h2
        exact eq_of_strAtomLe_antisymm (hy a ha) (hy b hb) h1 h2

/-- without `hd` the statement is false: `True == 1`, a set cannot contain both, and a list can -/
theorem sortAtoms_needs_distinct :
    ([.bool true, .int 1] : List Atom).Perm [.int 1, .bool true] ∧
    sortAtoms (fun a => match a with | .bool _ => [0] | _ => [1]) [.bool true, .int 1] ≠
    sortAtoms (fun a => match a with | .bool _ => [0] | _ => [1]) [.int 1, .bool true] := by
  refine ⟨Perm.swap _ _ _, ?_⟩
  simp [sortAtoms, atomsComparable, Atom.num?, sortSetValues, mergeSort, MergeSort.Internal.splitInTwo,
    Atom.pyLe]

end ISnap.SetSort
