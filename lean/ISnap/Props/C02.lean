import ISnap.Lemmas.AssignLemmas
/-
  C02 — approving `fix` repairs the snapshot (`x == snapshot(<list/tuple/dict display>)`, any depth).

  Model: `ISnap.Assign` (`eval`, `canon`, `assign`, `cats`, `merged`, `run`).
  Hypotheses (defined in `ISnap.Lemmas.AssignLemmas`):
    * `Managed e`  — no unmanaged leaf (`Is(..)`, dirty-equals, inner snapshot), f-string or `*`/`**` in `e`,
                     and no `Unmanaged` wrapper inside a leaf value;
    * `WfExpr e`   — the keys of every dict display (and of dict values of leaves) are pairwise different
                     w.r.t. Python `==`;
    * `ValOk n`    — the observed value contains no `Unmanaged` wrapper;
    * `WfVal n`    — the keys of every dict inside `n` are pairwise different (true of every Python dict).
-/
namespace ISnap.Assign
open ISnap

/-- `code_repr` round-trips: the written expression evaluates to the value.
    (`ValOk` is not needed: see `eval_canon_any`.) -/
theorem eval_canon (v : Val) (_h : ValOk v) : eval (canon v) = v := eval_canon_any v

/-- the value `assign` returns — what the comparison is answered with once fix/update is active —
    equals the observed value, at every nesting depth -/
theorem merged_eq (e : Expr) (n : Val) (he : Managed e) (hn : ValOk n) (hwe : WfExpr e)
    (hwn : WfVal n) : pyEq (merged e n) n = true :=
  merged_eq_gen Flags.empty e (ge_of he hwe) n (gv_of hn hwn)

/-- … whatever the approved categories are (the returned value does not depend on them) -/
theorem merged_eq_flags (F : Flags) (e : Expr) (n : Val) (he : Managed e) (hn : ValOk n)
    (hwe : WfExpr e) (hwn : WfVal n) : pyEq (assign F e n).merged n = true :=
  merged_eq_gen F e (ge_of he hwe) n (gv_of hn hwn)

/-- what is reported and what is returned do not depend on the approved categories (any expression) -/
theorem cats_merged_flags_indep (F : Flags) (e : Expr) (n : Val) :
    (assign F e n).cats = cats e n ∧ (assign F e n).merged = merged e n :=
  indep_gen F Flags.empty e n

/-- after applying `fix` (whatever else is approved) the argument evaluates to the observed value -/
theorem fix_repairs (F : Flags) (e : Expr) (n : Val) (hF : F.fix = true) (he : Managed e)
    (hn : ValOk n) (hwe : WfExpr e) (hwn : WfVal n) : pyEq (eval (run F e n)) n = true :=
  fix_repairs_gen F hF e (ge_of he hwe) n (gv_of hn hwn)

/-- `fix` is reported exactly when the comparison with the old value fails -/
theorem no_fix_needed_iff (e : Expr) (n : Val) (he : Managed e) (hn : ValOk n) (hwe : WfExpr e)
    (hwn : WfVal n) : (cats e n).fix = false ↔ pyEq (eval e) n = true :=
  ⟨eq_of_nofix Flags.empty e (ge_of he hwe) n (gv_of hn hwn),
   nofix_of_eq Flags.empty e (ge_of he hwe) n (gv_of hn hwn)⟩

/-- the result of a run is again managed and well formed (so the theorems apply to it again) -/
theorem run_managed (F : Flags) (e : Expr) (n : Val) (he : Managed e) (hn : ValOk n) (hwe : WfExpr e)
    (hwn : WfVal n) : Managed (run F e n) ∧ WfExpr (run F e n) := by
  have := ge_run_gen F e (ge_of he hwe) n (gv_of hn hwn)
  rw [ge_eq, Bool.and_eq_true] at this
  exact this

/-- without `fix` approved the value of the argument does not change: an update only changes the
    spelling (both directions of `==`) -/
theorem update_keeps_value (F : Flags) (e : Expr) (n : Val) (hF : F.fix = false) (he : Managed e)
    (hn : ValOk n) (hwe : WfExpr e) (hwn : WfVal n) :
    pyEq (eval e) (eval (run F e n)) = true ∧ pyEq (eval (run F e n)) (eval e) = true := by
  have h1 := keep_gen F hF e (ge_of he hwe) n (gv_of hn hwn)
  have g1 := gv_eval e (ge_of he hwe)
  have g2 := gv_eval _ (ge_run_gen F e (ge_of he hwe) n (gv_of hn hwn))
  exact ⟨h1, pyEq_symm _ _ g1 g2 h1⟩

/-- … hence it compares with every value exactly as before -/
theorem update_keeps_verdict (F : Flags) (e : Expr) (n : Val) (hF : F.fix = false) (he : Managed e)
    (hn : ValOk n) (hwe : WfExpr e) (hwn : WfVal n) (w : Val) :
    pyEq (eval (run F e n)) w = pyEq (eval e) w := by
  have h := update_keeps_value F e n hF he hn hwe hwn
  have g1 := gv_eval e (ge_of he hwe)
  have g2 := gv_eval _ (ge_run_gen F e (ge_of he hwe) n (gv_of hn hwn))
  exact pyEq_congr_left g2 g1 h.2 w

/-! ### non-vacuity -/

section examples
open Ex

example : Managed e0 ∧ WfExpr e0 ∧ ValOk n0 ∧ WfVal n0 ∧ ValOk n1 ∧ WfVal n1 := by decide
/-- `n0` differs from the value of `e0` (inside the dict and the inner tuple), `n1` is equal to it
    although written differently (`True` vs `1`, other key order) -/
example : pyEq (eval e0) n0 = false ∧ pyEq (eval e0) n1 = true := by decide
example : (cats e0 n0).fix = true := by
  cases h : (cats e0 n0).fix with
  | true => rfl
  | false =>
    have := (no_fix_needed_iff e0 n0 (by decide) (by decide) (by decide) (by decide)).1 h
    revert this; decide
example : (cats e0 n1).fix = false :=
  (no_fix_needed_iff e0 n1 (by decide) (by decide) (by decide) (by decide)).2 (by decide)
example : pyEq (eval (run fixOnly e0 n0)) n0 = true :=
  fix_repairs _ _ _ rfl (by decide) (by decide) (by decide) (by decide)
example : eval (canon n0) = n0 := eval_canon n0 (by decide)
/-- a run computed step by step: one insertion and one kept element, everything approved -/
example : run Flags.all (.seq false [.leaf 1 false (.atom (.int 1))]) (.list [.atom (.int 2), .atom (.int 1)])
    = .seq false [.leaf 0 true (.atom (.int 2)), .leaf 0 true (.atom (.int 1))] := by
  rw [run, assign_seq_of (by decide) (by decide)]
  simp only [listOf]
  have : script (eval.evalL [Expr.leaf 1 false (.atom (.int 1))]) [Val.atom (.int 2), .atom (.int 1)]
      = [.i, .m] := by decide
  rw [this, assignSeq_i, assignSeq_m, assignSeq_nil, assign_leaf (by decide)]
  simp [leafOut, Flags.all, same, Atom.pyEq, Atom.num?]
/-- the hypotheses matter: with an unmanaged leaf the returned value is the old one -/
example : pyEq (merged (.unm 0 (.unmIs 0 (.atom (.int 1)))) (.atom (.int 2))) (.atom (.int 2)) = false := by
  simp [merged, pyEq, Atom.pyEq, Atom.num?]

end examples

end ISnap.Assign
