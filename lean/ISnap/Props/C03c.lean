import ISnap.Lemmas.AlignAnchor
/-
  C03 / C02 — the hypothesis `insertsAnchored` of `seqUpdate_tuple_comma` (Props/C03b.lean) is met by every
  edit script `SequenceAdapter.assign` can compute: `add_x(align(old, new))` never contains an insertion
  directly followed by a deletion (`nw_align` prefers `i` over `d` on ties while walking back, so inside an
  edit block the deletions come first), hence whenever code is inserted at a position in front of old
  elements, the next old element is kept.  Consequently a tuple display that ends up with one element always
  keeps its trailing comma, for every old and new tuple and any equality relation between their elements.
-/
namespace ISnap.SeqEdit
open ISnap.Align

theorem align_no_insert_before_delete (E : Nat → Nat → Bool) (n m : Nat) :
    noID (addX (align E n m)) = true :=
  addX_align_noID E n m

theorem adapter_inserts_anchored (E : Nat → Nat → Bool) (n m : Nat) (gap : Nat → List Tok) :
    insertsAnchored (plan gap (addX (align E n m)) 0 0 []).2 0 (plan gap (addX (align E n m)) 0 0 []).1 = true :=
  plan_anchored gap _ (addX_align_noID E n m) (addX_align_no_e E n m)

theorem tuple_edit_keeps_comma (E : Nat → Nat → Bool) (n m : Nat) (gap0 : List Tok) (gap : Nat → List Tok)
    (hwf : wfGaps gap0 (plan gap (addX (align E n m)) 0 0 []).1 = true)
    (h1 : (expected (plan gap (addX (align E n m)) 0 0 []).1 (plan gap (addX (align E n m)) 0 0 []).2).length = 1) :
    parse (seqUpdate true gap0 (plan gap (addX (align E n m)) 0 0 []).1 (plan gap (addX (align E n m)) 0 0 []).2)
      = some (expected (plan gap (addX (align E n m)) 0 0 []).1 (plan gap (addX (align E n m)) 0 0 []).2, true) :=
  seqUpdate_tuple_comma gap0 _ _ hwf (adapter_inserts_anchored E n m gap) h1

/-! ### non-vacuity: old `(a, b)`, new `(c,)` (nothing equal): script `d x`?  — whatever the script is, the result is `(c,)` -/

section examples
def exE : Nat → Nat → Bool := fun _ _ => false
def exGap : Nat → List Tok := fun k => if k = 0 then [.comma, .ws 1] else []
example : addX (align exE 2 1) = [.d, .x] ∨ addX (align exE 2 1) = [.x, .d] ∨ addX (align exE 2 1) = [.d, .d, .i] := by decide
example : wfGaps [] (plan exGap (addX (align exE 2 1)) 0 0 []).1 = true := by decide
example : noID [.d, .i, .m] = true ∧ noID [.i, .d] = false := by decide
end examples

end ISnap.SeqEdit
