import ISnap.Lemmas.AlignLemmas
/-
  C11 — `_align.py`: `align` / `nw_align` return a valid alignment with the maximal number of
  matches, `add_x` only relabels `d^k i^k` runs as replacements.

  The sequences enter only through their lengths `n m` and an ARBITRARY relation `E i j`
  ("old[i] == new[j]"); nothing (symmetry, transitivity, …) is assumed about `E`.

  Specification notions (defined in `ISnap.Lemmas.AlignLemmas`, namespace `ISnap.Align`):
    * `Valid E i j s`   — `s` aligns the first `i` old with the first `j` new elements
                          (`m` = one of each and needs `E`, `i` = a new one, `d` = an old one);
    * `ValidX E i j s`  — the same where `x` consumes one of each without needing `E`;
    * `matches s`       — number of `m` in `s`;
    * `cell E i j`      — (in the model) the specification of the matrix entry; `score` = its `.1`.
-/
namespace ISnap.Align

/-! ### 1. the executable matrix is the tabulation of the specification -/

/-- the executable row-by-row matrix is the tabulation of the specification -/
theorem matrix_eq_cell (E : Nat → Nat → Bool) (n m i j : Nat) (hi : i ≤ n) (hj : j ≤ m) :
    getCell (matrix E n m) i j = cell E i j :=
  getCell_matrix E n m i j hi hj

/-- the matrix has exactly the rows `0 … n` and columns `0 … m` of the specification -/
theorem matrix_shape (E : Nat → Nat → Bool) (n m : Nat) :
    matrix E n m = (List.range (n+1)).map (fun i => (List.range (m+1)).map (cell E i)) :=
  matrix_spec E n m

/-! ### 8. the fuel of the backtracking loop is sufficient -/

/-- more fuel than `i + j + 1` changes nothing: the loop ends at the `e` cell, not by exhaustion -/
theorem backM_fuel (E : Nat → Nat → Bool) (n m fuel i j : Nat) (acc : List Dir)
    (hi : i ≤ n) (hj : j ≤ m) (hf : i + j + 1 ≤ fuel) :
    backM (matrix E n m) fuel i j acc = backM (matrix E n m) (i + j + 1) i j acc :=
  backM_fuel_irrel E n m fuel (i + j + 1) i j acc hi hj hf (Nat.le_refl _)

/-- in particular `nwAlign` is independent of the fuel bound chosen in the model -/
theorem nwAlign_fuel (E : Nat → Nat → Bool) (n m extra : Nat) :
    backM (matrix E n m) (n + m + 1 + extra) n m [] = nwAlign E n m :=
  backM_fuel E n m _ n m [] (Nat.le_refl _) (Nat.le_refl _) (by omega)

/-! ### 2./3. `nw_align` is valid and optimal -/

theorem nwAlign_valid (E : Nat → Nat → Bool) (n m : Nat) : Valid E n m (nwAlign E n m) :=
  (nwAlign_spec E n m).1

/-- the number of matches found is the matrix score -/
theorem nwAlign_matches (E : Nat → Nat → Bool) (n m : Nat) :
    «matches» (nwAlign E n m) = (cell E n m).1 :=
  (nwAlign_spec E n m).2

/-- DP invariant: the matrix score bounds every valid alignment … -/
theorem valid_matches_le_cell (E : Nat → Nat → Bool) (i j : Nat) (s : List Dir)
    (h : Valid E i j s) : «matches» s ≤ (cell E i j).1 :=
  h.matches_le

/-- … and is attained, so it is the maximum -/
theorem cell_attained (E : Nat → Nat → Bool) (i j : Nat) :
    ∃ s, Valid E i j s ∧ «matches» s = (cell E i j).1 :=
  ⟨nwAlign E i j, nwAlign_valid E i j, nwAlign_matches E i j⟩

theorem nwAlign_optimal (E : Nat → Nat → Bool) (n m : Nat) (s : List Dir) (h : Valid E n m s) :
    «matches» s ≤ «matches» (nwAlign E n m) := by
  rw [nwAlign_matches]; exact h.matches_le

/-! ### 4./5./6. `align`: prefix, suffix, Needleman-Wunsch on the middle -/

theorem align_valid (E : Nat → Nat → Bool) (n m : Nat) : Valid E n m (align E n m) :=
  valid_align E n m

/-- shape of the result.  `s` = length of the maximal common prefix; if that is everything the script
    is `m^n`; otherwise `e` = length of the maximal common suffix of the rest, and the script is
    `m^s ++ mid ++ m^e` where `mid` is the Needleman-Wunsch alignment of the middle parts -/
theorem align_prefix_suffix (E : Nat → Nat → Bool) (n m s e : Nat)
    (hs : s = prefixLen E (min n m) 0) (he : e = suffixLen E n m (min (n - s) (m - s)) 0) :
    (s ≤ min n m ∧ (∀ k, k < s → E k k = true) ∧ (s < min n m → E s s = false)) ∧
    ((s = n ∧ s = m) → align E n m = List.replicate n .m) ∧
    (¬ (s = n ∧ s = m) →
      e ≤ min (n - s) (m - s) ∧ (∀ k, k < e → E (n-1-k) (m-1-k) = true) ∧
      (e < min (n - s) (m - s) → E (n-1-e) (m-1-e) = false) ∧
      ∃ mid, align E n m = List.replicate s .m ++ mid ++ List.replicate e .m ∧
        mid = nwAlign (fun i j => E (s + i) (s + j)) (n - s - e) (m - s - e) ∧
        Valid (fun i j => E (s + i) (s + j)) (n - s - e) (m - s - e) mid) := by
  rw [align_eq E n m s e hs he]
  obtain ⟨-, p2, p3, p4⟩ := prefixLen_spec E (min n m) 0
  obtain ⟨-, s2, s3, s4⟩ := suffixLen_spec E n m (min (n - s) (m - s)) 0
  rw [← hs] at p2 p3 p4
  rw [← he] at s2 s3 s4
  refine ⟨⟨by omega, fun k hk => p3 k (by omega) hk, fun h => p4 (by omega)⟩, ?_, ?_⟩
  · intro h; rw [if_pos h, h.1]
  · intro h; rw [if_neg h]
    exact ⟨by omega, fun k hk => s3 k (by omega) hk, fun h => s4 (by omega), _, rfl, rfl,
      nwAlign_valid _ _ _⟩

/-- stripping the equal prefix and suffix never loses a match, for ANY relation `E` -/
theorem align_optimal (E : Nat → Nat → Bool) (n m : Nat) (s : List Dir) (h : Valid E n m s) :
    «matches» s ≤ «matches» (align E n m) :=
  Nat.le_trans h.matches_le (score_le_matches_align E n m)

/-- hence `align` finds exactly as many matches as Needleman-Wunsch on the whole sequences -/
theorem align_matches_eq_nwAlign (E : Nat → Nat → Bool) (n m : Nat) :
    «matches» (align E n m) = «matches» (nwAlign E n m) :=
  Nat.le_antisymm (nwAlign_optimal E n m _ (align_valid E n m))
    (align_optimal E n m _ (nwAlign_valid E n m))

/-- the two facts behind `align_optimal`: dropping the first / the last pair of elements lowers the
    optimum by at most one, whatever `E` says about the pair -/
theorem cell_strip_first (E : Nat → Nat → Bool) (i j : Nat) :
    (cell E (i+1) (j+1)).1 ≤ (cell (fun a b => E (a+1) (b+1)) i j).1 + 1 :=
  score_lip_front E i j

theorem cell_strip_last (E : Nat → Nat → Bool) (i j : Nat) :
    (cell E (i+1) (j+1)).1 ≤ (cell E i j).1 + 1 :=
  score_lip_diag E i j

/-- when the pair IS related, stripping it loses exactly one: the exchange argument of the property,
    obtained here from the two bounds plus validity of the re-attached pair -/
theorem cell_strip_last_eq (E : Nat → Nat → Bool) (i j : Nat) (h : E i j = true) :
    (cell E (i+1) (j+1)).1 = (cell E i j).1 + 1 :=
  Nat.le_antisymm (score_lip_diag E i j) (score_diag E i j h)

theorem cell_strip_first_eq (E : Nat → Nat → Bool) (i j : Nat) (h : E 0 0 = true) :
    (cell E (i+1) (j+1)).1 = (cell (fun a b => E (a+1) (b+1)) i j).1 + 1 := by
  apply Nat.le_antisymm (score_lip_front E i j)
  have e : (fun a b => E (a+1) (b+1)) = (fun a b => E (1+a) (1+b)) := by
    funext a b; rw [Nat.add_comm a, Nat.add_comm b]
  have hv := Valid.prepend_m (E := E) (p := 1) (fun k hk => by
    have : k = 0 := by omega
    rw [this]; exact h) (nwAlign_valid (fun a b => E (1+a) (1+b)) i j)
  have := hv.matches_le
  rw [matches_append, nwAlign_matches, matches_replicate_m, Nat.add_comm 1 i, Nat.add_comm 1 j]
    at this
  rw [e]; simp only [score] at this ⊢; omega

/-! ### 7. `add_x` -/

/-- `add_x` turns a valid alignment into a valid alignment with replacements -/
theorem addX_valid (E : Nat → Nat → Bool) (n m : Nat) (t : List Dir) (h : Valid E n m t) :
    ValidX E n m (addX t) :=
  (addX_segX h.toValidX.toSegX).toValidX

/-- the same for scripts that already contain `x` -/
theorem addX_validX (E : Nat → Nat → Bool) (n m : Nat) (t : List Dir) (h : ValidX E n m t) :
    ValidX E n m (addX t) :=
  (addX_segX h.toSegX).toValidX

theorem addX_matches (t : List Dir) : «matches» (addX t) = «matches» t := by
  rw [addX, addXGroups_matches, expand_rle]

/-- end to end: what the caller of `add_x(align(a, b))` gets -/
theorem addX_align (E : Nat → Nat → Bool) (n m : Nat) :
    ValidX E n m (addX (align E n m)) ∧
    ∀ s, Valid E n m s → «matches» s ≤ «matches» (addX (align E n m)) :=
  ⟨addX_valid E n m _ (align_valid E n m), fun s h => by
    rw [addX_matches]; exact align_optimal E n m s h⟩

/-! ### non-vacuity -/

section examples

/-- `old[i] == new[j]` for two concrete lists of numbers -/
def ofLists (a b : List Nat) : Nat → Nat → Bool := fun i j => a[i]? == b[j]? && i < a.length

/-- `Valid` is inhabited and is not trivially true -/
example : Valid (ofLists [1, 2] [2, 1]) 2 2 [.d, .m, .i] :=
  Valid.i (s := [.d, .m]) (Valid.m (s := [.d]) (Valid.d Valid.nil) (by decide))
example : ¬ Valid (ofLists [1] [2]) 1 1 [.m] := by
  intro h
  have := h.matches_le
  simp [score_succ_succ, ofLists, «matches»] at this

/-- a tie between `i` and `d` (both give one match): `i > d`, so the `i` is taken last, i.e. the
    script is `dmi`, not `imd` -/
example : nwAlign (ofLists [1, 2] [2, 1]) 2 2 = [.d, .m, .i] := by decide
example : align (ofLists [1, 2] [2, 1]) 2 2 = [.d, .m, .i] := by decide
/-- a tie between `m` and `i` (`aa` against `aaa`): `m > i`, so the insertion comes first -/
example : nwAlign (fun _ _ => true) 2 3 = [.i, .m, .m] := by decide
/-- … while `align` strips the common prefix first and puts the insertion last -/
example : align (fun _ _ => true) 2 3 = [.m, .m, .i] := by decide
/-- prefix `1`, suffix `3`, middle replaced -/
example : align (ofLists [1, 2, 3] [1, 5, 3]) 3 3 = [.m, .d, .i, .m] := by decide
example : addX (align (ofLists [1, 2, 3] [1, 5, 3]) 3 3) = [.m, .x, .m] := by decide
/-- only runs of equal length are merged -/
example : addX [.d, .d, .i] = [.d, .d, .i] := by decide
example : addX [.d, .d, .i, .i, .m, .d, .i] = [.x, .x, .m, .x] := by decide
/-- a relation that is not symmetric and not "diagonal": old `0` equals new `1` only -/
example : align (fun i j => i == 0 && j == 1) 2 2 = [.i, .m, .d] := by decide
/-- the matrix of the tie example, as in Python -/
example : matrix (ofLists [1, 2] [2, 1]) 2 2 =
    [[(0, .e), (0, .i), (0, .i)], [(0, .d), (0, .i), (1, .m)], [(0, .d), (1, .m), (1, .i)]] := by
  decide
/-- fuel: too little fuel does cut the script short, so `backM_fuel` is not vacuous (the last of
    the `i + j + 1` iterations only reads the `e` cell) -/
example : backM (matrix (fun _ _ => false) 1 1) 1 1 1 [] = [.i] ∧
    backM (matrix (fun _ _ => false) 1 1) 3 1 1 [] = [.d, .i] := by
  decide

end examples

end ISnap.Align
