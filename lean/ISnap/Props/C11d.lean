import ISnap.Props.C11c
/-
  C11 (fourth part) — positional arguments of a hand-written constructor call (`A(1, 2, c=3)`),
  `assignCallPos` of `Model/CallAssign.lean`.

    * any positional argument is reported as fix, whatever its value (recorded finding KF-C05-2);
    * without fix nothing about the positional arguments changes and the keywords are those of the
      keyword-only model;
    * with fix every positional argument is gone;
    * without positional arguments the model is exactly the keyword-only model;
    * the value the comparison is answered with does not depend on how the arguments were written.
-/
namespace ISnap.CallAssign
open ISnap ISnap.Assign List

theorem union_empty_right (a : Flags) : a.union Flags.empty = a := by
  cases a; simp [Flags.union, Flags.empty]

/-- any positional argument is reported as fix, whatever its value (this is the recorded finding
    KF-C05-2 as a theorem) -/
theorem pos_reports_fix (F : Flags) (pos : List Expr) (kw : List (Nat × Expr)) (fields : List Field)
    (h : pos ≠ []) : (assignCallPos F pos kw fields).cats.fix = true := by
  cases pos with
  | nil => exact absurd rfl h
  | cons e rest => simp [assignCallPos, Flags.union, Flags.single]

/-- … and this is independent of the approved categories and of the values: the reported set is the
    keyword-only set plus fix -/
theorem pos_cats (F : Flags) (pos : List Expr) (kw : List (Nat × Expr)) (fields : List Field)
    (h : pos ≠ []) :
    (assignCallPos F pos kw fields).cats = (assignCall F kw fields).cats.union (Flags.single .fix) := by
  cases pos with
  | nil => exact absurd rfl h
  | cons e rest => simp [assignCallPos]

/-- without fix nothing about the positional arguments changes and the keywords are those of the
    keyword-only model -/
theorem pos_without_fix (F : Flags) (pos : List Expr) (kw : List (Nat × Expr)) (fields : List Field)
    (hF : F.fix = false) :
    (assignCallPos F pos kw fields).pos = pos ∧
    (assignCallPos F pos kw fields).kw = (assignCall F kw fields).kw := by
  simp [assignCallPos, hF]

/-- with fix every positional argument is gone -/
theorem pos_with_fix (F : Flags) (pos : List Expr) (kw : List (Nat × Expr)) (fields : List Field)
    (hF : F.fix = true) : (assignCallPos F pos kw fields).pos = [] := by
  simp [assignCallPos, hF]

/-- no positional arguments: exactly the keyword-only model -/
theorem pos_nil (F : Flags) (kw : List (Nat × Expr)) (fields : List Field) :
    (assignCallPos F [] kw fields).kw = (assignCall F kw fields).kw ∧
    (assignCallPos F [] kw fields).cats = (assignCall F kw fields).cats ∧
    (assignCallPos F [] kw fields).merged = (assignCall F kw fields).merged := by
  refine ⟨?_, ?_, rfl⟩
  · cases hF : F.fix <;> simp [assignCallPos, assignCall, hF]
  · simp [assignCallPos, union_empty_right]

/-- the value the comparison is answered with does not depend on how the arguments were written -/
theorem pos_merged (F : Flags) (pos : List Expr) (kw : List (Nat × Expr)) (fields : List Field) :
    (assignCallPos F pos kw fields).merged = (assignCall F kw fields).merged := rfl

/-! ### non-vacuity -/

section examples
open Ex

/-- `A(4, b=1)` against the new object `a=4, b=1`: the positional argument already has the right value -/
def posP : List Expr := [.leaf 0 true (.atom (.int 4))]
def kwP : List (Nat × Expr) := [(1, .leaf 1 true (.atom (.int 1)))]
def fieldsP : List Field := [(0, .atom (.int 4), false), (1, .atom (.int 1), false)]

/-- … fix is reported nevertheless (KF-C05-2), and nothing else -/
example : (assignCallPos {} posP kwP fieldsP).cats = Flags.single .fix := by
  simp [assignCallPos, assignCall, oldKeywords, lookupF, posP, kwP, fieldsP, inserts,
    assign_leaf, leafOut, pyEq, Atom.pyEq, Atom.num?,  Flags.union, Flags.single,
    Flags.empty, same]

/-- nothing approved: the call keeps its text -/
example : (assignCallPos {} posP kwP fieldsP).pos = posP ∧ (assignCallPos {} posP kwP fieldsP).kw = kwP := by
  simp [assignCallPos, assignCall, oldKeywords, lookupF, posP, kwP, fieldsP, inserts,
    assign_leaf, leafOut, pyEq, Atom.pyEq, Atom.num?,  same]

/-- fix approved: the positional argument is gone, `a` comes back as a keyword, `b` keeps its text -/
example : (assignCallPos fixOnly posP kwP fieldsP).pos = [] ∧
    (assignCallPos fixOnly posP kwP fieldsP).kw =
      [(0, .leaf 0 true (.atom (.int 4))), (1, .leaf 1 true (.atom (.int 1)))] := by
  simp [assignCallPos, assignCall, oldKeywords, lookupF, posP, kwP, fieldsP, inserts, weave, insAt,
    fixOnly, assign_leaf, leafOut, pyEq, Atom.pyEq, Atom.num?, canon,  same]

end examples

end ISnap.CallAssign
