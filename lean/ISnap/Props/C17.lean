import ISnap.Props.C14
/-
  C17 — what is recorded is the value at comparison time.

  Heap model: compared objects live in a heap `ref ↦ value`; the test interleaves comparisons
  (which hand the snapshot a *reference*) with in-place mutations.  `runH` is the model of the code:
  every comparison reads the heap at that moment and stores a copy (`clone`).
  `recorded_is_value_at_comparison_time`: the table after any schedule equals the table obtained by
  running the comparisons on the values the references held when compared — so mutations after or
  between assertions cannot alter what is written.  `unequal_copy_rejected`: a value whose deep copy
  is not equal is answered with a usage error and nothing is recorded.
-/
namespace ISnap
variable {V : Type}

inductive HEvent (V : Type) where
  | op (site : Nat) (key : Option V) (op : Op) (ref : Nat)   -- compare the object `ref` points to
  | mutate (ref : Nat) (v : V)                                   -- in-place mutation of that object
  | snap (site : Nat) (old : Option (OldArg V))

abbrev Heap (V : Type) := Nat → V

def Heap.set (h : Heap V) (r : Nat) (v : V) : Heap V := fun r' => if r' = r then v else h r'

/-- the model of the code on a heap: a comparison clones the current value of the object -/
def runH (o : Ops V) (f : Flags) (t : Table V) (h : Heap V) : List (HEvent V) → Table V
  | [] => t
  | .op k key op r :: es => runH o f (t.step o f (.op k key op (h r) true)).1 h es
  | .mutate r v :: es => runH o f t (h.set r v) es
  | .snap k old :: es => runH o f (t.step o f (.snap k old)).1 h es

/-- the comparisons with the value each object had at the moment it was compared -/
def resolve (h : Heap V) : List (HEvent V) → List (Event V)
  | [] => []
  | .op k key op r :: es => .op k key op (h r) true :: resolve h es
  | .mutate r v :: es => resolve (h.set r v) es
  | .snap k old :: es => .snap k old :: resolve h es

theorem recorded_is_value_at_comparison_time (o : Ops V) (f : Flags) (es : List (HEvent V))
    (t : Table V) (h : Heap V) :
    runH o f t h es = (Table.run o f t (resolve h es)).1 := by
  induction es generalizing t h with
  | nil => rfl
  | cons e es ih =>
    cases e with
    | op k key op r => simp [runH, resolve, Table.run, ih]
    | mutate r v => simp [runH, resolve, ih]
    | snap k old => simp [runH, resolve, Table.run, ih]

/-- mutations after the last comparison change nothing that will be written -/
theorem mutation_after_irrelevant (o : Ops V) (f : Flags) (es : List (HEvent V)) (t : Table V)
    (h : Heap V) (ms : List (Nat × V)) :
    runH o f t h (es ++ ms.map (fun m => .mutate m.1 m.2)) = runH o f t h es := by
  induction es generalizing t h with
  | nil =>
    induction ms generalizing h with
    | nil => rfl
    | cons m ms ih => simpa [runH] using ih _
  | cons e es ih =>
    cases e <;> simp [runH, ih]

/-- a value whose deep copy is not equal to it: usage error, nothing recorded -/
theorem unequal_copy_rejected (o : Ops V) (f : Flags) (s : Leaf V) (op : Op) (x : V)
    (hk : s.kind = .undecided) (hn : s.new = none) (hc : s.newC = none)
    (hsup : (s.step o f op x false).res ≠ .unsupported) :
    (s.step o f op x false).res = .usageError ∧
    (s.step o f op x false).st.new = none ∧ (s.step o f op x false).st.newC = none ∧
    (s.step o f op x false).di = 0 := by
  cases op <;> cases ho : s.old <;> (try rename_i a; cases a) <;>
    simp_all [Leaf.step, Op.kind]

/-- and every later extension of a recorded value goes through the same check -/
theorem unequal_copy_rejected_later (o : Ops V) (f : Flags) (s : Leaf V) (op : Op) (x : V)
    (hr : (s.step o f op x false).res = .usageError) :
    (s.step o f op x false).st.new = s.new ∧ (s.step o f op x false).st.newC = s.newC := by
  cases op <;> cases ho : s.old <;> (try (rename_i a; cases a)) <;> cases hn : s.new <;>
    cases hc : s.newC <;> cases hkk : s.kind <;>
    simp [Leaf.step, ho, hn, hc, hkk, Op.kind] at hr ⊢ <;>
    (try split at hr) <;> simp_all

/-! non-vacuity: mutate after comparing — the recorded value is the one compared -/
example : let o : Ops Int := { eqv := (· == ·), le := (· ≤ ·), same := (· == ·) }
    ((runH o { create := true } ({} : Table Int) (fun _ => 7)
      [.snap 0 none, .op 0 none .eq 0, .mutate 0 99]).lookup 0).map (·.top.new) = some (some 7) := by
  decide

end ISnap
