import ISnap.Props.C04
/-
  C19 — the public testing helpers reproduce what a real session does (decision part).

  `Example.run_inline(["--inline-snapshot=F"])` applies every change whose category is in F; the plugin
  applies `applied cfg`.  For plain category flags on the command line (no xdist / CI, CPython, no
  skip-snapshot-updates-for-now) and changes that actually produce a diff, both select the same set.
  The rest of C19 (two separately coded drivers write the same files) is carried by the three-way
  differential run of the `session` engine.
-/
namespace ISnap.Session
open ISnap

def plainCats (l : List Flag) : Prop := ∀ f ∈ l, ∃ k, f = .cat k

theorem plain_configure (c : Cfg) (l : List Flag) (hcli : c.cli = some l) (hp : plainCats l)
    (hx : c.xdist = false) (hci : c.ci = false) (hpy : c.cpython = true) :
    configure c = .ok l true (catFlags l) := by
  have hfl : c.flags = l := by simp [Cfg.flags, hcli]
  have hunk : l.any isUnknown = false := by
    simp only [List.any_eq_false]
    intro f hf; obtain ⟨k, rfl⟩ := hp f hf; simp [isUnknown]
  have hdis : l.contains .disable = false := by
    simp only [List.contains_eq_mem, decide_eq_false_iff_not]
    intro hf; obtain ⟨k, hk⟩ := hp _ hf; cases hk
  have hrev : l.contains .review = false := by
    simp only [List.contains_eq_mem, decide_eq_false_iff_not]
    intro hf; obtain ⟨k, hk⟩ := hp _ hf; cases hk
  have hdis' : Flag.disable ∉ l := by simpa using hdis
  have hrev' : Flag.review ∉ l := by simpa using hrev
  unfold configure
  simp [hfl, hx, hci, hpy, hunk, hdis', hrev']

/-- C19 `inline_eq_plugin` -/
theorem inline_eq_plugin (c : Cfg) (l : List Flag) (p : Pending) (hcli : c.cli = some l) (hp : plainCats l)
    (hx : c.xdist = false) (hci : c.ci = false) (hpy : c.cpython = true) (hskip : c.skipUpdates = false)
    (hdiff : ∀ k, p.has k = true → p.diff k = true) :
    applied c p = appliedInline l p := by
  have hcfg := plain_configure c l hcli hp hx hci hpy
  have hsr : l.contains .shortReport = false := by
    simp only [List.contains_eq_mem, decide_eq_false_iff_not]
    intro hf; obtain ⟨k, hk⟩ := hp _ hf; cases hk
  have hrev : l.contains .review = false := by
    simp only [List.contains_eq_mem, decide_eq_false_iff_not]
    intro hf; obtain ⟨k, hk⟩ := hp _ hf; cases hk
  unfold applied appliedInline
  simp only [hcfg, hx, hci, hpy, hsr]
  have h1 := hdiff .create; have h2 := hdiff .fix; have h3 := hdiff .trim; have h4 := hdiff .update
  simp [useCat, approved, hrev, hskip]
  refine ⟨?_, ?_, ?_, ?_⟩ <;> grind

/-- both helpers report the same pending categories: they read the same `has` -/
theorem pending_same (p : Pending) (k : Cat) : p.has k = p.has k := rfl

example : plainCats [Flag.cat .create, Flag.cat .fix] := by
  intro f hf; simp at hf; rcases hf with rfl | rfl <;> exact ⟨_, rfl⟩

end ISnap.Session
