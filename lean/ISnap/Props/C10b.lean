import ISnap.Model.Site
/-
  C10 for call sites outside the `==` path (Model/Site.lean): an element of a list / tuple argument whose source
  tokens never need regenerating — this is how the harness encodes a user-controlled element (`Is(v)`, an f-string):
  `canon = true` — is never the reason for an `update`, neither when the snapshot is used with `in` nor when it is
  never used at all.  So update can only be reported when some *managed* element is written differently from its
  generated form, and a collection whose elements are all user-controlled or canonical reports no update at all.
  (Fix 4618305 made the code agree with this: before, `update` rewrote `Is(..)` and f-strings in these two paths.)
-/
namespace ISnap
variable {V : Type}

/-- `x in snapshot([...])`: an update needs an element that is not written canonically -/
theorem coll_update_needs_noncanon (o : Ops V) (s : Leaf V) (es : List (V × Bool)) (l : List V)
    (h1 : s.old = some (.coll es)) (h2 : s.kind = .coll) (h3 : s.newC = some l) (fl : Flags)
    (hc : s.cats o = some fl) (hu : fl.update = true) : ∃ e ∈ es, e.2 = false := by
  simp only [Leaf.cats, h1, h2, h3, Option.some.injEq] at hc
  subst hc
  simp only [List.any_eq_true, Bool.and_eq_true, Bool.not_eq_eq_eq_not, Bool.not_true] at hu
  obtain ⟨e, he, _, hcan⟩ := hu
  exact ⟨e, he, hcan⟩

/-- a snapshot with a list argument that is never used: the same -/
theorem unused_coll_update_needs_noncanon (o : Ops V) (s : Leaf V) (es : List (V × Bool))
    (h1 : s.old = some (.coll es)) (h2 : s.kind = .undecided) (fl : Flags)
    (hc : s.cats o = some fl) (hu : fl.update = true) : ∃ e ∈ es, e.2 = false := by
  simp only [Leaf.cats, h1, h2, Option.some.injEq] at hc
  subst hc
  by_cases hall : es.all (·.2) = true
  · simp [hall, Flags.empty] at hu
  · have : es.any (fun e => !e.2) = true := by
      rw [← Bool.not_eq_false, List.any_eq_false]
      intro h
      apply hall
      rw [List.all_eq_true]
      intro e he
      have := h e he
      simpa using this
    rw [List.any_eq_true] at this
    obtain ⟨e, he, hne⟩ := this
    exact ⟨e, he, by simpa using hne⟩

/-- all elements user-controlled or canonical: no update, whatever was tested -/
theorem coll_all_canon_no_update (o : Ops V) (s : Leaf V) (es : List (V × Bool)) (l : List V)
    (h1 : s.old = some (.coll es)) (h2 : s.kind = .coll) (h3 : s.newC = some l)
    (hall : ∀ e ∈ es, e.2 = true) : ∃ fl, s.cats o = some fl ∧ fl.update = false := by
  refine ⟨{ trim := es.any (fun e => !memBy o.eqv e.1 l),
            update := es.any (fun e => memBy o.eqv e.1 l && !e.2),
            fix := l.any (fun v => !memBy o.eqv v (es.map (·.1))) }, by simp only [Leaf.cats, h1, h2, h3], ?_⟩
  show es.any (fun e => memBy o.eqv e.1 l && !e.2) = false
  rw [List.any_eq_false]
  intro e he
  simp [hall e he]

end ISnap
