import ISnap.Model.Table
/-
  C06 — without approval, snapshot(x) behaves like x.

  Full statement (site level): for every stored argument, every flag set without create / fix /
  update (i.e. ∅ or {trim}), every sequence of comparisons of one operation kind, the results are
  those of the same comparisons on the plain value; a second operation kind raises TypeError and
  leaves the state alone.  Scope as in the property: copyable compared values (`cloneOk`),
  comparisons that do not raise on the plain value (`plainOp … ≠ unsupported`).
-/
namespace ISnap
variable {V : Type}

/-- one comparison on a decided-or-fresh site: result is the plain result, `old` untouched -/
theorem transparent_step (o : Ops V) (f : Flags) (hf : f.cfu = false) (s : Leaf V) (a : OldArg V)
    (op : Op) (x : V) (hold : s.old = some a) (hk : s.kind = .undecided ∨ s.kind = op.kind)
    (hp : plainOp o a op x ≠ .unsupported) :
    (s.step o f op x true).res = plainOp o a op x ∧
    (s.step o f op x true).st.old = some a ∧
    (s.step o f op x true).st.kind = op.kind ∧
    (s.step o f op x true).dm = 0 := by
  cases a with
  | leaf v c =>
    cases op with
    | eq =>
      cases hn : s.new <;> rcases hk with h | h <;>
        simp [Leaf.step, h, hold, hn, ret, hf, plainOp, Op.kind]
    | ge =>
      cases hn : s.new <;> rcases hk with h | h <;>
        simp [Leaf.step, h, hold, hn, ret, hf, plainOp, Op.kind, cmpK]
    | le =>
      cases hn : s.new <;> rcases hk with h | h <;>
        simp [Leaf.step, h, hold, hn, ret, hf, plainOp, Op.kind, cmpK]
    | isin => simp [plainOp] at hp
  | coll es =>
    cases op with
    | isin =>
      cases hn : s.newC <;> rcases hk with h | h <;>
        simp [Leaf.step, h, hold, hn, ret, hf, plainOp, Op.kind]
    | eq => simp [plainOp] at hp
    | ge => simp [plainOp] at hp
    | le => simp [plainOp] at hp
  | dict es => cases op <;> simp [plainOp] at hp

/-- running a whole sequence of comparisons of one kind -/
def Leaf.runOps (o : Ops V) (f : Flags) (s : Leaf V) (op : Op) : List V → Leaf V × List Res
  | [] => (s, [])
  | x :: xs =>
    let r := s.step o f op x true
    let (s', rs) := Leaf.runOps o f r.st op xs
    (s', r.res :: rs)

/-- C06 `transparent`: every result equals the plain comparison, for every observation sequence. -/
theorem transparent (o : Ops V) (f : Flags) (hf : f.cfu = false) (a : OldArg V) (op : Op)
    (xs : List V) (s : Leaf V) (hold : s.old = some a)
    (hk : s.kind = .undecided ∨ s.kind = op.kind)
    (hp : ∀ x ∈ xs, plainOp o a op x ≠ .unsupported) :
    (s.runOps o f op xs).2 = xs.map (plainOp o a op) := by
  induction xs generalizing s with
  | nil => rfl
  | cons x xs ih =>
    have h := transparent_step o f hf s a op x hold hk (hp x (by simp))
    simp only [Leaf.runOps, List.map_cons]
    rw [ih (s.step o f op x true).st h.2.1 (Or.inr h.2.2.1) (fun y hy => hp y (by simp [hy]))]
    rw [h.1]

/-- C06 `mixed_ops_type_error`: a second operation kind raises TypeError, state unchanged. -/
theorem mixed_ops_type_error (o : Ops V) (f : Flags) (s : Leaf V) (op : Op) (x : V) (c : Bool)
    (h1 : s.kind ≠ .undecided) (h2 : s.kind ≠ op.kind) :
    (s.step o f op x c).res = .typeError ∧ (s.step o f op x c).st = s ∧
    (s.step o f op x c).dm = 0 ∧ (s.step o f op x c).di = 0 := by
  simp [Leaf.step, h1, h2]

/-- sub-snapshots: `s[k] == x` with no approval answers like `old[k] == x` -/
theorem transparent_getitem (o : Ops V) (f : Flags) (hf : f.cfu = false) (s : Site V)
    (es : List (V × V × Bool)) (k v : V) (c : Bool) (op : Op) (x : V)
    (hold : s.top.old = some (.dict es)) (hkind : s.top.kind = .undecided ∨ s.top.kind = .dict)
    (hfresh : lookupChild o.eqv k s.children = none)
    (hentry : lookupEntry o.eqv k es = some (v, c))
    (hp : plainOp o (.leaf v c) op x ≠ .unsupported) :
    (s.step o f (some k) op x true).res = plainOp o (.leaf v c) op x := by
  have hk' : ¬ (s.top.kind ≠ .undecided ∧ s.top.kind ≠ .dict) := by
    rcases hkind with h | h <;> simp [h]
  have h := transparent_step o f hf { old := some (.leaf v c) } (.leaf v c) op x rfl (Or.inl rfl) hp
  simp [Site.step, Site.getItem, hk', hold, hfresh, hentry, h.1]

/-! non-vacuity: a concrete site meeting the hypotheses, and the theorem's content on it -/
example : (({ old := some (.leaf (5 : Int) true) } : Leaf Int).runOps
    { eqv := (· == ·), le := (· ≤ ·), same := (· == ·) } {} .ge [3, 9]).2 = [.val true, .val false] := by
  decide

end ISnap
