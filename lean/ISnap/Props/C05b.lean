import ISnap.Props.C05
/-
  C05 (second part) — the bound categories for ONE observed comparison, for EVERY `Ops V`.

  `Props/C05.lean` states what fix / trim mean for a `<=` / `>=` site over an arbitrary observation
  sequence; those theorems need a total order (`TotalLe o`).  For a site `snapshot(v)` that sees exactly
  one comparison `x <= s` / `x >= s` no law about `le` is needed at all: `le` may be a partial order
  (set inclusion), a preorder, or any relation.
    * fix is reported exactly when the comparison against the stored value fails;
    * trim is only ever reported for a comparison that holds (trim removes slack, it never repairs);
    * for incomparable values (neither `v ≤ x` nor `x ≤ v`) the category is fix and not trim.
-/
namespace ISnap
variable {V : Type}

section single
variable (o : Ops V) (f : Flags) (op : Op) (hop : isMM op) (v : V) (c : Bool) (x : V)

include hop in
/-- what one `<=` / `>=` comparison leaves (no hypothesis on `o`): the observed value is recorded -/
theorem single_run_spec :
    (afterObs o f (some (.leaf v c)) op [x]).new = some x ∧
    (afterObs o f (some (.leaf v c)) op [x]).old = some (.leaf v c) ∧
    (afterObs o f (some (.leaf v c)) op [x]).kind = op.kind := by
  rcases hop with rfl | rfl <;> simp [afterObs, Leaf.runOps, Leaf.step, Op.kind, ret]

include hop in
/-- the categories of a bound site after one comparison, for every `Ops V` -/
theorem single_cats :
    (afterObs o f (some (.leaf v c)) op [x]).cats o = some (mmFlags o op.kind v c x) := by
  obtain ⟨hn, hold, hk⟩ := single_run_spec o f op hop v c x
  rcases kind_mm op hop with hk' | hk' <;> simp [Leaf.cats, hold, hk, hk', hn, mmFlags] <;> rfl

include hop in
/-- one observation, any relation: fix is reported exactly when the comparison against the stored
    value fails -/
theorem single_fix_iff :
    ∃ fl, (afterObs o f (some (.leaf v c)) op [x]).cats o = some fl ∧
      (fl.fix = true ↔ plainOp o (.leaf v c) op x = .val false) := by
  refine ⟨_, single_cats o f op hop v c x, ?_⟩
  simp [plain_bound o op v c x hop, mmFlags_fix]

include hop in
/-- … and trim is never reported for a comparison that fails (trim only removes slack) -/
theorem single_trim_only_if_holds :
    ∃ fl, (afterObs o f (some (.leaf v c)) op [x]).cats o = some fl ∧
      (fl.trim = true → plainOp o (.leaf v c) op x = .val true) := by
  refine ⟨_, single_cats o f op hop v c x, ?_⟩
  simp only [plain_bound o op v c x hop, mmFlags_trim, Bool.and_eq_true, Res.val.injEq]
  exact fun h => h.1

include hop in
/-- incomparable values (neither `v ≤ x` nor `x ≤ v`): the category is fix, not trim -/
theorem single_incomparable_is_fix (h1 : o.le v x = false) (h2 : o.le x v = false) :
    ∃ fl, (afterObs o f (some (.leaf v c)) op [x]).cats o = some fl ∧ fl.fix = true ∧ fl.trim = false := by
  refine ⟨_, single_cats o f op hop v c x, ?_⟩
  rcases hop with rfl | rfl <;> simp [mmFlags_fix, mmFlags_trim, cmpK, Op.kind, h1, h2]

include hop in
/-- corollary: fix and trim are never reported together, and with a failing comparison the only
    category is fix (no update, no create) -/
theorem single_fails_exactly_fix (hfail : plainOp o (.leaf v c) op x = .val false) :
    (afterObs o f (some (.leaf v c)) op [x]).cats o = some (Flags.single .fix) := by
  rw [single_cats o f op hop v c x]
  rw [plain_bound o op v c x hop] at hfail
  simp only [Res.val.injEq] at hfail
  simp [mmFlags, minMaxFlag, hfail]

end single

/-! ### non-vacuity: a partial order that is not total -/

/-- bit masks ordered by inclusion -/
def subsetOps : Ops Nat :=
  { eqv := fun a b => a == b, le := fun a b => (a &&& b) == a, same := fun a b => a == b }

/-- `{0,1}` and `{2}` are incomparable: `subsetOps` is not a total order -/
example : subsetOps.le 3 4 = false ∧ subsetOps.le 4 3 = false := by decide

example : ¬ TotalLe subsetOps := fun h => by
  have := h.total 3 4
  revert this; decide

/-- `{2} <= snapshot({0,1})`: the reported categories are exactly `{fix}` -/
example : (afterObs subsetOps {} (some (.leaf 3 true)) .ge [4]).cats subsetOps = some { fix := true } := by
  decide

example : (afterObs subsetOps {} (some (.leaf 3 true)) .le [4]).cats subsetOps = some { fix := true } := by
  decide

/-- the hypotheses of `single_incomparable_is_fix` are met by this instance -/
example : ∃ fl, (afterObs subsetOps {} (some (.leaf 3 true)) .ge [4]).cats subsetOps = some fl ∧
    fl.fix = true ∧ fl.trim = false :=
  single_incomparable_is_fix subsetOps {} .ge (Or.inl rfl) 3 true 4 (by decide) (by decide)

/-- comparable and slack: `{0} <= snapshot({0,1})` reports trim, and the comparison holds -/
example : (afterObs subsetOps {} (some (.leaf 3 true)) .ge [1]).cats subsetOps = some { trim := true } := by
  decide

end ISnap
