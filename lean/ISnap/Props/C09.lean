import ISnap.Lemmas.AssignLemmas
/-
  C09 — the order in which categories are approved does not matter: two runs in a row (against the
  same observed value) give the expression of one run with the union of the approved categories.
-/
namespace ISnap.Assign
open ISnap

theorem run_compose (F₁ F₂ : Flags) (e : Expr) (n : Val) (he : Managed e) (hn : ValOk n)
    (hwe : WfExpr e) (hwn : WfVal n) : run F₂ (run F₁ e n) n = run (F₁.union F₂) e n :=
  compose_gen F₁ F₂ e (ge_of he hwe) n (gv_of hn hwn)

/-- `fix` then `update`, `update` then `fix`, and both at once give the same expression -/
theorem order_independent (e : Expr) (n : Val) (he : Managed e) (hn : ValOk n) (hwe : WfExpr e)
    (hwn : WfVal n) :
    run (Flags.single .update) (run (Flags.single .fix) e n) n =
      run ((Flags.single .fix).union (Flags.single .update)) e n ∧
    run (Flags.single .fix) (run (Flags.single .update) e n) n =
      run ((Flags.single .fix).union (Flags.single .update)) e n := by
  refine ⟨run_compose _ _ e n he hn hwe hwn, ?_⟩
  rw [run_compose _ _ e n he hn hwe hwn]; rfl

/-- any two orders of any two sets of categories agree -/
theorem run_commute (F₁ F₂ : Flags) (e : Expr) (n : Val) (he : Managed e) (hn : ValOk n)
    (hwe : WfExpr e) (hwn : WfVal n) : run F₂ (run F₁ e n) n = run F₁ (run F₂ e n) n := by
  rw [run_compose _ _ e n he hn hwe hwn, run_compose _ _ e n he hn hwe hwn]
  congr 1
  cases F₁; cases F₂; simp [Flags.union, Bool.or_comm]

/-! ### non-vacuity -/

section examples
open Ex

example : run updateOnly (run fixOnly e0 n0) n0 = run (fixOnly.union updateOnly) e0 n0 :=
  run_compose _ _ _ _ (by decide) (by decide) (by decide) (by decide)
example : run fixOnly (run updateOnly e0 n0) n0 = run updateOnly (run fixOnly e0 n0) n0 :=
  run_commute _ _ _ _ (by decide) (by decide) (by decide) (by decide)
/-- `e0` against `n0` needs both categories, so the statement is not about trivial runs -/
example : pyEq (eval e0) n0 = false := by decide

end examples

end ISnap.Assign
