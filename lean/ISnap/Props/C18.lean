import ISnap.Lemmas.SiteRun
import ISnap.Props.C03
/-
  C18 — the end-of-session processing completes.

  `Leaf.cats o s` / `Site.cats o s : Option Flags` is `none` exactly where the real code would raise while it
  collects the changes of a call site at the end of the session.  Since the fix (a Min / Max / Collection value
  whose only comparison could not copy its value reports no change instead of calling
  `value_to_token(undefined)`), `none` is left only for shape mismatches between the argument and the kind of
  the value, and those are unreachable:

    * `cats_ne_none_iff`      `Leaf.cats ≠ none ↔ Leaf.Ok` (the kind opFits the argument)
    * `ok_step`               every `Leaf.step` (any operation, value, `cloneOk`) keeps `Leaf.Ok`
    * `finish_total_leaf`     every leaf state reachable from a fresh site has `cats ≠ none`
    * `finish_total_site`     the same for sites with sub-snapshots, any `Site.step` / `Site.touch` sequence
    * `finish_total_table`    the same for every entry of the table after any `Table.run o f {} evs`
    * `failed_clone_now_total` the old crash witness (`snapshot(5) <= x`, `x` not copyable) now yields
                              `some Flags.empty`
    * `replacements_disjoint_means_total`  `new_code` produces a text iff `_check` accepts the sorted replacements
-/
namespace ISnap
variable {V : Type}

/-! ## leaf sites -/

/-- the kind of the value opFits the argument it was created with: the states in which collecting the changes of
    a leaf site does not raise -/
def Leaf.Ok (s : Leaf V) : Prop :=
  match s.old with
  | none => True
  | some (.leaf _ _) => s.kind = .undecided ∨ s.kind = .eq ∨ s.kind = .mn ∨ s.kind = .mx
  | some (.coll _) => s.kind = .undecided ∨ s.kind = .coll
  | some (.dict _) => s.kind = .undecided

theorem cats_ne_none_iff (o : Ops V) (s : Leaf V) : s.cats o ≠ none ↔ s.Ok := by
  obtain ⟨old, kind, new, newC⟩ := s
  cases old with
  | none => simp [Leaf.cats, Leaf.Ok]
  | some a =>
    cases a <;> cases kind <;> cases new <;> cases newC <;> simp [Leaf.cats, Leaf.Ok]

/-- collecting raises exactly for a shape mismatch -/
theorem cats_eq_none_iff (o : Ops V) (s : Leaf V) : s.cats o = none ↔ ¬ s.Ok := by
  rw [← cats_ne_none_iff o s]; exact ⟨fun h h' => h' h, fun h => Classical.not_not.1 h⟩

theorem ok_undecided (s : Leaf V) (h : s.kind = .undecided) : s.Ok := by
  unfold Leaf.Ok
  split
  · trivial
  · exact Or.inl h
  · exact Or.inl h
  · exact h

theorem cats_total_undecided (o : Ops V) (s : Leaf V) (h : s.kind = .undecided) : s.cats o ≠ none :=
  (cats_ne_none_iff o s).2 (ok_undecided s h)

/-- no operation changes the argument the site was created with -/
theorem step_old (o : Ops V) (f : Flags) (s : Leaf V) (op : Op) (x : V) (c : Bool) :
    (s.step o f op x c).st.old = s.old := by
  obtain ⟨old, kind, new, newC⟩ := s
  unfold Leaf.step
  split
  · rfl
  · cases op <;> simp only [] <;> (repeat' split) <;> rfl

/-- the argument has the shape the operation needs -/
def opFits : Option (OldArg V) → Op → Prop
  | none, _ => True
  | some (.leaf _ _), .isin => False
  | some (.leaf _ _), _ => True
  | some (.coll _), .isin => True
  | _, _ => False

/-- an operation leaves the kind as it is, or sets the kind of the operation — the latter only when the
    argument has the shape the operation needs -/
theorem step_kind (o : Ops V) (f : Flags) (s : Leaf V) (op : Op) (x : V) (c : Bool) :
    (s.step o f op x c).st.kind = s.kind ∨
      ((s.step o f op x c).st.kind = op.kind ∧ opFits s.old op) := by
  obtain ⟨old, kind, new, newC⟩ := s
  rcases old with _ | (⟨v, cn⟩ | es | es) <;> cases op <;> simp only [Leaf.step, opFits] <;>
    (repeat' split) <;>
    first
      | exact Or.inl rfl
      | exact Or.inr ⟨rfl, trivial⟩

/-- Every comparison — fitting or not, copyable value or not — keeps `Ok`. -/
theorem ok_step (o : Ops V) (f : Flags) (s : Leaf V) (op : Op) (x : V) (c : Bool) (hok : s.Ok) :
    (s.step o f op x c).st.Ok := by
  have hold := step_old o f s op x c
  rcases step_kind o f s op x c with hk | ⟨hk, hfit⟩
  · unfold Leaf.Ok at hok ⊢
    rw [hold, hk]; exact hok
  · unfold Leaf.Ok
    rw [hold, hk]
    cases hso : s.old with
    | none => trivial
    | some a =>
      rw [hso] at hfit
      cases a <;> cases op <;> simp [Op.kind, opFits] at hfit ⊢

theorem step_kind_ne_dict (o : Ops V) (f : Flags) (s : Leaf V) (op : Op) (x : V) (c : Bool)
    (h : s.kind ≠ .dict) : (s.step o f op x c).st.kind ≠ .dict := by
  rcases step_kind o f s op x c with hk | ⟨hk, _⟩
  · rw [hk]; exact h
  · rw [hk]; cases op <;> simp [Op.kind]

/-- arbitrary comparisons (any kind, copyable or not) -/
def Leaf.runAny (o : Ops V) (f : Flags) (s : Leaf V) : List (Op × V × Bool) → Leaf V × List Res
  | [] => (s, [])
  | (op, x, c) :: rest =>
    let r := s.step o f op x c
    let (s', rs) := Leaf.runAny o f r.st rest
    (s', r.res :: rs)

theorem ok_runAny (o : Ops V) (f : Flags) (es : List (Op × V × Bool)) (s : Leaf V) (hok : s.Ok) :
    (s.runAny o f es).1.Ok := by
  induction es generalizing s with
  | nil => exact hok
  | cons e es ih =>
    obtain ⟨op, x, c⟩ := e
    simp only [Leaf.runAny]
    exact ih _ (ok_step o f s op x c hok)

/-- 1. Whatever the tests did with a `snapshot(...)` call — any operations, any values, copyable or not —
    its changes can be collected at the end of the session. -/
theorem finish_total_leaf (o : Ops V) (f : Flags) (old : Option (OldArg V)) (es : List (Op × V × Bool)) :
    ((({ old := old } : Leaf V).runAny o f es).1).cats o ≠ none :=
  (cats_ne_none_iff o _).2 (ok_runAny o f es _ (ok_undecided _ rfl))

theorem ok_runOps (o : Ops V) (f : Flags) (op : Op) (xs : List V) (s : Leaf V) (hok : s.Ok) :
    (s.runOps o f op xs).1.Ok := by
  induction xs generalizing s with
  | nil => exact hok
  | cons x xs ih =>
    simp only [Leaf.runOps]
    exact ih _ (ok_step o f s op x true hok)

theorem cats_total_fresh (o : Ops V) (f : Flags) (old : Option (OldArg V)) (op : Op) (xs : List V) :
    ((({ old := old } : Leaf V).runOps o f op xs).1).cats o ≠ none :=
  (cats_ne_none_iff o _).2 (ok_runOps o f op xs _ (ok_undecided _ rfl))

/-- non-vacuity of the fix: `snapshot(5) <= x` with an `x` whose deep copy is not equal to it raises
    `UsageError` in the test, leaves a `MinValue` with `_new_value = undefined` — and that state now reports
    "no change" instead of raising. -/
theorem failed_clone_now_total :
    let o : Ops Int := { eqv := (· == ·), le := (· ≤ ·), same := (· == ·) }
    let r := ({ old := some (.leaf 5 true) } : Leaf Int).step o {} .le 7 false
    r.res = .usageError ∧ r.st.kind = .mn ∧ r.st.new = none ∧ r.st.cats o = some Flags.empty := by
  decide

/-! ## sites with sub-snapshots -/

/-- the reachable-state invariant of a site -/
structure Site.Ok (s : Site V) : Prop where
  top_ok   : s.top.kind ≠ .dict → s.top.Ok
  top_dict : s.top.kind = .dict → s.top.old = none ∨ ∃ es, s.top.old = some (.dict es)
  children : ∀ p ∈ s.children, p.2.Ok

theorem site_ok_ofOld (old : Option (OldArg V)) : (Site.ofOld old).Ok where
  top_ok := fun _ => ok_undecided _ rfl
  top_dict := fun h => by simp [Site.ofOld] at h
  children := fun p hp => by simp [Site.ofOld] at hp

theorem lookupChild_mem {eqv : V → V → Bool} {k : V} {l : List (V × Leaf V)} {c : Leaf V}
    (h : lookupChild eqv k l = some c) : ∃ p ∈ l, p.2 = c := by
  induction l with
  | nil => cases h
  | cons p rest ih =>
    obtain ⟨k', c'⟩ := p
    simp only [lookupChild] at h
    split at h
    · cases h; exact ⟨_, List.mem_cons_self, rfl⟩
    · obtain ⟨p, hp, hpc⟩ := ih h
      exact ⟨p, List.mem_cons_of_mem _ hp, hpc⟩

theorem mem_setChild {eqv : V → V → Bool} {k : V} {c : Leaf V} {l : List (V × Leaf V)} {p : V × Leaf V}
    (h : p ∈ setChild eqv k c l) : p ∈ l ∨ p.2 = c := by
  induction l with
  | nil =>
    simp only [setChild, List.mem_singleton] at h
    exact Or.inr (by rw [h])
  | cons q rest ih =>
    obtain ⟨k', c'⟩ := q
    simp only [setChild] at h
    split at h
    · rcases List.mem_cons.1 h with h | h
      · exact Or.inr (by rw [h])
      · exact Or.inl (List.mem_cons_of_mem _ h)
    · rcases List.mem_cons.1 h with h | h
      · exact Or.inl (by rw [h]; exact List.mem_cons_self)
      · rcases ih h with h | h
        · exact Or.inl (List.mem_cons_of_mem _ h)
        · exact Or.inr h

/-- what a successful `s[key]` returns -/
theorem getItem_ok (o : Ops V) (s : Site V) (k : V) (s' : Site V) (c : Leaf V) (dm : Nat)
    (h : s.getItem o k = .ok (s', c, dm)) (hok : s.Ok) : s'.Ok ∧ c.Ok := by
  unfold Site.getItem at h
  split at h
  · cases h
  · split at h
    · cases h
    · cases h
    · rename_i hold
      split at h
      · rename_i c0 hl
        cases h
        obtain ⟨p, hp, hpc⟩ := lookupChild_mem hl
        exact ⟨⟨fun hk => absurd rfl hk, fun _ => Or.inl hold, hok.children⟩, hpc ▸ hok.children p hp⟩
      · cases h
        refine ⟨⟨fun hk => absurd rfl hk, fun _ => Or.inl hold, ?_⟩, ok_undecided _ rfl⟩
        intro p hp
        rcases List.mem_append.1 hp with hp | hp
        · exact hok.children p hp
        · rw [List.mem_singleton.1 hp]; exact ok_undecided _ rfl
    · rename_i es hold
      split at h
      · rename_i c0 hl
        cases h
        obtain ⟨p, hp, hpc⟩ := lookupChild_mem hl
        exact ⟨⟨fun hk => absurd rfl hk, fun _ => Or.inr ⟨es, hold⟩, hok.children⟩,
          hpc ▸ hok.children p hp⟩
      · cases h
        refine ⟨⟨fun hk => absurd rfl hk, fun _ => Or.inr ⟨es, hold⟩, ?_⟩, ok_undecided _ rfl⟩
        intro p hp
        rcases List.mem_append.1 hp with hp | hp
        · exact hok.children p hp
        · rw [List.mem_singleton.1 hp]; exact ok_undecided _ rfl

theorem site_ok_step (o : Ops V) (f : Flags) (s : Site V) (key : Option V) (op : Op) (x : V) (c : Bool)
    (hok : s.Ok) : (s.step o f key op x c).st.Ok := by
  cases key with
  | none =>
    simp only [Site.step]
    split
    · exact hok
    · rename_i hk
      exact ⟨fun _ => ok_step o f _ op x c (hok.top_ok hk),
        fun h => absurd h (step_kind_ne_dict o f _ op x c hk), hok.children⟩
  | some k =>
    simp only [Site.step]
    split
    · exact hok
    · rename_i s' ch dm hg
      obtain ⟨hs', hch⟩ := getItem_ok o s k s' ch dm hg hok
      refine ⟨hs'.top_ok, hs'.top_dict, ?_⟩
      intro p hp
      rcases mem_setChild hp with hp | hp
      · exact hs'.children p hp
      · rw [hp]; exact ok_step o f ch op x c hch

theorem site_ok_touch (o : Ops V) (s : Site V) (k : V) (hok : s.Ok) : (s.touch o k).st.Ok := by
  simp only [Site.touch]
  split
  · exact hok
  · rename_i s' ch dm hg
    exact (getItem_ok o s k s' ch dm hg hok).1

theorem foldl_some_ne_none {α : Type} (g : Option Flags → α → Option Flags)
    (hg : ∀ a e, ∃ b, g (some a) e = some b) (es : List α) (a : Flags) :
    es.foldl g (some a) ≠ none := by
  induction es generalizing a with
  | nil => simp
  | cons e es ih =>
    rw [List.foldl_cons]
    obtain ⟨b, hb⟩ := hg a e
    rw [hb]; exact ih b

theorem unionOpt_some_ne_none (y : Option Flags) (x : Flags) (h : y ≠ none) : unionOpt y (some x) ≠ none := by
  cases y with
  | none => exact absurd rfl h
  | some a => simp [unionOpt]

theorem site_cats_ne_none (o : Ops V) (s : Site V) (hok : s.Ok) : s.cats o ≠ none := by
  unfold Site.cats
  split
  · rename_i hk
    exact (cats_ne_none_iff o _).2 (hok.top_ok hk)
  · rename_i hk
    have hk : s.top.kind = .dict := Classical.not_not.1 hk
    rcases hok.top_dict hk with ho | ⟨es, ho⟩
    · rw [ho]; simp
    · rw [ho]
      simp only
      refine unionOpt_some_ne_none _ _ (foldl_some_ne_none _ ?_ es _)
      intro a e
      split
      · rename_i c hl
        obtain ⟨p, hp, hpc⟩ := lookupChild_mem hl
        obtain ⟨fl, hfl⟩ :=
          Option.ne_none_iff_exists'.1 ((cats_ne_none_iff o c).2 (hpc ▸ hok.children p hp))
        exact ⟨_, by rw [hfl]; rfl⟩
      · exact ⟨_, rfl⟩

/-- what a test can do with one `snapshot(...)` call site -/
inductive SiteAct (V : Type) where
  | op (key : Option V) (op : Op) (x : V) (cloneOk : Bool)
  | touch (key : V)

def Site.act (o : Ops V) (f : Flags) (s : Site V) : SiteAct V → Site V
  | .op key op x c => (s.step o f key op x c).st
  | .touch k => (s.touch o k).st

def Site.runActs (o : Ops V) (f : Flags) (s : Site V) (as : List (SiteAct V)) : Site V :=
  as.foldl (Site.act o f) s

theorem site_ok_runActs (o : Ops V) (f : Flags) (as : List (SiteAct V)) (s : Site V) (hok : s.Ok) :
    (s.runActs o f as).Ok := by
  induction as generalizing s with
  | nil => exact hok
  | cons a as ih =>
    simp only [Site.runActs, List.foldl_cons]
    apply ih
    cases a with
    | op key op x c => exact site_ok_step o f s key op x c hok
    | touch k => exact site_ok_touch o s k hok

/-- 2. The same for a site with sub-snapshots: after any sequence of operations on the site or on `s[key]`
    and of bare `s[key]` accesses, the changes of the site can be collected. -/
theorem finish_total_site (o : Ops V) (f : Flags) (old : Option (OldArg V)) (as : List (SiteAct V)) :
    ((Site.ofOld old).runActs o f as).cats o ≠ none :=
  site_cats_ne_none o _ (site_ok_runActs o f as _ (site_ok_ofOld old))

/-! ## the table -/

def Table.Ok (t : Table V) : Prop := ∀ p ∈ t.sites, p.2.Ok

theorem mem_setSite {k : Nat} {s : Site V} {l : List (Nat × Site V)} {p : Nat × Site V}
    (h : p ∈ setSite k s l) : p ∈ l ∨ p.2 = s := by
  induction l with
  | nil =>
    simp only [setSite, List.mem_singleton] at h
    exact Or.inr (by rw [h])
  | cons q rest ih =>
    obtain ⟨k', s'⟩ := q
    simp only [setSite] at h
    split at h
    · rcases List.mem_cons.1 h with h | h
      · exact Or.inr (by rw [h])
      · exact Or.inl (List.mem_cons_of_mem _ h)
    · rcases List.mem_cons.1 h with h | h
      · exact Or.inl (by rw [h]; exact List.mem_cons_self)
      · rcases ih h with h | h
        · exact Or.inl (List.mem_cons_of_mem _ h)
        · exact Or.inr h

theorem table_ok_set {t : Table V} (ht : t.Ok) (k : Nat) {s : Site V} (hs : s.Ok) (m i : Nat) :
    Table.Ok { (t.set k s) with missing := m, incorrect := i } := by
  intro p hp
  rcases mem_setSite (show p ∈ setSite k s t.sites from hp) with h | h
  · exact ht p h
  · rw [h]; exact hs

theorem table_lookup_ok {t : Table V} (ht : t.Ok) {k : Nat} {s : Site V} (h : t.lookup k = some s) :
    s.Ok := by
  unfold Table.lookup at h
  simp only [Option.map_eq_some_iff] at h
  obtain ⟨p, hp, rfl⟩ := h
  exact ht p (List.mem_of_find?_eq_some hp)

theorem table_ok_snap (o : Ops V) (t : Table V) (k : Nat) (old : Option (OldArg V)) (ht : t.Ok) :
    (t.snap o k old).1.Ok := by
  unfold Table.snap
  split
  · exact table_ok_set ht k (site_ok_ofOld old) _ _
  · split <;> exact ht

theorem table_ok_snaps (o : Ops V) (pre : List (Nat × Option (OldArg V))) (t : Table V) (ht : t.Ok) :
    (t.snaps o pre).1.Ok := by
  induction pre generalizing t with
  | nil => exact ht
  | cons p rest ih =>
    obtain ⟨k, old⟩ := p
    simp only [Table.snaps]
    have h1 := table_ok_snap o t k old ht
    split
    · rename_i t1 heq
      rw [heq] at h1
      exact ih t1 h1
    · rename_i t1 e heq
      rw [heq] at h1
      exact h1

theorem table_ok_step (o : Ops V) (f : Flags) (e : Event V) (t : Table V) (ht : t.Ok) :
    (t.step o f e).1.Ok := by
  induction e generalizing t with
  | begin => exact ht
  | snap k old => exact table_ok_snap o t k old ht
  | stmt pre body ih =>
    simp only [Table.step]
    have h1 := table_ok_snaps o pre t ht
    split
    · rename_i t1 e heq
      rw [heq] at h1; exact h1
    · rename_i t1 heq
      rw [heq] at h1; exact ih t1 h1
  | op k key op x c =>
    simp only [Table.step]
    split
    · exact ht
    · rename_i s hl
      exact table_ok_set ht k (site_ok_step o f s key op x c (table_lookup_ok ht hl)) _ _
  | touch k key =>
    simp only [Table.step]
    split
    · exact ht
    · rename_i s hl
      exact table_ok_set ht k (site_ok_touch o s key (table_lookup_ok ht hl)) _ _

theorem table_ok_run (o : Ops V) (f : Flags) (evs : List (Event V)) (t : Table V) (ht : t.Ok) :
    (t.run o f evs).1.Ok := by
  induction evs generalizing t with
  | nil => exact ht
  | cons e es ih =>
    simp only [Table.run]
    exact ih _ (table_ok_step o f e t ht)

/-- 3. After ANY session (any list of events: fixture resets, `snapshot(...)` evaluations, operations,
    statements), the changes of every call site in the table can be collected. -/
theorem finish_total_table (o : Ops V) (f : Flags) (evs : List (Event V)) :
    ∀ p ∈ (Table.run o f ({} : Table V) evs).1.sites, p.2.cats o ≠ none := by
  intro p hp
  exact site_cats_ne_none o p.2 (table_ok_run o f evs _ (fun q hq => by cases hq) p hp)

/-! ## 4. writing the new source text -/

open Rewrite in
/-- `SourceFile.new_code` raises (`none`) exactly when `_check` finds an unordered or overlapping pair among the
    sorted replacements; otherwise it produces a text. -/
theorem replacements_disjoint_means_total (fmt : Rewrite.Str → Rewrite.Str) (enforce : Bool) (t : Rewrite.Str)
    (rs : List Rewrite.Repl) :
    newCode fmt enforce t rs ≠ none ↔ checkSorted (sortRepls rs) = true := by
  rw [Ne, newcode_none_iff]; cases checkSorted (sortRepls rs) <;> simp

end ISnap
