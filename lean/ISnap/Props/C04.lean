import ISnap.Model.Session
/-
  C04 — nothing is written without approval; exactly the approved categories apply.
  Decision logic of the gate, stated outright, for every configuration and every pending set.
-/
namespace ISnap.Session
open ISnap

/-- the user approved category `k` in this session: a category flag, or a 'y' in review mode -/
def Approved (c : Cfg) (k : Cat) : Bool := approved c c.flags k

theorem configure_flags (c : Cfg) (fl : List Flag) (a : Bool) (u : Flags)
    (h : configure c = .ok fl a u) : fl = c.flags := by
  unfold configure at h
  simp only at h
  repeat' (split at h)
  all_goals first | (cases h; done) | (injection h with h1 h2 h3; exact h1.symm)

/-- C04 `applied_subset_approved`: whatever is pending, only approved categories are written -/
theorem applied_subset_approved (c : Cfg) (p : Pending) (k : Cat)
    (h : (applied c p).has k = true) : Approved c k = true := by
  unfold applied at h
  split at h
  · simp at h
  · rename_i fl a u hc
    have hfl := configure_flags c fl a u hc
    subst hfl
    split at h
    · simp at h
    · split at h
      · simp at h
      · cases k <;> simp [Flags.has, useCat] at h <;> simp [Approved, h]

/-- C04 `flags_resolution`: command line beats the environment variable beats pyproject; the terminal
    decides between default-flags-tui and default-flags -/
theorem flags_resolution (c : Cfg) :
    (∀ l, c.cli = some l → c.flags = l) ∧
    (∀ e, c.cli = none → c.env = some e → c.flags = e) ∧
    (c.cli = none → c.env = none → c.flags = if c.tty then c.defaultFlagsTui else c.defaultFlags) := by
  refine ⟨?_, ?_, ?_⟩
  · intro l h; simp [Cfg.flags, h]
  · intro e h1 h2; simp [Cfg.flags, h1, h2]
  · intro h1 h2; simp [Cfg.flags, h1, h2]

/-- sessions that approve nothing leave everything alone -/
theorem nothing_approved_nothing_written (c : Cfg) (p : Pending)
    (h : (∀ k, Approved c k = false) ∨ c.flags.contains .shortReport = true ∨ c.flags.contains .disable = true ∨
         c.ci = true ∨ c.xdist = true ∨ c.cpython = false) :
    applied c p = Flags.empty := by
  unfold applied
  split
  · rfl
  · rename_i fl a u hc
    have hfl := configure_flags c fl a u hc
    subst hfl
    rcases h with h | h | h | h | h | h
    · split
      · rfl
      · split
        · rfl
        · have := h .create; have := h .fix; have := h .trim; have := h .update
          simp_all [useCat, Approved, Flags.empty]
    · split
      · rfl
      · simp [h]
    · -- disable: either a usage error or inactive
      have : a = false := by
        unfold configure at hc
        simp only at hc
        repeat' (split at hc)
        all_goals first | (cases hc; done) | (injection hc with h1 h2 h3; grind)
      simp [this]
    · simp [h]
    · simp [h]
    · simp [h]

/-- C04 `applied_exact`: in an active session without short-report the written categories are exactly
    the pending ones that are approved (and not hidden by skip-snapshot-updates-for-now) -/
theorem applied_exact (c : Cfg) (p : Pending) (fl : List Flag) (u : Flags)
    (hc : configure c = .ok fl true u) (hx : c.xdist = false) (hci : c.ci = false) (hpy : c.cpython = true)
    (hs : fl.contains .shortReport = false) (k : Cat) :
    (applied c p).has k =
      (p.has k && p.diff k && Approved c k &&
       !(k == .update && c.skipUpdates && !fl.contains (.cat .update))) := by
  have hfl := configure_flags c fl true u hc
  subst hfl
  unfold applied
  simp only [hc, hx, hci, hpy, hs]
  cases k <;> simp [Flags.has, useCat, Approved, approved] <;> grind

/-- C04 `illegal_combinations_error` -/
theorem illegal_combinations_error (c : Cfg) :
    (c.flags.any isUnknown = true → configure c = .usageError) ∧
    (c.flags.contains .disable = true → c.flags.any (· ≠ .disable) = true → configure c = .usageError) ∧
    (c.cli.isSome = true → c.xdist = true → c.flags.any (· ≠ .disable) = true → configure c = .usageError) := by
  refine ⟨?_, ?_, ?_⟩
  · intro h; unfold configure; simp only [h]; split <;> simp
  · intro h1 h2; unfold configure; simp only [h1, h2]; split <;> (try split) <;> simp
  · intro h1 h2 h3; unfold configure; simp only [h1, h2, h3]; simp

/-- xfail-marked tests run with inline-snapshot inactive -/
theorem xfail_inactive (a : Bool) : testActive a true = false := by simp [testActive]

/-! non-vacuity: review answered y for fix only, everything pending -/
def exCfg : Cfg :=
  { cli := some [Flag.review], env := none, tty := false, defaultFlags := [Flag.report],
    defaultFlagsTui := [Flag.cat .create, Flag.review], xdist := false, ci := false,
    answers := fun k => decide (k = Cat.fix) }
def exPending : Pending := { has := fun _ => true, diff := fun _ => true }

example : applied exCfg exPending = { fix := true } := by decide

end ISnap.Session
