import ISnap.Props.C09
/-
  C08 — a second run is a no-op: re-running with the same approved categories changes nothing, and
  after a run with everything approved no category is reported any more.
-/
namespace ISnap.Assign
open ISnap

theorem run_idem (F : Flags) (e : Expr) (n : Val) (he : Managed e) (hn : ValOk n) (hwe : WfExpr e)
    (hwn : WfVal n) : run F (run F e n) n = run F e n := by
  rw [run_compose F F e n he hn hwe hwn]
  congr 1
  cases F; simp [Flags.union]

theorem run_all_nothing_pending (e : Expr) (n : Val) (he : Managed e) (hn : ValOk n) (hwe : WfExpr e)
    (hwn : WfVal n) : cats (run Flags.all e n) n = Flags.empty :=
  nothing_pending_gen Flags.all Flags.empty rfl rfl e (ge_of he hwe) n (gv_of hn hwn)

/-- `fix` and `update` are the only categories this comparison ever reports, so approving these two
    is enough; and then a further run with any approved set changes nothing -/
theorem run_fix_update_nothing_pending (F F' : Flags) (hf : F.fix = true) (hu : F.update = true)
    (e : Expr) (n : Val) (he : Managed e) (hn : ValOk n) (hwe : WfExpr e) (hwn : WfVal n) :
    cats (run F e n) n = Flags.empty ∧ run F' (run F e n) n = run F e n := by
  have h := nothing_pending_gen F F' hf hu e (ge_of he hwe) n (gv_of hn hwn)
  refine ⟨nothing_pending_gen F Flags.empty hf hu e (ge_of he hwe) n (gv_of hn hwn), ?_⟩
  exact run_disjoint F' _ n (by unfold run; rw [h]; rfl) (by unfold run; rw [h]; rfl)

/-- in general: after a run exactly those categories are reported that were reported before and were
    not approved -/
theorem run_pending (F : Flags) (e : Expr) (n : Val) (he : Managed e) (hn : ValOk n) (hwe : WfExpr e)
    (hwn : WfVal n) :
    cats (run F e n) n =
      { fix := (cats e n).fix && !F.fix, update := (cats e n).update && !F.update } := by
  obtain ⟨h1, h3⟩ := cats_create_trim Flags.empty (run F e n) n
  obtain ⟨hf, hu⟩ := pending_gen F Flags.empty e (ge_of he hwe) n (gv_of hn hwn)
  apply Flags.ext_has
  intro c
  cases c
  · exact h1
  · exact hf
  · exact h3
  · exact hu

theorem only_fix_update (F : Flags) (e : Expr) (n : Val) :
    (assign F e n).cats.create = false ∧ (assign F e n).cats.trim = false :=
  cats_create_trim F e n

/-! ### non-vacuity -/

section examples
open Ex

example : run fixOnly (run fixOnly e0 n0) n0 = run fixOnly e0 n0 :=
  run_idem _ _ _ (by decide) (by decide) (by decide) (by decide)
example : cats (run Flags.all e0 n0) n0 = Flags.empty :=
  run_all_nothing_pending _ _ (by decide) (by decide) (by decide) (by decide)
example : cats (run fixOnly e0 n0) n0 = { update := true } := by
  rw [run_pending _ _ _ (by decide) (by decide) (by decide) (by decide)]
  have hf : (cats e0 n0).fix = true := by
    cases h : (cats e0 n0).fix with
    | true => rfl
    | false =>
      have := eq_of_nofix Flags.empty e0 (by decide) n0 (by decide) h
      revert this; decide
  have hu : (cats e0 n0).update = true := by
    -- the first element `1` is spelled non-canonically and compares equal
    unfold cats
    rw [e0, n0, assign_seq_of (by decide) (by decide)]
    simp only [listOf]
    have : script (eval.evalL
        [Expr.leaf 1 false (.atom (.int 1)),
         .dict [(.str [97], .leaf 2 true (.atom (.int 2))), (.int 5, .seq true [.leaf 3 true (.atom .none)])],
         .leaf 4 true (.atom (.bool true))])
        [Val.atom (.int 1),
         .dict [(.int 5, .tuple [.atom .none, .atom (.int 7)]), (.str [98], .atom (.int 3))],
         .atom (.int 1)] = [.m, .x, .m] := by decide
    rw [this, assignSeq_m, assign_leaf (by decide)]
    simp [leafOut, Atom.pyEq, Atom.num?]
  simp [hf, hu, fixOnly]
/-- before the run something was pending -/
example : cats e0 n0 ≠ Flags.empty := by
  intro h
  have h1 : (cats e0 n0).fix = false := by rw [h]; rfl
  have := eq_of_nofix Flags.empty e0 (by decide) n0 (by decide) h1
  revert this; decide

end examples

end ISnap.Assign
