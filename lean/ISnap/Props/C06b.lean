import ISnap.Model.Table
/-
  C06b — `snapshot(v)` is `v` when inline-snapshot is disabled (`state().active == False`):

      def snapshot(obj=undefined):
          if not state().active:
              if obj is undefined: raise AssertionError(...)
              else: return obj

  and a test session in which every `snapshot()` call takes this path never creates a table entry.
-/
namespace ISnap
variable {V : Type}

/-- `snapshot(obj)` when `state().active` is false: returns `obj` itself, or raises for `snapshot()` -/
def snapshotInactive {V : Type} (arg : Option V) : Except Unit V :=
  match arg with
  | some v => .ok v
  | none => .error ()

theorem disabled_identity (v : V) : snapshotInactive (some v) = .ok v := rfl

theorem disabled_missing_raises : snapshotInactive (none : Option V) = .error () := rfl

/-- the only event an inactive session produces (`snapshot()` calls do not reach the table) changes nothing but
    the counters -/
theorem begin_step (o : Ops V) (f : Flags) (t : Table V) :
    (Table.step o f t .begin).1.sites = t.sites ∧ (Table.step o f t .begin).2 = none := ⟨rfl, rfl⟩

/-- When every `snapshot()` call takes the inactive path, the run consists of fixture resets only: no table
    entry is ever created, no result is produced, the counters are zero. -/
theorem inactive_tests_touch_nothing (o : Ops V) (f : Flags) (t : Table V) (n : Nat) :
    (Table.run o f t (List.replicate n .begin)).1.sites = t.sites := by
  induction n generalizing t with
  | zero => rfl
  | succ n ih =>
    simp only [List.replicate_succ, Table.run]
    exact (ih _).trans rfl

theorem inactive_tests_no_results (o : Ops V) (f : Flags) (t : Table V) (n : Nat) :
    (Table.run o f t (List.replicate n .begin)).2 = [] := by
  induction n generalizing t with
  | zero => rfl
  | succ n ih =>
    simp only [List.replicate_succ, Table.run]
    exact ih _

/-- in particular, starting from the empty table: nothing to report and nothing to fail at the end -/
theorem inactive_session_empty (o : Ops V) (f : Flags) (n : Nat) :
    (Table.run o f ({} : Table V) (List.replicate n .begin)).1.sites = [] ∧
    fixtureFails (Table.run o f ({} : Table V) (List.replicate (n + 1) .begin)).1 = false := by
  refine ⟨inactive_tests_touch_nothing o f _ n, ?_⟩
  induction n with
  | zero => rfl
  | succ n ih =>
    rw [List.replicate_succ]
    simp only [Table.run] at ih ⊢
    exact ih

end ISnap
