import ISnap.Model.Finish
import ISnap.Props.C13
/-
  C15 — faults while writing (`pytest_sessionfinish`, from "used_changes computed" to "files written").

  The write phase is the step list `plan jobs = computePhase jobs ++ writePhase jobs`; a fault (an exception in a
  step, or the process being killed) after `k` steps leaves the disk `crashAt d (plan jobs) k`.

  1. every `persist r` of a file precedes every write to that file                          (`persist_before_write`)
  2. a file is `old`, `new`, or — only directly after its `truncate` — `empty`              (`crash_content`,
     `crash_safe_partial`, `crash_unsafe_between_truncate_put`)
  3. a file with new content never refers to an external that was not persisted             (`crash_no_dangling`,
     `crash_no_dangling_store`)
  4. a fault while computing / parsing / persisting leaves every test file untouched        (`compute_phase_writes_nothing`)
  5. a failing formatter degrades to the unformatted text plus a reported problem           (`formatter_failure_degrades`)
-/
namespace ISnap.Finish
open ISnap.External List

/-! ## the two phases of the plan -/

def computePhase (jobs : List Job) : List Step :=
  jobs.flatMap (fun j => Step.compute j.1 :: j.2.map Step.persist)

def writePhase (jobs : List Job) : List Step :=
  jobs.flatMap (fun j => [Step.truncate j.1, Step.put j.1])

theorem plan_eq (jobs : List Job) : plan jobs = computePhase jobs ++ writePhase jobs := rfl

def Step.isWrite : Step → Bool
  | .truncate _ => true
  | .put _ => true
  | _ => false

/-- all files start with their old content, one entry per job, no file twice -/
def Fresh (d : Disk) (jobs : List Job) : Prop :=
  d.files = jobs.map (fun j => (j.1, Content.old)) ∧ (jobs.map (·.1)).Nodup

theorem computePhase_no_write {jobs : List Job} {s : Step} (hs : s ∈ computePhase jobs) :
    s.isWrite = false := by
  simp only [computePhase, mem_flatMap, mem_cons, mem_map] at hs
  obtain ⟨j, _, h⟩ := hs
  rcases h with rfl | ⟨r, _, rfl⟩ <;> rfl

theorem writePhase_all_write {jobs : List Job} {s : Step} (hs : s ∈ writePhase jobs) :
    s.isWrite = true := by
  simp only [writePhase, mem_flatMap, mem_cons, not_mem_nil, or_false] at hs
  obtain ⟨j, _, h⟩ := hs
  rcases h with rfl | rfl <;> rfl

theorem persist_mem_computePhase {jobs : List Job} {j : Job} (hj : j ∈ jobs) {r : Ref} (hr : r ∈ j.2) :
    Step.persist r ∈ computePhase jobs := by
  simp only [computePhase, mem_flatMap, mem_cons, mem_map]
  exact ⟨j, hj, Or.inr ⟨r, hr, rfl⟩⟩

theorem write_mem_writePhase {jobs : List Job} {j : Job} (hj : j ∈ jobs) :
    Step.truncate j.1 ∈ writePhase jobs ∧ Step.put j.1 ∈ writePhase jobs := by
  simp only [writePhase, mem_flatMap, mem_cons, not_mem_nil, or_false]
  exact ⟨⟨j, hj, Or.inl rfl⟩, ⟨j, hj, Or.inr rfl⟩⟩

theorem put_not_mem_computePhase (jobs : List Job) (f : Nat) : Step.put f ∉ computePhase jobs :=
  fun h => by have := computePhase_no_write h; simp [Step.isWrite] at this

theorem truncate_not_mem_computePhase (jobs : List Job) (f : Nat) : Step.truncate f ∉ computePhase jobs :=
  fun h => by have := computePhase_no_write h; simp [Step.isWrite] at this

/-! ## 1. persist before write -/

/-- In the plan, `persist r` for an external `r` of file `j.1` stands before every write step (of any file),
    and both write steps of `j.1` come after it. -/
theorem persist_before_write (jobs : List Job) (j : Job) (hj : j ∈ jobs) (r : Ref) (hr : r ∈ j.2) :
    ∃ a b, plan jobs = a ++ [Step.persist r] ++ b ∧
      (∀ f, Step.truncate f ∉ a ∧ Step.put f ∉ a) ∧
      Step.truncate j.1 ∈ b ∧ Step.put j.1 ∈ b := by
  obtain ⟨a, c, hac⟩ := append_of_mem (persist_mem_computePhase hj hr)
  refine ⟨a, c ++ writePhase jobs, ?_, ?_, ?_, ?_⟩
  · rw [plan_eq, hac]; simp
  · intro f
    have hsub : ∀ s, s ∈ a → s ∈ computePhase jobs := fun s hs => by rw [hac]; simp [hs]
    exact ⟨fun h => truncate_not_mem_computePhase jobs f (hsub _ h),
      fun h => put_not_mem_computePhase jobs f (hsub _ h)⟩
  · exact mem_append_right _ (write_mem_writePhase hj).1
  · exact mem_append_right _ (write_mem_writePhase hj).2

/-- the same with indices: the first `persist r` is earlier than the first `truncate j.1` and `put j.1` -/
theorem persist_index_lt_write (jobs : List Job) (j : Job) (hj : j ∈ jobs) (r : Ref) (hr : r ∈ j.2) :
    (plan jobs).idxOf (Step.persist r) < (plan jobs).idxOf (Step.truncate j.1) ∧
    (plan jobs).idxOf (Step.persist r) < (plan jobs).idxOf (Step.put j.1) := by
  have hp := persist_mem_computePhase hj hr
  have hlt := idxOf_lt_length_of_mem hp
  rw [plan_eq, idxOf_append, idxOf_append, idxOf_append, if_pos hp,
    if_neg (truncate_not_mem_computePhase jobs _), if_neg (put_not_mem_computePhase jobs _)]
  omega

/-! ## the content of one file along a step list -/

def lookupC (files : List (Nat × Content)) (f : Nat) : Option Content :=
  (files.find? (fun p => p.1 == f)).map (·.2)

theorem contentOf_eq (d : Disk) (f : Nat) : contentOf d f = lookupC d.files f := rfl

/-- the effect of one step on the content of file `f` -/
def stepC (f : Nat) (c : Content) : Step → Content
  | .truncate g => if g = f then .empty else c
  | .put g => if g = f then .new else c
  | _ => c

theorem lookupC_setFile (files : List (Nat × Content)) (g f : Nat) (c : Content) :
    lookupC (setFile g c files) f = (lookupC files f).map (fun c' => if g = f then c else c') := by
  induction files with
  | nil => rfl
  | cons p rest ih =>
    obtain ⟨h, c'⟩ := p
    unfold lookupC at ih ⊢
    by_cases hg : h = g
    · subst hg
      by_cases hf : h = f
      · subst hf; simp [setFile]
      · simp [setFile, hf, Function.comp_def]
    · by_cases hf : h = f
      · subst hf; simp [setFile, hg, Ne.symm hg]
      · simp [setFile, hg, hf, ih]

theorem contentOf_exec (d : Disk) (s : Step) (f : Nat) :
    contentOf (exec d s) f = (contentOf d f).map (fun c => stepC f c s) := by
  cases s with
  | compute g => simp [exec, stepC]
  | persist r => simp [exec, stepC, contentOf, Function.comp_def]
  | truncate g =>
    simp only [contentOf_eq, exec, lookupC_setFile, stepC]
  | put g =>
    simp only [contentOf_eq, exec, lookupC_setFile, stepC]

theorem contentOf_foldl (steps : List Step) (d : Disk) (f : Nat) :
    contentOf (steps.foldl exec d) f = (contentOf d f).map (fun c => steps.foldl (stepC f) c) := by
  induction steps generalizing d with
  | nil => simp
  | cons s rest ih =>
    rw [foldl_cons, ih, contentOf_exec]
    cases contentOf d f <;> simp

theorem contentOf_crashAt (d : Disk) (steps : List Step) (k : Nat) (f : Nat) :
    contentOf (crashAt d steps k) f = (contentOf d f).map (fun c => (steps.take k).foldl (stepC f) c) :=
  contentOf_foldl _ d f

theorem Fresh.contentOf {d : Disk} {jobs : List Job} (h : Fresh d jobs) {f : Nat} {c : Content}
    (hc : contentOf d f = some c) : c = .old := by
  rw [contentOf_eq, h.1] at hc
  unfold lookupC at hc
  simp only [Option.map_eq_some_iff] at hc
  obtain ⟨p, hp, rfl⟩ := hc
  have := mem_of_find?_eq_some hp
  simp only [mem_map] at this
  obtain ⟨j, _, rfl⟩ := this
  rfl

/-- `new` can only come from a `put f` -/
theorem foldl_stepC_new (f : Nat) (steps : List Step) (c : Content)
    (h : steps.foldl (stepC f) c = .new) : c = .new ∨ Step.put f ∈ steps := by
  induction steps generalizing c with
  | nil => exact Or.inl h
  | cons s rest ih =>
    rcases ih _ h with h' | h'
    · cases s with
      | compute g => exact Or.inl h'
      | persist r => exact Or.inl h'
      | truncate g =>
        simp only [stepC] at h'
        split at h'
        · cases h'
        · exact Or.inl h'
      | put g =>
        simp only [stepC] at h'
        split at h'
        · rename_i hg; subst hg; exact Or.inr mem_cons_self
        · exact Or.inl h'
    · exact Or.inr (mem_cons_of_mem _ h')

/-- `old` means: not written at all -/
theorem foldl_stepC_old (f : Nat) (steps : List Step) (c : Content)
    (h : steps.foldl (stepC f) c = .old) : c = .old ∧ Step.truncate f ∉ steps ∧ Step.put f ∉ steps := by
  induction steps generalizing c with
  | nil => exact ⟨h, not_mem_nil, not_mem_nil⟩
  | cons s rest ih =>
    obtain ⟨h1, h2, h3⟩ := ih _ h
    cases s with
    | compute g => exact ⟨h1, by simp [h2], by simp [h3]⟩
    | persist r => exact ⟨h1, by simp [h2], by simp [h3]⟩
    | truncate g =>
      simp only [stepC] at h1
      split at h1
      · cases h1
      · rename_i hg
        exact ⟨h1, by simp [h2, Ne.symm hg], by simp [h3]⟩
    | put g =>
      simp only [stepC] at h1
      split at h1
      · cases h1
      · rename_i hg
        exact ⟨h1, by simp [h2], by simp [h3, Ne.symm hg]⟩

/-- in the plan every `truncate f` is immediately followed by `put f` -/
theorem writePhase_truncate_next (jobs : List Job) (i f : Nat)
    (h : (writePhase jobs)[i]? = some (Step.truncate f)) : (writePhase jobs)[i + 1]? = some (Step.put f) := by
  induction jobs generalizing i with
  | nil => simp [writePhase] at h
  | cons j js ih =>
    have hw : writePhase (j :: js) = Step.truncate j.1 :: Step.put j.1 :: writePhase js := by
      simp [writePhase]
    rw [hw] at h ⊢
    match i, h with
    | 0, h => simp at h; simp [h]
    | 1, h => simp at h
    | i + 2, h =>
      simp only [getElem?_cons_succ] at h ⊢
      exact ih i h

theorem plan_truncate_next (jobs : List Job) (i f : Nat)
    (h : (plan jobs)[i]? = some (Step.truncate f)) : (plan jobs)[i + 1]? = some (Step.put f) := by
  rw [plan_eq] at h ⊢
  by_cases hi : i < (computePhase jobs).length
  · rw [getElem?_append_left hi] at h
    exact absurd (mem_of_getElem? h) (truncate_not_mem_computePhase jobs f)
  · have hi : (computePhase jobs).length ≤ i := Nat.le_of_not_lt hi
    rw [getElem?_append_right hi] at h
    rw [getElem?_append_right (by omega)]
    have := writePhase_truncate_next jobs _ f h
    rw [show i + 1 - (computePhase jobs).length = i - (computePhase jobs).length + 1 by omega]
    exact this

/-- `empty` only directly after the `truncate` -/
theorem plan_stepC_empty (jobs : List Job) (f : Nat) (k : Nat)
    (h : ((plan jobs).take k).foldl (stepC f) .old = .empty) :
    1 ≤ k ∧ (plan jobs)[k - 1]? = some (Step.truncate f) := by
  induction k with
  | zero => simp at h
  | succ k ih =>
    refine ⟨by omega, ?_⟩
    rw [take_add_one, foldl_append] at h
    simp only [Nat.add_sub_cancel]
    cases hk : (plan jobs)[k]? with
    | none =>
      rw [hk] at h
      simp only [Option.toList_none, foldl_nil] at h
      obtain ⟨hk1, hprev⟩ := ih h
      have := plan_truncate_next jobs (k - 1) f hprev
      rw [show k - 1 + 1 = k by omega, hk] at this
      cases this
    | some s =>
      rw [hk] at h
      simp only [Option.toList_some, foldl_cons, foldl_nil] at h
      cases s with
      | truncate g =>
        simp only [stepC] at h
        split at h
        · rename_i hg; rw [hg]
        · obtain ⟨hk1, hprev⟩ := ih h
          have := plan_truncate_next jobs (k - 1) f hprev
          rw [show k - 1 + 1 = k by omega, hk] at this
          cases this
      | put g =>
        simp only [stepC] at h
        split at h
        · cases h
        · obtain ⟨hk1, hprev⟩ := ih h
          have := plan_truncate_next jobs (k - 1) f hprev
          rw [show k - 1 + 1 = k by omega, hk] at this
          cases this
          rename_i hg; exact absurd rfl hg
      | compute g =>
        simp only [stepC] at h
        obtain ⟨hk1, hprev⟩ := ih h
        have := plan_truncate_next jobs (k - 1) f hprev
        rw [show k - 1 + 1 = k by omega, hk] at this
        cases this
      | persist r =>
        simp only [stepC] at h
        obtain ⟨hk1, hprev⟩ := ih h
        have := plan_truncate_next jobs (k - 1) f hprev
        rw [show k - 1 + 1 = k by omega, hk] at this
        cases this

/-! ## 2. what a file can contain at a crash point -/

/-- The content `c` of file `f` after a fault at step `k`:
    `empty` only if the last executed step was `truncate f`; `new` only if `put f` was executed;
    `old` only if neither `truncate f` nor `put f` was executed. -/
theorem crash_content (d : Disk) (jobs : List Job) (k f : Nat) (c : Content) (hfresh : Fresh d jobs)
    (hc : contentOf (crashAt d (plan jobs) k) f = some c) :
    (c = .empty → 1 ≤ k ∧ (plan jobs)[k - 1]? = some (Step.truncate f)) ∧
    (c = .new → Step.put f ∈ (plan jobs).take k) ∧
    (c = .old → Step.truncate f ∉ (plan jobs).take k ∧ Step.put f ∉ (plan jobs).take k) := by
  rw [contentOf_crashAt] at hc
  simp only [Option.map_eq_some_iff] at hc
  obtain ⟨c0, hc0, hfold⟩ := hc
  have := hfresh.contentOf hc0
  subst this
  refine ⟨?_, ?_, ?_⟩
  · intro he; subst he
    exact plan_stepC_empty jobs f k hfold
  · intro hn; subst hn
    rcases foldl_stepC_new f _ _ hfold with h | h
    · cases h
    · exact h
  · intro ho; subst ho
    exact (foldl_stepC_old f _ _ hfold).2

/-- If the fault does not fall between a `truncate` and its `put`, every file has its old or its new content. -/
theorem crash_safe_partial (d : Disk) (jobs : List Job) (k : Nat) (hfresh : Fresh d jobs)
    (hk : ∀ f, (plan jobs)[k - 1]? ≠ some (Step.truncate f)) (f : Nat) (c : Content)
    (hc : contentOf (crashAt d (plan jobs) k) f = some c) : c = .old ∨ c = .new := by
  cases c with
  | old => exact Or.inl rfl
  | new => exact Or.inr rfl
  | empty => exact absurd ((crash_content d jobs k f .empty hfresh hc).1 rfl).2 (hk f)

/-- The window exists: `open(f, "bw")` has truncated the file, the process dies before `write`: the test file
    is empty (neither its old nor its new content). -/
theorem crash_unsafe_between_truncate_put :
    let jobs : List Job := [(0, [])]
    let d : Disk := { files := [(0, .old)], store := [] }
    Fresh d jobs ∧ plan jobs = [Step.compute 0, Step.truncate 0, Step.put 0] ∧
      contentOf (crashAt d (plan jobs) 2) 0 = some .empty := by
  refine ⟨⟨rfl, by decide⟩, by decide, by decide⟩

/-! ## 4. the compute phase writes nothing -/

theorem exec_files_of_not_write (d : Disk) (s : Step) (h : s.isWrite = false) : (exec d s).files = d.files := by
  cases s <;> simp_all [exec, Step.isWrite]

theorem foldl_files_of_not_write (steps : List Step) (d : Disk) (h : ∀ s ∈ steps, s.isWrite = false) :
    (steps.foldl exec d).files = d.files := by
  induction steps generalizing d with
  | nil => rfl
  | cons s rest ih =>
    rw [foldl_cons, ih _ (fun s hs => h s (mem_cons_of_mem _ hs)),
      exec_files_of_not_write d s (h s mem_cons_self)]

/-- A fault in any of the compute / parse / persist steps (`k ≤` their number) leaves every test file as it was. -/
theorem compute_phase_writes_nothing (d : Disk) (jobs : List Job) (k : Nat)
    (hk : k ≤ (computePhase jobs).length) : (crashAt d (plan jobs) k).files = d.files := by
  unfold crashAt
  rw [plan_eq, take_append_of_le_length hk]
  exact foldl_files_of_not_write _ d (fun s hs => computePhase_no_write (mem_of_mem_take hs))

theorem computePhase_length (jobs : List Job) :
    (computePhase jobs).length = (jobs.map (fun j => 1 + j.2.length)).sum := by
  induction jobs with
  | nil => rfl
  | cons j js ih =>
    have : computePhase (j :: js) = (Step.compute j.1 :: j.2.map Step.persist) ++ computePhase js := by
      simp [computePhase]
    rw [this, length_append, ih]
    simp; omega

theorem compute_phase_all_old (d : Disk) (jobs : List Job) (k : Nat) (hfresh : Fresh d jobs)
    (hk : k ≤ (computePhase jobs).length) (f : Nat) (c : Content)
    (hc : contentOf (crashAt d (plan jobs) k) f = some c) : c = .old := by
  rw [contentOf_eq, compute_phase_writes_nothing d jobs k hk, ← contentOf_eq] at hc
  exact hfresh.contentOf hc

/-! ## 3. no dangling reference -/

/-- If a file has its new content at the crash point, then the whole compute phase ran, in particular every
    `persist r` of its externals (indeed of the externals of all files). -/
theorem crash_new_after_computePhase (d : Disk) (jobs : List Job) (k f : Nat) (hfresh : Fresh d jobs)
    (hc : contentOf (crashAt d (plan jobs) k) f = some .new) :
    (computePhase jobs).length < k ∧ ∀ s ∈ computePhase jobs, s ∈ (plan jobs).take k := by
  have hput := (crash_content d jobs k f .new hfresh hc).2.1 rfl
  have hlt : (computePhase jobs).length < k := by
    apply Nat.lt_of_not_le
    intro hle
    rw [plan_eq, take_append_of_le_length hle] at hput
    exact put_not_mem_computePhase jobs f (mem_of_mem_take hput)
  refine ⟨hlt, fun s hs => ?_⟩
  rw [plan_eq, take_append]
  rw [take_of_length_le (Nat.le_of_lt hlt)]
  exact mem_append_left _ hs

theorem crash_no_dangling (d : Disk) (jobs : List Job) (k : Nat) (j : Job) (hfresh : Fresh d jobs)
    (hj : j ∈ jobs) (hc : contentOf (crashAt d (plan jobs) k) j.1 = some .new) :
    ∀ r ∈ j.2, Step.persist r ∈ (plan jobs).take k ∧
      ∃ i, i < k ∧ (plan jobs)[i]? = some (Step.persist r) := by
  intro r hr
  have hmem := (crash_new_after_computePhase d jobs k j.1 hfresh hc).2 _ (persist_mem_computePhase hj hr)
  refine ⟨hmem, ?_⟩
  obtain ⟨i, hi, hget⟩ := getElem_of_mem hmem
  rw [length_take] at hi
  refine ⟨i, by omega, ?_⟩
  rw [getElem_take] at hget
  rw [← hget]
  exact getElem?_eq_getElem (by omega)

/-! ### the store along a step list -/

def execStore (s : Store) : Step → Store
  | .persist r => persist s r
  | _ => s

theorem exec_store (d : Disk) (st : Step) : (exec d st).store = execStore d.store st := by
  cases st <;> rfl

theorem foldl_store (steps : List Step) (d : Disk) :
    (steps.foldl exec d).store = steps.foldl execStore d.store := by
  induction steps generalizing d with
  | nil => rfl
  | cons s rest ih => rw [foldl_cons, ih, exec_store, foldl_cons]

/-- `persist r'` keeps the unique match of `r`: it stays, or it is the file that lost its `-new` infix -/
theorem prefixUnique_persist {s : Store} {r : Ref} {e : Entry} (h : PrefixUnique s r e) (r' : Ref) :
    PrefixUnique (External.persist s r') r e ∨
      (e.isNew = true ∧ PrefixUnique (External.persist s r') r { e with isNew := false }) := by
  obtain ⟨hes, hm, hall⟩ := h
  rcases persist_cases s r' with hp | ⟨e', he', hn', hp⟩
  · rw [hp]; exact Or.inl ⟨hes, hm, hall⟩
  · obtain ⟨he's, hm'⟩ := filter_singleton_mem he'
    by_cases hee : e = e'
    · subst hee
      refine Or.inr ⟨hn', ?_, ?_, ?_⟩
      · rw [hp]; simp
      · exact (persistMatch_congr r rfl rfl).trans hm
      · intro x hx hxm
        rw [hp, mem_append, mem_filter, mem_singleton] at hx
        rcases hx with ⟨hxs, hxf⟩ | hx
        · have := hall x hxs hxm
          subst this
          simp [sameName_refl] at hxf
        · exact hx
    · refine Or.inl ⟨?_, hm, ?_⟩
      · rw [hp, mem_append, mem_filter]
        refine Or.inl ⟨hes, ?_⟩
        have h1 : sameName e e' = false := by
          cases hs : sameName e e'
          · rfl
          · obtain ⟨hh, _, hsf⟩ := (sameName_iff _ _).1 hs
            exact absurd (filter_singleton_eq he' hes ((persistMatch_congr r' hh hsf).trans hm')) hee
        have h2 : sameName e { e' with isNew := false } = false := by
          cases hs : sameName e { e' with isNew := false }
          · rfl
          · obtain ⟨hh, _, hsf⟩ := (sameName_iff _ _).1 hs
            exact absurd (filter_singleton_eq he' hes ((persistMatch_congr r' hh hsf).trans hm')) hee
        simp [h1, h2]
      · intro x hx hxm
        rw [hp, mem_append, mem_filter, mem_singleton] at hx
        rcases hx with ⟨hxs, _⟩ | hx
        · exact hall x hxs hxm
        · subst hx
          have : persistMatch r e' = true := (persistMatch_congr r rfl rfl).symm.trans hxm
          exact absurd (hall e' he's this).symm hee

/-- `r` has exactly one match in the store -/
def UniqueMatch (s : Store) (r : Ref) : Prop := ∃ e, PrefixUnique s r e

/-- `r` has exactly one match in the store, and that is a persisted file (`<hash>.<suffix>`, no `-new`) -/
def Persisted (s : Store) (r : Ref) : Prop := ∃ e, PrefixUnique s r e ∧ e.isNew = false

theorem uniqueMatch_execStore {s : Store} {r : Ref} (h : UniqueMatch s r) (st : Step) :
    UniqueMatch (execStore s st) r := by
  cases st with
  | persist r' =>
    obtain ⟨e, he⟩ := h
    rcases prefixUnique_persist he r' with h' | ⟨_, h'⟩
    · exact ⟨e, h'⟩
    · exact ⟨_, h'⟩
  | _ => exact h

/-- a later `persist` never un-persists -/
theorem persisted_execStore {s : Store} {r : Ref} (h : Persisted s r) (st : Step) :
    Persisted (execStore s st) r := by
  cases st with
  | persist r' =>
    obtain ⟨e, he, hn⟩ := h
    rcases prefixUnique_persist he r' with h' | ⟨hn', _⟩
    · exact ⟨e, h', hn⟩
    · rw [hn] at hn'; cases hn'
  | _ => exact h

theorem persisted_foldl {steps : List Step} {s : Store} {r : Ref} (h : Persisted s r) :
    Persisted (steps.foldl execStore s) r := by
  induction steps generalizing s with
  | nil => exact h
  | cons st rest ih => exact ih (persisted_execStore h st)

theorem uniq_execStore {s : Store} (h : Uniq s) (st : Step) : Uniq (execStore s st) := by
  cases st with
  | persist r' => exact h.persist r'
  | _ => exact h

/-- executing `persist r` on a store where `r` has a unique match persists that match -/
theorem persisted_of_persist {s : Store} {r : Ref} (hu : Uniq s) (h : UniqueMatch s r) :
    Persisted (External.persist s r) r := by
  obtain ⟨e, he⟩ := h
  have h2 := (referenced_is_persisted s r e hu he).2
  rcases prefixUnique_persist he r with h' | ⟨_, h'⟩
  · exact ⟨e, h', h2 e h'.1 h'.2.1⟩
  · exact ⟨_, h', rfl⟩

theorem persisted_after {steps : List Step} {s : Store} {r : Ref} (hu : Uniq s) (h : UniqueMatch s r)
    (hin : Step.persist r ∈ steps) : Persisted (steps.foldl execStore s) r := by
  induction steps generalizing s with
  | nil => cases hin
  | cons st rest ih =>
    rw [foldl_cons]
    by_cases hst : st = Step.persist r
    · subst hst
      exact persisted_foldl (persisted_of_persist hu h)
    · have : Step.persist r ∈ rest := by
        rcases mem_cons.1 hin with h' | h'
        · exact absurd h'.symm hst
        · exact h'
      exact ih (uniq_execStore hu st) (uniqueMatch_execStore h st) this

/-- Combined: if file `j.1` has its new content at the crash point, then every external `r` it refers to — provided
    `r` has exactly one match in the initial store (forced: `referenced_not_persisted_on_collision`) and the store has
    no two files of one name — has exactly one match in the store at the crash point, and it is a persisted file
    (it survives the `prune_new_files` of the next session). -/
theorem crash_no_dangling_store (d : Disk) (jobs : List Job) (k : Nat) (j : Job) (hfresh : Fresh d jobs)
    (hj : j ∈ jobs) (hc : contentOf (crashAt d (plan jobs) k) j.1 = some .new)
    (hu : Uniq d.store) (r : Ref) (hr : r ∈ j.2) (hm : ∃ e, PrefixUnique d.store r e) :
    ∃ e, PrefixUnique (crashAt d (plan jobs) k).store r e ∧ e.isNew = false ∧
      e ∈ step (crashAt d (plan jobs) k).store .start := by
  have hmem := (crash_no_dangling d jobs k j hfresh hj hc r hr).1
  have hp : Persisted (crashAt d (plan jobs) k).store r := by
    unfold crashAt
    rw [foldl_store]
    exact persisted_after hu hm hmem
  obtain ⟨e, he, hn⟩ := hp
  exact ⟨e, he, hn, mem_prune.2 ⟨he.1, hn⟩⟩

/-! ## 5. formatter failure -/

theorem formatter_failure_degrades (u : List Nat) :
    fmtDegrades none u = (u, true) ∧ ∀ t, fmtDegrades (some t) u = (t, false) :=
  ⟨rfl, fun _ => rfl⟩

end ISnap.Finish
