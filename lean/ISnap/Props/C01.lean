import ISnap.Props.C14
/-
  C01 — a created snapshot reads back as the value that was observed (value level).

  For an empty `snapshot()` and approved `create`, the value written makes the same comparison
  hold: equal for `==`, a satisfied bound for `<=` / `>=` (all observations), a container holding
  every tested value for `in`, a mapping with the requested key for `[key]`.
  The step from the value to its source text (`code_repr`, string literals) is the subject of
  Props/C12.lean and Props/C16.lean; the formatter enters as the validated assumption `AstPreserving`.
-/
namespace ISnap
variable {V : Type}

/-- `x == snapshot()` + create: the written value is `x` itself, and the comparison reads True -/
theorem create_eq (o : Ops V) (f : Flags) (x : V) :
    let r := ({ old := none } : Leaf V).step o f .eq x true
    r.st.final o { create := true } = .one x ∧ r.res = .val (o.eqv x x) ∧ r.dm = 1 := by
  simp [Leaf.step, Leaf.final, Leaf.newVal, ret, Op.kind]

/-- `x <= snapshot()` / `x >= snapshot()` + create over any observation sequence: the written
    bound is satisfied by every observation -/
theorem create_bound (o : Ops V) (tot : TotalLe o) (f : Flags) (op : Op) (hop : isMM op)
    (xs : List V) (hne : xs ≠ []) :
    ∃ n, (({ old := none } : Leaf V).runOps o f op xs).1.final o { create := true } = .one n ∧
      ∀ x ∈ xs, plainOp o (.leaf n true) op x = .val true := by
  obtain ⟨n, h1, _, h3⟩ := aggregate_extreme o tot f op hop xs hne
  refine ⟨n, h1, fun x hx => ?_⟩
  have := h3 x hx
  rcases hop with rfl | rfl <;> simpa [plainOp, cmpK, Op.kind] using this

/-- `x in snapshot()` + create: every tested value is a member of the written list -/
theorem create_in (o : Ops V) (eqv : EqvLaws o) (f : Flags) (xs : List V) (hne : xs ≠ []) :
    ∃ l, (({ old := none } : Leaf V).runOps o f .isin xs).1.final o { create := true } = .many l ∧
      ∀ x ∈ xs, memBy o.eqv x l = true := by
  obtain ⟨l, h1, h2⟩ := aggregate_union o eqv f xs hne
  refine ⟨l, h1, fun x hx => ?_⟩
  rw [h2 x]
  simp only [memBy, List.any_eq_true]
  exact ⟨x, hx, eqv.refl x⟩

/-- `x == snapshot()[k]` + create: a mapping with the requested key, holding the compared value -/
theorem create_getitem (o : Ops V) (f : Flags) (k x : V) (hk : o.eqv k k = true) :
    let r := (Site.ofOld (none : Option (OldArg V))).step o f (some k) .eq x true
    r.st.final o { create := true } = .entries [(k, .one x)] ∧ r.dm = 2 := by
  simp [Site.step, Site.getItem, Site.ofOld, lookupChild, Leaf.step, ret, Op.kind, setChild,
    Site.final, Leaf.newVal, hk]

/-- without `create` approved nothing is written into an empty call -/
theorem create_needs_approval (o : Ops V) (s : Leaf V) (h : s.old = none) (ap : Flags)
    (hap : ap.create = false) : s.final o ap = .noArg := by
  simp [Leaf.final, h, hap]

example : let o : Ops Int := { eqv := (· == ·), le := (· ≤ ·), same := (· == ·) }
    ∃ w, ((({ old := none } : Leaf Int).runOps o {} .ge [3, 9, 4]).1.final o { create := true }) = .one w
      ∧ w = 9 := ⟨9, by rfl, rfl⟩

end ISnap
