import ISnap.Lemmas.AssignLemmas
/-
  C10 — user-controlled parts are never rewritten: unmanaged leaves (`Is(..)`, dirty-equals, inner
  `snapshot()`), f-strings and displays containing a star-expression.
-/
namespace ISnap.Assign
open ISnap

/-- no unmanaged node (`unm` / `fstr`, also below a `*`) is altered or created by a run, whatever is
    approved; one can only disappear together with the element that held it.
    `ValOk n` (the observed value contains no `Unmanaged` wrapper) is needed: `canon` of a wrapped
    value is an `unm` node, see the example below. -/
theorem unmanaged_untouched (F : Flags) (e : Expr) (n : Val) (hn : ValOk n) :
    (unmLeaves (run F e n)).Sublist (unmLeaves e) :=
  ul_run F e n hn

/-- a list/tuple display containing a star-expression is frozen -/
theorem star_freezes (F : Flags) (tup : Bool) (es : List Expr) (n : Val)
    (h : es.any isStar = true) (hty : (eval (.seq tup es)).ty = n.ty) :
    assign F (.seq tup es) n =
      { cats := Flags.empty, merged := eval (.seq tup es), expr := .seq tup es } :=
  assign_seq_star hty h

/-- a dict display containing a `**` entry is frozen -/
theorem star_freezes_dict (F : Flags) (es : List (Atom × Expr)) (n : Val)
    (h : es.any (fun kv => isStar kv.2) = true) (hty : (eval (.dict es)).ty = n.ty) :
    assign F (.dict es) n =
      { cats := Flags.empty, merged := eval (.dict es), expr := .dict es } :=
  assign_dict_star hty h

theorem unmanaged_leaf_fixed_point (F : Flags) (t : Nat) (v n : Val) :
    assign F (.unm t v) n = ⟨Flags.empty, v, .unm t v⟩ := assign_unm F t v n

theorem fstr_fixed_point (F : Flags) (t : Nat) (v n : Val) :
    assign F (.fstr t v) n = ⟨Flags.empty, v, .fstr t v⟩ := assign_fstr F t v n

/-- a leaf whose value is an `Unmanaged` wrapper is a fixed point as well -/
theorem unmanaged_value_fixed_point (F : Flags) (t : Nat) (c : Bool) (v n : Val)
    (h : (∃ i w, v = .unmIs i w) ∨ ∃ i, v = .unmAny i) :
    assign F (.leaf t c v) n = ⟨Flags.empty, v, .leaf t c v⟩ := by
  rcases h with ⟨i, w, rfl⟩ | ⟨i, rfl⟩ <;> rw [assign]

/-- a display whose elements are unmanaged nodes and managed expressions (no stars), `fix` approved:
    the result has one element per new value; every element of the result is either one of the old
    unmanaged nodes or evaluates to the new value at its position, and there the value returned by the
    comparison equals the new value as well -/
theorem managed_siblings_fixed (F : Flags) (hF : F.fix = true) (es : List Expr) (ns : List Val)
    (hes : ∀ e ∈ es, isUnm e = true ∨ (Managed e ∧ WfExpr e))
    (hns : ∀ n ∈ ns, ValOk n ∧ WfVal n) :
    let r := assignSeq F (script (eval.evalL es) ns) es ns
    r.2.2.length = ns.length ∧ r.2.1.length = ns.length ∧
    ∀ j (h1 : j < r.2.2.length) (h2 : j < r.2.1.length) (h3 : j < ns.length),
      (isUnm r.2.2[j] = true ∧ r.2.2[j] ∈ es) ∨
      (pyEq (eval r.2.2[j]) ns[j] = true ∧ pyEq r.2.1[j] ns[j] = true) := by
  have hs : es.any isStar = false := by
    simp only [List.any_eq_false]
    intro e he
    rcases hes e he with h | h
    · cases e <;> simp_all [isUnm, isStar]
    · simp [isStar_of_ge (ge_of h.1 h.2)]
  exact (seq_siblings hF (walk_script hs ns)
    (fun e he => (hes e he).imp id (fun h => ge_of h.1 h.2))
    (fun n h => gv_of (hns n h).1 (hns n h).2)).spec

/-- the same at the level of the display -/
theorem managed_siblings_fixed_display (F : Flags) (hF : F.fix = true) (tup : Bool) (es : List Expr)
    (n : Val) (hty : (eval (.seq tup es)).ty = n.ty)
    (hes : ∀ e ∈ es, isUnm e = true ∨ (Managed e ∧ WfExpr e)) (hn : ValOk n) (hwn : WfVal n) :
    ∃ L, run F (.seq tup es) n = .seq tup L ∧ L.length = (listOf n).length ∧
      ∀ j (h1 : j < L.length) (h3 : j < (listOf n).length),
        (isUnm L[j] = true ∧ L[j] ∈ es) ∨ pyEq (eval L[j]) (listOf n)[j] = true := by
  have hs : es.any isStar = false := by
    simp only [List.any_eq_false]
    intro e he
    rcases hes e he with h | h
    · cases e <;> simp_all [isUnm, isStar]
    · simp [isStar_of_ge (ge_of h.1 h.2)]
  have hg := gv_listOf (gv_of hn hwn)
  have hns : ∀ x ∈ listOf n, ValOk x ∧ WfVal x := by
    intro x hx
    have := hg x hx
    rw [gv_eq, Bool.and_eq_true] at this
    exact this
  obtain ⟨l1, l2, h⟩ := managed_siblings_fixed F hF es (listOf n) hes hns
  refine ⟨_, by rw [run, assign_seq_of hty hs], l1, fun j h1 h3 => ?_⟩
  exact (h j h1 (by omega) h3).imp id (fun h => h.1)

/-! ### non-vacuity -/

section examples
open Ex

/-- `[Is(x), 1, *xs, f"…"]` has two unmanaged nodes and a star-expression -/
example : (unmLeaves e2).length = 2 := by decide
example : (match e2 with | .seq _ es => es.any isStar | _ => false) = true := by decide
/-- frozen: same type, any flags -/
example : assign Flags.all e2 (.list [.atom (.int 5)]) =
    ⟨Flags.empty, eval e2, e2⟩ := star_freezes _ _ _ _ (by decide) (by decide)
/-- `[Is(x), 1]` against `[3, 2]`: the `Is(x)` stays, the managed sibling is fixed -/
example : run fixOnly e3 (.list [.atom (.int 3), .atom (.int 2)])
    = .seq false [.unm 7 (.unmIs 0 (.atom (.int 3))), .leaf 0 true (.atom (.int 2))] := by
  rw [run, e3, assign_seq_of (by decide) (by decide)]
  simp only [listOf]
  have : script (eval.evalL [Expr.unm 7 (.unmIs 0 (.atom (.int 3))), .leaf 1 true (.atom (.int 1))])
      [Val.atom (.int 3), .atom (.int 2)] = [.m, .x] := by decide
  rw [this, assignSeq_m, assignSeq_x, assignSeq_nil, assign_unm, assign_leaf (by decide)]
  simp [leafOut, fixOnly, Atom.pyEq, Atom.num?]
/-- `ValOk n` is needed in `unmanaged_untouched`: an observed value that is itself an `Unmanaged`
    wrapper would be written as an unmanaged node -/
example : unmLeaves (run fixOnly (.leaf 0 false (.atom (.int 1))) (.unmIs 0 (.atom (.int 2))))
    = [.unm 0 (.unmIs 0 (.atom (.int 2)))] := by
  rw [run, assign_leaf (by decide)]
  simp [leafOut, fixOnly, pyEq, canon]

end examples

end ISnap.Assign
